CONSTANTS
  MaxClassSteps = 6
  MaxCasmSteps = 4
  BUG = "none"
INIT Init
NEXT Next
INVARIANT ContentPreserved
INVARIANT SameCompiledClass
INVARIANT HashStable
INVARIANT Emit
CHECK_DEADLOCK FALSE

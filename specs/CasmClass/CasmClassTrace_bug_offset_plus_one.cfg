CONSTANTS
  BUG = "offset_plus_one"
INIT Init
NEXT Next
POSTCONDITION PostCondition
CHECK_DEADLOCK FALSE

---------------------------- MODULE ClassRoutes ----------------------------
(***************************************************************************)
(* The routes by which a contract class reaches the CASM compiler and the  *)
(* compiled class reaches its consumers (C19): directly from the compiler's*)
(* ContractClass object, through its JSON (once, twice, ...), through the  *)
(* felt-serialised Sierra (extract the program and publish it again, with  *)
(* or without debug names), without the debug info (as on chain), and the  *)
(* compiled class through its own JSON.  Along every route the published   *)
(* content (felts, entry points) is unchanged, so the compiled class - and *)
(* with it the class hashes - is the same.                                 *)
(***************************************************************************)
EXTENDS Naturals, Sequences, TLC

CONSTANTS MaxClassSteps, MaxCasmSteps, BUG

VARIABLES rep,      \* "obj" | "json" | "casm" | "casmJson"
          content,  \* what the class publishes: [felts, eps]  (abstract tokens)
          dbg,      \* debug info carried by the class object: "full" | "none"
          casm,     \* digest of the compiled class ("-" before Compile)
          hash,     \* digest of the compiled class hash
          hist, ncls, ncasm, dbg0,
          cur       \* the class was serialised by the current compiler / Sierra version

vars == <<rep, content, dbg, casm, hash, hist, ncls, ncasm, dbg0, cur>>

Content0 == [felts |-> "F", eps |-> "E"]
CasmOf(c, d) == IF BUG = "compile_reads_debug_info" /\ d = "none" THEN <<c, "nodebug">> ELSE <<c, "-">>
HashOf(cs) == <<"H", cs>>

Init == /\ rep = "obj" /\ content = Content0 /\ dbg \in {"full", "none"}
        /\ casm = "-" /\ hash = "-" /\ hist = <<>> /\ ncls = 0 /\ ncasm = 0 /\ dbg0 = dbg /\ cur \in BOOLEAN

ClassStep(name) == /\ ncls < MaxClassSteps /\ ncls' = ncls + 1 /\ hist' = Append(hist, name)
                   /\ UNCHANGED <<casm, hash, ncasm, dbg0, cur>>
CasmStep(name)  == /\ ncasm < MaxCasmSteps /\ ncasm' = ncasm + 1 /\ hist' = Append(hist, name)
                   /\ UNCHANGED <<content, dbg, ncls, dbg0, cur>>

ClsToJson == rep = "obj" /\ ClassStep("ToJson") /\ rep' = "json" /\ UNCHANGED <<content, dbg>>
ClsFromJson == /\ rep = "json" /\ ClassStep("FromJson") /\ rep' = "obj" /\ UNCHANGED dbg
            /\ content' = IF BUG = "json_reorders_entry_points" THEN [content EXCEPT !.eps = "E'"] ELSE content
\* extract the Sierra program from the felts and publish it again (publishing stamps the current versions
\* into the felts, so only a class of the current version is reproduced literally)
Republish    == rep = "obj" /\ cur /\ ClassStep("Republish") /\ rep' = "obj" /\ dbg' = "none" /\ UNCHANGED content
RepublishDbg == rep = "obj" /\ cur /\ ClassStep("RepublishDbg") /\ rep' = "obj" /\ UNCHANGED <<dbg, content>>
DropDebug    == rep = "obj" /\ dbg = "full" /\ ClassStep("DropDebug") /\ rep' = "obj" /\ dbg' = "none" /\ UNCHANGED content

Compile == /\ rep = "obj" /\ rep' = "casm" /\ hist' = Append(hist, "Compile")
           /\ casm' = CasmOf(content, dbg) /\ hash' = HashOf(casm')
           /\ UNCHANGED <<content, dbg, ncls, ncasm, dbg0, cur>>
CasmToJson   == rep = "casm" /\ CasmStep("CasmToJson") /\ rep' = "casmJson" /\ UNCHANGED <<casm, hash>>
CasmFromJson == /\ rep = "casmJson" /\ CasmStep("CasmFromJson") /\ rep' = "casm" /\ UNCHANGED casm
                /\ hash' = IF BUG = "hash_unstable_under_json" THEN <<"H'", casm>> ELSE hash

Next == ClsToJson \/ ClsFromJson \/ Republish \/ RepublishDbg \/ DropDebug \/ Compile \/ CasmToJson \/ CasmFromJson

ContentPreserved == content = Content0
SameCompiledClass == rep \in {"casm", "casmJson"} => casm = <<Content0, "-">>
HashStable == rep \in {"casm", "casmJson"} => hash = HashOf(<<Content0, "-">>)
=============================================================================

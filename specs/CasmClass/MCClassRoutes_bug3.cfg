CONSTANTS
  MaxClassSteps = 2
  MaxCasmSteps = 2
  BUG = "hash_unstable_under_json"
INIT Init
NEXT Next
INVARIANT ContentPreserved
INVARIANT SameCompiledClass
INVARIANT HashStable
INVARIANT Emit
CHECK_DEADLOCK FALSE

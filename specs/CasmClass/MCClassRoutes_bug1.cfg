CONSTANTS
  MaxClassSteps = 4
  MaxCasmSteps = 2
  BUG = "json_reorders_entry_points"
INIT Init
NEXT Next
INVARIANT ContentPreserved
INVARIANT SameCompiledClass
INVARIANT HashStable
INVARIANT Emit
CHECK_DEADLOCK FALSE

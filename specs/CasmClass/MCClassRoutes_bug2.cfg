CONSTANTS
  MaxClassSteps = 4
  MaxCasmSteps = 2
  BUG = "compile_reads_debug_info"
INIT Init
NEXT Next
INVARIANT ContentPreserved
INVARIANT SameCompiledClass
INVARIANT HashStable
INVARIANT Emit
CHECK_DEADLOCK FALSE

---------------------------- MODULE CasmClassTrace ----------------------------
(***************************************************************************)
(* One-state-per-class trace (binding V of C19): every record of           *)
(* IOEnv.TRACE is the abstract view of one compiled class under one        *)
(* configuration; one step judges one class against every predicate of     *)
(* CasmClass and prints the names of the predicates that do not hold.      *)
(***************************************************************************)
EXTENDS CasmClass, Json, IOUtils, TLCExt

Rec == ndJsonDeserialize(IOEnv.TRACE)
Tamper == IF "TAMPER" \in DOMAIN IOEnv THEN IOEnv.TAMPER ELSE "none"

VARIABLE i
vars == <<i>>

\* optional corruption of one recorded field (driver self-test)
View(k) ==
    LET c == Rec[k] IN
    IF Tamper = "bump_first_external_offset" /\ Len(c.eps.EXTERNAL) > 0
    THEN [c EXCEPT !.eps.EXTERNAL[1].off = @ + 1]
    ELSE IF Tamper = "drop_last_segment" /\ c.has_seg /\ ~IsLeaf(c.seg) /\ Len(c.seg.n) > 1
    THEN [c EXCEPT !.seg.n = SubSeq(@, 1, Len(@) - 1)]
    ELSE c

SetToSeq(S) == LET RECURSIVE Sq(_) Sq(T) == IF T = {} THEN <<>> ELSE LET x == CHOOSE x \in T : TRUE IN <<x>> \o Sq(T \ {x}) IN Sq(S)

Init == i = 1
Judge ==
    /\ i <= Len(Rec)
    /\ LET c == View(i) IN
       PrintT(<<"VERDICT", ToJson([id |-> c.id, cfg |-> c.cfg, n |-> i,
                                   failed |-> SetToSeq(Failed(Stated, c)),
                                   stricter |-> SetToSeq(Failed(Stricter, c))])>>)
    /\ i' = i + 1
Next == Judge
PostCondition == TLCGet("stats").diameter - 1 = Len(Rec)
=============================================================================

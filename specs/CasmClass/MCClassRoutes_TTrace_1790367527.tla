---- MODULE MCClassRoutes_TTrace_1790367527 ----
EXTENDS Sequences, TLCExt, Toolbox, Naturals, TLC, MCClassRoutes

_expression ==
    LET MCClassRoutes_TEExpression == INSTANCE MCClassRoutes_TEExpression
    IN MCClassRoutes_TEExpression!expression
----

_trace ==
    LET MCClassRoutes_TETrace == INSTANCE MCClassRoutes_TETrace
    IN MCClassRoutes_TETrace!trace
----

_inv ==
    ~(
        TLCGet("level") = Len(_TETrace)
        /\
        hist = (<<"Compile", "CasmToJson", "CasmFromJson">>)
        /\
        casm = (<<[felts |-> "F", eps |-> "E"], "-">>)
        /\
        dbg = ("full")
        /\
        dbg0 = ("full")
        /\
        ncasm = (2)
        /\
        rep = ("casm")
        /\
        content = ([felts |-> "F", eps |-> "E"])
        /\
        hash = (<<"H'", <<[felts |-> "F", eps |-> "E"], "-">>>>)
        /\
        ncls = (0)
    )
----

_init ==
    /\ dbg = _TETrace[1].dbg
    /\ content = _TETrace[1].content
    /\ hash = _TETrace[1].hash
    /\ rep = _TETrace[1].rep
    /\ casm = _TETrace[1].casm
    /\ hist = _TETrace[1].hist
    /\ ncasm = _TETrace[1].ncasm
    /\ ncls = _TETrace[1].ncls
    /\ dbg0 = _TETrace[1].dbg0
----

_next ==
    /\ \E i,j \in DOMAIN _TETrace:
        /\ \/ /\ j = i + 1
              /\ i = TLCGet("level")
        /\ dbg  = _TETrace[i].dbg
        /\ dbg' = _TETrace[j].dbg
        /\ content  = _TETrace[i].content
        /\ content' = _TETrace[j].content
        /\ hash  = _TETrace[i].hash
        /\ hash' = _TETrace[j].hash
        /\ rep  = _TETrace[i].rep
        /\ rep' = _TETrace[j].rep
        /\ casm  = _TETrace[i].casm
        /\ casm' = _TETrace[j].casm
        /\ hist  = _TETrace[i].hist
        /\ hist' = _TETrace[j].hist
        /\ ncasm  = _TETrace[i].ncasm
        /\ ncasm' = _TETrace[j].ncasm
        /\ ncls  = _TETrace[i].ncls
        /\ ncls' = _TETrace[j].ncls
        /\ dbg0  = _TETrace[i].dbg0
        /\ dbg0' = _TETrace[j].dbg0

\* Uncomment the ASSUME below to write the states of the error trace
\* to the given file in Json format. Note that you can pass any tuple
\* to `JsonSerialize`. For example, a sub-sequence of _TETrace.
    \* ASSUME
    \*     LET J == INSTANCE Json
    \*         IN J!JsonSerialize("MCClassRoutes_TTrace_1790367527.json", _TETrace)

=============================================================================

 Note that you can extract this module `MCClassRoutes_TEExpression`
  to a dedicated file to reuse `expression` (the module in the 
  dedicated `MCClassRoutes_TEExpression.tla` file takes precedence 
  over the module `MCClassRoutes_TEExpression` below).

---- MODULE MCClassRoutes_TEExpression ----
EXTENDS Sequences, TLCExt, Toolbox, Naturals, TLC, MCClassRoutes

expression == 
    [
        \* To hide variables of the `MCClassRoutes` spec from the error trace,
        \* remove the variables below.  The trace will be written in the order
        \* of the fields of this record.
        dbg |-> dbg
        ,content |-> content
        ,hash |-> hash
        ,rep |-> rep
        ,casm |-> casm
        ,hist |-> hist
        ,ncasm |-> ncasm
        ,ncls |-> ncls
        ,dbg0 |-> dbg0
        
        \* Put additional constant-, state-, and action-level expressions here:
        \* ,_stateNumber |-> _TEPosition
        \* ,_dbgUnchanged |-> dbg = dbg'
        
        \* Format the `dbg` variable as Json value.
        \* ,_dbgJson |->
        \*     LET J == INSTANCE Json
        \*     IN J!ToJson(dbg)
        
        \* Lastly, you may build expressions over arbitrary sets of states by
        \* leveraging the _TETrace operator.  For example, this is how to
        \* count the number of times a spec variable changed up to the current
        \* state in the trace.
        \* ,_dbgModCount |->
        \*     LET F[s \in DOMAIN _TETrace] ==
        \*         IF s = 1 THEN 0
        \*         ELSE IF _TETrace[s].dbg # _TETrace[s-1].dbg
        \*             THEN 1 + F[s-1] ELSE F[s-1]
        \*     IN F[_TEPosition - 1]
    ]

=============================================================================



Parsing and semantic processing can take forever if the trace below is long.
 In this case, it is advised to uncomment the module below to deserialize the
 trace from a generated binary file.

\*
\*---- MODULE MCClassRoutes_TETrace ----
\*EXTENDS IOUtils, TLC, MCClassRoutes
\*
\*trace == IODeserialize("MCClassRoutes_TTrace_1790367527.bin", TRUE)
\*
\*=============================================================================
\*

---- MODULE MCClassRoutes_TETrace ----
EXTENDS TLC, MCClassRoutes

trace == 
    <<
    ([hist |-> <<>>,casm |-> "-",dbg |-> "full",dbg0 |-> "full",ncasm |-> 0,rep |-> "obj",content |-> [felts |-> "F", eps |-> "E"],hash |-> "-",ncls |-> 0]),
    ([hist |-> <<"Compile">>,casm |-> <<[felts |-> "F", eps |-> "E"], "-">>,dbg |-> "full",dbg0 |-> "full",ncasm |-> 0,rep |-> "casm",content |-> [felts |-> "F", eps |-> "E"],hash |-> <<"H", <<[felts |-> "F", eps |-> "E"], "-">>>>,ncls |-> 0]),
    ([hist |-> <<"Compile", "CasmToJson">>,casm |-> <<[felts |-> "F", eps |-> "E"], "-">>,dbg |-> "full",dbg0 |-> "full",ncasm |-> 1,rep |-> "casmJson",content |-> [felts |-> "F", eps |-> "E"],hash |-> <<"H", <<[felts |-> "F", eps |-> "E"], "-">>>>,ncls |-> 0]),
    ([hist |-> <<"Compile", "CasmToJson", "CasmFromJson">>,casm |-> <<[felts |-> "F", eps |-> "E"], "-">>,dbg |-> "full",dbg0 |-> "full",ncasm |-> 2,rep |-> "casm",content |-> [felts |-> "F", eps |-> "E"],hash |-> <<"H'", <<[felts |-> "F", eps |-> "E"], "-">>>>,ncls |-> 0])
    >>
----


=============================================================================

---- CONFIG MCClassRoutes_TTrace_1790367527 ----
CONSTANTS
    MaxClassSteps = 2
    MaxCasmSteps = 2
    BUG = "hash_unstable_under_json"

INVARIANT
    _inv

CHECK_DEADLOCK
    \* CHECK_DEADLOCK off because of PROPERTY or INVARIANT above.
    FALSE

INIT
    _init

NEXT
    _next

CONSTANT
    _TETrace <- _trace

ALIAS
    _expression
=============================================================================
\* Generated on Fri Sep 25 20:18:48 UTC 2026
---------------------------- MODULE MCClassRoutes ----------------------------
EXTENDS ClassRoutes, Json
\* a route is complete when a compiled class object is at hand
Emit == rep = "casm" => PrintT(<<"REPLAY", ToJson([k |-> "path", dbg0 |-> dbg0, cur |-> cur, steps |-> hist])>>)
=============================================================================

---------------------------- MODULE CasmClass ----------------------------
(***************************************************************************)
(* Structural invariants of a compiled Starknet class (C19) as predicates  *)
(* over an abstract view `c` of one class, exported by the harness from    *)
(* the real ContractClass / Sierra program / CasmContractClass / compile   *)
(* debug info:                                                             *)
(*   c.eps[t]      entry points of type t, in class order:                  *)
(*                   [sel (16 limbs, most significant first), off,          *)
(*                    builtins (names), fidx (Sierra function index)]       *)
(*   c.funcs[i+1]  Sierra function i: [entry (statement), start (bytecode   *)
(*                   offset of that statement), params (generic type ids of *)
(*                   the parameters), cost (declared const cost or -1)]     *)
(*   c.len         bytecode length;  c.code_end  end of the last statement  *)
(*   c.seg         bytecode_segment_lengths as a tree: [l |-> n] or          *)
(*                 [n |-> <<trees>>] (c.has_seg: the field is present)      *)
(*   c.hints       hint offsets (in class order), c.pyhints: ditto for the  *)
(*                 pythonic hints (c.has_py: present)                       *)
(*   c.starts      offsets at which an instruction starts, found by         *)
(*                 decoding the bytecode words themselves (immediate bit)   *)
(*   c.ret_at      offsets >= code_end holding the encoding of `ret`        *)
(*   c.words       the distinct bytecode words, 16 limbs each (msf)         *)
(*   c.prime       the limbs of the declared prime                          *)
(* plus the route graph: the ways a published class reaches the CASM        *)
(* compiler, every path of which must end in the same compiled class.      *)
(***************************************************************************)
EXTENDS Integers, Sequences, FiniteSets, TLC

CONSTANT BUG      \* "none" or a deliberately wrong variant of this spec

(* ---- protocol constants --------------------------------------------------*)
\* The order in which the Starknet OS passes builtins to an entry point.
BuiltinOrder ==
    IF BUG = "order_swapped"
    THEN <<"Pedersen", "RangeCheck", "EcOp", "Bitwise", "Poseidon", "SegmentArena", "RangeCheck96", "AddMod", "MulMod">>
    ELSE <<"Pedersen", "RangeCheck", "Bitwise", "EcOp", "Poseidon", "SegmentArena", "RangeCheck96", "AddMod", "MulMod">>

SnakeName(g) ==
    CASE g = "Pedersen" -> "pedersen" [] g = "RangeCheck" -> "range_check" [] g = "Bitwise" -> "bitwise"
      [] g = "EcOp" -> "ec_op" [] g = "Poseidon" -> "poseidon" [] g = "SegmentArena" -> "segment_arena"
      [] g = "RangeCheck96" -> "range_check96" [] g = "AddMod" -> "add_mod" [] g = "MulMod" -> "mul_mod"
      [] OTHER -> "?"

EntryPointCost == 10000
EpTypes == <<"EXTERNAL", "L1_HANDLER", "CONSTRUCTOR">>

\* P = 2^251 + 17 * 2^192 + 1, base 2^16, most significant limb first
PrimeLimbs == <<2048, 0, 0, 17, 0, 0, 0, 0, 0, 0, 0, 0, 0, 0, 0, 1>>
\* starknet_keccak("constructor")
ConstructorSelector == <<655, 65103, 61682, 9897, 4210, 21473, 31376, 16537, 43599, 25504, 10838, 8670, 1398, 58794, 29116, 20884>>

(* ---- helpers -------------------------------------------------------------*)
RECURSIVE LexLess(_, _, _)
LexLess(a, b, k) == IF k > Len(a) THEN FALSE
                    ELSE IF a[k] < b[k] THEN TRUE
                    ELSE IF a[k] > b[k] THEN FALSE
                    ELSE LexLess(a, b, k + 1)
Less(a, b) == LexLess(a, b, 1)

IndexIn(seq, x) == IF \E k \in 1..Len(seq) : seq[k] = x THEN CHOOSE k \in 1..Len(seq) : seq[k] = x ELSE 0

RECURSIVE StrictlyIncreasingFrom(_, _)
StrictlyIncreasingFrom(s, k) == IF k >= Len(s) THEN TRUE ELSE s[k] < s[k + 1] /\ StrictlyIncreasingFrom(s, k + 1)

\* the builtin parameters of a function: everything before [GasBuiltin, System, <calldata>]
BuiltinParams(f) == IF Len(f.params) < 3 THEN <<>> ELSE SubSeq(f.params, 1, Len(f.params) - 3)
WellFormedSig(f) == /\ Len(f.params) >= 3
                    /\ f.params[Len(f.params) - 2] = "GasBuiltin"
                    /\ f.params[Len(f.params) - 1] = "System"

\* a segment tree is [l |-> n] (a leaf of n words) or [n |-> <<trees>>]
IsLeaf(t) == "l" \in DOMAIN t
RECURSIVE Leaves(_)
RECURSIVE LeavesOfSeq(_, _)
Leaves(t) == IF IsLeaf(t) THEN <<t.l>> ELSE LeavesOfSeq(t.n, 1)
LeavesOfSeq(ts, k) == IF k > Len(ts) THEN <<>> ELSE Leaves(ts[k]) \o LeavesOfSeq(ts, k + 1)
RECURSIVE SumFrom(_, _)
SumFrom(s, k) == IF k > Len(s) THEN 0 ELSE s[k] + SumFrom(s, k + 1)
LeafSum(t) == SumFrom(Leaves(t), 1)
RECURSIVE Boundaries(_, _, _)
Boundaries(ls, k, acc) == IF k > Len(ls) THEN {} ELSE {acc + ls[k]} \cup Boundaries(ls, k + 1, acc + ls[k])

AllEps(c) == c.eps.EXTERNAL \o c.eps.L1_HANDLER \o c.eps.CONSTRUCTOR
Func(c, ep) == c.funcs[ep.fidx + 1]
Starts(c) == {c.starts[k] : k \in 1..Len(c.starts)}

(* ---- the invariants of the property statement ---------------------------*)
\* each entry point's offset is the first instruction of the function it names
EntryOffsets(c) ==
    \A k \in 1..Len(AllEps(c)) :
        LET ep == AllEps(c)[k] IN
        /\ ep.fidx + 1 \in 1..Len(c.funcs)
        /\ ep.off = Func(c, ep).start + (IF BUG = "offset_plus_one" THEN 1 ELSE 0)
        /\ ep.off \in Starts(c)

\* its builtin list is exactly the function's builtin parameters, in protocol order
EntryBuiltins(c) ==
    \A k \in 1..Len(AllEps(c)) :
        LET ep == AllEps(c)[k]
            f == Func(c, ep)
            bp == BuiltinParams(f)
            pos == [j \in 1..Len(bp) |-> IndexIn(BuiltinOrder, bp[j])] IN
        /\ WellFormedSig(f)
        /\ Len(ep.builtins) = Len(bp)
        /\ \A j \in 1..Len(bp) : ep.builtins[j] = SnakeName(bp[j]) /\ pos[j] > 0
        /\ StrictlyIncreasingFrom(pos, 1)

\* entry points are sorted by selector (strictly: no duplicates), per type
SelectorsSorted(c) ==
    \A t \in {"EXTERNAL", "L1_HANDLER", "CONSTRUCTOR"} :
        LET l == c.eps[t] IN \A k \in 1..(Len(l) - 1) : Less(l[k].sel, l[k + 1].sel)

ConstructorOK(c) ==
    /\ Len(c.eps.CONSTRUCTOR) <= 1
    /\ \A k \in 1..Len(c.eps.CONSTRUCTOR) : c.eps.CONSTRUCTOR[k].sel = ConstructorSelector

\* every bytecode word is a canonical field element
CanonicalWords(c) == /\ c.prime = PrimeLimbs
                     /\ \A k \in 1..Len(c.words) : Less(c.words[k], PrimeLimbs)

\* hint offsets point at instructions (and are listed once, in increasing order)
HintsAtInstructions(c) ==
    /\ \A k \in 1..Len(c.hints) : c.hints[k] \in Starts(c)
    /\ StrictlyIncreasingFrom(c.hints, 1)
    /\ (c.has_py => c.pyhints = c.hints)

\* bytecode segment lengths add up to the bytecode length
SegmentsSum(c) == c.has_seg => (LeafSum(c.seg) = c.len /\ \A k \in 1..Len(Leaves(c.seg)) : Leaves(c.seg)[k] >= 0)

\* ... and the segments are loadable: execution enters a function at its first instruction and a constants
\* segment at its leading `ret`, so each of those must begin a segment (a segment is loaded by the OS only
\* when its first word is visited)
SegBoundaries(c) == Boundaries(Leaves(c.seg), 1, 0) \cup {0}
FunctionsStartSegments(c) ==
    c.has_seg /\ c.len > 0 =>
        \A k \in 1..Len(c.funcs) : c.funcs[k].start < c.code_end => c.funcs[k].start \in SegBoundaries(c)
ConstSegmentsStartAtRet(c) ==
    c.has_seg /\ c.len > 0 =>
        /\ \A b \in SegBoundaries(c) : (b >= c.code_end /\ b < c.len) => b \in {c.ret_at[k] : k \in 1..Len(c.ret_at)}
        /\ (c.code_end < c.len => c.code_end \in SegBoundaries(c))

(* ---- stricter than the statement (design section 3.11; diagnostics) ------*)
\* segment boundaries inside the code are exactly the function starts
SegmentsAtFunctions(c) ==
    c.has_seg /\ c.len > 0 =>
        LET inner == {b \in Boundaries(Leaves(c.seg), 1, 0) : b < c.code_end}
            fstarts == {c.funcs[k].start : k \in 1..Len(c.funcs)} \ {0} IN
        inner = fstarts
EntryCosts(c) == \A k \in 1..Len(AllEps(c)) : Func(c, AllEps(c)[k]).cost = EntryPointCost
FunctionStartsAreInstructions(c) == c.walk_ok /\ \A k \in 1..Len(c.funcs) : c.funcs[k].start \in Starts(c) \/ c.funcs[k].start = c.code_end

Stated == <<"EntryOffsets", "EntryBuiltins", "SelectorsSorted", "ConstructorOK", "CanonicalWords",
            "HintsAtInstructions", "SegmentsSum", "FunctionsStartSegments", "ConstSegmentsStartAtRet">>
Stricter == <<"SegmentsAtFunctions", "EntryCosts", "FunctionStartsAreInstructions", "SizeLimitExact">>

Holds(name, c) ==
    CASE name = "EntryOffsets" -> EntryOffsets(c)
      [] name = "EntryBuiltins" -> EntryBuiltins(c)
      [] name = "SelectorsSorted" -> SelectorsSorted(c)
      [] name = "ConstructorOK" -> ConstructorOK(c)
      [] name = "CanonicalWords" -> CanonicalWords(c)
      [] name = "HintsAtInstructions" -> HintsAtInstructions(c)
      [] name = "SegmentsSum" -> SegmentsSum(c)
      [] name = "FunctionsStartSegments" -> FunctionsStartSegments(c)
      [] name = "ConstSegmentsStartAtRet" -> ConstSegmentsStartAtRet(c)
      [] name = "SegmentsAtFunctions" -> SegmentsAtFunctions(c)
      [] name = "EntryCosts" -> EntryCosts(c)
      [] name = "FunctionStartsAreInstructions" -> FunctionStartsAreInstructions(c)
      [] name = "SizeLimitExact" -> c.limit_exact

Failed(names, c) == {names[k] : k \in {j \in 1..Len(names) : ~Holds(names[j], c)}}
=============================================================================

CONSTANTS
  MaxClassSteps = 4
  MaxCasmSteps = 2
  BUG = "none"
INIT Init
NEXT Next
INVARIANT ContentPreserved
INVARIANT SameCompiledClass
INVARIANT HashStable
INVARIANT Emit
CHECK_DEADLOCK FALSE

---- MODULE MCSierraPipeline_TTrace_1790367913 ----
EXTENDS Sequences, TLCExt, MCSierraPipeline, Toolbox, Naturals, TLC

_expression ==
    LET MCSierraPipeline_TEExpression == INSTANCE MCSierraPipeline_TEExpression
    IN MCSierraPipeline_TEExpression!expression
----

_trace ==
    LET MCSierraPipeline_TETrace == INSTANCE MCSierraPipeline_TETrace
    IN MCSierraPipeline_TETrace!trace
----

_inv ==
    ~(
        TLCGet("level") = Len(_TETrace)
        /\
        done = (<<<<"registry", "ok">>, <<"compile", "err">>>>)
        /\
        status = ("running")
    )
----

_init ==
    /\ done = _TETrace[1].done
    /\ status = _TETrace[1].status
----

_next ==
    /\ \E i,j \in DOMAIN _TETrace:
        /\ \/ /\ j = i + 1
              /\ i = TLCGet("level")
        /\ done  = _TETrace[i].done
        /\ done' = _TETrace[j].done
        /\ status  = _TETrace[i].status
        /\ status' = _TETrace[j].status

\* Uncomment the ASSUME below to write the states of the error trace
\* to the given file in Json format. Note that you can pass any tuple
\* to `JsonSerialize`. For example, a sub-sequence of _TETrace.
    \* ASSUME
    \*     LET J == INSTANCE Json
    \*         IN J!JsonSerialize("MCSierraPipeline_TTrace_1790367913.json", _TETrace)

=============================================================================

 Note that you can extract this module `MCSierraPipeline_TEExpression`
  to a dedicated file to reuse `expression` (the module in the 
  dedicated `MCSierraPipeline_TEExpression.tla` file takes precedence 
  over the module `MCSierraPipeline_TEExpression` below).

---- MODULE MCSierraPipeline_TEExpression ----
EXTENDS Sequences, TLCExt, MCSierraPipeline, Toolbox, Naturals, TLC

expression == 
    [
        \* To hide variables of the `MCSierraPipeline` spec from the error trace,
        \* remove the variables below.  The trace will be written in the order
        \* of the fields of this record.
        done |-> done
        ,status |-> status
        
        \* Put additional constant-, state-, and action-level expressions here:
        \* ,_stateNumber |-> _TEPosition
        \* ,_doneUnchanged |-> done = done'
        
        \* Format the `done` variable as Json value.
        \* ,_doneJson |->
        \*     LET J == INSTANCE Json
        \*     IN J!ToJson(done)
        
        \* Lastly, you may build expressions over arbitrary sets of states by
        \* leveraging the _TETrace operator.  For example, this is how to
        \* count the number of times a spec variable changed up to the current
        \* state in the trace.
        \* ,_doneModCount |->
        \*     LET F[s \in DOMAIN _TETrace] ==
        \*         IF s = 1 THEN 0
        \*         ELSE IF _TETrace[s].done # _TETrace[s-1].done
        \*             THEN 1 + F[s-1] ELSE F[s-1]
        \*     IN F[_TEPosition - 1]
    ]

=============================================================================



Parsing and semantic processing can take forever if the trace below is long.
 In this case, it is advised to uncomment the module below to deserialize the
 trace from a generated binary file.

\*
\*---- MODULE MCSierraPipeline_TETrace ----
\*EXTENDS IOUtils, MCSierraPipeline, TLC
\*
\*trace == IODeserialize("MCSierraPipeline_TTrace_1790367913.bin", TRUE)
\*
\*=============================================================================
\*

---- MODULE MCSierraPipeline_TETrace ----
EXTENDS MCSierraPipeline, TLC

trace == 
    <<
    ([done |-> <<>>,status |-> "running"]),
    ([done |-> <<<<"registry", "ok">>>>,status |-> "running"]),
    ([done |-> <<<<"registry", "ok">>, <<"compile", "err">>>>,status |-> "running"])
    >>
----


=============================================================================

---- CONFIG MCSierraPipeline_TTrace_1790367913 ----
CONSTANTS
    BUG = "start_after_err"

INVARIANT
    _inv

CHECK_DEADLOCK
    \* CHECK_DEADLOCK off because of PROPERTY or INVARIANT above.
    FALSE

INIT
    _init

NEXT
    _next

CONSTANT
    _TETrace <- _trace

ALIAS
    _expression
=============================================================================
\* Generated on Fri Sep 25 20:25:14 UTC 2026
CONSTANT BUG = "none"
INIT Init
NEXT Next
INVARIANT Ordered
INVARIANT Total
CHECK_DEADLOCK FALSE

---------------------------- MODULE SierraPipelineTrace ----------------------------
(* Acceptor of the harness's stage logs (TRACE: ndjson of reset / stage / panic events). *)
EXTENDS SierraPipeline, Json, IOUtils
Rec == ndJsonDeserialize(IOEnv.TRACE)
VARIABLES l, cur, done, dead, bad, ninputs, nacc, nrej
vars == <<l, cur, done, dead, bad, ninputs, nacc, nrej>>
MaxBad == 400
Note(r) == IF Len(bad) >= MaxBad THEN bad ELSE Append(bad, r)
Ev == Rec[l]
Init == l = 1 /\ cur = "" /\ done = <<>> /\ dead = TRUE /\ bad = <<>> /\ ninputs = 0 /\ nacc = 0 /\ nrej = 0

\* the previous input must have ended Accepted or Rejected (Total)
CloseOK == dead \/ cur = "" \/ Finished(done)
Reset ==
  /\ Ev.e = "reset"
  /\ bad' = IF CloseOK THEN bad ELSE Note([id |-> cur, why |-> "unfinished", stage |-> "", at |-> "", msg |-> ""])
  /\ nacc' = nacc + (IF ~dead /\ Accepted(done) THEN 1 ELSE 0)
  /\ nrej' = nrej + (IF ~dead /\ Finished(done) /\ ~Accepted(done) THEN 1 ELSE 0)
  /\ cur' = Ev.id /\ done' = <<>> /\ dead' = FALSE /\ ninputs' = ninputs + 1 /\ l' = l + 1
Stage ==
  /\ Ev.e = "stage" /\ ~dead
  /\ IF MayStart(done, Ev.name)
     THEN done' = Append(done, <<Ev.name, Ev.out>>) /\ bad' = bad /\ dead' = FALSE
     ELSE done' = done /\ bad' = Note([id |-> cur, why |-> "order", stage |-> Ev.name, at |-> "", msg |-> ""]) /\ dead' = TRUE
  /\ l' = l + 1 /\ UNCHANGED <<cur, ninputs, nacc, nrej>>
\* a panic has no action in SierraPipeline: record and give the input up
Panic ==
  /\ Ev.e = "panic" /\ ~dead
  /\ bad' = Note([id |-> cur, why |-> "panic", stage |-> Ev.stage, at |-> Ev.at, msg |-> Ev.msg])
  /\ dead' = TRUE /\ l' = l + 1 /\ UNCHANGED <<cur, done, ninputs, nacc, nrej>>
Skip == dead /\ Ev.e # "reset" /\ l' = l + 1 /\ UNCHANGED <<cur, done, dead, bad, ninputs, nacc, nrej>>
Next == l <= Len(Rec) /\ (Reset \/ Stage \/ Panic \/ Skip)
Report == l <= Len(Rec) \/ PrintT(<<"BAD", ToJson([inputs |-> ninputs, events |-> Len(Rec), accepted |-> nacc, rejected |-> nrej, bad |-> bad])>>)
=============================================================================

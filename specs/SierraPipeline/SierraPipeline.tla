---------------------------- MODULE SierraPipeline ----------------------------
(***************************************************************************)
(* The stages an untrusted Sierra program / serialized contract class goes  *)
(* through (property C14), as a protocol:                                   *)
(*                                                                         *)
(*   program route : registry -> metadata_linear [-> metadata_lp] -> compile *)
(*   class route   : extract -> casm_class                                   *)
(*                                                                         *)
(* Every started stage ends with exactly one terminal outcome, Ok or Err;   *)
(* a stage is started only after the stages it depends on returned Ok;      *)
(* Err ends the input's processing (Rejected), the last stage's Ok ends it  *)
(* (Accepted).  There is NO action for a panic, an abort or a stage that    *)
(* never returns: a log containing one is not a behaviour of this spec.     *)
(*                                                                         *)
(* Design model (MCSierraPipeline): outcomes chosen nondeterministically;   *)
(* TLC checks Total (every input ends Accepted or Rejected) and Ordered.    *)
(* Trace model (SierraPipelineTrace): accepts the harness's stage logs.     *)
(***************************************************************************)
EXTENDS Integers, Sequences, FiniteSets, TLC

Stages == {"registry", "metadata_linear", "metadata_lp", "compile", "extract", "casm_class"}
\* what a stage needs to have returned Ok before it may start
Deps == [registry |-> {}, metadata_linear |-> {"registry"}, metadata_lp |-> {"registry"},
         compile |-> {"metadata_linear"}, extract |-> {}, casm_class |-> {"extract"}]
\* optional stages may be skipped (the LP solver is only run on small programs)
Optional == {"metadata_lp"}
RouteOf(stage) == IF stage \in {"extract", "casm_class"} THEN "class" ELSE "prog"

Names(done) == {done[i][1] : i \in 1..Len(done)}
OkNames(done) == {done[i][1] : i \in {i \in 1..Len(done) : done[i][2] = "ok"}}

\* may `stage` start when the stages in `done` (a sequence of <<name, out>>) have finished?
MayStart(done, stage) ==
  /\ stage \in Stages /\ stage \notin Names(done)
  /\ \A n \in Names(done) : RouteOf(n) = RouteOf(stage)
  /\ Deps[stage] \subseteq OkNames(done)

\* the input has been taken as far as it can go: nothing mandatory is left to run
Finished(done) ==
  /\ done # <<>>
  /\ \A s \in Stages : (RouteOf(s) = RouteOf(done[1][1]) /\ MayStart(done, s)) => s \in Optional
Accepted(done) == \E n \in {"compile", "casm_class"} : n \in OkNames(done)
=============================================================================

---------------------------- MODULE MCSierraPipeline ----------------------------
EXTENDS SierraPipeline
CONSTANT BUG   \* "none" | "start_after_err": a stage may start after its predecessor failed
VARIABLES done, status
Init == done = <<>> /\ status = "running"
Run(s, out) == /\ status = "running"
               /\ (MayStart(done, s) \/ (BUG = "start_after_err" /\ Len(done) > 0 /\ s \notin Names(done) /\ RouteOf(s) = RouteOf(done[1][1])))
               /\ done' = Append(done, <<s, out>>)
               /\ status' = IF Finished(done') /\ \A o \in Optional : o \in Names(done') \/ ~MayStart(done', o) THEN "finished" ELSE "running"
Next == \E s \in Stages, out \in {"ok", "err"} : Run(s, out)
\* a stage only ever runs after everything it depends on returned Ok
Ordered == \A i \in 1..Len(done) : Deps[done[i][1]] \subseteq {done[j][1] : j \in {j \in 1..(i - 1) : done[j][2] = "ok"}}
\* progress: a running input can always take a step; a finished one has nothing mandatory left
Total == (status = "running" => \E s \in Stages : MayStart(done, s)) /\ (status = "finished" => Finished(done))
=============================================================================

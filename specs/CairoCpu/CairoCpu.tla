------------------------------ MODULE CairoCpu ------------------------------
(***************************************************************************)
(* The Cairo CPU as seen by the CASM tool-chain (property C16).             *)
(*                                                                         *)
(* Two independent definitions of one machine step and the claim that      *)
(* they agree:                                                             *)
(*                                                                         *)
(*   Meaning(i, s)  - what the CASM instruction i *denotes* (assertion,    *)
(*                    jump, call, return, ap update), written over the     *)
(*                    CASM operand structure (cell references, operands);  *)
(*   Exec(Decode(Bits(Assemble(i))), s)                                    *)
(*                  - what the machine does with the encoded words:        *)
(*                    Assemble transcribes Instruction::assemble           *)
(*                    (assembler.rs), Bits the bit layout of encoder.rs,   *)
(*                    Decode/Exec the decoder and step of the Cairo VM     *)
(*                    (white-paper semantics incl. operand deduction).     *)
(*                                                                         *)
(* Refines == the two agree on every instruction shape and every state.    *)
(* SizeOK  == number of encoded words = op_size assumed by the layouter.   *)
(*                                                                         *)
(* Field elements are linear forms a*BIG + c over one opaque large         *)
(* constant BIG (2^64, 2^128, 2^250 at replay time): addition is           *)
(* component-wise, multiplication is defined when at most one factor has   *)
(* a # 0, anything else is "oom" (out of model) and never compared.        *)
(* Integers c < 0 stand for P + c.  Pointers are <<seg, off>>.             *)
(*                                                                         *)
(* Assumption WellFormedFrame (stated, not hidden): [fp-1] is known in     *)
(* every explored state.  The VM reads op0 = [fp-1] for instruction forms  *)
(* that do not use op0 and fails if that cell is unknown; in every real    *)
(* frame it holds the return pc.                                           *)
(***************************************************************************)
EXTENDS Integers, Sequences, FiniteSets, TLC

CONSTANTS OFFS,        \* offsets used for cell references
          IMMS,        \* immediates (felt values)
          CELLVALS,    \* values a generated memory cell may hold (besides unknown)
          LAYOUTS,     \* set of [pc, ap, fp] register layouts
          BLAKE_OFFS,  \* offsets used for the three cell references of blake2s instructions
          BUG          \* "none" or the name of a deliberately wrong variant (self-test)

\* cell values for blake2s instructions: a counter and pointers into three dedicated segments
\* (state, message, output arrays), so that the success path is reachable without overlaps
BLAKEVALS == {[t |-> "i", a |-> 0, c |-> 64, seg |-> 0, off |-> 0],
              [t |-> "p", a |-> 0, c |-> 0, seg |-> 2, off |-> 0],
              [t |-> "p", a |-> 0, c |-> 0, seg |-> 3, off |-> 0],
              [t |-> "p", a |-> 0, c |-> 0, seg |-> 4, off |-> 0]}

---------------------------------------------------------------------------
(* Values *)
F(a, c)   == [t |-> "i", a |-> a, c |-> c, seg |-> 0, off |-> 0]
I(c)      == F(0, c)
P(s, o)   == [t |-> "p", a |-> 0, c |-> 0, seg |-> s, off |-> o]
None      == [t |-> "none", a |-> 0, c |-> 0, seg |-> 0, off |-> 0]
Oom       == [t |-> "oom", a |-> 0, c |-> 0, seg |-> 0, off |-> 0]
Err       == [t |-> "err", a |-> 0, c |-> 0, seg |-> 0, off |-> 0]

IsInt(v)  == v.t = "i"
IsPtr(v)  == v.t = "p"
Known(v)  == v.t \in {"i", "p"}
Bad(v)    == v.t \in {"err", "oom"}
IsSmallNat(v) == v.t = "i" /\ v.a = 0 /\ v.c >= 0
IsZero(v) == v.t = "i" /\ v.a = 0 /\ v.c = 0

\* pointer + felt: the VM adds the felt to the u64 offset; small negative felts (P - k)
\* subtract, anything that leaves the u64 range (BIG-sized, below zero) fails.
PtrAddFelt(p, f) == IF f.a = 0 /\ p.off + f.c >= 0 THEN P(p.seg, p.off + f.c) ELSE Err

VAdd(x, y) ==
  CASE Bad(x) -> x [] Bad(y) -> y
    [] IsInt(x) /\ IsInt(y) -> F(x.a + y.a, x.c + y.c)
    [] IsPtr(x) /\ IsInt(y) -> PtrAddFelt(x, y)
    [] IsInt(x) /\ IsPtr(y) -> PtrAddFelt(y, x)
    [] OTHER -> Err

VMul(x, y) ==
  CASE Bad(x) -> x [] Bad(y) -> y
    [] IsInt(x) /\ IsInt(y) ->
         IF x.a # 0 /\ y.a # 0 THEN Oom
         ELSE F(x.a * y.c + y.a * x.c, x.c * y.c)
    [] OTHER -> Err

\* x - y as the VM's MaybeRelocatable::sub
VSub(x, y) ==
  CASE Bad(x) -> x [] Bad(y) -> y
    [] IsInt(x) /\ IsInt(y) -> F(x.a - y.a, x.c - y.c)
    [] IsPtr(x) /\ IsPtr(y) -> IF x.seg = y.seg THEN I(x.off - y.off) ELSE Err
    [] IsPtr(x) /\ IsInt(y) -> IF y.a = 0 /\ x.off - y.c >= 0 THEN P(x.seg, x.off - y.c) ELSE Err
    [] OTHER -> Err

\* field division x / y for y # 0: inside the model only when exact over the integers
Abs(n) == IF n < 0 THEN -n ELSE n
ExactDiv(n, d) == IF d > 0 THEN n \div d ELSE (-n) \div (-d)
VDiv(x, y) ==
  IF ~(IsInt(x) /\ IsInt(y)) \/ IsZero(y) THEN Err
  ELSE IF y.a # 0 THEN Oom
  ELSE IF (x.a % Abs(y.c) = 0) /\ (x.c % Abs(y.c) = 0) THEN F(ExactDiv(x.a, y.c), ExactDiv(x.c, y.c))
  ELSE Oom

\* Typed operations (typed_operations.rs): q = TRUE is the QM31 opcode extension.  On packed
\* QM31 values that are small naturals the QM31 operations coincide with integer arithmetic
\* (first coordinate below 2^31 - 1); pointers are rejected; everything else (negative = P - k,
\* BIG, a difference below zero, an inexact quotient) is outside the model.
QSmall(x, y) == IsSmallNat(x) /\ IsSmallNat(y)
QBad(x, y) == CASE Bad(x) -> x [] Bad(y) -> y [] IsPtr(x) \/ IsPtr(y) -> Err [] OTHER -> Oom
TAdd(q, x, y) == IF ~q THEN VAdd(x, y) ELSE IF QSmall(x, y) THEN I(x.c + y.c) ELSE QBad(x, y)
TMul(q, x, y) == IF ~q THEN VMul(x, y) ELSE IF QSmall(x, y) THEN I(x.c * y.c) ELSE QBad(x, y)
TSub(q, x, y) == IF ~q THEN VSub(x, y)
                 ELSE IF QSmall(x, y) THEN (IF x.c >= y.c THEN I(x.c - y.c) ELSE Oom) ELSE QBad(x, y)
TDiv(q, x, y) == IF ~q THEN VDiv(x, y)
                 ELSE IF QSmall(x, y) THEN (IF y.c = 0 THEN Err ELSE IF x.c % y.c = 0 THEN I(x.c \div y.c) ELSE Oom)
                 ELSE QBad(x, y)

---------------------------------------------------------------------------
(* Machine state: pc is an address <<seg, off>>, ap and fp are offsets in segment 1,
   mem is a function from a finite set of addresses to values (None = unknown;
   addresses outside the domain are unknown too). *)
Rd(s, addr) == IF addr \in DOMAIN s.mem THEN s.mem[addr] ELSE None
RegVal(s, r) == IF r = "ap" THEN s.ap ELSE s.fp
Cell(s, r, o) == <<1, RegVal(s, r) + o>>
PtrAddr(v) == <<v.seg, v.off>>

Fail == [ok |-> FALSE]
\* writes: set of <<addr, value>> pairs newly fixed by the step
Ok(pc, ap, fp, writes, blake) ==
   [ok |-> TRUE, pc |-> pc, ap |-> ap, fp |-> fp, writes |-> writes, blake |-> blake]
NoBlake == <<>>
OutOfModel == [ok |-> TRUE, oom |-> TRUE]

---------------------------------------------------------------------------
(* CASM instructions (instructions.rs / operand.rs) as uniform records *)
NoCell == [reg |-> "ap", off |-> 0]
CellRefs == [reg : {"ap", "fp"}, off : OFFS]
BlakeRefs == [reg : {"ap", "fp"}, off : BLAKE_OFFS]

\* ResOperand
OpDeref(c)          == [k |-> "deref", c |-> c, off2 |-> 0, op |-> "add", bk |-> "deref", bc |-> NoCell, imm |-> None]
OpDDeref(c, o2)     == [k |-> "dderef", c |-> c, off2 |-> o2, op |-> "add", bk |-> "deref", bc |-> NoCell, imm |-> None]
OpImm(v)            == [k |-> "imm", c |-> NoCell, off2 |-> 0, op |-> "add", bk |-> "imm", bc |-> NoCell, imm |-> v]
OpBinD(op, c, bc)   == [k |-> "binop", c |-> c, off2 |-> 0, op |-> op, bk |-> "deref", bc |-> bc, imm |-> None]
OpBinI(op, c, v)    == [k |-> "binop", c |-> c, off2 |-> 0, op |-> op, bk |-> "imm", bc |-> NoCell, imm |-> v]

ResOperands ==
       {OpDeref(c) : c \in CellRefs}
  \cup {OpDDeref(c, o) : c \in CellRefs, o \in OFFS}
  \cup {OpImm(v) : v \in IMMS}
  \cup {OpBinD(op, c, bc) : op \in {"add", "mul"}, c \in CellRefs, bc \in CellRefs}
  \cup {OpBinI(op, c, v) : op \in {"add", "mul"}, c \in CellRefs, v \in IMMS}
DerefOrImms == {OpDeref(c) : c \in CellRefs} \cup {OpImm(v) : v \in IMMS}

Ins(body, incap, a, b, rel, fin, st, msg) ==
  [body |-> body, incap |-> incap, a |-> a, b |-> b, rel |-> rel, fin |-> fin, st |-> st, msg |-> msg]
NoOp == OpDeref(NoCell)

Instrs ==
       {Ins("addap", FALSE, NoCell, b, FALSE, FALSE, NoCell, NoCell) : b \in ResOperands}
  \cup {Ins("asserteq", inc, a, b, FALSE, FALSE, NoCell, NoCell) : inc \in BOOLEAN, a \in CellRefs, b \in ResOperands}
  \cup {Ins("qm31", inc, a, b, FALSE, FALSE, NoCell, NoCell) : inc \in BOOLEAN, a \in CellRefs, b \in ResOperands}
  \cup {Ins("call", FALSE, NoCell, b, rel, FALSE, NoCell, NoCell) : b \in DerefOrImms, rel \in BOOLEAN}
  \cup {Ins("jump", inc, NoCell, b, rel, FALSE, NoCell, NoCell) : inc \in BOOLEAN, b \in DerefOrImms, rel \in BOOLEAN}
  \cup {Ins("jnz", inc, a, b, FALSE, FALSE, NoCell, NoCell) : inc \in BOOLEAN, a \in CellRefs, b \in DerefOrImms}
  \cup {Ins("ret", FALSE, NoCell, NoOp, FALSE, FALSE, NoCell, NoCell)}
  \cup {Ins("blake", TRUE, a, NoOp, FALSE, fin, st, msg) : a \in BlakeRefs, fin \in BOOLEAN, st \in BlakeRefs, msg \in BlakeRefs}

HasImm(b) == b.bk = "imm"
\* instructions.rs: op_size
OpSize(i) ==
  CASE i.body \in {"ret", "blake"} -> 1
    [] OTHER -> IF HasImm(i.b) THEN 2 ELSE 1

---------------------------------------------------------------------------
(* Meaning: the denotation of a CASM instruction, over CASM operands.       *)

IncAp(i, s) == IF i.incap THEN s.ap + 1 ELSE s.ap
NextPc(i, s) == <<s.pc[1], s.pc[2] + OpSize(i)>>

\* the pc after a jump by felt/pointer value v (relative or absolute)
JumpTarget(s, v, rel) ==
  IF rel THEN (IF IsInt(v) THEN PtrAddFelt(P(s.pc[1], s.pc[2]), v) ELSE Err)
  ELSE (IF IsPtr(v) THEN v ELSE Err)

\* value of a DerefOrImmediate (None if the cell is unknown)
DoiVal(s, b) == IF b.k = "imm" THEN b.imm ELSE Rd(s, Cell(s, b.c.reg, b.c.off))

\* "a = x" where x is a known value and a is a cell: check or define
AssertCellIs(s, addr, x) ==
  LET cur == Rd(s, addr) IN
  IF Bad(x) THEN [st |-> x.t, w |-> {}]
  ELSE IF Known(cur) THEN [st |-> IF cur = x THEN "ok" ELSE "err", w |-> {}]
  ELSE [st |-> "ok", w |-> {<<addr, x>>}]

\* a = b for an AssertEq / QM31AssertEq instruction: status + writes
AssertMeaning(i, s) ==
  LET b == i.b
      q == i.body = "qm31"
      dstA == Cell(s, i.a.reg, i.a.off)
      dst == Rd(s, dstA)
  IN
  CASE b.k = "imm" -> AssertCellIs(s, dstA, b.imm)
    [] b.k \in {"deref", "dderef"} ->
        LET outer == Rd(s, Cell(s, b.c.reg, b.c.off))
            srcA == IF b.k = "deref" THEN Cell(s, b.c.reg, b.c.off)
                    ELSE IF IsPtr(outer) /\ outer.off + b.off2 >= 0 THEN <<outer.seg, outer.off + b.off2>>
                    ELSE <<-1, -1>>
            src == Rd(s, srcA)
        IN IF srcA = <<-1, -1>> THEN [st |-> "err", w |-> {}]
           ELSE IF Known(src) THEN AssertCellIs(s, dstA, src)
           ELSE IF Known(dst) THEN [st |-> "ok", w |-> {<<srcA, dst>>}]   \* deduce the source
           ELSE [st |-> "err", w |-> {}]
    [] b.k = "binop" ->
        LET xA == Cell(s, b.c.reg, b.c.off)
            x == Rd(s, xA)
            yA == Cell(s, b.bc.reg, b.bc.off)
            y == IF b.bk = "imm" THEN b.imm ELSE Rd(s, yA)
        IN
        IF Known(x) /\ Known(y) THEN
             AssertCellIs(s, dstA, IF b.op = "add" THEN TAdd(q, x, y) ELSE TMul(q, x, y))
        ELSE IF ~Known(dst) THEN [st |-> "err", w |-> {}]
        ELSE IF Known(y) /\ ~Known(x) THEN
             \* deduce x := dst - y  /  dst / y
             LET d == IF b.op = "add" THEN TSub(q, dst, y)
                      ELSE IF IsInt(dst) /\ IsInt(y) /\ ~IsZero(y) THEN TDiv(q, dst, y) ELSE Err
             IN IF Bad(d) THEN [st |-> d.t, w |-> {}] ELSE [st |-> "ok", w |-> {<<xA, d>>}]
        ELSE IF Known(x) /\ ~Known(y) THEN
             LET d == IF b.op = "add" THEN TSub(q, dst, x)
                      ELSE IF IsInt(dst) /\ IsInt(x) /\ ~IsZero(x) THEN TDiv(q, dst, x) ELSE Err
             IN IF Bad(d) THEN [st |-> d.t, w |-> {}] ELSE [st |-> "ok", w |-> {<<yA, d>>}]
        ELSE [st |-> "err", w |-> {}]

\* the value of a ResOperand when every cell it mentions must already be known
ResVal(s, b) ==
  CASE b.k = "imm" -> b.imm
    [] b.k = "deref" -> LET v == Rd(s, Cell(s, b.c.reg, b.c.off)) IN IF Known(v) THEN v ELSE Err
    [] b.k = "dderef" ->
        LET outer == Rd(s, Cell(s, b.c.reg, b.c.off)) IN
        IF IsPtr(outer) /\ outer.off + b.off2 >= 0
        THEN LET v == Rd(s, <<outer.seg, outer.off + b.off2>>) IN IF Known(v) THEN v ELSE Err
        ELSE Err
    [] b.k = "binop" ->
        LET x == Rd(s, Cell(s, b.c.reg, b.c.off))
            y == IF b.bk = "imm" THEN b.imm ELSE Rd(s, Cell(s, b.bc.reg, b.bc.off))
        IN IF Known(x) /\ Known(y) THEN (IF b.op = "add" THEN VAdd(x, y) ELSE VMul(x, y)) ELSE Err

Meaning(i, s) ==
  CASE i.body = "asserteq" ->
        LET r == AssertMeaning(i, s) IN
        IF r.st = "oom" THEN OutOfModel
        ELSE IF r.st = "err" THEN Fail
        ELSE Ok(NextPc(i, s), IncAp(i, s), s.fp, r.w, NoBlake)
    [] i.body = "qm31" ->
        \* the VM accepts the QM31 extension only for a = x op y with y not double-deref
        IF i.b.k # "binop" THEN Fail
        ELSE LET r == AssertMeaning(i, s) IN
             IF r.st = "oom" THEN OutOfModel
             ELSE IF r.st = "err" THEN Fail
             ELSE Ok(NextPc(i, s), IncAp(i, s), s.fp, r.w, NoBlake)
    [] i.body = "addap" ->
        LET v == ResVal(s, i.b) IN
        IF v.t = "oom" THEN OutOfModel
        ELSE IF IsInt(v) /\ v.a = 0 /\ s.ap + v.c >= 0 THEN Ok(NextPc(i, s), s.ap + v.c, s.fp, {}, NoBlake)
        ELSE Fail
    [] i.body = "jump" ->
        LET v == DoiVal(s, i.b)
            t == IF Known(v) THEN JumpTarget(s, v, i.rel) ELSE Err
        IN IF IsPtr(t) THEN Ok(PtrAddr(t), IncAp(i, s), s.fp, {}, NoBlake) ELSE Fail
    [] i.body = "jnz" ->
        LET c == Rd(s, Cell(s, i.a.reg, i.a.off))
            v == DoiVal(s, i.b)
        IN IF ~Known(c) \/ ~Known(v) THEN Fail
           ELSE IF IsZero(c) THEN Ok(NextPc(i, s), IncAp(i, s), s.fp, {}, NoBlake)
           ELSE LET t == IF IsInt(v) THEN JumpTarget(s, v, TRUE) ELSE Err IN
                IF IsPtr(t) THEN Ok(PtrAddr(t), IncAp(i, s), s.fp, {}, NoBlake) ELSE Fail
    [] i.body = "call" ->
        LET v == DoiVal(s, i.b)
            t == IF Known(v) THEN JumpTarget(s, v, i.rel) ELSE Err
            w0 == AssertCellIs(s, <<1, s.ap>>, P(1, s.fp))
            w1 == AssertCellIs(s, <<1, s.ap + 1>>, P(s.pc[1], s.pc[2] + OpSize(i)))
        IN IF IsPtr(t) /\ w0.st = "ok" /\ w1.st = "ok"
           THEN Ok(PtrAddr(t), s.ap + 2, s.ap + 2, w0.w \cup w1.w, NoBlake)
           ELSE Fail
    [] i.body = "ret" ->
        LET rfp == Rd(s, <<1, s.fp - 2>>)
            rpc == Rd(s, <<1, s.fp - 1>>)
        IN IF IsPtr(rpc) /\ (IsPtr(rfp) \/ IsSmallNat(rfp))
           THEN Ok(PtrAddr(rpc), s.ap, IF IsPtr(rfp) THEN rfp.off ELSE rfp.c, {}, NoBlake)
           ELSE Fail
    [] i.body = "blake" ->
        LET cnt == Rd(s, Cell(s, i.a.reg, i.a.off))
            st == Rd(s, Cell(s, i.st.reg, i.st.off))
            msg == Rd(s, Cell(s, i.msg.reg, i.msg.off))
            out == Rd(s, <<1, s.ap>>)
        IN IF IsSmallNat(cnt) /\ IsPtr(st) /\ IsPtr(msg) /\ IsPtr(out)
           THEN Ok(NextPc(i, s), s.ap + 1, s.fp, {},
                   <<[st |-> st, msg |-> msg, cnt |-> cnt.c, fin |-> i.fin, out |-> out]>>)
           ELSE Fail

---------------------------------------------------------------------------
(* Assemble: transcription of Instruction::assemble (assembler.rs)          *)

Op1OfReg(r) == IF r = "ap" THEN "AP" ELSE "FP"

ResDesc(b) ==
  CASE b.k = "deref" -> [off1 |-> -1, off2 |-> b.c.off, imm |-> None, op0reg |-> "fp",
                         op1 |-> Op1OfReg(b.c.reg), res |-> "Op1"]
    [] b.k = "dderef" -> [off1 |-> b.c.off, off2 |-> b.off2, imm |-> None, op0reg |-> b.c.reg,
                          op1 |-> "Op0", res |-> "Op1"]
    [] b.k = "imm" -> [off1 |-> -1, off2 |-> 1, imm |-> b.imm, op0reg |-> "fp",
                       op1 |-> "Imm", res |-> "Op1"]
    [] b.k = "binop" -> [off1 |-> b.c.off,
                         off2 |-> IF b.bk = "imm" THEN 1 ELSE b.bc.off,
                         imm |-> IF b.bk = "imm" THEN b.imm ELSE None,
                         op0reg |-> b.c.reg,
                         op1 |-> IF b.bk = "imm" THEN "Imm" ELSE Op1OfReg(b.bc.reg),
                         res |-> IF b.op = "add" THEN "Add" ELSE "Mul"]

Repr(off0, off1, off2, imm, dstreg, op0reg, op1, res, pcu, apu, fpu, opc, ext) ==
  [off0 |-> off0, off1 |-> off1, off2 |-> off2, imm |-> imm, dstreg |-> dstreg, op0reg |-> op0reg,
   op1 |-> op1, res |-> res, pcu |-> pcu, apu |-> apu, fpu |-> fpu, opc |-> opc, ext |-> ext]

Assemble(i) ==
  LET r == ResDesc(i.b)
      incu == IF i.incap THEN "Add1" ELSE "Regular"
  IN
  CASE i.body = "addap" ->
         Repr(-1, r.off1, r.off2, r.imm, "fp", r.op0reg, r.op1, r.res, "Regular", "Add", "Regular", "Nop", "Stone")
    [] i.body = "asserteq" ->
         Repr(i.a.off, r.off1, r.off2, r.imm, i.a.reg, r.op0reg, r.op1, r.res, "Regular", incu, "Regular", "AssertEq", "Stone")
    [] i.body = "qm31" ->
         Repr(i.a.off, r.off1, r.off2, r.imm, i.a.reg, r.op0reg, r.op1, r.res, "Regular", incu, "Regular", "AssertEq", "QM31")
    [] i.body = "call" ->
         Repr(0, 1, r.off2, r.imm, "ap", "ap", r.op1, "Op1",
              IF i.rel THEN "JumpRel" ELSE "Jump", "Add2", "ApPlus2", "Call", "Stone")
    [] i.body = "jump" ->
         Repr(-1, r.off1, r.off2, r.imm, "fp", "fp", r.op1, "Op1",
              IF i.rel THEN "JumpRel" ELSE "Jump", incu, "Regular", "Nop", "Stone")
    [] i.body = "jnz" ->
         Repr(i.a.off, -1, r.off2, r.imm, i.a.reg, "fp", r.op1, "Unconstrained", "Jnz", incu, "Regular", "Nop", "Stone")
    [] i.body = "ret" ->
         Repr(-2, -1, -1, None, "fp", "fp", "FP", "Op1", "Jump", "Regular", "Dst", "Ret", "Stone")
    [] i.body = "blake" ->
         Repr(i.a.off, i.st.off, i.msg.off, None, i.a.reg, i.st.reg, Op1OfReg(i.msg.reg), "Op1",
              "Regular", "Add1", "Regular", "Nop", IF i.fin THEN "Blake2sFinalize" ELSE "Blake2s")

(* Bits: the bit layout of encoder.rs: three biased 16-bit offsets, the set of flag
   bits that are 1, the extension number at bit 63, and the optional second word.  *)
Bits(r) ==
  [o0 |-> r.off0 + 32768, o1 |-> r.off1 + 32768, o2 |-> r.off2 + 32768,
   flags |->
        (IF r.dstreg = "fp" THEN {0} ELSE {})
   \cup (IF r.op0reg = "fp" THEN {1} ELSE {})
   \cup (CASE r.op1 = "Imm" -> {2} [] r.op1 = "FP" -> {3} [] r.op1 = "AP" -> {4} [] OTHER -> {})
   \cup (CASE r.res = "Add" -> {5} [] r.res = "Mul" -> {6} [] OTHER -> {})
   \cup (CASE r.pcu = "Jump" -> {7} [] r.pcu = "JumpRel" -> {8} [] r.pcu = "Jnz" -> {9} [] OTHER -> {})
   \cup (CASE r.apu = "Add" -> {10} [] r.apu = "Add1" -> {11} [] OTHER -> {})
   \cup (CASE r.opc = "Call" -> {12} [] r.opc = "Ret" -> {13} [] r.opc = "AssertEq" -> {14} [] OTHER -> {}),
   ext |-> CASE r.ext = "Stone" -> 0 [] r.ext = "Blake2s" -> 1 [] r.ext = "Blake2sFinalize" -> 2 [] r.ext = "QM31" -> 3,
   imm |-> r.imm]

NWords(bits) == IF bits.imm = None THEN 1 ELSE 2

(* Decode: the VM decoder (decoder.rs), including its validity checks.  Returns a
   flag record with valid |-> FALSE for an undecodable word.                  *)
Bit(bits, n) == IF n \in bits.flags THEN 1 ELSE 0
Decode(bits) ==
  LET op1n == Bit(bits, 2) + 2 * Bit(bits, 3) + 4 * Bit(bits, 4)
      resn == Bit(bits, 5) + 2 * Bit(bits, 6)
      pcn  == Bit(bits, 7) + 2 * Bit(bits, 8) + 4 * Bit(bits, 9)
      apn  == Bit(bits, 10) + 2 * Bit(bits, 11)
      opn  == Bit(bits, 12) + 2 * Bit(bits, 13) + 4 * Bit(bits, 14)
      off0 == bits.o0 - 32768
      off1 == bits.o1 - 32768
      off2 == bits.o2 - 32768
      dstreg == IF Bit(bits, 0) = 1 THEN "fp" ELSE "ap"
      op0reg == IF Bit(bits, 1) = 1 THEN "fp" ELSE "ap"
      op1 == CASE op1n = 0 -> "Op0" [] op1n = 1 -> "Imm" [] op1n = 2 -> "FP" [] op1n = 4 -> "AP" [] OTHER -> "bad"
      pcu == CASE pcn = 0 -> "Regular" [] pcn = 1 -> "Jump" [] pcn = 2 -> "JumpRel" [] pcn = 4 -> "Jnz" [] OTHER -> "bad"
      res == CASE resn = 0 /\ pcu = "Jnz" -> "Unconstrained"
               [] resn = 0 /\ pcu # "Jnz" -> "Op1"
               [] resn = 1 /\ pcu # "Jnz" -> "Add"
               [] resn = 2 /\ pcu # "Jnz" -> "Mul"
               [] OTHER -> "bad"
      opc == CASE opn = 0 -> "Nop" [] opn = 1 -> "Call" [] opn = 2 -> "Ret" [] opn = 4 -> "AssertEq" [] OTHER -> "bad"
      ext == CASE bits.ext = 0 -> "Stone" [] bits.ext = 1 -> "Blake2s" [] bits.ext = 2 -> "Blake2sFinalize"
               [] bits.ext = 3 -> "QM31" [] OTHER -> "bad"
      blakeOK == opc = "Nop" /\ op1 \in {"FP", "AP"} /\ res = "Op1" /\ pcu = "Regular" /\ apn \in {0, 2}
      qm31OK == res \in {"Add", "Mul"} /\ op1 # "Op0" /\ pcu = "Regular" /\ opc = "AssertEq" /\ apn \in {0, 2}
      apu == CASE apn = 0 /\ opc = "Call" -> "Add2"
               [] apn = 0 /\ opc # "Call" -> "Regular"
               [] apn = 1 /\ opc # "Call" -> "Add"
               [] apn = 2 /\ opc # "Call" -> "Add1"
               [] OTHER -> "bad"
      callOK == off0 = 0 /\ off1 = 1 /\ apu = "Add2" /\ dstreg = "ap" /\ op0reg = "ap"
      retOK == off0 = -2 /\ off2 = -1 /\ dstreg = "fp" /\ op1 = "FP" /\ res = "Op1" /\ pcu = "Jump"
      fpu == CASE opc = "Call" -> "ApPlus2" [] opc = "Ret" -> "Dst" [] OTHER -> "Regular"
      valid == /\ "bad" \notin {op1, pcu, res, opc, ext, apu}
               /\ (ext \in {"Blake2s", "Blake2sFinalize"} => blakeOK)
               /\ (ext = "QM31" => qm31OK)
               /\ (opc = "Call" => callOK)
               /\ (opc = "Ret" => retOK)
  IN [valid |-> valid, off0 |-> off0, off1 |-> off1, off2 |-> off2, imm |-> bits.imm,
      dstreg |-> dstreg, op0reg |-> op0reg, op1 |-> op1, res |-> res, pcu |-> pcu,
      apu |-> apu, fpu |-> fpu, opc |-> opc, ext |-> ext, size |-> IF op1 = "Imm" THEN 2 ELSE 1]

(* Exec: one step of the VM on decoded flags f (vm_core.rs: compute_operands,
   deductions, opcode_assertions, update_registers).  The immediate is read from
   [pc+1], which holds f.imm (the second encoded word).                        *)
Exec(f, s0) ==
  IF ~f.valid THEN Fail ELSE
  LET \* the code words are in memory: [pc+1] = imm
      s == IF f.imm = None THEN s0
           ELSE [s0 EXCEPT !.mem = [a \in (DOMAIN s0.mem) \cup {<<s0.pc[1], s0.pc[2] + 1>>} |->
                                     IF a = <<s0.pc[1], s0.pc[2] + 1>> THEN f.imm ELSE s0.mem[a]]]
      dstA == <<1, RegVal(s, f.dstreg) + f.off0>>
      op0A == <<1, RegVal(s, f.op0reg) + f.off1>>
      dst0 == Rd(s, dstA)
      op00 == Rd(s, op0A)
      op1Base == CASE f.op1 = "FP" -> P(1, s.fp)
                   [] f.op1 = "AP" -> P(1, s.ap)
                   [] f.op1 = "Imm" -> IF f.off2 = 1 THEN P(s.pc[1], s.pc[2]) ELSE Err
                   [] f.op1 = "Op0" -> IF IsPtr(op00) THEN op00 ELSE Err
      retPc == P(s.pc[1], s.pc[2] + f.size)
      q == f.ext = "QM31"
  IN
  IF Bad(op1Base) \/ op1Base.off + f.off2 < 0 THEN Fail ELSE
  LET op1A == <<op1Base.seg, op1Base.off + f.off2>>
      op10 == Rd(s, op1A)
      \* deduce_op0 -> <<op0, res>>
      dOp0 == IF Known(op00) THEN <<op00, None>>
              ELSE CASE f.opc = "Call" -> <<retPc, None>>
                     [] f.opc = "AssertEq" /\ f.res = "Add" /\ Known(dst0) /\ Known(op10) ->
                          <<TSub(q, dst0, op10), dst0>>
                     [] f.opc = "AssertEq" /\ f.res = "Mul" /\ IsInt(dst0) /\ IsInt(op10) /\ ~IsZero(op10) ->
                          <<TDiv(q, dst0, op10), dst0>>
                     [] OTHER -> <<None, None>>
      op0 == dOp0[1]
      res1 == dOp0[2]
  IN
  IF op0.t = "oom" THEN OutOfModel ELSE
  IF ~Known(op0) THEN Fail ELSE   \* includes a failed typed_sub (error propagated by the VM)
  LET dOp1 == IF Known(op10) THEN <<op10, None>>
              ELSE IF f.opc = "AssertEq" THEN
                   CASE f.res = "Op1" -> <<dst0, dst0>>
                     [] f.res = "Add" ->
                          IF Known(dst0) THEN
                             LET d == TSub(q, dst0, op0) IN
                             IF d.t = "err" THEN <<None, dst0>> ELSE <<d, dst0>>
                          ELSE <<None, None>>
                     [] f.res = "Mul" /\ IsInt(dst0) /\ IsInt(op0) /\ ~IsZero(op0) ->
                          <<TDiv(q, dst0, op0), dst0>>
                     [] OTHER -> <<None, None>>
              ELSE <<None, None>>
      op1 == dOp1[1]
      res2 == IF Known(res1) THEN res1 ELSE dOp1[2]
  IN
  IF op1.t = "oom" THEN OutOfModel ELSE
  IF ~Known(op1) THEN Fail ELSE
  LET res == IF Known(res2) THEN res2
             ELSE CASE f.res = "Op1" -> op1
                    [] f.res = "Add" -> TAdd(q, op0, op1)
                    [] f.res = "Mul" -> TMul(q, op0, op1)
                    [] OTHER -> None      \* Unconstrained
  IN
  IF res.t = "oom" THEN OutOfModel ELSE
  IF res.t = "err" THEN Fail ELSE
  LET dst == IF Known(dst0) THEN dst0
             ELSE CASE f.opc = "AssertEq" /\ Known(res) -> res
                    [] f.opc = "Call" -> P(1, s.fp)
                    [] OTHER -> None
  IN
  IF ~Known(dst) THEN Fail ELSE
  LET \* insert_deduced_operands (write-once memory: a conflicting insert fails)
      ins == (IF ~Known(op00) THEN {<<op0A, op0>>} ELSE {})
        \cup (IF ~Known(op10) THEN {<<op1A, op1>>} ELSE {})
        \cup (IF ~Known(dst0) THEN {<<dstA, dst>>} ELSE {})
      conflict == \E w1 \in ins, w2 \in ins : w1[1] = w2[1] /\ w1[2] # w2[2]
      assertOK == CASE f.opc = "AssertEq" -> Known(res) /\ res = dst
                    [] f.opc = "Call" -> op0 = retPc /\ dst = P(1, s.fp)
                    [] OTHER -> TRUE
  IN
  IF conflict \/ ~assertOK THEN Fail ELSE
  LET isBlake == f.ext \in {"Blake2s", "Blake2sFinalize"}
      out == Rd(s, <<1, s.ap>>)
      blakeOK == isBlake => (IsSmallNat(dst) /\ IsPtr(op0) /\ IsPtr(op1) /\ IsPtr(out))
      newFp == CASE f.fpu = "ApPlus2" -> I(s.ap + 2)
                 [] f.fpu = "Dst" -> IF IsPtr(dst) THEN I(dst.off) ELSE IF IsSmallNat(dst) THEN dst ELSE Err
                 [] OTHER -> I(s.fp)
      newAp == CASE f.apu = "Add" -> IF IsInt(res) /\ res.a = 0 /\ s.ap + res.c >= 0 THEN I(s.ap + res.c) ELSE Err
                 [] f.apu = "Add1" -> I(s.ap + 1)
                 [] f.apu = "Add2" -> I(s.ap + 2)
                 [] OTHER -> I(s.ap)
      newPc == CASE f.pcu = "Regular" -> retPc
                 [] f.pcu = "Jump" -> IF IsPtr(res) THEN res ELSE Err
                 [] f.pcu = "JumpRel" -> IF IsInt(res) THEN PtrAddFelt(P(s.pc[1], s.pc[2]), res) ELSE Err
                 [] f.pcu = "Jnz" -> IF IsZero(dst) THEN retPc
                                     ELSE IF IsInt(op1) THEN PtrAddFelt(P(s.pc[1], s.pc[2]), op1) ELSE Err
      writes == ins
  IN
  IF ~blakeOK \/ Bad(newFp) \/ Bad(newAp) \/ Bad(newPc) THEN Fail
  ELSE Ok(PtrAddr(newPc), newAp.c, newFp.c, writes,
          IF isBlake THEN <<[st |-> op0, msg |-> op1, cnt |-> dst.c, fin |-> f.ext = "Blake2sFinalize", out |-> out]>>
          ELSE NoBlake)

---------------------------------------------------------------------------
(* Deliberately wrong variants for self-tests (BUG # "none")                *)
AssembleB(i) ==
  LET r == Assemble(i) IN
  CASE BUG = "jnz_off1" /\ i.body = "jnz" -> [r EXCEPT !.op0reg = "ap"]            \* harmless? no: reads [ap-1]
    [] BUG = "call_abs_flag" /\ i.body = "call" /\ ~i.rel /\ i.b.k = "deref" -> [r EXCEPT !.pcu = "JumpRel"]
    [] BUG = "dderef_reg" /\ i.b.k = "dderef" -> [r EXCEPT !.op0reg = "fp"]
    [] BUG = "blake_dst_reg" /\ i.body = "blake" -> [r EXCEPT !.dstreg = i.st.reg]
    [] OTHER -> r

---------------------------------------------------------------------------
(* State machine: pick a case, take the step both ways. *)
VARIABLES phase, ins, pre, post
vars == <<phase, ins, pre, post>>

\* cells an instruction can touch in a layout (CASM-level), used to generate memories
DirectCells(i, lay) ==
  LET s == [pc |-> lay.pc, ap |-> lay.ap, fp |-> lay.fp, mem |-> <<>>]
      c(r) == Cell(s, r.reg, r.off)
  IN CASE i.body \in {"asserteq", "qm31"} ->
            {c(i.a)} \cup (IF i.b.k = "imm" THEN {} ELSE {c(i.b.c)})
                     \cup (IF i.b.k = "binop" /\ i.b.bk = "deref" THEN {c(i.b.bc)} ELSE {})
       [] i.body = "addap" ->
            (IF i.b.k = "imm" THEN {} ELSE {c(i.b.c)})
            \cup (IF i.b.k = "binop" /\ i.b.bk = "deref" THEN {c(i.b.bc)} ELSE {})
       [] i.body \in {"jump"} -> IF i.b.k = "imm" THEN {} ELSE {c(i.b.c)}
       [] i.body = "call" -> {<<1, lay.ap>>, <<1, lay.ap + 1>>} \cup (IF i.b.k = "imm" THEN {} ELSE {c(i.b.c)})
       [] i.body = "jnz" -> {c(i.a)} \cup (IF i.b.k = "imm" THEN {} ELSE {c(i.b.c)})
       [] i.body = "ret" -> {<<1, lay.fp - 2>>}
       [] i.body = "blake" -> {c(i.a), c(i.st), c(i.msg), <<1, lay.ap>>}

FrameCell(lay) == <<1, lay.fp - 1>>

\* the cell a double dereference reads, given the outer pointer value
InnerCell(i, v) == IF i.b.k = "dderef" /\ IsPtr(v) /\ v.off + i.b.off2 >= 0
                   THEN {<<v.seg, v.off + i.b.off2>>} ELSE {}

Init ==
  /\ phase = "pre"
  /\ post = Fail
  /\ ins \in Instrs
  /\ \E lay \in LAYOUTS :
       LET direct == DirectCells(ins, lay) \ {FrameCell(lay)} IN
       \E m \in [direct -> (IF ins.body = "blake" THEN BLAKEVALS ELSE CELLVALS) \cup {None}] :
       \E fpv \in (IF ins.body = "ret" THEN {P(0, lay.pc[2] + 7), I(5)} ELSE {P(0, lay.pc[2] + 7)}) :   \* [fp-1]: the return pc
         LET outerA == Cell([ap |-> lay.ap, fp |-> lay.fp], ins.b.c.reg, ins.b.c.off)
             m1 == [a \in direct \cup {FrameCell(lay)} |-> IF a = FrameCell(lay) THEN fpv ELSE m[a]]
             inner == IF ins.b.k = "dderef" THEN InnerCell(ins, m1[outerA]) \ DOMAIN m1 ELSE {}
         IN IF ins.b.k = "dderef" /\ ins.body \in {"asserteq", "qm31", "addap"} /\ inner # {}
            THEN \E iv \in CELLVALS \cup {None} :
                   pre = [pc |-> lay.pc, ap |-> lay.ap, fp |-> lay.fp,
                          mem |-> [a \in DOMAIN m1 \cup inner |-> IF a \in inner THEN iv ELSE m1[a]]]
            ELSE pre = [pc |-> lay.pc, ap |-> lay.ap, fp |-> lay.fp, mem |-> m1]

Step ==
  /\ phase = "pre"
  /\ phase' = "post"
  /\ post' = Meaning(ins, pre)
  /\ UNCHANGED <<ins, pre>>

Next == Step
Spec == Init /\ [][Next]_vars

Machine(i, s) == Exec(Decode(Bits(AssembleB(i))), s)

\* C16, design level: the encoded words mean what the instruction says ...
Refines == phase = "post" => post = Machine(ins, pre)
\* ... and occupy the size the layouter assumes
SizeOK == NWords(Bits(AssembleB(ins))) = OpSize(ins)
\* the encoder's own consistency assertions never fire on toolchain-made instructions
EncoderAsserts ==
  LET r == AssembleB(ins) IN
  /\ (r.imm # None) = (r.op1 = "Imm")
  /\ (r.res = "Unconstrained") = (r.pcu = "Jnz")
  /\ (r.apu = "Add2") = (r.opc = "Call")
  /\ r.fpu = (CASE r.opc = "Call" -> "ApPlus2" [] r.opc = "Ret" -> "Dst" [] OTHER -> "Regular")
  /\ r.off0 \in -32768..32767 /\ r.off1 \in -32768..32767 /\ r.off2 \in -32768..32767
=============================================================================

CONSTANTS
  OFFS <- T_OFFS
  IMMS <- T_IMMS
  CELLVALS <- T_CELLVALS
  LAYOUTS <- T_LAYOUTS
  BLAKE_OFFS <- B_T
  BUG = "none"
INIT Init
NEXT Next
INVARIANT Refines
INVARIANT SizeOK
INVARIANT EncoderAsserts
INVARIANT Emit
CHECK_DEADLOCK FALSE

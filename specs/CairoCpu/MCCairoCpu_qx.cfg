CONSTANTS
  OFFS <- QX_OFFS
  IMMS <- X_IMMS
  CELLVALS <- X_CELLVALS
  LAYOUTS <- X_LAYOUTS
  BLAKE_OFFS <- B_QX
  BUG = "none"
INIT Init
NEXT Next
INVARIANT Refines
INVARIANT SizeOK
INVARIANT EncoderAsserts
INVARIANT Emit
CHECK_DEADLOCK FALSE

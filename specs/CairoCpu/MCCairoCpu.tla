---------------------------- MODULE MCCairoCpu ----------------------------
(* Model-checking instance of CairoCpu: constants, REPLAY emission. *)
EXTENDS CairoCpu, Json

Big == F(1, 0)
AP0 == 40000
FP0 == 40010

L_sep   == [pc |-> <<0, 100>>, ap |-> AP0, fp |-> FP0]
L_same  == [pc |-> <<0, 100>>, ap |-> AP0, fp |-> AP0]
L_adj   == [pc |-> <<0, 100>>, ap |-> AP0, fp |-> AP0 + 1]

\* (1) shape x memory exploration, small offsets
Q_OFFS == {-1, 1}
Q_IMMS == {I(0), I(3), I(-1), Big}
Q_CELLVALS == {I(0), I(2), P(1, AP0 + 1)}
Q_LAYOUTS == {L_sep, L_adj}
T_OFFS == {-2, 0, 1}
T_IMMS == {I(0), I(3), I(-1), Big}
T_CELLVALS == {I(0), I(2), Big, P(1, AP0 + 1), P(0, 107)}
T_LAYOUTS == {L_sep, L_same, L_adj}

\* (2) offset sweep: extreme offsets, few memories
QX_OFFS == {-32768, -1, 0, 32767}
TX_OFFS == {-32768, -32767, -2, -1, 0, 1, 2, 32766, 32767}
X_IMMS == {I(3), Big}
X_CELLVALS == {I(2), P(1, 50000)}
X_LAYOUTS == {L_sep}

B_Q == {-1, 1}
B_QX == {-32768, 32767}
B_T == {-2, 0, 1}
B_TX == {-32768, -1, 32767}

MemJson(m) == [a \in DOMAIN m |-> m[a]]
WritesSeq(w) == LET RECURSIVE Sq(_) Sq(S) == IF S = {} THEN <<>> ELSE LET x == CHOOSE x \in S : TRUE IN <<x>> \o Sq(S \ {x}) IN Sq(w)
MemSeq(m) == WritesSeq({<<a, m[a]>> : a \in DOMAIN m})

Emit == phase = "post" =>
   PrintT(<<"REPLAY", ToJson([k |-> "step", instr |-> ins,
                              pre |-> [pc |-> pre.pc, ap |-> pre.ap, fp |-> pre.fp, mem |-> MemSeq(pre.mem)],
                              post |-> IF post.ok /\ "oom" \notin DOMAIN post
                                       THEN [ok |-> TRUE, pc |-> post.pc, ap |-> post.ap, fp |-> post.fp,
                                             writes |-> WritesSeq(post.writes), blake |-> post.blake]
                                       ELSE post,
                              asm |-> Assemble(ins), bits |-> [o0 |-> Bits(Assemble(ins)).o0, o1 |-> Bits(Assemble(ins)).o1,
                                        o2 |-> Bits(Assemble(ins)).o2, flags |-> WritesSeq(Bits(Assemble(ins)).flags),
                                        ext |-> Bits(Assemble(ins)).ext],
                              size |-> OpSize(ins)])>>)
=============================================================================

CONSTANTS
  OFFS <- Q_OFFS
  IMMS <- Q_IMMS
  CELLVALS <- Q_CELLVALS
  LAYOUTS <- Q_LAYOUTS
  BLAKE_OFFS <- B_Q
  BUG = "none"
INIT Init
NEXT Next
INVARIANT Refines
INVARIANT SizeOK
INVARIANT EncoderAsserts
INVARIANT Emit
CHECK_DEADLOCK FALSE

CONSTANT BUG = "wrap_off"
CONSTANT TIER = "quick"
INIT Init
NEXT Next
INVARIANT RowOK
CHECK_DEADLOCK FALSE

CONSTANT BUG = "floor_div"
CONSTANT TIER = "quick"
INIT Init
NEXT Next
INVARIANT RowOK
CHECK_DEADLOCK FALSE

CONSTANT BUG = "no_min_ovf"
CONSTANT TIER = "quick"
INIT Init
NEXT Next
INVARIANT RowOK
CHECK_DEADLOCK FALSE

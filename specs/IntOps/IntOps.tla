------------------------------- MODULE IntOps -------------------------------
(***************************************************************************)
(* Reference mathematics of Cairo's primitive integer types and felt252.   *)
(*                                                                         *)
(* Written from the mathematical definition of each operation and from the *)
(* behaviour documented in corelib (integer.cairo, felt_252.cairo,         *)
(* math.cairo, num/traits/ops/*.cairo) - NOT from the libfunc CASM.        *)
(*                                                                         *)
(* Numbers are arbitrary-precision integers in sign/magnitude form         *)
(*      [s |-> -1 | 0 | 1, m |-> <<little-endian limbs, base 2^15>>]       *)
(* (TLC integers are 32 bit).  Operands that fit one limb take a native    *)
(* fast path, so the same definitions serve the exhaustive 8-bit tables    *)
(* (MCIntOps), the relational acceptor of wide-operand events              *)
(* (IntOpsTrace) and the const-expression evaluator (ConstEval).           *)
(*                                                                         *)
(* Layers: L* magnitudes (limb sequences), Z* signed integers, type        *)
(* descriptors, Math(op, T, x, y) = the outcome every implementation must  *)
(* produce, and Rel* = relational acceptors that CHECK a claimed           *)
(* quotient / remainder / root / modular result without computing it.      *)
(*                                                                         *)
(* BUG names a deliberately wrong variant used by the driver's self-test.  *)
(***************************************************************************)
EXTENDS Integers, Sequences, Bitwise

CONSTANT BUG    \* "none" | "floor_div" | "wrap_off" | "sqrt_lax" | "no_min_ovf" | "sat_sub"

B == 32768      \* limb base 2^15: a product of two limbs fits a 32-bit TLC integer
BBITS == 15

Max(a, b) == IF a >= b THEN a ELSE b
Min(a, b) == IF a <= b THEN a ELSE b
P2[k \in 0..30] == IF k = 0 THEN 1 ELSE 2 * P2[k - 1]

-----------------------------------------------------------------------------
(* L: magnitudes.  Normal form: no most-significant zero limb; zero = <<>>.  *)

Limb(m, i) == IF i >= 1 /\ i <= Len(m) THEN m[i] ELSE 0

RECURSIVE LTrim(_)
LTrim(m) == IF m = <<>> THEN m
            ELSE IF m[Len(m)] = 0 THEN LTrim(SubSeq(m, 1, Len(m) - 1)) ELSE m

\* a natural number < 2^31 as limbs
LFromNat(n) == IF n = 0 THEN <<>>
               ELSE IF n < B THEN <<n>>
               ELSE IF n < B * B THEN <<n % B, n \div B>>
               ELSE <<n % B, (n \div B) % B, n \div (B * B)>>
LIsNat(m) == Len(m) <= 2                     \* < 2^30: safe for native arithmetic
LToNat(m) == IF m = <<>> THEN 0 ELSE IF Len(m) = 1 THEN m[1] ELSE m[1] + B * m[2]

RECURSIVE LCmpAt(_, _, _)
LCmpAt(a, b, i) == IF i = 0 THEN 0
                   ELSE IF a[i] > b[i] THEN 1
                   ELSE IF a[i] < b[i] THEN -1
                   ELSE LCmpAt(a, b, i - 1)
LCmp(a, b) == IF Len(a) > Len(b) THEN 1
              ELSE IF Len(a) < Len(b) THEN -1
              ELSE LCmpAt(a, b, Len(a))

RECURSIVE LAddAt(_, _, _, _, _)
LAddAt(a, b, i, c, acc) ==
    IF i > Max(Len(a), Len(b)) THEN (IF c > 0 THEN Append(acc, c) ELSE acc)
    ELSE LET s == Limb(a, i) + Limb(b, i) + c
         IN LAddAt(a, b, i + 1, s \div B, Append(acc, s % B))
LAdd(a, b) == IF LIsNat(a) /\ LIsNat(b) THEN LFromNat(LToNat(a) + LToNat(b))
              ELSE LAddAt(a, b, 1, 0, <<>>)

\* a - b for a >= b
RECURSIVE LSubAt(_, _, _, _, _)
LSubAt(a, b, i, brw, acc) ==
    IF i > Len(a) THEN LTrim(acc)
    ELSE LET d == a[i] - Limb(b, i) - brw
         IN IF d < 0 THEN LSubAt(a, b, i + 1, 1, Append(acc, d + B))
            ELSE LSubAt(a, b, i + 1, 0, Append(acc, d))
LSub(a, b) == IF LIsNat(a) THEN LFromNat(LToNat(a) - LToNat(b))
              ELSE LSubAt(a, b, 1, 0, <<>>)

\* a * d for one limb d, result as limbs (not shifted)
RECURSIVE LMul1At(_, _, _, _, _)
LMul1At(a, d, i, c, acc) ==
    IF i > Len(a) THEN (IF c > 0 THEN Append(acc, c) ELSE acc)
    ELSE LET p == a[i] * d + c
         IN LMul1At(a, d, i + 1, p \div B, Append(acc, p % B))
LMul1(a, d) == IF d = 0 \/ a = <<>> THEN <<>> ELSE LMul1At(a, d, 1, 0, <<>>)

LZeros(n) == [i \in 1..n |-> 0]
LShiftLimbs(a, n) == IF a = <<>> THEN a ELSE LZeros(n) \o a      \* a * B^n

RECURSIVE LMulAt(_, _, _, _)
LMulAt(a, b, j, acc) ==
    IF j > Len(b) THEN acc
    ELSE LMulAt(a, b, j + 1,
                IF b[j] = 0 THEN acc ELSE LAddAt(acc, LShiftLimbs(LMul1(a, b[j]), j - 1), 1, 0, <<>>))
LMul(a, b) == IF a = <<>> \/ b = <<>> THEN <<>>
              ELSE IF Len(a) = 1 /\ Len(b) = 1 THEN LFromNat(a[1] * b[1])
              ELSE IF Len(a) >= Len(b) THEN LMulAt(a, b, 1, <<>>) ELSE LMulAt(b, a, 1, <<>>)

\* 2^k
LPow2(k) == LZeros(k \div BBITS) \o <<P2[k % BBITS]>>

\* a mod 2^n  and  a div 2^n  (no division: limb selection and in-limb shifts)
LLow(a, n) ==
    LET q == n \div BBITS
        r == n % BBITS
    IN IF Len(a) <= q THEN a
       ELSE LTrim(SubSeq(a, 1, q) \o (IF r = 0 THEN <<>> ELSE <<a[q + 1] % P2[r]>>))
LShr(a, n) ==
    LET q == n \div BBITS
        r == n % BBITS
        d == IF Len(a) <= q THEN <<>> ELSE SubSeq(a, q + 1, Len(a))
    IN IF r = 0 THEN d
       ELSE LTrim([i \in 1..Len(d) |-> (d[i] \div P2[r]) + (Limb(d, i + 1) % P2[r]) * P2[BBITS - r]])

\* bitwise operations limb by limb (Bitwise community module on naturals < 2^15)
LBitOp(a, b, op) ==
    LTrim([i \in 1..Max(Len(a), Len(b)) |->
              CASE op = "and" -> Limb(a, i) & Limb(b, i)
                [] op = "or"  -> Limb(a, i) | Limb(b, i)
                [] op = "xor" -> Limb(a, i) ^^ Limb(b, i)])

\* Long division a = q*b + r, 0 <= r < b, b # <<>>: schoolbook over limbs, each quotient
\* limb found by bisection (no trial quotient estimation: simple and obviously right).
RECURSIVE LDigit(_, _, _, _)
LDigit(r, b, lo, hi) ==          \* largest d in lo..hi with b*d <= r, given b*lo <= r
    IF lo = hi THEN lo
    ELSE LET mid == (lo + hi + 1) \div 2
         IN IF LCmp(LMul1(b, mid), r) <= 0 THEN LDigit(r, b, mid, hi) ELSE LDigit(r, b, lo, mid - 1)
RECURSIVE LDivAt(_, _, _, _, _)
LDivAt(a, b, i, q, r) ==
    IF i = 0 THEN <<LTrim(q), r>>
    ELSE LET r1 == LTrim(<<a[i]>> \o r)
             d == IF LCmp(r1, b) < 0 THEN 0 ELSE LDigit(r1, b, 1, B - 1)
         IN LDivAt(a, b, i - 1, <<d>> \o q, IF d = 0 THEN r1 ELSE LSub(r1, LMul1(b, d)))
LDivMod(a, b) ==
    IF LIsNat(a) /\ LIsNat(b) THEN <<LFromNat(LToNat(a) \div LToNat(b)), LFromNat(LToNat(a) % LToNat(b))>>
    ELSE IF LCmp(a, b) < 0 THEN <<<<>>, a>>
    ELSE LDivAt(a, b, Len(a), <<>>, <<>>)

-----------------------------------------------------------------------------
(* Z: signed integers *)

ZMk(s, m) == IF m = <<>> THEN [s |-> 0, m |-> <<>>] ELSE [s |-> s, m |-> m]
Z0 == [s |-> 0, m |-> <<>>]
Z1 == [s |-> 1, m |-> <<1>>]
ZM1 == [s |-> -1, m |-> <<1>>]
ZInt(n) == IF n = 0 THEN Z0 ELSE IF n > 0 THEN [s |-> 1, m |-> LFromNat(n)] ELSE [s |-> -1, m |-> LFromNat(-n)]
ZIsInt(z) == LIsNat(z.m)
ZToInt(z) == z.s * LToNat(z.m)
ZNeg(z) == [s |-> -z.s, m |-> z.m]
ZAbs(z) == [s |-> IF z.s = 0 THEN 0 ELSE 1, m |-> z.m]
ZSign(z) == z.s
ZCmp(a, b) == IF a.s # b.s THEN (IF a.s > b.s THEN 1 ELSE -1)
              ELSE IF a.s = 0 THEN 0
              ELSE a.s * LCmp(a.m, b.m)
ZLt(a, b) == ZCmp(a, b) < 0
ZLe(a, b) == ZCmp(a, b) <= 0
ZEq(a, b) == a.s = b.s /\ a.m = b.m          \* normal forms are unique
ZAdd(a, b) ==
    IF a.s = 0 THEN b ELSE IF b.s = 0 THEN a
    ELSE IF a.s = b.s THEN [s |-> a.s, m |-> LAdd(a.m, b.m)]
    ELSE LET c == LCmp(a.m, b.m)
         IN IF c = 0 THEN Z0
            ELSE IF c > 0 THEN [s |-> a.s, m |-> LSub(a.m, b.m)]
            ELSE [s |-> b.s, m |-> LSub(b.m, a.m)]
ZSub(a, b) == ZAdd(a, ZNeg(b))
ZMul(a, b) == IF a.s = 0 \/ b.s = 0 THEN Z0 ELSE [s |-> a.s * b.s, m |-> LMul(a.m, b.m)]
ZPow2(k) == [s |-> 1, m |-> LPow2(k)]
\* truncating division (quotient rounds toward zero, remainder takes the dividend's sign); d # 0
ZDivT(a, d) == LET qr == LDivMod(a.m, d.m) IN ZMk(a.s * d.s, qr[1])
ZRemT(a, d) == LET qr == LDivMod(a.m, d.m) IN ZMk(a.s, qr[2])
\* flooring division / modulus with non-negative result for a positive modulus
ZMod(a, n) == LET r == ZRemT(a, n) IN IF r.s < 0 THEN ZAdd(r, n) ELSE r
ZDivF(a, d) == LET q == ZDivT(a, d)
                   r == ZRemT(a, d)
               IN IF r.s # 0 /\ r.s # d.s THEN ZSub(q, Z1) ELSE q
\* a mod 2^n in [0, 2^n) (two's complement view of a negative a); no division
ZLow(a, n) == IF a.s >= 0 THEN ZMk(1, LLow(a.m, n))
              ELSE LET t == LLow(a.m, n) IN IF t = <<>> THEN Z0 ELSE ZMk(1, LSub(LPow2(n), t))
\* floor(a / 2^n) for a >= 0
ZShr(a, n) == ZMk(1, LShr(a.m, n))
ZBitOp(a, b, op) == ZMk(1, LBitOp(a.m, b.m, op))     \* a, b >= 0
ZBool(b) == IF b THEN Z1 ELSE Z0

-----------------------------------------------------------------------------
(* Types *)

UTypes == {"u8", "u16", "u32", "u64", "u128"}
STypes == {"i8", "i16", "i32", "i64", "i128"}
IntTypes == UTypes \cup STypes
WideTypes == {"u256", "u512"}
AllTypes == IntTypes \cup WideTypes \cup {"felt252", "bool"}

BitsOf == [T \in AllTypes |->
    CASE T \in {"u8", "i8"} -> 8 [] T \in {"u16", "i16"} -> 16 [] T \in {"u32", "i32"} -> 32
      [] T \in {"u64", "i64"} -> 64 [] T \in {"u128", "i128"} -> 128 [] T = "u256" -> 256
      [] T = "u512" -> 512 [] T = "felt252" -> 252 [] T = "bool" -> 1]
Signed(T) == T \in STypes

\* the field prime 2^251 + 17 * 2^192 + 1
PRIME == ZAdd(ZAdd(ZPow2(251), ZMul(ZInt(17), ZPow2(192))), Z1)
HALFP == ZShr(PRIME, 1)                   \* (P - 1) / 2

LoTab == [T \in AllTypes |-> IF Signed(T) THEN ZNeg(ZPow2(BitsOf[T] - 1)) ELSE Z0]
HiTab == [T \in AllTypes |->
    IF T = "felt252" THEN ZSub(PRIME, Z1)
    ELSE IF Signed(T) THEN ZSub(ZPow2(BitsOf[T] - 1), Z1)
    ELSE ZSub(ZPow2(BitsOf[T]), Z1)]
Lo(T) == LoTab[T]
Hi(T) == HiTab[T]
InRange(T, v) == ZLe(Lo(T), v) /\ ZLe(v, Hi(T))

Wider(T) == CASE T = "u8" -> "u16" [] T = "u16" -> "u32" [] T = "u32" -> "u64" [] T = "u64" -> "u128"
              [] T = "u128" -> "u256" [] T = "u256" -> "u512"
              [] T = "i8" -> "i16" [] T = "i16" -> "i32" [] T = "i32" -> "i64" [] T = "i64" -> "i128"
SqrtType(T) == CASE T = "u8" -> "u8" [] T = "u16" -> "u8" [] T = "u32" -> "u16" [] T = "u64" -> "u32"
                 [] T = "u128" -> "u64" [] T = "u256" -> "u128"

\* Two's-complement wrap of an exact result into T  (v mod 2^n, re-centred for signed T).
\* BUG "wrap_off": wraps modulo 2^n - 1.
Wrap(T, v) ==
    LET n == BitsOf[T]
        u == IF BUG = "wrap_off" THEN ZMod(v, ZSub(ZPow2(n), Z1)) ELSE ZLow(v, n)
    IN IF Signed(T) /\ ZLe(ZPow2(n - 1), u) THEN ZSub(u, ZPow2(n)) ELSE u

\* felt252: a field element is shown as its centred representative in (-P/2, P/2]
\* (the harness prints every felt that way); Canon is the representative in [0, P).
FeltCanon(v) == ZMod(v, PRIME)
FeltCentre(v) == LET c == FeltCanon(v) IN IF ZLt(HALFP, c) THEN ZSub(c, PRIME) ELSE c
\* cheap forms when |v| < 2P (sums and differences of centred representatives)
FeltCentreNear(v) == IF ZLt(HALFP, v) THEN ZSub(v, PRIME)
                     ELSE IF ZLt(v, ZNeg(HALFP)) THEN ZAdd(v, PRIME) ELSE v

\* A value of type T as the sequence of felt-sized cells in which Cairo passes/returns it:
\* u256 = (low, high) u128 limbs, u512 = four u128 limbs, everything else one cell.
Flat(T, v) ==
    CASE T = "u256" -> <<ZLow(v, 128), ZShr(v, 128)>>
      [] T = "u512" -> <<ZLow(v, 128), ZLow(ZShr(v, 128), 128), ZLow(ZShr(v, 256), 128), ZShr(v, 384)>>
      [] T = "felt252" -> <<FeltCentre(v)>>
      [] OTHER -> <<v>>
Cells(T) == CASE T = "u256" -> 2 [] T = "u512" -> 4 [] OTHER -> 1
\* inverse: compose a value from its cells (each u128 cell must be in range)
U128OK(c) == c.s >= 0 /\ ZLe(c, Hi("u128"))
Compose(T, cs) ==
    CASE T = "u256" -> ZAdd(cs[1], ZMul(cs[2], ZPow2(128)))
      [] T = "u512" -> ZAdd(ZAdd(cs[1], ZMul(cs[2], ZPow2(128))),
                            ZAdd(ZMul(cs[3], ZPow2(256)), ZMul(cs[4], ZPow2(384))))
      [] OTHER -> cs[1]
CellsOK(T, cs) == Len(cs) = Cells(T) /\
    (CASE T \in WideTypes -> \A i \in 1..Len(cs) : U128OK(cs[i])
       [] T = "felt252" -> ZLt(ZNeg(PRIME), cs[1]) /\ ZLt(cs[1], PRIME)
       [] T = "bool" -> cs[1] \in {Z0, Z1}
       [] OTHER -> InRange(T, cs[1]))
ZeroCells(T) == [i \in 1..Cells(T) |-> Z0]

-----------------------------------------------------------------------------
(* Outcomes.  Ok(cells) | Panic(class) | NA (operation not defined on the operands). *)
(* class: "ovf" result above the range, "unf" below, "div0" division by zero, "range"  *)
(* = out of range where corelib's panic string does not name a direction              *)
(* ('u8_sub Overflow', 'i8_mul Overflow', 'i8_neg Underflow' are all just "range").   *)

Ok(cs) == [t |-> "ok", r |-> cs]
Panic(c) == [t |-> "panic", c |-> c]
NA == [t |-> "na"]

Fit(T, e) == IF InRange(T, e) THEN Ok(Flat(T, e)) ELSE Panic("range")
\* signed add / sub report the direction (SignedIntegerResult::{Underflow, Overflow})
FitD(T, e) == IF InRange(T, e) THEN Ok(Flat(T, e))
              ELSE IF ~Signed(T) THEN Panic("range")
              ELSE Panic(IF ZLt(Hi(T), e) THEN "ovf" ELSE "unf")

Exact(op, x, y) == CASE op = "add" -> ZAdd(x, y) [] op = "sub" -> ZSub(x, y) [] op = "mul" -> ZMul(x, y)

\* integer square root for small operands (tables); wide operands are checked by RelSqrt
SqrtSmall(x) == LET n == ZToInt(x) IN ZInt(CHOOSE s \in 0..B : s * s <= n /\ n < (s + 1) * (s + 1))

RECURSIVE ZPowNat(_, _)
ZPowNat(x, n) == IF n = 0 THEN Z1 ELSE ZMul(x, ZPowNat(x, n - 1))
\* x^n computed only while it can still fit T (|x| >= 2 grows monotonically)
RECURSIVE PowFit(_, _, _, _)
PowFit(T, x, n, acc) == IF n = 0 THEN Fit(T, acc)
                        ELSE IF ~InRange(T, acc) THEN Fit(T, acc)
                        ELSE PowFit(T, x, n - 1, ZMul(acc, x))

DivQ(x, y) == IF BUG = "floor_div" THEN ZDivF(x, y) ELSE ZDivT(x, y)
DivR(x, y) == IF BUG = "floor_div" THEN ZSub(x, ZMul(ZDivF(x, y), y)) ELSE ZRemT(x, y)
MinOvf(T, x, y) == BUG # "no_min_ovf" /\ Signed(T) /\ ZEq(x, Lo(T)) /\ ZEq(y, ZM1)

BinArith == {"add", "sub", "mul"}
CmpOps == {"eq", "ne", "lt", "le", "gt", "ge"}
BitOps == {"and", "or", "xor"}

CmpHolds(op, x, y) == LET c == ZCmp(x, y) IN
    CASE op = "eq" -> c = 0 [] op = "ne" -> c # 0 [] op = "lt" -> c < 0
      [] op = "le" -> c <= 0 [] op = "gt" -> c > 0 [] op = "ge" -> c >= 0

\* Conversions.  felt252 -> signed T reads the field element as c or c - P, whichever is in range.
ConvSrcVal(S, x) == IF S = "felt252" THEN FeltCanon(x) ELSE x
ConvFits(S, T, x) ==
    LET c == ConvSrcVal(S, x) IN
    IF T = "felt252" THEN (S \in STypes) \/ (ZLe(Z0, c) /\ ZLt(c, PRIME))
    ELSE IF S = "felt252" /\ Signed(T) THEN InRange(T, c) \/ InRange(T, ZSub(c, PRIME))
    ELSE InRange(T, c)
ConvVal(S, T, x) ==
    LET c == ConvSrcVal(S, x) IN
    IF S = "felt252" /\ Signed(T) /\ ~InRange(T, c) THEN ZSub(c, PRIME) ELSE c

(***************************************************************************)
(* Math(op, T, U, x, y): the outcome of operation `op` on type T.          *)
(* Unary operations ignore y.  U is the target type of the conversions     *)
(* "into" / "try_into" (ignored otherwise).  "pow" takes y as the usize    *)
(* exponent.  Operation names are atoms for TLC (strings cannot be         *)
(* sliced), so the arithmetic base of a variant is given by BaseOf.        *)
(***************************************************************************)
OvfOps == {"overflowing_add", "overflowing_sub", "overflowing_mul"}
WrapOps == {"wrapping_add", "wrapping_sub", "wrapping_mul"}
ChkOps == {"checked_add", "checked_sub", "checked_mul"}
SatOps == {"saturating_add", "saturating_sub", "saturating_mul"}
BaseOf(op) == CASE op \in {"add", "overflowing_add", "wrapping_add", "checked_add", "saturating_add"} -> "add"
                [] op \in {"sub", "overflowing_sub", "wrapping_sub", "checked_sub", "saturating_sub"} -> "sub"
                [] op \in {"mul", "overflowing_mul", "wrapping_mul", "checked_mul", "saturating_mul"} -> "mul"

IntegerMath(op, T, x, y) ==
    CASE op \in {"add", "sub"} -> FitD(T, Exact(op, x, y))
      [] op = "mul" -> Fit(T, Exact(op, x, y))
      [] op = "div" ->
            IF y.s = 0 THEN Panic("div0") ELSE IF MinOvf(T, x, y) THEN Panic("ovf") ELSE Ok(Flat(T, DivQ(x, y)))
      [] op = "rem" ->
            \* corelib computes `%` through DivRem, so MIN % -1 fails like MIN / -1 (as in Rust)
            IF y.s = 0 THEN Panic("div0") ELSE IF MinOvf(T, x, y) THEN Panic("ovf") ELSE Ok(Flat(T, DivR(x, y)))
      [] op = "divrem" ->    \* DivRem::div_rem(x, NonZero y): (1, q, r); (0, 0, 0) when no NonZero exists
            IF y.s = 0 THEN Ok(<<Z0>> \o ZeroCells(T) \o ZeroCells(T))
            ELSE IF MinOvf(T, x, y) THEN Panic("ovf")
            ELSE Ok(<<Z1>> \o Flat(T, DivQ(x, y)) \o Flat(T, DivR(x, y)))
      [] op \in OvfOps ->
            LET e == Exact(BaseOf(op), x, y)
            IN Ok(Flat(T, Wrap(T, e)) \o <<ZBool(~InRange(T, e))>>)
      [] op \in WrapOps -> Ok(Flat(T, Wrap(T, Exact(BaseOf(op), x, y))))
      [] op \in ChkOps ->
            LET e == Exact(BaseOf(op), x, y)
            IN IF InRange(T, e) THEN Ok(<<Z1>> \o Flat(T, e)) ELSE Ok(<<Z0>> \o ZeroCells(T))
      [] op \in SatOps ->
            \* saturate towards the side that was exceeded (unsigned sub: MIN = 0)
            LET e == Exact(BaseOf(op), x, y)
            IN Ok(Flat(T, IF InRange(T, e) THEN e
                          ELSE IF ZLt(Hi(T), e) THEN Hi(T)
                          ELSE IF BUG = "sat_sub" THEN Hi(T) ELSE Lo(T)))
      [] op = "wide_mul" -> Ok(Flat(Wider(T), ZMul(x, y)))
      [] op = "wide_square" -> Ok(Flat(Wider(T), ZMul(x, x)))
      [] op \in CmpOps -> Ok(<<ZBool(CmpHolds(op, x, y))>>)
      [] op \in BitOps -> Ok(Flat(T, ZBitOp(x, y, op)))
      [] op = "not" -> Ok(Flat(T, ZSub(Hi(T), x)))
      [] op = "neg" -> Fit(T, ZNeg(x))
      [] op = "sqrt" -> Ok(<<SqrtSmall(x)>>)
      [] op = "pow" -> PowFit(T, x, ZToInt(y), Z1)
      [] OTHER -> NA

FeltMath(op, x, y) ==
    CASE op \in {"add", "sub"} -> Ok(<<FeltCentreNear(Exact(op, x, y))>>)
      [] op = "mul" -> Ok(<<FeltCentre(ZMul(x, y))>>)
      [] op = "neg" -> Ok(<<FeltCentreNear(ZNeg(x))>>)
      [] op \in {"eq", "ne"} -> Ok(<<ZBool(CmpHolds(op, FeltCanon(x), FeltCanon(y)))>>)
      [] op = "pow" -> Ok(<<FeltCentre(ZPowNat(x, ZToInt(y)))>>)
      [] OTHER -> NA

BoolMath(op, x, y) ==
    CASE op \in BitOps -> Ok(<<ZBitOp(x, y, op)>>)
      [] op = "not" -> Ok(<<ZSub(Z1, x)>>)
      [] op \in {"eq", "ne"} -> Ok(<<ZBool(CmpHolds(op, x, y))>>)
      [] OTHER -> NA

ConvMath(kind, S, T, x) ==
    IF kind = "into" THEN (IF ConvFits(S, T, x) THEN Ok(Flat(T, ConvVal(S, T, x))) ELSE NA)
    ELSE IF ConvFits(S, T, x) THEN Ok(<<Z1>> \o Flat(T, ConvVal(S, T, x)))
    ELSE Ok(<<Z0>> \o ZeroCells(T))

Math(op, T, U, x, y) ==
    IF op \in {"into", "try_into"} THEN ConvMath(op, T, U, x)
    ELSE IF T = "felt252" THEN FeltMath(op, x, y)
    ELSE IF T = "bool" THEN BoolMath(op, x, y)
    ELSE IntegerMath(op, T, x, y)

-----------------------------------------------------------------------------
(* Relational acceptors: check a claimed result without computing it.        *)

\* q, r is the truncating quotient / remainder of x by d (d # 0):
\* q*d + r = x, |r| < |d|, r = 0 or sign(r) = sign(x).  These three facts determine (q, r).
RelDivRem(x, d, q, r) ==
    /\ d.s # 0
    /\ ZEq(ZAdd(ZMul(q, d), r), x)
    /\ ZLt(ZAbs(r), ZAbs(d))
    /\ (r.s = 0 \/ r.s = x.s)

\* s = floor(sqrt(x)).  BUG "sqrt_lax" forgets the upper bound.
RelSqrt(x, s) ==
    /\ s.s >= 0
    /\ ZLe(ZMul(s, s), x)
    /\ (BUG = "sqrt_lax" \/ ZLt(x, ZMul(ZAdd(s, Z1), ZAdd(s, Z1))))

\* out is the centred representative of e modulo P, with witness k: e = out + k*P
RelFeltIs(e, out, k) ==
    /\ ZLt(ZNeg(HALFP), ZAdd(out, Z1)) /\ ZLe(out, HALFP)       \* -HALFP <= out <= HALFP
    /\ ZEq(ZAdd(out, ZMul(k, PRIME)), e)

\* out = e mod n in [0, n) with witness k: e = out + k*n  (n > 0)
RelModIs(e, n, out, k) ==
    /\ out.s >= 0 /\ ZLt(out, n)
    /\ ZEq(ZAdd(out, ZMul(k, n)), e)

=============================================================================

CONSTANT BUG = "none"
CONSTANT TIER = "thorough"
INIT Init
NEXT Next
INVARIANT RowOK
INVARIANT Emit
CHECK_DEADLOCK FALSE

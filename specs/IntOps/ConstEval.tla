----------------------------- MODULE ConstEval -----------------------------
(***************************************************************************)
(* What a constant expression denotes (C07): expression trees over         *)
(* literals, evaluated with the IntOps mathematics, left to right, with    *)
(* failure propagation and lazy `if` / `&&` / `||`.  The same denotation   *)
(* is required of a `const` item (semantic const evaluator), of the        *)
(* run-time execution of the expression on opaque arguments, and of the    *)
(* expression with literals inlined, with const folding on and off.        *)
(*                                                                         *)
(* TLC enumerates every expression of the bounded grammar below (depth <=  *)
(* 2 over the const-evaluable operators - constant.rs validate /           *)
(* evaluate_function_call and the constant-evaluation page of the          *)
(* reference) x boundary operand tuples per type, evaluates it and emits   *)
(*   {k:"const", id, e: <AST>, ty: <type tree>, exp: {t:"v", v: cells} |   *)
(*                                                   {t:"fail", why}}      *)
(* AST nodes: lit{ty,v} blit{v} bin{op,l,r} land/lor{l,r} un{op,e}         *)
(* divrem{ty,l,d,sel} conv{kind,from,to,e} if{c,a,b} tup{es} fld{e,i}      *)
(* some{e,d} call{f,ty,args}.                                              *)
(***************************************************************************)
EXTENDS IntOps, Json, TLC, FiniteSets

CONSTANT TIER        \* "quick" | "thorough"

VARIABLES ex, phase

(* ---------------------------------------------------------------- values *)
IntV(T, z) == [k |-> "i", ty |-> T, v |-> z]
BoolV(b) == [k |-> "b", v |-> b]
TupV(es) == [k |-> "t", es |-> es]
V(x) == [t |-> "v", v |-> x]
Fail(w) == [t |-> "fail", why |-> w]

\* the IntOps outcome of one operator application as a signal carrying a value of the right shape; a
\* failure records the failing application (operator, operand type, operand values) for reporting
OfMath(m, T, shape, at) ==
    IF m.t = "panic" THEN [t |-> "fail", why |-> m.c, at |-> at]
    ELSE CASE shape = "int" -> V(IntV(T, Compose(T, m.r)))
           [] shape = "bool" -> V(BoolV(m.r[1] = Z1))
           \* (1, v) | (0, 0..)  ->  (bool, T)
           [] shape = "opt" -> V(TupV(<<BoolV(m.r[1] = Z1), IntV(T, Compose(T, SubSeq(m.r, 2, Len(m.r))))>>))
           \* (1, q, r)  ->  (T, T)
           [] shape = "qr" -> V(TupV(<<IntV(T, Compose(T, SubSeq(m.r, 2, 1 + Cells(T)))),
                                       IntV(T, Compose(T, SubSeq(m.r, 2 + Cells(T), 1 + 2 * Cells(T))))>>))

MathSig(op, S, U, x, y, T, shape) == OfMath(Math(op, S, U, x, y), T, shape, [op |-> op, ty |-> S, x |-> x, y |-> y])

ArithOps == {"add", "sub", "mul", "div", "rem"}

Apply2(op, a, b) ==
    IF a.k = "b"
    THEN V(BoolV(CASE op = "and" -> a.v /\ b.v [] op = "or" -> a.v \/ b.v [] op = "xor" -> a.v # b.v
                   [] op = "eq" -> a.v = b.v [] op = "ne" -> a.v # b.v))
    ELSE MathSig(op, a.ty, "", a.v, b.v, a.ty, IF op \in CmpOps THEN "bool" ELSE "int")

\* const fn bodies (rendered by the harness from the same names)
RECURSIVE Fact(_, _)
Fact(T, n) == IF n.s = 0 THEN V(IntV(T, Z1))
              ELSE LET r == Fact(T, ZSub(n, Z1))
                   IN IF r.t = "fail" THEN r ELSE MathSig("mul", T, "", n, r.v.v, T, "int")
CallFn(f, T, args) ==
    CASE f = "sq" -> MathSig("mul", T, "", args[1].v, args[1].v, T, "int")                \* x * x
      [] f = "mad" -> LET p == MathSig("mul", T, "", args[1].v, args[2].v, T, "int")       \* x * y + z
                      IN IF p.t = "fail" THEN p ELSE MathSig("add", T, "", p.v.v, args[3].v, T, "int")
      [] f = "pick" -> V(IF args[1].v THEN args[2] ELSE args[3])                                \* if c { a } else { b }
      [] f = "safe_div" -> IF args[2].v.s = 0 THEN V(IntV(T, Z0))                               \* if y == 0 { 0 } else { x / y }
                           ELSE MathSig("div", T, "", args[1].v, args[2].v, T, "int")
      [] f = "fact" -> Fact(T, args[1].v)                                                       \* recursion
      [] f = "pow" -> MathSig("pow", T, "", args[1].v, args[2].v, T, "int")                \* core Pow::pow

RECURSIVE Eval(_), EvalSeq(_, _, _)
\* left-to-right evaluation of a sequence of expressions; first failure wins
EvalSeq(es, i, acc) ==
    IF i > Len(es) THEN V(acc)
    ELSE LET r == Eval(es[i]) IN IF r.t = "fail" THEN r ELSE EvalSeq(es, i + 1, Append(acc, r.v))
Eval(e) ==
    CASE e.k = "lit" -> V(IntV(e.ty, IF e.ty = "felt252" THEN FeltCentre(e.v) ELSE e.v))
      [] e.k = "blit" -> V(BoolV(e.v))
      [] e.k = "bin" -> LET a == EvalSeq(<<e.l, e.r>>, 1, <<>>)
                        IN IF a.t = "fail" THEN a ELSE Apply2(e.op, a.v[1], a.v[2])
      [] e.k = "land" -> LET l == Eval(e.l) IN IF l.t = "fail" \/ ~l.v.v THEN l ELSE Eval(e.r)
      [] e.k = "lor" -> LET l == Eval(e.l) IN IF l.t = "fail" \/ l.v.v THEN l ELSE Eval(e.r)
      [] e.k = "un" -> LET a == Eval(e.e)
                       IN IF a.t = "fail" THEN a
                          ELSE IF e.op = "not" THEN V(BoolV(~a.v.v))
                          ELSE MathSig("neg", a.v.ty, "", a.v.v, Z0, a.v.ty, "int")
      \* DivRem::div_rem(l, d) with d a NonZero literal; sel picks the quotient (1) or the remainder (2)
      [] e.k = "divrem" -> LET a == Eval(e.l)
                           IN IF a.t = "fail" THEN a
                              ELSE LET qr == MathSig("divrem", e.ty, "", a.v.v, e.d, e.ty, "qr")
                                   IN IF qr.t = "fail" THEN qr ELSE V(qr.v.es[e.sel])
      [] e.k = "conv" -> LET a == Eval(e.e)
                         IN IF a.t = "fail" THEN a
                            ELSE MathSig(e.kind, e.from, e.to, a.v.v, Z0, e.to,
                                        IF e.kind = "into" THEN "int" ELSE "opt")
      [] e.k = "if" -> LET c == Eval(e.c) IN IF c.t = "fail" THEN c ELSE IF c.v.v THEN Eval(e.a) ELSE Eval(e.b)
      [] e.k = "tup" -> LET a == EvalSeq(e.es, 1, <<>>) IN IF a.t = "fail" THEN a ELSE V(TupV(a.v))
      [] e.k = "fld" -> LET a == Eval(e.e) IN IF a.t = "fail" THEN a ELSE V(a.v.es[e.i])
      \* match Option::Some(e) { Some(v) => v, None => d }
      [] e.k = "some" -> Eval(e.e)
      [] e.k = "call" -> LET a == EvalSeq(e.args, 1, <<>>) IN IF a.t = "fail" THEN a ELSE CallFn(e.f, e.ty, a.v)

\* static type of an expression, as a tree: "bool" | an integer type name | <<component types>>
RECURSIVE TypeOf(_)
TypeOf(e) ==
    CASE e.k = "lit" -> e.ty
      [] e.k = "blit" -> "bool"
      [] e.k = "bin" -> IF e.op \in CmpOps THEN "bool" ELSE TypeOf(e.l)
      [] e.k \in {"land", "lor"} -> "bool"
      [] e.k = "un" -> TypeOf(e.e)
      [] e.k = "divrem" -> e.ty
      [] e.k = "conv" -> IF e.kind = "into" THEN e.to ELSE <<"bool", e.to>>
      [] e.k = "if" -> TypeOf(e.a)
      [] e.k = "tup" -> [i \in 1..Len(e.es) |-> TypeOf(e.es[i])]
      [] e.k = "fld" -> TypeOf(e.e)[e.i]
      [] e.k = "some" -> TypeOf(e.e)
      [] e.k = "call" -> IF e.f = "pick" THEN TypeOf(e.args[2]) ELSE e.ty

RECURSIVE FlatVal(_), FlatSeq(_, _)
FlatSeq(es, i) == IF i > Len(es) THEN <<>> ELSE FlatVal(es[i]) \o FlatSeq(es, i + 1)
FlatVal(v) == CASE v.k = "i" -> Flat(v.ty, v.v)
                [] v.k = "b" -> <<ZBool(v.v)>>
                [] v.k = "t" -> FlatSeq(v.es, 1)

(* --------------------------------------------------------- the expressions *)
Lit(T, z) == [k |-> "lit", ty |-> T, v |-> z]
Bin(o, l, r) == [k |-> "bin", op |-> o, l |-> l, r |-> r]
Conv(kd, S, U, e) == [k |-> "conv", kind |-> kd, from |-> S, to |-> U, e |-> e]

Quick == TIER = "quick"
NumTypes == IntTypes \cup {"u256", "felt252"}

\* boundary operands per type (felt252: -1 and P - 1 are both present: distinct literals, one field element)
Bnd(T) ==
    IF T = "felt252"
    THEN {Z0, Z1, ZM1, ZSub(PRIME, Z1), HALFP, ZAdd(HALFP, Z1), ZPow2(128)}
         \cup (IF Quick THEN {} ELSE {ZInt(2), ZInt(-2), ZNeg(ZPow2(128)), ZSub(ZPow2(128), Z1), ZPow2(251), ZNeg(HALFP)})
    ELSE LET n == BitsOf[T]
             base == {Lo(T), Hi(T), Z0, Z1, ZPow2(n \div 2)} \cup (IF Signed(T) THEN {ZM1} ELSE {ZInt(2)})
             more == {ZInt(3), ZInt(7), ZSub(ZPow2(n \div 2), Z1), ZAdd(ZPow2(n \div 2), Z1), ZSub(Hi(T), ZInt(2)),
                      ZSub(Hi(T), Z1), ZAdd(Lo(T), Z1)}
                        \cup (IF Signed(T) THEN {ZNeg(ZPow2(n \div 2)), ZAdd(Lo(T), ZInt(2)), ZInt(2), ZInt(-2)} ELSE {ZPow2(n - 1)})
         IN IF Quick THEN base ELSE base \cup more
\* reduced set for depth-2 shapes
Bnd2(T) == IF T = "felt252" THEN (IF Quick THEN {ZM1, HALFP, ZPow2(128)} ELSE {Z1, ZM1, HALFP, ZPow2(128)})
           ELSE IF Quick THEN {Lo(T), Hi(T)} \cup (IF Signed(T) THEN {ZM1} ELSE {})
           ELSE {Lo(T), Hi(T), Z1, ZInt(2)} \cup (IF Signed(T) THEN {ZM1} ELSE {Z0})

\* operand pairs of the depth-1 binary shape: quick = a list of boundary pairs, thorough = the full square
H2(T) == ZPow2(BitsOf[T] \div 2)
QuickPairs(T) ==
    IF T = "felt252"
    THEN {<<ZM1, Z1>>, <<ZSub(PRIME, Z1), Z1>>, <<HALFP, HALFP>>, <<ZAdd(HALFP, Z1), ZM1>>, <<ZPow2(128), ZPow2(128)>>,
          <<Z0, ZM1>>, <<ZSub(PRIME, Z1), ZM1>>, <<HALFP, Z1>>, <<Z0, Z0>>}
    ELSE IF Signed(T)
    THEN {<<Lo(T), ZM1>>, <<Lo(T), Hi(T)>>, <<Hi(T), Z1>>, <<Hi(T), Hi(T)>>, <<Lo(T), Lo(T)>>, <<Z0, Z0>>, <<ZM1, Lo(T)>>,
          <<Hi(T), ZM1>>, <<Lo(T), Z1>>, <<H2(T), H2(T)>>, <<Z1, Z0>>, <<ZInt(-7), ZInt(2)>>, <<ZInt(7), ZInt(-2)>>}
    ELSE {<<Z0, Z1>>, <<Z0, Hi(T)>>, <<Hi(T), Z1>>, <<Hi(T), Hi(T)>>, <<Z0, Z0>>, <<Hi(T), Z0>>, <<Z1, Hi(T)>>, <<H2(T), H2(T)>>,
          <<Hi(T), ZInt(2)>>, <<ZSub(Hi(T), Z1), Z1>>, <<Z1, Z0>>, <<ZInt(7), ZInt(2)>>}
Pairs(T) == IF Quick THEN QuickPairs(T) ELSE Bnd(T) \X Bnd(T)

OpsOf(T) ==
    IF T = "felt252" THEN {"add", "sub", "mul", "eq", "ne"}
    ELSE IF Signed(T) THEN ArithOps \cup CmpOps
    ELSE ArithOps \cup CmpOps \cup BitOps
InnerOps(T) == IF T = "felt252" THEN {"add", "sub", "mul"} ELSE ArithOps

ConvTargets(S, kd) ==
    {U \in NumTypes :
        IF kd = "into"
        THEN \/ S # U /\ S \in UTypes /\ U \in IntTypes /\ BitsOf[S] < BitsOf[U]
             \/ S \in STypes /\ U \in STypes /\ BitsOf[S] < BitsOf[U]
             \/ S \in IntTypes /\ U = "felt252"
             \/ S \in UTypes /\ U = "u256"
             \/ S = "felt252" /\ U = "u256"
        ELSE \/ S \in IntTypes /\ U \in IntTypes /\ S # U
             \/ S = "felt252" /\ U \in IntTypes
             \/ S = "u256" /\ (U \in UTypes \/ U = "felt252")}

\* Shapes are enumerated by quantification in Init (no materialised set of expressions).
\* depth 1
I1 == \E T \in NumTypes : \E o \in OpsOf(T), p \in Pairs(T) : ex = Bin(o, Lit(T, p[1]), Lit(T, p[2]))
I2 == \E T \in STypes \cup {"felt252"} : \E a \in Bnd(T) : ex = [k |-> "un", op |-> "neg", e |-> Lit(T, a)]
I3 == \E T \in IntTypes \cup {"u256"} : \E p \in {q \in Pairs(T) : q[2] # Z0}, s \in {1, 2} :
         ex = [k |-> "divrem", ty |-> T, l |-> Lit(T, p[1]), d |-> p[2], sel |-> s]
ConvOperands(S, U) == (IF Quick THEN (IF S = "felt252" THEN {ZM1, ZSub(PRIME, Z1), HALFP, ZPow2(128)} ELSE {Lo(S), Hi(S)})
                       ELSE Bnd(S))
                      \cup (IF U = "felt252" \/ S = "felt252" THEN {}
                           ELSE {z \in {Lo(U), Hi(U), ZAdd(Hi(U), Z1), ZSub(Lo(U), Z1)} : InRange(S, z)})
I4 == \E S \in NumTypes, kd \in {"into", "try_into"} : \E U \in ConvTargets(S, kd) : \E a \in ConvOperands(S, U) :
         ex = Conv(kd, S, U, Lit(S, a))
IB == \/ \E o \in BitOps \cup {"eq", "ne"}, a \in BOOLEAN, b \in BOOLEAN :
            ex = [k |-> "bin", op |-> o, l |-> [k |-> "blit", v |-> a], r |-> [k |-> "blit", v |-> b]]
      \/ \E a \in BOOLEAN : ex = [k |-> "un", op |-> "not", e |-> [k |-> "blit", v |-> a]]

\* depth 2
D2Types == IF Quick THEN {"i8", "u128", "felt252"} ELSE NumTypes
Outer(T) == IF Quick THEN InnerOps(T) \cap {"add", "div", "mul"} ELSE InnerOps(T)
Inner(T) == IF Quick THEN InnerOps(T) \cap {"add", "sub", "mul"} ELSE InnerOps(T)
I5 == \E T \in D2Types : \E o1 \in Inner(T), o2 \in Outer(T), a \in Bnd2(T), b \in Bnd2(T), c \in Bnd2(T) :
         ex = Bin(o2, Bin(o1, Lit(T, a), Lit(T, b)), Lit(T, c))
I6 == \E T \in (IF Quick THEN {"i8"} ELSE D2Types) : \E o1 \in Inner(T), o2 \in {"sub", "div", "rem"} \cap InnerOps(T),
                            a \in Bnd2(T), b \in Bnd2(T), c \in Bnd2(T) :
         ex = Bin(o2, Lit(T, c), Bin(o1, Lit(T, a), Lit(T, b)))
\* casts of computed values, and arithmetic on widened values
I7 == \E S \in D2Types :
         \E U \in ConvTargets(S, "try_into") \cap (IF Quick THEN {"u8", "i8", "i64", "u128", "i128"} ELSE NumTypes) :
            \E o \in {"add", "sub", "mul"}, a \in Bnd2(S), b \in Bnd2(S) :
               ex = Conv("try_into", S, U, Bin(o, Lit(S, a), Lit(S, b)))
I8 == \E S \in D2Types :
         \E U \in ConvTargets(S, "into") \cap (IF Quick THEN {"u16", "i16", "u128", "i128", "u256", "felt252"} ELSE NumTypes) :
            \E o \in {"add", "sub", "mul"}, a \in Bnd2(S), b \in Bnd2(S) :
               ex = Bin(o, Conv("into", S, U, Lit(S, a)), Conv("into", S, U, Lit(S, b)))
I9 == \/ \E T \in STypes \cap D2Types : \E o \in {"add", "sub", "mul"}, a \in Bnd2(T), b \in Bnd2(T) :
            ex = [k |-> "un", op |-> "neg", e |-> Bin(o, Lit(T, a), Lit(T, b))]
      \/ \E T \in D2Types \ {"felt252"} : \E c \in {"eq", "lt", "ge"}, o \in {"add", "mul", "rem"},
                                             a \in Bnd2(T), b \in Bnd2(T), d \in {Z0, Hi(T)} :
            ex = Bin(c, Bin(o, Lit(T, a), Lit(T, b)), Lit(T, d))
\* laziness: the branch / operand that is not evaluated may be a failing expression
I10 == \E T \in D2Types \ {"felt252"} : \E c \in {"lt", "eq"}, o \in {"sub", "div", "rem"}, a \in Bnd2(T), b \in Bnd2(T) :
          ex = [k |-> "if", c |-> Bin(c, Lit(T, a), Lit(T, b)), a |-> Bin(o, Lit(T, a), Lit(T, b)),
                b |-> Bin(o, Lit(T, b), Lit(T, a))]
I11 == \E T \in D2Types \ {"felt252"} : \E lk \in {"land", "lor"}, c \in {"ne", "eq"}, o \in {"div", "rem", "add"},
                                           a \in Bnd2(T), b \in Bnd2(T) \cup {Z0} :
          ex = [k |-> lk, l |-> Bin(c, Lit(T, b), Lit(T, Z0)), r |-> Bin("gt", Bin(o, Lit(T, a), Lit(T, b)), Lit(T, Z1))]
\* const fn calls
Call(f, T, args) == [k |-> "call", f |-> f, ty |-> T, args |-> args]
FactArgs(T) == {0, 1, 5, 6, 12, 13, 20, 21, 33, 34, 35} \cap (IF BitsOf[T] = 8 THEN 0..7 ELSE 0..40)
I12 == \/ \E T \in D2Types : \E a \in Bnd(T) : ex = Call("sq", T, <<Lit(T, a)>>)
       \/ \E T \in D2Types : \E a \in Bnd2(T), b \in Bnd2(T) : ex = Call("sq", T, <<Bin("add", Lit(T, a), Lit(T, b))>>)
       \/ \E T \in D2Types : \E a \in Bnd2(T), b \in Bnd2(T), c \in Bnd2(T) : ex = Call("mad", T, <<Lit(T, a), Lit(T, b), Lit(T, c)>>)
       \/ \E T \in D2Types : \E a \in Bnd2(T), b \in Bnd2(T) :
             ex = Call("pick", T, <<Bin("eq", Lit(T, a), Lit(T, b)), Lit(T, a), Lit(T, b)>>)
       \/ \E T \in D2Types \ {"felt252"} : \E a \in Bnd2(T), b \in Bnd2(T) \cup {Z0} : ex = Call("safe_div", T, <<Lit(T, a), Lit(T, b)>>)
       \/ \E T \in D2Types \ {"felt252"} : \E n \in FactArgs(T) : ex = Call("fact", T, <<Lit(T, ZInt(n))>>)
       \/ \E T \in D2Types \ {"felt252"} : \E a \in Bnd2(T) \cup {ZInt(3)}, n \in {0, 1, 2, 3, 7, 8, 64, 127} :
             ex = Call("pow", T, <<Lit(T, a), Lit("u32", ZInt(n))>>)
\* tuples / member access / enum construction + match
I13 == \E T \in D2Types \ {"felt252"} : \E a \in Bnd2(T), b \in Bnd2(T) :
          \/ \E i \in {1, 3}, o \in {"add", "sub"} :
                ex = [k |-> "fld", i |-> i, e |-> [k |-> "tup", es |-> <<Bin(o, Lit(T, a), Lit(T, b)), Lit(T, b),
                                                                       Bin("lt", Lit(T, a), Lit(T, b))>>]]
          \/ ex = [k |-> "tup", es |-> <<Bin("mul", Lit(T, a), Lit(T, b)), Bin("ge", Lit(T, a), Lit(T, b))>>]
          \/ \E o \in {"add", "mul"} : ex = [k |-> "some", e |-> Bin(o, Lit(T, a), Lit(T, b))]

(* ------------------------------------------------------------------ model *)
\* Init enumerates the expressions (cheap), the single step evaluates one (in TLC's worker threads).
Init == phase = "new" /\ (I1 \/ I2 \/ I3 \/ I4 \/ IB \/ I5 \/ I6 \/ I7 \/ I8 \/ I9 \/ I10 \/ I11 \/ I12 \/ I13)
Next == phase = "new" /\ phase' = "done" /\ UNCHANGED ex

Result(e) == LET r == Eval(e) IN IF r.t = "fail" THEN r ELSE [t |-> "v", v |-> FlatVal(r.v)]

Emit == phase = "done" =>
    PrintT(<<"REPLAY", ToJson([k |-> "const", e |-> ex, ty |-> TypeOf(ex), exp |-> Result(ex)])>>)

\* Design sanity: a value inhabits its static type (type preservation of the evaluator).
RECURSIVE Inhabits(_, _)
Inhabits(v, ty) ==
    CASE v.k = "b" -> ty = "bool"
      [] v.k = "i" -> v.ty = ty /\ (IF ty = "felt252" THEN ZLe(ZNeg(HALFP), v.v) /\ ZLe(v.v, HALFP) ELSE InRange(ty, v.v))
      [] v.k = "t" -> Len(v.es) = Len(ty) /\ \A i \in 1..Len(ty) : Inhabits(v.es[i], ty[i])
TypePreservation == phase = "done" => LET r == Eval(ex) IN r.t = "fail" \/ Inhabits(r.v, TypeOf(ex))
=============================================================================

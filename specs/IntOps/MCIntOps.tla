------------------------------ MODULE MCIntOps ------------------------------
(***************************************************************************)
(* Exhaustive tables of IntOps for the 8-bit types (full operand square)   *)
(* and for unary operations / conversions over complete 8- and 16-bit      *)
(* domains, emitted as REPLAY lines (binding R of C06).                     *)
(*                                                                         *)
(* A state is a table row: key = (op, ty, to, mode, blk).  Init enumerates *)
(* the keys (cheap); the single Next step computes the row, so rows are    *)
(* evaluated by TLC's worker threads in parallel; Emit prints it.          *)
(*   mode "bin":  first operand x = Lo(ty) + blk, cells over all y of ty   *)
(*                (pow: exponents 0..POWMAX)                               *)
(*   mode "un":   cells over v = Lo(ty) + 256*blk + j, j in 0..255         *)
(*                (8-bit: one block, 16-bit: 256 blocks; felt252: the      *)
(*                window -32768..32767 of centred representatives)         *)
(* A cell is the outcome as a flat list of integers: the result cells of   *)
(* Math, or <<100000 + class>> for a panic (100000 = out of range without  *)
(* a named direction: matches an observed Overflow or Underflow panic),    *)
(* or <<>> when not applicable.                                            *)
(***************************************************************************)
EXTENDS IntOps, Json, TLC

CONSTANT TIER      \* "quick": conversions from 16-bit / felt252 sources only on the boundary blocks;
                   \* "thorough": every block.  Everything else is identical (and exhaustive) in both.

VARIABLES key, row

POWMAX == 15

U8Bin == BinArith \cup {"div", "rem", "divrem", "wide_mul", "pow"} \cup OvfOps \cup WrapOps \cup ChkOps
           \cup SatOps \cup CmpOps \cup BitOps
I8Bin == BinArith \cup {"div", "rem", "divrem", "wide_mul", "pow"} \cup CmpOps \cup
           {"overflowing_add", "overflowing_sub", "wrapping_add", "wrapping_sub",
            "checked_add", "checked_sub", "saturating_add", "saturating_sub"}
BinOpsOf(T) == IF T = "u8" THEN U8Bin ELSE I8Bin

UnOpsOf(T) == CASE T \in {"u8", "u16"} -> {"not", "sqrt"}
                [] T \in {"i8", "i16"} -> {"neg"}
                [] T = "felt252" -> {"neg"}

Width(T) == BitsOf[T]
\* Into exists: widening that preserves every value
IntoOK(S, U) ==
    \/ S = U /\ S \in IntTypes
    \/ S \in UTypes /\ U \in UTypes /\ Width(S) < Width(U)
    \/ S \in UTypes /\ U \in STypes /\ Width(S) < Width(U)
    \/ S \in STypes /\ U \in STypes /\ Width(S) < Width(U)
    \/ S \in IntTypes /\ U = "felt252"
    \/ S \in UTypes /\ U = "u256"
    \/ S = "felt252" /\ U = "u256"
TryIntoOK(S, U) ==
    \/ S \in IntTypes /\ U \in IntTypes
    \/ S = "felt252" /\ U \in IntTypes
    \/ IntoOK(S, U)

SrcTypes == {"u8", "i8", "u16", "i16", "felt252"}
Blocks(T) == IF Width(T) = 8 THEN {0} ELSE 0..255
\* blocks containing the limits of every target type as seen from a 16-bit source / the felt window
ConvBlocks(T) == IF Width(T) = 8 THEN {0}
                 ELSE IF TIER = "thorough" THEN 0..255
                 ELSE {0, 1, 126, 127, 128, 129, 254, 255}
SrcLo(T) == IF T = "felt252" THEN -32768 ELSE ZToInt(Lo(T))

Keys ==
    {[op |-> o, ty |-> T, to |-> "", mode |-> "bin", blk |-> b] : o \in U8Bin, T \in {"u8"}, b \in 0..255}
    \cup {[op |-> o, ty |-> T, to |-> "", mode |-> "bin", blk |-> b] : o \in I8Bin, T \in {"i8"}, b \in 0..255}
    \cup UNION {{[op |-> o, ty |-> T, to |-> "", mode |-> "un", blk |-> b] : o \in UnOpsOf(T), b \in Blocks(T)}
                  : T \in SrcTypes}
    \cup UNION {{[op |-> "into", ty |-> su[1], to |-> su[2], mode |-> "un", blk |-> b] : b \in ConvBlocks(su[1])}
                  : su \in {su \in (SrcTypes \ {"felt252"}) \X (IntTypes \cup {"u256", "felt252"}) : IntoOK(su[1], su[2])}}
    \cup UNION {{[op |-> "try_into", ty |-> su[1], to |-> su[2], mode |-> "un", blk |-> b] : b \in ConvBlocks(su[1])}
                  : su \in {su \in SrcTypes \X (IntTypes \cup {"u256", "felt252"}) :
                              TryIntoOK(su[1], su[2]) /\ (su[1] = "felt252" => su[2] \in IntTypes)}}

PanicCode(c) == CASE c = "range" -> 100000 [] c = "ovf" -> 100001 [] c = "unf" -> 100002 [] c = "div0" -> 100003
Enc(o) == CASE o.t = "ok" -> [i \in 1..Len(o.r) |-> ZToInt(o.r[i])]
            [] o.t = "panic" -> <<PanicCode(o.c)>>
            [] OTHER -> <<>>

Row(k) ==
    IF k.mode = "bin"
    THEN LET x == ZInt(ZToInt(Lo(k.ty)) + k.blk)
             y0 == IF k.op = "pow" THEN 0 ELSE ZToInt(Lo(k.ty))
             n == IF k.op = "pow" THEN POWMAX + 1 ELSE 256
         IN [j \in 1..n |-> Enc(Math(k.op, k.ty, k.to, x, ZInt(y0 + j - 1)))]
    ELSE LET v0 == SrcLo(k.ty) + 256 * k.blk
         IN [j \in 1..256 |-> Enc(Math(k.op, k.ty, k.to, ZInt(v0 + j - 1), Z0))]

Init == key \in Keys /\ row = <<>>
Next == row = <<>> /\ row' = Row(key) /\ UNCHANGED key

\* what the row means, for the harness: first operand (bin) and the first cell's operand
X0(k) == IF k.mode = "bin" THEN ZToInt(Lo(k.ty)) + k.blk ELSE 0
V0(k) == IF k.mode = "bin" THEN (IF k.op = "pow" THEN 0 ELSE ZToInt(Lo(k.ty))) ELSE SrcLo(k.ty) + 256 * k.blk

Emit == row # <<>> =>
    PrintT(<<"REPLAY", ToJson([k |-> "table", op |-> key.op, ty |-> key.ty, to |-> key.to, mode |-> key.mode,
                               x0 |-> X0(key), v0 |-> V0(key), cells |-> row])>>)

(* Design-level sanity of the mathematics itself, evaluated on every row (anti-vacuity: with a BUG
   variant enabled TLC reports these violated). *)
CellOK(k, x, y, c) ==
    LET T == k.ty IN
    CASE k.op \in {"div", "rem", "divrem"} /\ Len(c) >= 1 /\ c[1] < 100000 /\ y # 0 ->
            \* q*y + r = x, |r| < |y|, r has the sign of x: checked through the two single-result ops
            LET q == IF k.op = "divrem" THEN c[2] ELSE Enc(Math("div", T, "", ZInt(x), ZInt(y)))[1]
                r == IF k.op = "divrem" THEN c[3] ELSE Enc(Math("rem", T, "", ZInt(x), ZInt(y)))[1]
            IN ZToInt(Lo(T)) <= q /\ q <= ZToInt(Hi(T)) /\ q * y + r = x /\ (IF r < 0 THEN -r ELSE r) < (IF y < 0 THEN -y ELSE y) /\ (r = 0 \/ (r < 0) = (x < 0))
      [] k.op \in WrapOps -> ZToInt(Lo(T)) <= c[1] /\ c[1] <= ZToInt(Hi(T))
                             /\ (c[1] - ZToInt(Exact(BaseOf(k.op), ZInt(x), ZInt(y)))) % 256 = 0
      [] k.op \in SatOps -> ZToInt(Lo(T)) <= c[1] /\ c[1] <= ZToInt(Hi(T))
                            /\ (k.op = "saturating_sub" /\ ~Signed(T) /\ x < y => c[1] = 0)
      [] k.op = "sqrt" -> c[1] * c[1] <= x /\ x < (c[1] + 1) * (c[1] + 1)
      [] k.op = "div" /\ Len(c) = 1 /\ c[1] = 100001 -> x = ZToInt(Lo(T)) /\ y = -1
      [] OTHER -> TRUE
RowOK == row # <<>> =>
    \A j \in 1..Len(row) :
        LET x == IF key.mode = "bin" THEN X0(key) ELSE V0(key) + j - 1
            y == IF key.mode = "bin" THEN V0(key) + j - 1 ELSE 0
        IN row[j] = <<>> \/ CellOK(key, x, y, row[j])
=============================================================================

CONSTANT BUG = "none"
CONSTANT TIER = "quick"
INIT Init
NEXT Next
INVARIANT TypePreservation
INVARIANT Emit
CHECK_DEADLOCK FALSE

CONSTANT BUG = "none"
CONSTANT TIER = "quick"
INIT Init
NEXT Next
INVARIANT RowOK
INVARIANT Emit
CHECK_DEADLOCK FALSE

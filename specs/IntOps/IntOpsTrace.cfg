CONSTANT BUG = "none"
INIT Init
NEXT Next
POSTCONDITION Post
CHECK_DEADLOCK FALSE

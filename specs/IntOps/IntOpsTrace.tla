---------------------------- MODULE IntOpsTrace ----------------------------
(***************************************************************************)
(* Acceptor of recorded integer / felt252 operations (binding V of C06).   *)
(*                                                                         *)
(* The harness runs generated Cairo functions on boundary x random         *)
(* operands of the wide types through the real compiler, corelib and VM    *)
(* and records one event per call:                                         *)
(*   [id, op, ty, to, x, y, z : operand cells (sequences of Z),            *)
(*    xt, yt, zt : operand types, out : [t |-> "ok", r |-> cells] |        *)
(*    [t |-> "panic", c |-> class, msg], w : witnesses (sequence of Z)]    *)
(* An event is accepted iff its outcome is the one IntOps defines.  For    *)
(* operations whose definition involves a quotient, remainder, root or     *)
(* modular reduction the claimed result is CHECKED relationally            *)
(* (q*d + r = x /\ |r| < |d| ..., s^2 <= x < (s+1)^2, r + k*n = e ...),    *)
(* with harness-supplied witnesses where a relation needs one; a wrong     *)
(* witness can only cause rejection, never acceptance of a wrong result.   *)
(* One TLC step per event; a rejected event is printed and the run goes on *)
(* so that every event gets a verdict.                                     *)
(***************************************************************************)
EXTENDS IntOps, Json, IOUtils, TLC

Rec == ndJsonDeserialize(IOEnv.TRACE)

VARIABLE i

Val(e, t, cs) == Compose(t, cs)
ArgsOK(e) == CellsOK(e.xt, e.x) /\ (e.yt # "" => CellsOK(e.yt, e.y)) /\ (e.zt # "" => CellsOK(e.zt, e.z))

IsOk(o) == o.t = "ok"
ClassMatch(exp, got) == exp = got \/ (exp = "range" /\ got \in {"ovf", "unf"})
\* the recorded outcome is exactly the computed one
Same(m, o) ==
    CASE m.t = "ok" -> IsOk(o) /\ o.r = m.r
      [] m.t = "panic" -> o.t = "panic" /\ ClassMatch(m.c, o.c)
      [] OTHER -> FALSE

IsPanic(o, c) == o.t = "panic" /\ ClassMatch(c, o.c)
\* result cells of type T at positions from..from+Cells(T)-1 of an ok outcome
Res(o, T, from) == SubSeq(o.r, from, from + Cells(T) - 1)
ResOK(o, T, from) == Len(o.r) >= from + Cells(T) - 1 /\ CellsOK(T, Res(o, T, from))

AcceptDiv(T, x, y, o) ==
    IF y.s = 0 THEN IsPanic(o, "div0")
    ELSE IF MinOvf(T, x, y) THEN IsPanic(o, "ovf")
    ELSE IsOk(o) /\ Len(o.r) = Cells(T) /\ ResOK(o, T, 1) /\
         LET q == Compose(T, Res(o, T, 1)) IN RelDivRem(x, y, q, ZSub(x, ZMul(q, y)))
\* w[1] = claimed quotient
AcceptRem(T, x, y, o, w) ==
    IF y.s = 0 THEN IsPanic(o, "div0")
    ELSE IF MinOvf(T, x, y) THEN IsPanic(o, "ovf")
    ELSE IsOk(o) /\ Len(o.r) = Cells(T) /\ ResOK(o, T, 1) /\ Len(w) = 1 /\ InRange(T, w[1]) /\
         RelDivRem(x, y, w[1], Compose(T, Res(o, T, 1)))
AcceptDivRem(T, x, y, o) ==
    IF y.s = 0 THEN IsOk(o) /\ o.r = <<Z0>> \o ZeroCells(T) \o ZeroCells(T)
    ELSE IF MinOvf(T, x, y) THEN IsPanic(o, "ovf")
    ELSE IsOk(o) /\ Len(o.r) = 1 + 2 * Cells(T) /\ o.r[1] = Z1 /\ ResOK(o, T, 2) /\ ResOK(o, T, 2 + Cells(T)) /\
         RelDivRem(x, y, Compose(T, Res(o, T, 2)), Compose(T, Res(o, T, 2 + Cells(T))))
AcceptSqrt(T, x, o) ==
    IsOk(o) /\ Len(o.r) = 1 /\ InRange(SqrtType(T), o.r[1]) /\ RelSqrt(x, o.r[1])

\* felt252: out is the centred representative of e, witness k = (e - out) / P
AcceptFelt(e, o, w) == IsOk(o) /\ Len(o.r) = 1 /\ Len(w) = 1 /\ RelFeltIs(e, o.r[1], w[1])
\* x / y in the field: (1, q) with q*y = x (mod P); (0, 0) for y = 0
AcceptFDiv(x, y, o, w) ==
    IF FeltCanon(y).s = 0 THEN IsOk(o) /\ o.r = <<Z0, Z0>>
    ELSE IsOk(o) /\ Len(o.r) = 2 /\ o.r[1] = Z1 /\ Len(w) = 1 /\
         ZLe(ZNeg(HALFP), o.r[2]) /\ ZLe(o.r[2], HALFP) /\
         ZEq(ZSub(ZMul(o.r[2], y), x), ZMul(w[1], PRIME))

\* u512 / u256: (1, q as 4 limbs, r as 2 limbs) | (0, ...) for a zero divisor
AcceptDiv512(x, y, o) ==
    IF y.s = 0 THEN IsOk(o) /\ o.r = <<Z0>> \o ZeroCells("u512") \o ZeroCells("u256")
    ELSE IsOk(o) /\ Len(o.r) = 7 /\ o.r[1] = Z1 /\ ResOK(o, "u512", 2) /\ ResOK(o, "u256", 6) /\
         RelDivRem(x, y, Compose("u512", Res(o, "u512", 2)), Compose("u256", Res(o, "u256", 6)))

\* (x * y) mod n: w[1] = k with x*y = r + k*n
AcceptMulModN(x, y, n, o, w) ==
    IF n.s = 0 THEN IsOk(o) /\ o.r = <<Z0, Z0, Z0>>
    ELSE IsOk(o) /\ Len(o.r) = 3 /\ o.r[1] = Z1 /\ ResOK(o, "u256", 2) /\ Len(w) = 1 /\
         RelModIs(ZMul(x, y), n, Compose("u256", Res(o, "u256", 2)), w[1])

\* b is invertible modulo n with inverse v (0 < v < n): v*b = 1 + k*n
Inverse(b, n, v, k) == v.s > 0 /\ ZLt(v, n) /\ k.s >= 0 /\ ZEq(ZMul(v, b), ZAdd(Z1, ZMul(k, n)))
\* b is not invertible modulo n: n = 1, or a common factor g > 1: b = g*b1, n = g*n1
NotInvertible(b, n, g, b1, n1) ==
    ZEq(n, Z1) \/ (ZLt(Z1, g) /\ ZEq(b, ZMul(g, b1)) /\ ZEq(n, ZMul(g, n1)))
\* x^-1 mod n: (1, v) | (2, 0) not invertible | (0, 0) n = 0.   w = <<k>> or <<g, b1, n1>>
AcceptInvMod(x, n, o, w) ==
    IF n.s = 0 THEN IsOk(o) /\ o.r = <<Z0, Z0, Z0>>
    ELSE IsOk(o) /\ Len(o.r) = 3 /\
         \/ o.r[1] = Z1 /\ ResOK(o, "u256", 2) /\ Len(w) = 1 /\ Inverse(x, n, Compose("u256", Res(o, "u256", 2)), w[1])
         \/ o.r = <<ZInt(2), Z0, Z0>> /\ Len(w) = 3 /\ NotInvertible(x, n, w[1], w[2], w[3])
\* x / y mod n = x * y^-1 mod n.  w = <<v, kv, k>> (inverse of y, its witness, reduction witness) or <<g, b1, n1>>
AcceptDivModN(x, y, n, o, w) ==
    IF n.s = 0 THEN IsOk(o) /\ o.r = <<Z0, Z0, Z0>>
    ELSE IsOk(o) /\ Len(o.r) = 3 /\
         \/ o.r[1] = Z1 /\ ResOK(o, "u256", 2) /\ Len(w) = 3 /\ Inverse(y, n, w[1], w[2]) /\
            RelModIs(ZMul(x, w[1]), n, Compose("u256", Res(o, "u256", 2)), w[3])
         \/ o.r = <<ZInt(2), Z0, Z0>> /\ Len(w) = 3 /\ NotInvertible(y, n, w[1], w[2], w[3])

Accept(e) ==
    /\ ArgsOK(e)
    /\ LET T == e.ty
           x == Compose(e.xt, e.x)
           y == IF e.yt = "" THEN Z0 ELSE Compose(e.yt, e.y)
           z == IF e.zt = "" THEN Z0 ELSE Compose(e.zt, e.z)
           o == e.out
       IN CASE e.op = "div" /\ T # "felt252" -> AcceptDiv(T, x, y, o)
            [] e.op = "rem" -> AcceptRem(T, x, y, o, e.w)
            [] e.op = "divrem" -> AcceptDivRem(T, x, y, o)
            [] e.op = "sqrt" -> AcceptSqrt(T, x, o)
            [] e.op = "mul" /\ T = "felt252" -> AcceptFelt(ZMul(x, y), o, e.w)
            [] e.op = "fdiv" -> AcceptFDiv(x, y, o, e.w)
            [] e.op = "div512" -> AcceptDiv512(x, y, o)
            [] e.op = "mul_mod_n" -> AcceptMulModN(x, y, z, o, e.w)
            [] e.op = "inv_mod" -> AcceptInvMod(x, y, o, e.w)
            [] e.op = "div_mod_n" -> AcceptDivModN(x, y, z, o, e.w)
            [] OTHER -> Same(Math(e.op, T, e.to, x, y), o)

Init == i = 1
Next == /\ i <= Len(Rec)
        /\ i' = i + 1
        /\ (Accept(Rec[i]) \/ PrintT(<<"REJECT", ToJson([id |-> Rec[i].id])>>))

\* every event was given a verdict
Post == TLCGet("stats").diameter = Len(Rec) + 1
=============================================================================

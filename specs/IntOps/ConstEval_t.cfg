CONSTANT BUG = "none"
CONSTANT TIER = "thorough"
INIT Init
NEXT Next
INVARIANT TypePreservation
INVARIANT Emit
CHECK_DEADLOCK FALSE

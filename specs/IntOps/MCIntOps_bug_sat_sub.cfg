CONSTANT BUG = "sat_sub"
CONSTANT TIER = "quick"
INIT Init
NEXT Next
INVARIANT RowOK
CHECK_DEADLOCK FALSE

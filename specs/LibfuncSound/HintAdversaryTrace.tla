--------------------------- MODULE HintAdversaryTrace ---------------------------
(* Trace acceptor for the event log of `hint_adversary attack`:                                   *)
(*   {e:"honest", id, res, occs}  {e:"inject", id, occ, c, c2, kind, j}  {e:"outcome", id, k, res} *)
(* Every injection must be a plan of HintAdversary!PlansOfOcc for an occurrence of the current    *)
(* honest run; the invariant is C03: an outcome "ok" carries the honest result.                   *)
(* (k = "opaque": results differ only in parts that have no content reading - diagnostic.)        *)
EXTENDS Integers, Sequences, FiniteSets, TLC, Json, IOUtils
CONSTANTS NCells, BUG
VARIABLES phase, honest, altered, outcome, prog, i, cur, inj, last
INSTANCE HintAdversary

Rec == ndJsonDeserialize(IOEnv.TRACE)

NoRun == [id |-> "", res |-> "", occs |-> <<>>]
NoPlan == [occ |-> -1, c |-> 0, c2 |-> 0, kind |-> "", j |-> 0]

tvars == <<phase, honest, altered, outcome, prog>>

TInit ==
    /\ i = 1 /\ cur = NoRun /\ inj = NoPlan /\ last = [k |-> "none", res |-> ""]
    /\ phase = "trace" /\ honest = {} /\ altered = {} /\ outcome = "none" /\ prog = [pinned |-> {}, influence |-> {}]

HonestEv ==
    LET e == Rec[i] IN
    /\ e.e = "honest" /\ inj = NoPlan
    /\ cur' = [id |-> e.id, res |-> e.res, occs |-> e.occs]
    /\ last' = [k |-> "none", res |-> ""]
    /\ UNCHANGED inj

InjectEv ==
    LET e == Rec[i]
        p == [occ |-> e.occ, c |-> e.c, c2 |-> e.c2, kind |-> e.kind, j |-> e.j] IN
    /\ e.e = "inject" /\ inj = NoPlan /\ cur # NoRun /\ e.id = cur.id
    /\ ValidPlan(p, cur.occs)
    /\ inj' = p
    /\ last' = [k |-> "none", res |-> ""]
    /\ UNCHANGED cur

OutcomeEv ==
    LET e == Rec[i] IN
    /\ e.e = "outcome" /\ inj # NoPlan /\ e.id = cur.id
    /\ e.k \in {"fail", "ok", "opaque"}
    /\ last' = [k |-> e.k, res |-> e.res]
    /\ inj' = NoPlan
    /\ UNCHANGED cur

TNext ==
    /\ i <= Len(Rec)
    /\ (HonestEv \/ InjectEv \/ OutcomeEv)
    /\ i' = i + 1
    /\ UNCHANGED tvars

\* C03: Ok(result') => result' = result
Sound == last.k = "ok" => last.res = cur.res

Accepted == TLCGet("stats").diameter - 1 = Len(Rec)
=============================================================================

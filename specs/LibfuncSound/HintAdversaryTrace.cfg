CONSTANTS
  NCells = 1
  BUG = FALSE
INIT TInit
NEXT TNext
INVARIANT Sound
POSTCONDITION Accepted
CHECK_DEADLOCK FALSE

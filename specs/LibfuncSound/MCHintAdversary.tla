--------------------------- MODULE MCHintAdversary ---------------------------
EXTENDS HintAdversary, TLC
\* every plan of an occurrence is well formed (cells within the occurrence, inputs within nin)
TestOccs == {[i |-> 3, nout |-> n, bools |-> b, nin |-> m] : n \in 1..3, m \in 0..2, b \in {<<0, 0, 0>>, <<1, 0, 1>>}}
PlansWellFormed ==
    \A o \in TestOccs : \A p \in PlansOfOcc(o) :
        /\ p.c \in 1..o.nout /\ p.c2 \in {0} \cup (2..o.nout) /\ p.j \in 0..o.nin
        /\ (p.kind = "flip" => o.bools[p.c] = 1)
        /\ ValidPlan(p, <<o>>)
ASSUME PlansWellFormed
=============================================================================

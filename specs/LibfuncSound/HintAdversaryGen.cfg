CONSTANTS
  NCells = 1
  BUG = FALSE
INIT GInit
NEXT GNext
INVARIANT Emit
CHECK_DEADLOCK FALSE

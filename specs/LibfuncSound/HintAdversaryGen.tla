--------------------------- MODULE HintAdversaryGen ---------------------------
(* Generator: reads the honest-run records written by `hint_adversary record` and emits, per run, *)
(* the complete fault-plan set of its selected hint occurrences as one REPLAY line.               *)
EXTENDS Integers, Sequences, FiniteSets, TLC, Json, IOUtils, SequencesExt
CONSTANTS NCells, BUG
VARIABLES phase, honest, altered, outcome, prog, n
INSTANCE HintAdversary

Runs == ndJsonDeserialize(IOEnv.RUNS)

PlansOfRun(r) == UNION {PlansOfOcc(r.occs[k]) : k \in 1..Len(r.occs)}

GInit == n = 0 /\ phase = "gen" /\ honest = {} /\ altered = {} /\ outcome = "none" /\ prog = [pinned |-> {}, influence |-> {}]
GNext == n < Len(Runs) /\ n' = n + 1 /\ UNCHANGED <<phase, honest, altered, outcome, prog>>

Emit ==
    n > 0 =>
        LET r == Runs[n] IN
        PrintT(<<"REPLAY", ToJson([id |-> r.id, plans |-> SetToSeq(PlansOfRun(r))])>>)
=============================================================================

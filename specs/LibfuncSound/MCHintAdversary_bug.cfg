CONSTANTS
  NCells = 3
  BUG = TRUE
INIT DInit
NEXT DNext
INVARIANT SoundDesign

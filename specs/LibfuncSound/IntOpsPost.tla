----------------------------- MODULE IntOpsPost -----------------------------
(***************************************************************************)
(* Mathematical post-conditions of the integer / bounded-int / gas / bool  *)
(* libfuncs, as pure integer formulas over the canonical field values      *)
(* (0 <= v < P) found in the input and output cells of a libfunc wrapper.  *)
(* Written from the corelib documentation (corelib/src/integer.cairo,      *)
(* internal/bounded_int.cairo, gas.cairo, zeroable.cairo, option.cairo,    *)
(* result.cairo), not from the CASM.                                       *)
(*                                                                         *)
(* Conventions of the wrappers (same shape as tests/e2e_test_data/libfuncs)*)
(*   Option<T>:  Some = variant 0 (payload in the last cell), None = 1     *)
(*   Result<T,E>: Ok = 0, Err = 1                                          *)
(*   OptionRev<T>: None = 0, Some = 1                                      *)
(*   IsZeroResult<T>: Zero = 0, NonZero(x) = 1                             *)
(*   bool: False = 0, True = 1                                             *)
(* A value of an integer type with range lo..hi (lo may be negative) is    *)
(* stored as its residue mod P.                                            *)
(***************************************************************************)
EXTENDS Integers

PP == 3618502788666131213697322783095070105623107215331596699973092056135872020481
TWO128 == 340282366920938463463374607431768211456

\* the canonical value a is the residue of some integer of lo..hi  (-P < lo <= hi < P)
InTy(a, lo, hi) == (lo <= a /\ a <= hi) \/ (lo <= a - PP /\ a - PP <= hi)
\* ... and that integer
ToInt(a, lo, hi) == IF lo <= a /\ a <= hi THEN a ELSE a - PP
\* r is the residue of the integer z
Rep(r, z) == r = z \/ r = z + PP \/ r = z - PP

IsBool(a) == a = 0 \/ a = 1

(* ---- unsigned N-bit, B = 2^N ---- *)
UOverflowingAdd(B, a, b, var, val) ==
    \/ (a + b < B /\ var = 0 /\ val = a + b)
    \/ (a + b >= B /\ var = 1 /\ val = a + b - B)

UOverflowingSub(B, a, b, var, val) ==
    \/ (a >= b /\ var = 0 /\ val = a - b)
    \/ (a < b /\ var = 1 /\ val = a - b + B)

EqBool(a, b, r) == r = IF a = b THEN 1 ELSE 0

\* T::try_from(felt252) for a type of range lo..hi
TryFromFelt(lo, hi, v, var, val) ==
    \/ (InTy(v, lo, hi) /\ var = 0 /\ val = v)
    \/ (~InTy(v, lo, hi) /\ var = 1)

IsZeroRes(a, var, val) ==
    \/ (a = 0 /\ var = 0)
    \/ (a # 0 /\ var = 1 /\ val = a)

\* u128s_from_felt252: Narrow(low) = 0, Wide((high, low)) = 1
U128sFromFelt(v, var, high, low) ==
    \/ (v < TWO128 /\ var = 0 /\ low = v)
    \/ (v >= TWO128 /\ var = 1 /\ high * TWO128 + low = v
        /\ low >= 0 /\ low < TWO128 /\ high >= 0 /\ high < TWO128)

\* (q, r) = divmod(a, b), b # 0
DivMod(a, b, q, r) == a = q * b + r /\ r >= 0 /\ r < b /\ q >= 0

\* r = floor(sqrt(v))
Sqrt(v, r) == r >= 0 /\ r * r <= v /\ v < (r + 1) * (r + 1)

WideMul(a, b, r) == r = a * b
WideMul128(a, b, high, low) ==
    high * TWO128 + low = a * b /\ low >= 0 /\ low < TWO128 /\ high >= 0 /\ high < TWO128

(* ---- signed N-bit, lo = -2^(N-1), hi = 2^(N-1)-1, B = 2^N ---- *)
\* SignedIntegerResult observed through a match: tag 0 = InRange, 1 = Underflow, 2 = Overflow
SOverflowingAdd(lo, hi, B, a, b, tag, val) ==
    LET s == ToInt(a, lo, hi) + ToInt(b, lo, hi) IN
    \/ (lo <= s /\ s <= hi /\ tag = 0 /\ Rep(val, s))
    \/ (s < lo /\ tag = 1 /\ Rep(val, s + B))
    \/ (s > hi /\ tag = 2 /\ Rep(val, s - B))

SOverflowingSub(lo, hi, B, a, b, tag, val) ==
    LET s == ToInt(a, lo, hi) - ToInt(b, lo, hi) IN
    \/ (lo <= s /\ s <= hi /\ tag = 0 /\ Rep(val, s))
    \/ (s < lo /\ tag = 1 /\ Rep(val, s + B))
    \/ (s > hi /\ tag = 2 /\ Rep(val, s - B))

\* iN_diff(a, b) -> Result<uN, uN>: Ok(a - b) if a >= b, else Err(a - b + 2^N)
SDiff(lo, hi, B, a, b, var, val) ==
    LET d == ToInt(a, lo, hi) - ToInt(b, lo, hi) IN
    \/ (d >= 0 /\ var = 0 /\ val = d)
    \/ (d < 0 /\ var = 1 /\ val = d + B)

SWideMul(lo, hi, a, b, r) == Rep(r, ToInt(a, lo, hi) * ToInt(b, lo, hi))

(* ---- casts ---- *)
Upcast(a, r) == r = a

\* downcast from an integer type slo..shi to dlo..dhi (integer semantics)
Downcast(slo, shi, dlo, dhi, a, var, val) ==
    LET z == ToInt(a, slo, shi) IN
    \/ (dlo <= z /\ z <= dhi /\ var = 0 /\ val = a)
    \/ (~(dlo <= z /\ z <= dhi) /\ var = 1)

\* downcast from felt252 (a residue): succeeds iff the residue has a representative in dlo..dhi
DowncastFelt(dlo, dhi, a, var, val) == TryFromFelt(dlo, dhi, a, var, val)

(* ---- bounded ints ---- *)
BAdd(alo, ahi, blo, bhi, a, b, r) == Rep(r, ToInt(a, alo, ahi) + ToInt(b, blo, bhi))
BSub(alo, ahi, blo, bhi, a, b, r) == Rep(r, ToInt(a, alo, ahi) - ToInt(b, blo, bhi))
BMul(alo, ahi, blo, bhi, a, b, r) == Rep(r, ToInt(a, alo, ahi) * ToInt(b, blo, bhi))

\* bounded_int_constrain<T, BOUNDARY>: Ok(v) if v < BOUNDARY else Err(v)
BConstrain(lo, hi, boundary, a, var, val) ==
    LET z == ToInt(a, lo, hi) IN
    \/ (z < boundary /\ var = 0 /\ val = a)
    \/ (z >= boundary /\ var = 1 /\ val = a)

\* bounded_int_trim_min / trim_max: OptionRev::None (0) iff the value is the trimmed bound
BTrim(lo, hi, bound, a, var, val) ==
    LET z == ToInt(a, lo, hi) IN
    \/ (z = bound /\ var = 0)
    \/ (z # bound /\ var = 1 /\ val = a)

BDivRem(alo, ahi, blo, bhi, a, b, q, r) ==
    LET x == ToInt(a, alo, ahi)
        y == ToInt(b, blo, bhi) IN
    x = q * y + r /\ r >= 0 /\ r < y /\ q >= 0

(* ---- bool ---- *)
BoolAnd(a, b, r) == r = IF a = 1 /\ b = 1 THEN 1 ELSE 0
BoolOr(a, b, r) == r = IF a = 1 \/ b = 1 THEN 1 ELSE 0
BoolXor(a, b, r) == r = IF a # b THEN 1 ELSE 0
BoolNot(a, r) == r = 1 - a

(* ---- gas ---- *)
\* withdraw_gas of the (compile-time) amount c, observed at the end of a wrapper: Some (0) iff there
\* was enough gas; the counter then went down by at most c (code after the libfunc may refund the
\* unused part of a cheaper branch: branch_align / redeposit_gas) and never up
WithdrawGas(c, gas0, gas1, var) ==
    \/ (gas0 >= c /\ var = 0 /\ gas1 >= gas0 - c /\ gas1 <= gas0)
    \/ (gas0 < c /\ var = 1 /\ gas1 = gas0)

(* ---- u256 ---- *)
U256IsZero(lo, hi, var, vlo, vhi) ==
    \/ (lo = 0 /\ hi = 0 /\ var = 0)
    \/ (~(lo = 0 /\ hi = 0) /\ var = 1 /\ vlo = lo /\ vhi = hi)

U256Sqrt(lo, hi, r) ==
    LET v == hi * TWO128 + lo IN r >= 0 /\ r * r <= v /\ v < (r + 1) * (r + 1)

U256DivMod(alo, ahi, blo, bhi, qlo, qhi, rlo, rhi) ==
    LET a == ahi * TWO128 + alo
        b == bhi * TWO128 + blo
        q == qhi * TWO128 + qlo
        r == rhi * TWO128 + rlo IN
    a = q * b + r /\ r < b
    /\ qlo < TWO128 /\ qhi < TWO128 /\ rlo < TWO128 /\ rhi < TWO128
=============================================================================

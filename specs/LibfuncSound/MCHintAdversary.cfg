CONSTANTS
  NCells = 3
  BUG = FALSE
INIT DInit
NEXT DNext
INVARIANT SoundDesign

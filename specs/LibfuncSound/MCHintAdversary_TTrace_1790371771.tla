---- MODULE MCHintAdversary_TTrace_1790371771 ----
EXTENDS MCHintAdversary, Sequences, TLCExt, Toolbox, Naturals, TLC

_expression ==
    LET MCHintAdversary_TEExpression == INSTANCE MCHintAdversary_TEExpression
    IN MCHintAdversary_TEExpression!expression
----

_trace ==
    LET MCHintAdversary_TETrace == INSTANCE MCHintAdversary_TETrace
    IN MCHintAdversary_TETrace!trace
----

_inv ==
    ~(
        TLCGet("level") = Len(_TETrace)
        /\
        phase = ("done")
        /\
        honest = ({})
        /\
        prog = ([pinned |-> {}, influence |-> {1}])
        /\
        outcome = ("ok")
        /\
        altered = ({1})
    )
----

_init ==
    /\ altered = _TETrace[1].altered
    /\ prog = _TETrace[1].prog
    /\ honest = _TETrace[1].honest
    /\ outcome = _TETrace[1].outcome
    /\ phase = _TETrace[1].phase
----

_next ==
    /\ \E i,j \in DOMAIN _TETrace:
        /\ \/ /\ j = i + 1
              /\ i = TLCGet("level")
        /\ altered  = _TETrace[i].altered
        /\ altered' = _TETrace[j].altered
        /\ prog  = _TETrace[i].prog
        /\ prog' = _TETrace[j].prog
        /\ honest  = _TETrace[i].honest
        /\ honest' = _TETrace[j].honest
        /\ outcome  = _TETrace[i].outcome
        /\ outcome' = _TETrace[j].outcome
        /\ phase  = _TETrace[i].phase
        /\ phase' = _TETrace[j].phase

\* Uncomment the ASSUME below to write the states of the error trace
\* to the given file in Json format. Note that you can pass any tuple
\* to `JsonSerialize`. For example, a sub-sequence of _TETrace.
    \* ASSUME
    \*     LET J == INSTANCE Json
    \*         IN J!JsonSerialize("MCHintAdversary_TTrace_1790371771.json", _TETrace)

=============================================================================

 Note that you can extract this module `MCHintAdversary_TEExpression`
  to a dedicated file to reuse `expression` (the module in the 
  dedicated `MCHintAdversary_TEExpression.tla` file takes precedence 
  over the module `MCHintAdversary_TEExpression` below).

---- MODULE MCHintAdversary_TEExpression ----
EXTENDS MCHintAdversary, Sequences, TLCExt, Toolbox, Naturals, TLC

expression == 
    [
        \* To hide variables of the `MCHintAdversary` spec from the error trace,
        \* remove the variables below.  The trace will be written in the order
        \* of the fields of this record.
        altered |-> altered
        ,prog |-> prog
        ,honest |-> honest
        ,outcome |-> outcome
        ,phase |-> phase
        
        \* Put additional constant-, state-, and action-level expressions here:
        \* ,_stateNumber |-> _TEPosition
        \* ,_alteredUnchanged |-> altered = altered'
        
        \* Format the `altered` variable as Json value.
        \* ,_alteredJson |->
        \*     LET J == INSTANCE Json
        \*     IN J!ToJson(altered)
        
        \* Lastly, you may build expressions over arbitrary sets of states by
        \* leveraging the _TETrace operator.  For example, this is how to
        \* count the number of times a spec variable changed up to the current
        \* state in the trace.
        \* ,_alteredModCount |->
        \*     LET F[s \in DOMAIN _TETrace] ==
        \*         IF s = 1 THEN 0
        \*         ELSE IF _TETrace[s].altered # _TETrace[s-1].altered
        \*             THEN 1 + F[s-1] ELSE F[s-1]
        \*     IN F[_TEPosition - 1]
    ]

=============================================================================



Parsing and semantic processing can take forever if the trace below is long.
 In this case, it is advised to uncomment the module below to deserialize the
 trace from a generated binary file.

\*
\*---- MODULE MCHintAdversary_TETrace ----
\*EXTENDS MCHintAdversary, IOUtils, TLC
\*
\*trace == IODeserialize("MCHintAdversary_TTrace_1790371771.bin", TRUE)
\*
\*=============================================================================
\*

---- MODULE MCHintAdversary_TETrace ----
EXTENDS MCHintAdversary, TLC

trace == 
    <<
    ([phase |-> "start",honest |-> {},prog |-> [pinned |-> {}, influence |-> {1}],outcome |-> "none",altered |-> {}]),
    ([phase |-> "honest",honest |-> {},prog |-> [pinned |-> {}, influence |-> {1}],outcome |-> "none",altered |-> {}]),
    ([phase |-> "injected",honest |-> {},prog |-> [pinned |-> {}, influence |-> {1}],outcome |-> "none",altered |-> {1}]),
    ([phase |-> "done",honest |-> {},prog |-> [pinned |-> {}, influence |-> {1}],outcome |-> "ok",altered |-> {1}])
    >>
----


=============================================================================

---- CONFIG MCHintAdversary_TTrace_1790371771 ----
CONSTANTS
    NCells = 3
    BUG = TRUE

INVARIANT
    _inv

CHECK_DEADLOCK
    \* CHECK_DEADLOCK off because of PROPERTY or INVARIANT above.
    FALSE

INIT
    _init

NEXT
    _next

CONSTANT
    _TETrace <- _trace

ALIAS
    _expression
=============================================================================
\* Generated on Fri Sep 25 21:29:33 UTC 2026
--------------------------- MODULE CairoAirCheck ---------------------------
(***************************************************************************)
(* Self-consistency of CairoAir's encodings of equality modulo P: for all  *)
(* canonical x, y, d (chosen symbolically in Init, checked by Apalache on  *)
(* the real prime) the existential-multiple forms are EQUIVALENT to the    *)
(* definition by remainder.  A too narrow range of the multiple would make *)
(* LibfuncSound instances silently miss executions; a too wide one only    *)
(* produces model counter-examples that do not replay.                     *)
(***************************************************************************)
EXTENDS Integers, CairoAir

VARIABLES
  \* @type: Int;
  x,
  \* @type: Int;
  y,
  \* @type: Int;
  d,
  \* @type: Int;
  c

\* immediates as they occur in libfunc CASM, as signed representatives
Consts == {0, 1, -1, 2, 256, -256, 65536, RC128, -RC128, RC128 - 1, 1 - RC128, 340282366920938463463374607431768211200,
           -10633823966279327296825105735305134080, 329648542954659136166549501696463077376, HALFP, -HALFP}

Init ==
    /\ x \in Int /\ y \in Int /\ d \in Int /\ c \in Consts
    /\ InField(x) /\ InField(y) /\ InField(d)
Next == UNCHANGED <<x, y, d, c>>

Cong(a, b) == (a - b) % P = 0

AddOK == AddP(d, x, y) <=> Cong(d, x + y)
AddCOK == AddC(d, x, c) <=> Cong(d, x + c)
\* (the multiple of MulC ranges over Int, so the two directions are stated separately, the second
\* one with the explicit witness (x*c - d) \div P in MulC's own range predicate, which implies MulC)
MulCOK ==
    /\ MulC(d, x, c) => Cong(d, x * c)
    /\ Cong(d, x * c) =>
          LET k == (x * c - d) \div P IN
          MulCRange(k, c) /\ d = x * c - k * P
SgnOK == Cong(Sgn(x), x) /\ Sgn(x) <= HALFP /\ Sgn(x) > -HALFP - 1
EncodingsOK == AddOK /\ AddCOK /\ MulCOK /\ SgnOK
=============================================================================

--------------------------- MODULE HintAdversary ---------------------------
(***************************************************************************)
(* C03 / L1 - the adversary against hint outputs.                          *)
(*                                                                         *)
(* A run of a compiled program consults hints; every hint occurrence has   *)
(* output cells (memory cells unknown before and known after the hint).    *)
(* The prover may put ANY value there.  The protocol of one experiment:    *)
(*                                                                         *)
(*    Honest(result)        the run with the honest hint processor         *)
(*    Inject(plan)          one fault plan: alternative value(s) for the   *)
(*                          output cell(s) of one hint occurrence          *)
(*    Outcome(Fail | Ok(result'))   what the VM does with it               *)
(*                                                                         *)
(* Property (C03):   Ok(result')  =>  result' = result.                    *)
(*                                                                         *)
(* This module defines (1) the fault-plan space of a hint occurrence, from *)
(* the shape of the hint's output domain - used by HintAdversaryGen to     *)
(* enumerate the plans that are replayed on the real VM and by             *)
(* HintAdversaryTrace to check that every executed injection is one of the *)
(* enumerated plans; (2) an abstract design model of why the property      *)
(* holds: every output cell that can influence the result is pinned by a   *)
(* check (range check / field equation) after the hint, checked            *)
(* exhaustively by MCHintAdversary for small programs, with BUG enabling a *)
(* program that has an unpinned influential cell.                          *)
(***************************************************************************)
EXTENDS Integers, Sequences, FiniteSets

(* ---------------------------------------------------------------- plans *)
\* An occurrence:  [i |-> index of the hint execution in the run, nout |-> number of output cells,
\*                  bools |-> <<1 if the honest value of cell c is 0 or 1>>, nin |-> number of
\*                  integer values visible to the hint (operand values / immediates), ...]
\* A plan: [occ, c, c2, kind, j]: cell c (and c2 for two-cell plans, else 0), j-th visible input.

SingleKinds == {"inc", "dec", "neg", "zero", "max128", "pow128", "pm1", "rand"}
\* q+-1 / r-+d, r+-1 / q-+d, and the decomposition of value + P instead of value
PairKindsD == {"dq_p", "dq_m", "dr_p", "dr_m", "wrap_q", "wrap_r"}

Plan(o, c, c2, k, j) == [occ |-> o.i, c |-> c, c2 |-> c2, kind |-> k, j |-> j]

PlansOfOcc(o) ==
    {Plan(o, c, 0, k, 0) : c \in 1..o.nout, k \in SingleKinds}
    \cup {Plan(o, c, 0, "flip", 0) : c \in {x \in 1..o.nout : o.bools[x] = 1}}
    \cup {Plan(o, c, c + 1, "swap", 0) : c \in 1..(o.nout - 1)}
    \cup {Plan(o, c, c + 1, k, j) : c \in 1..(o.nout - 1), k \in PairKindsD, j \in 1..o.nin}

ValidPlan(p, occs) == \E n \in 1..Len(occs) : occs[n].i = p.occ /\ p \in PlansOfOcc(occs[n])

(* --------------------------------------------------------- design model *)
\* An abstract program: cells 1..NCells written by hints; `pinned` = the cells whose value is
\* determined by a check after the hint; `influence` = the cells the result depends on.
CONSTANTS NCells, BUG

VARIABLES phase, honest, altered, outcome, prog

vars == <<phase, honest, altered, outcome, prog>>

Programs ==
    {p \in [pinned : SUBSET (1..NCells), influence : SUBSET (1..NCells)] :
        BUG \/ p.influence \subseteq p.pinned}

\* the result is a function of the influential cells only (here: which of them are altered)
Result(p, alt) == alt \cap p.influence

DInit ==
    /\ phase = "start" /\ honest = {} /\ altered = {} /\ outcome = "none"
    /\ prog \in Programs

Honest ==
    /\ phase = "start"
    /\ honest' = Result(prog, {})
    /\ phase' = "honest"
    /\ UNCHANGED <<altered, outcome, prog>>

Inject(c) ==
    /\ phase = "honest"
    /\ altered' = {c}
    /\ phase' = "injected"
    /\ UNCHANGED <<honest, outcome, prog>>

Outcome ==
    /\ phase = "injected"
    /\ outcome' = IF altered \cap prog.pinned # {} THEN "fail" ELSE "ok"
    /\ phase' = "done"
    /\ UNCHANGED <<honest, altered, prog>>

DNext == Honest \/ (\E c \in 1..NCells : Inject(c)) \/ Outcome \/ (phase = "done" /\ UNCHANGED vars)

\* C03 on the design
SoundDesign == (phase = "done" /\ outcome = "ok") => Result(prog, altered) = honest
=============================================================================

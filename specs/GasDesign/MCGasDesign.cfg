CONSTANTS
  N = 2
  MaxCost = 2
  G = 6
  FC = 1
  BUG = "none"
INIT Init
NEXT Next
INVARIANT Inv
INVARIANT Covers
INVARIANT Bounded
CHECK_DEADLOCK FALSE

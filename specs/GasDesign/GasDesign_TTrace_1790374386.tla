---- MODULE GasDesign_TTrace_1790374386 ----
EXTENDS Sequences, TLCExt, Toolbox, Naturals, TLC, GasDesign

_expression ==
    LET GasDesign_TEExpression == INSTANCE GasDesign_TEExpression
    IN GasDesign_TEExpression!expression
----

_trace ==
    LET GasDesign_TETrace == INSTANCE GasDesign_TETrace
    IN GasDesign_TETrace!trace
----

_inv ==
    ~(
        TLCGet("level") = Len(_TETrace)
        /\
        actual = (1)
        /\
        pc = (1)
        /\
        counter = (5)
        /\
        charged = (1)
        /\
        prog = (<<[k |-> "reg", t1 |-> 2, t2 |-> 1, w |-> 0, W |-> 1, d1 |-> 1, a1 |-> 1, d2 |-> 1, a2 |-> 1], [k |-> "ret", t1 |-> 1, t2 |-> 0, w |-> 0, W |-> 0, d1 |-> 0, a1 |-> 0, d2 |-> 0, a2 |-> 0]>>)
        /\
        status = ("run")
    )
----

_init ==
    /\ counter = _TETrace[1].counter
    /\ prog = _TETrace[1].prog
    /\ actual = _TETrace[1].actual
    /\ status = _TETrace[1].status
    /\ pc = _TETrace[1].pc
    /\ charged = _TETrace[1].charged
----

_next ==
    /\ \E i,j \in DOMAIN _TETrace:
        /\ \/ /\ j = i + 1
              /\ i = TLCGet("level")
        /\ counter  = _TETrace[i].counter
        /\ counter' = _TETrace[j].counter
        /\ prog  = _TETrace[i].prog
        /\ prog' = _TETrace[j].prog
        /\ actual  = _TETrace[i].actual
        /\ actual' = _TETrace[j].actual
        /\ status  = _TETrace[i].status
        /\ status' = _TETrace[j].status
        /\ pc  = _TETrace[i].pc
        /\ pc' = _TETrace[j].pc
        /\ charged  = _TETrace[i].charged
        /\ charged' = _TETrace[j].charged

\* Uncomment the ASSUME below to write the states of the error trace
\* to the given file in Json format. Note that you can pass any tuple
\* to `JsonSerialize`. For example, a sub-sequence of _TETrace.
    \* ASSUME
    \*     LET J == INSTANCE Json
    \*         IN J!JsonSerialize("GasDesign_TTrace_1790374386.json", _TETrace)

=============================================================================

 Note that you can extract this module `GasDesign_TEExpression`
  to a dedicated file to reuse `expression` (the module in the 
  dedicated `GasDesign_TEExpression.tla` file takes precedence 
  over the module `GasDesign_TEExpression` below).

---- MODULE GasDesign_TEExpression ----
EXTENDS Sequences, TLCExt, Toolbox, Naturals, TLC, GasDesign

expression == 
    [
        \* To hide variables of the `GasDesign` spec from the error trace,
        \* remove the variables below.  The trace will be written in the order
        \* of the fields of this record.
        counter |-> counter
        ,prog |-> prog
        ,actual |-> actual
        ,status |-> status
        ,pc |-> pc
        ,charged |-> charged
        
        \* Put additional constant-, state-, and action-level expressions here:
        \* ,_stateNumber |-> _TEPosition
        \* ,_counterUnchanged |-> counter = counter'
        
        \* Format the `counter` variable as Json value.
        \* ,_counterJson |->
        \*     LET J == INSTANCE Json
        \*     IN J!ToJson(counter)
        
        \* Lastly, you may build expressions over arbitrary sets of states by
        \* leveraging the _TETrace operator.  For example, this is how to
        \* count the number of times a spec variable changed up to the current
        \* state in the trace.
        \* ,_counterModCount |->
        \*     LET F[s \in DOMAIN _TETrace] ==
        \*         IF s = 1 THEN 0
        \*         ELSE IF _TETrace[s].counter # _TETrace[s-1].counter
        \*             THEN 1 + F[s-1] ELSE F[s-1]
        \*     IN F[_TEPosition - 1]
    ]

=============================================================================



Parsing and semantic processing can take forever if the trace below is long.
 In this case, it is advised to uncomment the module below to deserialize the
 trace from a generated binary file.

\*
\*---- MODULE GasDesign_TETrace ----
\*EXTENDS IOUtils, TLC, GasDesign
\*
\*trace == IODeserialize("GasDesign_TTrace_1790374386.bin", TRUE)
\*
\*=============================================================================
\*

---- MODULE GasDesign_TETrace ----
EXTENDS TLC, GasDesign

trace == 
    <<
    ([actual |-> 0,pc |-> 1,counter |-> 5,charged |-> 1,prog |-> <<[k |-> "reg", t1 |-> 2, t2 |-> 1, w |-> 0, W |-> 1, d1 |-> 1, a1 |-> 1, d2 |-> 1, a2 |-> 1], [k |-> "ret", t1 |-> 1, t2 |-> 0, w |-> 0, W |-> 0, d1 |-> 0, a1 |-> 0, d2 |-> 0, a2 |-> 0]>>,status |-> "run"]),
    ([actual |-> 1,pc |-> 1,counter |-> 5,charged |-> 1,prog |-> <<[k |-> "reg", t1 |-> 2, t2 |-> 1, w |-> 0, W |-> 1, d1 |-> 1, a1 |-> 1, d2 |-> 1, a2 |-> 1], [k |-> "ret", t1 |-> 1, t2 |-> 0, w |-> 0, W |-> 0, d1 |-> 0, a1 |-> 0, d2 |-> 0, a2 |-> 0]>>,status |-> "run"])
    >>
----


=============================================================================

---- CONFIG GasDesign_TTrace_1790374386 ----
CONSTANTS
    N = 2
    MaxCost = 2
    G = 6
    FC = 1
    BUG = "merge_min"

INVARIANT
    _inv

CHECK_DEADLOCK
    \* CHECK_DEADLOCK off because of PROPERTY or INVARIANT above.
    FALSE

INIT
    _init

NEXT
    _next

CONSTANT
    _TETrace <- _trace

ALIAS
    _expression
=============================================================================
\* Generated on Fri Sep 25 22:13:15 UTC 2026
CONSTANTS
  N = 3
  MaxCost = 1
  G = 5
  FC = 1
  BUG = "none"
INIT Init
NEXT Next
INVARIANT Inv
INVARIANT Covers
INVARIANT Bounded
CHECK_DEADLOCK FALSE

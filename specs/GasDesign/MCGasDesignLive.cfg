CONSTANTS
  N = 2
  MaxCost = 2
  G = 5
  FC = 1
  BUG = "none"
SPECIFICATION Spec
PROPERTY Terminates
CHECK_DEADLOCK FALSE

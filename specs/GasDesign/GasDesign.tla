------------------------------ MODULE GasDesign ------------------------------
(***************************************************************************)
(* Why the static gas-wallet discipline implies property C04 (gas charged   *)
(* covers the actual cost) and the step bound of C02 - at design level,     *)
(* for EVERY small control-flow graph.                                      *)
(*                                                                         *)
(* A program is a CFG over statements 1..N of one function plus one callee *)
(* function summarised by its declared cost.  Statement kinds:              *)
(*   reg      one or two branches; branch b has a DECLARED cost d[b] (what  *)
(*            the cost table says) and an ACTUAL cost a[b] (what the VM     *)
(*            executes), with a[b] <= d[b]  (assumption A1: exactly what    *)
(*            build_from_casm_builder_ex asserts for builder-made libfuncs) *)
(*   call     function_call: declared cost 2 (call + ret) + the callee's    *)
(*            declared entry cost FC; the callee's run costs at most FC     *)
(*   withdraw withdraw_gas: success branch moves w from the run-time gas    *)
(*            counter into the wallet if counter >= w, else the failure     *)
(*            branch is taken (both branches have a declared cost)          *)
(*   ret      return                                                        *)
(* The static wallet W[s] (gas prepaid when control is at s) must satisfy   *)
(* the rules R that annotations.rs / gas_wallet.rs enforce:                 *)
(*   R1  W[s] >= 0                                                          *)
(*   R2  reg / call branch s -b-> t :  W[t] = W[s] - d[b]   (branch_align   *)
(*       burns make paths agree, so equality; a burn is a declared cost     *)
(*       with actual cost 0)                                                *)
(*   R3  withdraw success s -> t : W[t] = W[s] - d[1] + w ; failure s -> u : *)
(*       W[u] = W[s] - d[2]                                                 *)
(* Execution: `counter` is the run-time gas counter, `actual` the priced    *)
(* cost of the trace so far, `charged` = entry cost + gas withdrawn.        *)
(*                                                                         *)
(* Inv      charged - actual >= W[pc] >= 0     (inductive; TLC checks it)   *)
(* Covers   at return: actual <= charged       (C04, modulo the final ret)  *)
(* Bounded  actual <= G (the gas given)        (C02: steps bounded by gas)  *)
(* Liveness every execution terminates, provided every cycle contains a     *)
(*          withdraw with w >= 1 and every reg/call step has actual >= 1.   *)
(***************************************************************************)
EXTENDS Integers, Sequences, FiniteSets, TLC

CONSTANTS N,        \* number of statements
          MaxCost,  \* declared costs range over 0..MaxCost
          G,        \* gas given to the run
          FC,       \* declared entry cost of the callee
          BUG       \* "none" | "no_call_overhead" | "merge_min" | "undercharged"

Kinds == {"reg", "call", "withdraw", "ret"}

\* a program: kind, targets t1/t2 (t2 = 0: single branch), declared d1/d2, actual a1/a2, withdraw amount w, wallet W
VARIABLES prog, pc, counter, actual, charged, status
vars == <<prog, pc, counter, actual, charged, status>>

\* per-kind canonical records (fields a kind does not use are fixed), costs with 1 <= actual <= declared
Costs == {c \in (1..MaxCost) \X (1..MaxCost) : BUG = "undercharged" \/ c[2] <= c[1]}      \* <<declared, actual>>
Rec(k, t1, t2, c1, c2, w, W) == [k |-> k, t1 |-> t1, t2 |-> t2, d1 |-> c1[1], a1 |-> c1[2], d2 |-> c2[1], a2 |-> c2[2], w |-> w, W |-> W]
Zero == <<0, 0>>
Ws == 0..(2 * MaxCost)
Stmt ==      {Rec("ret", 1, 0, Zero, Zero, 0, W) : W \in Ws}
        \cup {Rec("call", t, 0, Zero, Zero, 0, W) : t \in 1..N, W \in Ws}
        \cup {Rec("reg", t, 0, c, Zero, 0, W) : t \in 1..N, c \in Costs, W \in Ws}
        \cup {Rec("reg", t, u, c, e, 0, W) : t \in 1..N, u \in 1..N, c \in Costs, e \in Costs, W \in Ws}
        \cup {Rec("withdraw", t, u, c, e, w, W) : t \in 1..N, u \in 1..N, c \in Costs, e \in Costs, w \in 1..MaxCost, W \in Ws}

CallCost == IF BUG = "no_call_overhead" THEN FC ELSE 2 + FC

\* declared cost of branch b of statement s
D(s, b) == IF s.k = "call" THEN CallCost ELSE IF b = 1 THEN s.d1 ELSE s.d2
\* assumption A1 (actual <= declared) is built into Costs, unless the deliberately wrong variant is selected

WellFormed(p) ==
  \A i \in 1..N :
    LET s == p[i] IN
    /\ (s.k = "ret" => s.t2 = 0)
    /\ (s.k = "call" => s.t2 = 0)
    /\ (s.k = "withdraw" => s.t2 # 0 /\ s.w >= 1)
    \* R2 / R3 (with the merge_min bug the wallet of a target may be the MIN over incoming paths)
    /\ (s.k \in {"reg", "call"} =>
          /\ p[s.t1].W = s.W - D(s, 1)
          /\ (s.t2 # 0 => IF BUG = "merge_min" THEN p[s.t2].W >= s.W - D(s, 2) ELSE p[s.t2].W = s.W - D(s, 2)))
    /\ (s.k = "withdraw" => p[s.t1].W = s.W - s.d1 + s.w /\ p[s.t2].W = s.W - s.d2)

Init ==
  /\ prog \in [1..N -> Stmt]
  /\ WellFormed(prog)
  /\ pc = 1
  /\ charged = prog[1].W            \* the runner deducts the declared entry cost up front
  /\ counter = G - prog[1].W
  /\ counter >= 0
  /\ actual = 0
  /\ status = "run"

Step ==
  /\ status = "run"
  /\ LET s == prog[pc] IN
     CASE s.k = "ret" -> status' = "done" /\ UNCHANGED <<prog, pc, counter, actual, charged>>
       [] s.k = "reg" ->
            \E b \in (IF s.t2 = 0 THEN {1} ELSE {1, 2}) :
              /\ pc' = IF b = 1 THEN s.t1 ELSE s.t2
              /\ actual' = actual + (IF b = 1 THEN s.a1 ELSE s.a2)
              /\ UNCHANGED <<prog, counter, charged, status>>
       [] s.k = "call" ->
            \* the callee's own run costs any amount up to its declared cost FC, plus call and ret
            \E c \in 0..FC :
              /\ pc' = s.t1 /\ actual' = actual + 2 + c
              /\ UNCHANGED <<prog, counter, charged, status>>
       [] s.k = "withdraw" ->
            IF counter >= s.w
            THEN /\ pc' = s.t1 /\ counter' = counter - s.w /\ charged' = charged + s.w
                 /\ actual' = actual + s.a1 /\ UNCHANGED <<prog, status>>
            ELSE /\ pc' = s.t2 /\ actual' = actual + s.a2 /\ UNCHANGED <<prog, counter, charged, status>>

Next == Step
Spec == Init /\ [][Next]_vars /\ WF_vars(Step)

Inv == status = "run" => (prog[pc].W >= 0 /\ charged - actual >= prog[pc].W)
Covers == status = "done" => actual <= charged
Bounded == actual <= G
\* termination needs every cycle to withdraw: the CFGs where some cycle has no withdraw are excluded
\* from the liveness check by HasWithdrawOnEveryCycle (the compiler's feedback-set pass establishes it)
Reach(p, i) == LET RECURSIVE R(_, _) R(S, n) == IF n = 0 THEN S ELSE
                     R(S \cup UNION {({p[j].t1} \cup (IF p[j].t2 = 0 THEN {} ELSE {p[j].t2})) : j \in {j \in S : p[j].k \notin {"ret", "withdraw"}}}, n - 1)
               IN R({p[i].t1} \cup (IF p[i].t2 = 0 THEN {} ELSE {p[i].t2}), N)
NoFreeCycle(p) == \A i \in 1..N : p[i].k \in {"ret", "withdraw"} \/ i \notin Reach(p, i)
Terminates == NoFreeCycle(prog) => <>(status = "done")
=============================================================================

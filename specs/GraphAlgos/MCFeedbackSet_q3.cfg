CONSTANT N = 3
CONSTANT ALLORD = TRUE
CONSTANT WANT_INDEP = FALSE
INIT Init
NEXT Next
INVARIANT LawCovers
INVARIANT LawInside
INVARIANT LawSelfLoops
INVARIANT LawNoDup
INVARIANT Emit
CHECK_DEADLOCK FALSE

CONSTANT N = 4
CONSTANT ALLORD = FALSE
CONSTANT WANT_INDEP = FALSE
INIT Init
NEXT Next
INVARIANT LawCovers
INVARIANT LawInside
INVARIANT LawSelfLoops
INVARIANT LawNoDup
INVARIANT Emit
CHECK_DEADLOCK FALSE

---------------------------- MODULE MCFeedbackSet ----------------------------
(* Exhaustive generator + checker: every graph over Nodes whose successor lists are taken from Lists
   (ALLORD: every ordered duplicate-free list; otherwise ascending lists only), every start node.
   One TLC state per (graph, start); the laws are invariants; a REPLAY line carries the expected results. *)
EXTENDS FeedbackSet, Json
CONSTANTS N, ALLORD, WANT_INDEP
Nodes == 1..N

RECURSIVE Perms(_)
Perms(S) == IF S = {} THEN {<<>>} ELSE UNION {{<<x>> \o p : p \in Perms(S \ {x})} : x \in S}
RECURSIVE Asc(_)
Asc(S) == IF S = {} THEN <<>> ELSE LET x == CHOOSE y \in S : \A z \in S : y <= z IN <<x>> \o Asc(S \ {x})
Lists == IF ALLORD THEN UNION {Perms(S) : S \in SUBSET Nodes} ELSE {Asc(S) : S \in SUBSET Nodes}

VARIABLES g, s
Init == g \in [Nodes -> Lists] /\ s \in Nodes
Next == UNCHANGED <<g, s>>

LawCovers == Covers(g, s)
LawInside == Inside(g, s)
LawSelfLoops == SelfLoops(g, s)
LawNoDup == NoDup(g, s)
\* expected to be violated (WANT_INDEP = TRUE only in the anti-law configuration)
LawStartIndependent == WANT_INDEP => StartIndependent(g, s)
Emit == PrintT(<<"REPLAY", ToJson([g |-> g, s |-> s, scc |-> Scc(g, s), fset |-> Fset(g, s)])>>)
=============================================================================

---------------------------- MODULE FeedbackSet ----------------------------
(***************************************************************************)
(* The call-graph algorithms behind `withdraw_gas` placement (property C04, *)
(* clause "execution is bounded by gas") and behind every SCC-level         *)
(* analysis of the lowering phase:                                          *)
(*                                                                         *)
(*   Scc(g, n)        the strongly connected component of n                 *)
(*                    (cairo-lang-utils graph_algos::compute_scc)           *)
(*   Fset(g, start)   a transcription, step for step, of                    *)
(*                    graph_algos::feedback_set::calc_feedback_set on the   *)
(*                    SCC-restricted graph (SccGraphNode), including its    *)
(*                    pending queue, the in-flight set, the self-loop       *)
(*                    shortcut, the early `break`, and the insertion order  *)
(*                    of the resulting OrderedHashSet                       *)
(*                                                                         *)
(* A graph is a function from nodes to the SEQUENCE of their successors     *)
(* (the order matters: it is the order of the calls in the function body).  *)
(*                                                                         *)
(* Laws (checked by TLC on every graph of the bounded space, and - through  *)
(* the REPLAY lines - on the real implementation, which must return exactly *)
(* the same ordered set):                                                   *)
(*   Covers      removing Fset(g, s) from the component of s leaves no      *)
(*               cycle: every recursion passes through a function that      *)
(*               withdraws gas                                              *)
(*   Inside      Fset(g, s) is a subset of Scc(g, s)                        *)
(*   SelfLoops   every node of the component with a self loop is in it      *)
(* and one NON-law, kept as a named predicate because the implementation    *)
(* relies on the opposite assumption:                                       *)
(*   StartIndependent   Fset(g, s) = Fset(g, t) for s, t in one component   *)
(*               is FALSE already for the 2-cycle: the result depends on    *)
(*               the start node, i.e. on the SCC representative, i.e. (in   *)
(*               the compiler) on the salsa intern order - the root of the  *)
(*               known finding of C12.                                      *)
(***************************************************************************)
EXTENDS Integers, Sequences, FiniteSets, TLC

Range(s) == {s[i] : i \in DOMAIN s}

\* ---------------------------------------------------------------- reachability / SCC
RECURSIVE ReachFrom(_, _, _)
ReachFrom(g, frontier, seen) ==
  IF frontier = {} THEN seen
  ELSE LET nxt == (UNION {Range(g[n]) : n \in frontier}) \ seen
       IN ReachFrom(g, nxt, seen \cup nxt)

\* nodes reachable from n by a path of length >= 0
Reach(g, n) == ReachFrom(g, {n}, {n})
Scc(g, n) == {m \in Reach(g, n) : n \in Reach(g, m)}

\* ---------------------------------------------------------------- the algorithm
SelectNotIn(s, S) == SelectSeq(s, LAMBDA m : m \notin S)
AddOrdered(s, x) == IF x \in Range(s) THEN s ELSE Append(s, x)
NbInScc(g, n) == SelectSeq(g[n], LAMBDA m : m \in Scc(g, n))

\* state: visited, inflight (sets), fset (sequence = insertion order), pending (sequence, FIFO)
RECURSIVE Visit(_, _, _), Loop(_, _, _, _, _)

Visit(g, n, st) ==
  IF n \in st.visited THEN st
  ELSE LET st1 == [st EXCEPT !.visited = @ \cup {n}]
           nb == NbInScc(g, n)
       IN IF n \in Range(nb)
          THEN \* self loop: the node goes to the feedback set, no neighbour is consumed
               [st1 EXCEPT !.fset = AddOrdered(@, n), !.pending = @ \o SelectNotIn(nb, st1.visited)]
          ELSE LET r == Loop(g, n, nb, 1, [st1 EXCEPT !.inflight = @ \cup {n}])
               IN [r.st EXCEPT !.inflight = @ \ {n},
                               !.pending = @ \o SelectNotIn(SubSeq(nb, r.i, Len(nb)), r.st.visited)]

\* the `for neighbor in remaining_neighbors.by_ref()` loop of node n; returns the state and the index of
\* the first neighbour that was not consumed
Loop(g, n, nb, i, st) ==
  IF i > Len(nb) THEN [st |-> st, i |-> i]
  ELSE LET m == nb[i] IN
       IF m \in Range(st.fset) THEN Loop(g, n, nb, i + 1, st)          \* `continue`
       ELSE LET st2 == IF m \in st.inflight THEN [st EXCEPT !.fset = AddOrdered(@, m)]
                       ELSE Visit(g, m, st)
            IN IF n \in Range(st2.fset) THEN [st |-> st2, i |-> i + 1]   \* `break`
               ELSE Loop(g, n, nb, i + 1, st2)

RECURSIVE Drain(_, _)
Drain(g, st) ==
  IF st.pending = <<>> THEN st
  ELSE Drain(g, Visit(g, Head(st.pending), [st EXCEPT !.pending = Tail(@)]))

Fset(g, start) ==
  Drain(g, [visited |-> {}, inflight |-> {}, fset |-> <<>>, pending |-> <<start>>]).fset

\* ---------------------------------------------------------------- laws
\* the sub-graph induced by S has a cycle
RECURSIVE HasCycleIn(_, _)
HasCycleIn(g, S) ==
  \* repeatedly remove nodes without a successor inside S; a cycle remains iff the fixpoint is non-empty
  LET dead == {n \in S : Range(g[n]) \cap S = {}}
  IN IF S = {} THEN FALSE ELSE IF dead = {} THEN TRUE ELSE HasCycleIn(g, S \ dead)

Covers(g, s) == ~HasCycleIn(g, Scc(g, s) \ Range(Fset(g, s)))
Inside(g, s) == Range(Fset(g, s)) \subseteq Scc(g, s)
SelfLoops(g, s) == \A n \in Scc(g, s) : n \in Range(g[n]) => n \in Range(Fset(g, s))
NoDup(g, s) == LET f == Fset(g, s) IN Cardinality(Range(f)) = Len(f)
StartIndependent(g, s) == \A t \in Scc(g, s) : Range(Fset(g, t)) = Range(Fset(g, s))
=============================================================================

CONSTANT N = 2
CONSTANT ALLORD = TRUE
CONSTANT WANT_INDEP = TRUE
INIT Init
NEXT Next
INVARIANT LawStartIndependent
CHECK_DEADLOCK FALSE

CONSTANTS
  MaxLen = 4
  BUG = "parse_loses_fallthrough"
INIT Init
NEXT Next
INVARIANT TypeOK
INVARIANT ProgramPreserved
INVARIANT CasmUnchanged
INVARIANT DisplayFixpoint
CHECK_DEADLOCK FALSE

---- MODULE MCSierraCodec_TTrace_1790365288 ----
EXTENDS Sequences, TLCExt, Toolbox, Naturals, TLC, MCSierraCodec

_expression ==
    LET MCSierraCodec_TEExpression == INSTANCE MCSierraCodec_TEExpression
    IN MCSierraCodec_TEExpression!expression
----

_trace ==
    LET MCSierraCodec_TETrace == INSTANCE MCSierraCodec_TETrace
    IN MCSierraCodec_TETrace!trace
----

_inv ==
    ~(
        TLCGet("level") = Len(_TETrace)
        /\
        init = ([ids |-> "orig", core |-> "none", ut |-> "none", db |-> FALSE])
        /\
        prevText = ("-")
        /\
        dcore = ("none")
        /\
        prog = ([structure |-> TRUE, negsign |-> TRUE, typeinfo |-> FALSE, fallthrough |-> TRUE, longid |-> TRUE, nestedut |-> TRUE])
        /\
        trail = (<<[rep |-> "json", ids |-> "orig", same |-> TRUE, core |-> "none", ut |-> "none"], [rep |-> "mem", ids |-> "orig", same |-> TRUE, core |-> "none", ut |-> "none"]>>)
        /\
        core = ("none")
        /\
        hist = (<<"ToJson", "FromJson">>)
        /\
        same = (TRUE)
        /\
        uids = ("orig")
        /\
        casm = (<<[structure |-> TRUE, negsign |-> TRUE, typeinfo |-> FALSE, fallthrough |-> TRUE, longid |-> TRUE, nestedut |-> TRUE], "-">>)
        /\
        ids = ("orig")
        /\
        text = ("-")
        /\
        rep = ("mem")
        /\
        hasDb = (FALSE)
        /\
        ut = ("none")
    )
----

_init ==
    /\ prog = _TETrace[1].prog
    /\ init = _TETrace[1].init
    /\ trail = _TETrace[1].trail
    /\ text = _TETrace[1].text
    /\ prevText = _TETrace[1].prevText
    /\ uids = _TETrace[1].uids
    /\ rep = _TETrace[1].rep
    /\ casm = _TETrace[1].casm
    /\ hist = _TETrace[1].hist
    /\ core = _TETrace[1].core
    /\ same = _TETrace[1].same
    /\ hasDb = _TETrace[1].hasDb
    /\ dcore = _TETrace[1].dcore
    /\ ut = _TETrace[1].ut
    /\ ids = _TETrace[1].ids
----

_next ==
    /\ \E i,j \in DOMAIN _TETrace:
        /\ \/ /\ j = i + 1
              /\ i = TLCGet("level")
        /\ prog  = _TETrace[i].prog
        /\ prog' = _TETrace[j].prog
        /\ init  = _TETrace[i].init
        /\ init' = _TETrace[j].init
        /\ trail  = _TETrace[i].trail
        /\ trail' = _TETrace[j].trail
        /\ text  = _TETrace[i].text
        /\ text' = _TETrace[j].text
        /\ prevText  = _TETrace[i].prevText
        /\ prevText' = _TETrace[j].prevText
        /\ uids  = _TETrace[i].uids
        /\ uids' = _TETrace[j].uids
        /\ rep  = _TETrace[i].rep
        /\ rep' = _TETrace[j].rep
        /\ casm  = _TETrace[i].casm
        /\ casm' = _TETrace[j].casm
        /\ hist  = _TETrace[i].hist
        /\ hist' = _TETrace[j].hist
        /\ core  = _TETrace[i].core
        /\ core' = _TETrace[j].core
        /\ same  = _TETrace[i].same
        /\ same' = _TETrace[j].same
        /\ hasDb  = _TETrace[i].hasDb
        /\ hasDb' = _TETrace[j].hasDb
        /\ dcore  = _TETrace[i].dcore
        /\ dcore' = _TETrace[j].dcore
        /\ ut  = _TETrace[i].ut
        /\ ut' = _TETrace[j].ut
        /\ ids  = _TETrace[i].ids
        /\ ids' = _TETrace[j].ids

\* Uncomment the ASSUME below to write the states of the error trace
\* to the given file in Json format. Note that you can pass any tuple
\* to `JsonSerialize`. For example, a sub-sequence of _TETrace.
    \* ASSUME
    \*     LET J == INSTANCE Json
    \*         IN J!JsonSerialize("MCSierraCodec_TTrace_1790365288.json", _TETrace)

=============================================================================

 Note that you can extract this module `MCSierraCodec_TEExpression`
  to a dedicated file to reuse `expression` (the module in the 
  dedicated `MCSierraCodec_TEExpression.tla` file takes precedence 
  over the module `MCSierraCodec_TEExpression` below).

---- MODULE MCSierraCodec_TEExpression ----
EXTENDS Sequences, TLCExt, Toolbox, Naturals, TLC, MCSierraCodec

expression == 
    [
        \* To hide variables of the `MCSierraCodec` spec from the error trace,
        \* remove the variables below.  The trace will be written in the order
        \* of the fields of this record.
        prog |-> prog
        ,init |-> init
        ,trail |-> trail
        ,text |-> text
        ,prevText |-> prevText
        ,uids |-> uids
        ,rep |-> rep
        ,casm |-> casm
        ,hist |-> hist
        ,core |-> core
        ,same |-> same
        ,hasDb |-> hasDb
        ,dcore |-> dcore
        ,ut |-> ut
        ,ids |-> ids
        
        \* Put additional constant-, state-, and action-level expressions here:
        \* ,_stateNumber |-> _TEPosition
        \* ,_progUnchanged |-> prog = prog'
        
        \* Format the `prog` variable as Json value.
        \* ,_progJson |->
        \*     LET J == INSTANCE Json
        \*     IN J!ToJson(prog)
        
        \* Lastly, you may build expressions over arbitrary sets of states by
        \* leveraging the _TETrace operator.  For example, this is how to
        \* count the number of times a spec variable changed up to the current
        \* state in the trace.
        \* ,_progModCount |->
        \*     LET F[s \in DOMAIN _TETrace] ==
        \*         IF s = 1 THEN 0
        \*         ELSE IF _TETrace[s].prog # _TETrace[s-1].prog
        \*             THEN 1 + F[s-1] ELSE F[s-1]
        \*     IN F[_TEPosition - 1]
    ]

=============================================================================



Parsing and semantic processing can take forever if the trace below is long.
 In this case, it is advised to uncomment the module below to deserialize the
 trace from a generated binary file.

\*
\*---- MODULE MCSierraCodec_TETrace ----
\*EXTENDS IOUtils, TLC, MCSierraCodec
\*
\*trace == IODeserialize("MCSierraCodec_TTrace_1790365288.bin", TRUE)
\*
\*=============================================================================
\*

---- MODULE MCSierraCodec_TETrace ----
EXTENDS TLC, MCSierraCodec

trace == 
    <<
    ([init |-> [ids |-> "orig", core |-> "none", ut |-> "none", db |-> FALSE],prevText |-> "-",dcore |-> "none",prog |-> [structure |-> TRUE, negsign |-> TRUE, typeinfo |-> TRUE, fallthrough |-> TRUE, longid |-> TRUE, nestedut |-> TRUE],trail |-> <<>>,core |-> "none",hist |-> <<>>,same |-> TRUE,uids |-> "orig",casm |-> <<[structure |-> TRUE, negsign |-> TRUE, typeinfo |-> TRUE, fallthrough |-> TRUE, longid |-> TRUE, nestedut |-> TRUE], "-">>,ids |-> "orig",text |-> "-",rep |-> "mem",hasDb |-> FALSE,ut |-> "none"]),
    ([init |-> [ids |-> "orig", core |-> "none", ut |-> "none", db |-> FALSE],prevText |-> "-",dcore |-> "none",prog |-> [structure |-> TRUE, negsign |-> TRUE, typeinfo |-> TRUE, fallthrough |-> TRUE, longid |-> TRUE, nestedut |-> TRUE],trail |-> <<[rep |-> "json", ids |-> "orig", same |-> TRUE, core |-> "none", ut |-> "none"]>>,core |-> "none",hist |-> <<"ToJson">>,same |-> TRUE,uids |-> "orig",casm |-> <<[structure |-> TRUE, negsign |-> TRUE, typeinfo |-> TRUE, fallthrough |-> TRUE, longid |-> TRUE, nestedut |-> TRUE], "-">>,ids |-> "orig",text |-> "-",rep |-> "json",hasDb |-> FALSE,ut |-> "none"]),
    ([init |-> [ids |-> "orig", core |-> "none", ut |-> "none", db |-> FALSE],prevText |-> "-",dcore |-> "none",prog |-> [structure |-> TRUE, negsign |-> TRUE, typeinfo |-> FALSE, fallthrough |-> TRUE, longid |-> TRUE, nestedut |-> TRUE],trail |-> <<[rep |-> "json", ids |-> "orig", same |-> TRUE, core |-> "none", ut |-> "none"], [rep |-> "mem", ids |-> "orig", same |-> TRUE, core |-> "none", ut |-> "none"]>>,core |-> "none",hist |-> <<"ToJson", "FromJson">>,same |-> TRUE,uids |-> "orig",casm |-> <<[structure |-> TRUE, negsign |-> TRUE, typeinfo |-> FALSE, fallthrough |-> TRUE, longid |-> TRUE, nestedut |-> TRUE], "-">>,ids |-> "orig",text |-> "-",rep |-> "mem",hasDb |-> FALSE,ut |-> "none"])
    >>
----


=============================================================================

---- CONFIG MCSierraCodec_TTrace_1790365288 ----
CONSTANTS
    MaxLen = 4
    BUG = "json_loses_typeinfo"

INVARIANT
    _inv

CHECK_DEADLOCK
    \* CHECK_DEADLOCK off because of PROPERTY or INVARIANT above.
    FALSE

INIT
    _init

NEXT
    _next

CONSTANT
    _TETrace <- _trace

ALIAS
    _expression
=============================================================================
\* Generated on Fri Sep 25 19:41:30 UTC 2026
INIT Init
NEXT Next
POSTCONDITION PostCondition
CHECK_DEADLOCK FALSE

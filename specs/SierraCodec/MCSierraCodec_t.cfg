CONSTANTS
  MaxLen = 5
  BUG = "none"
INIT Init
NEXT Next
INVARIANT TypeOK
INVARIANT ProgramPreserved
INVARIANT CasmUnchanged
INVARIANT DisplayFixpoint
INVARIANT Preconditions
INVARIANT SameIsSound
INVARIANT Emit
CHECK_DEADLOCK FALSE

CONSTANTS
  MaxLen = 4
  BUG = "casm_depends_on_names"
INIT Init
NEXT Next
INVARIANT TypeOK
INVARIANT ProgramPreserved
INVARIANT CasmUnchanged
INVARIANT DisplayFixpoint
CHECK_DEADLOCK FALSE

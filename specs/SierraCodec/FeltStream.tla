---------------------------- MODULE FeltStream ----------------------------
(***************************************************************************)
(* The felt252 serialisation of a Sierra program as a *format*: a grammar  *)
(* over the decompressed word stream of a contract class, written from the *)
(* format's point of view (what a published class means), not as a copy of *)
(* the serialiser.                                                          *)
(*                                                                         *)
(*   Program     ::= Vec(TypeDecl) Vec(LibfuncDecl) Vec(Statement)         *)
(*                   Vec(Function)  <end of stream>                         *)
(*   Vec(X)      ::= n X^n                                                  *)
(*   TypeDecl    ::= GenericId LenInfo GenericArg^len                       *)
(*   LenInfo     ::= len + 2^128 * info ;  info = 0 (nothing declared) or   *)
(*                   2^63 + storable + 2 droppable + 4 duplicatable +       *)
(*                   8 zero_sized                                           *)
(*   LibfuncDecl ::= GenericId Vec(GenericArg)                              *)
(*   GenericId   ::= the name as big-endian ASCII bytes (at most 31), or    *)
(*                   keccak250(name) for the known long names               *)
(*   GenericArg  ::= 0 UserTypeId | 1 TypeIdx | 2 Value | 3 FunctionIdx     *)
(*                 | 4 LibfuncIdx | 5 Value   (meaning -Value)              *)
(*   Statement   ::= 0 LibfuncIdx Vec(Var) Vec(Branch) | 1 Vec(Var)         *)
(*   Branch      ::= Target Vec(Var) ; Target = 2^64-1 (fallthrough) | idx  *)
(*   Function    ::= Vec(TypeIdx) Vec(TypeIdx) Var^|params| EntryIdx        *)
(*                                                                         *)
(* Declarations carry no id: the i-th declaration *is* id i.               *)
(*                                                                         *)
(* A word is given as a natural < 2^30 or, when larger, as its base-2^16   *)
(* limbs (least significant first).  The acceptor below reads one item per *)
(* step and RECONSTRUCTS it as an abstract value (names as bytes, indices  *)
(* as numbers, values as sign + limbs); FeltStreamTrace compares that with *)
(* the view of the program that was serialised / that the deserialiser     *)
(* produced.                                                                *)
(***************************************************************************)
EXTENDS Integers, Sequences, TLC

B16 == 65536

(* ---- words -------------------------------------------------------------*)
\* W: sequence of integers; w >= 0 is the word itself, w < 0 refers to Big[-w].
IsSmall(W, i)  == W[i] >= 0
SmallLimbs(n)  == IF n = 0 THEN <<>> ELSE IF n < B16 THEN <<n>> ELSE <<n % B16, n \div B16>>
LimbsAt(W, Big, i) == IF W[i] >= 0 THEN SmallLimbs(W[i]) ELSE Big[-W[i]]

Limb(l, k) == IF k <= Len(l) THEN l[k] ELSE 0
AllZeroFrom(l, k) == \A j \in k..Len(l) : l[j] = 0

\* big-endian minimal byte string of a limb sequence (the name a short generic id spells)
RECURSIVE BytesDown(_, _)
BytesDown(l, k) == IF k = 0 THEN <<>> ELSE <<l[k] \div 256, l[k] % 256>> \o BytesDown(l, k - 1)
BytesOf(l) == LET b == BytesDown(l, Len(l)) IN IF Len(b) > 0 /\ b[1] = 0 THEN Tail(b) ELSE b

Fallthrough == <<65535, 65535, 65535, 65535>>      \* 2^64 - 1

(* ---- the known long generic ids (name bytes, keccak250 limbs) ----------*)
LongIds == <<
    [name |-> <<115, 116, 111, 114, 97, 103, 101, 95, 97, 100, 100, 114, 101, 115, 115, 95, 102, 114, 111, 109, 95, 98, 97, 115, 101, 95, 97, 110, 100, 95, 111, 102, 102, 115, 101, 116>>,
     hash |-> <<63396, 15396, 54512, 24384, 63023, 18589, 55614, 26107, 26489, 37225, 21962, 42295, 52483, 1324, 40296, 615>>],
    [name |-> <<99, 111, 110, 116, 114, 97, 99, 116, 95, 97, 100, 100, 114, 101, 115, 115, 95, 116, 114, 121, 95, 102, 114, 111, 109, 95, 102, 101, 108, 116, 50, 53, 50>>,
     hash |-> <<50033, 20597, 38990, 63526, 4496, 41166, 63329, 19323, 63801, 55390, 6243, 63130, 11396, 35043, 56151, 538>>],
    [name |-> <<115, 116, 111, 114, 97, 103, 101, 95, 98, 97, 115, 101, 95, 97, 100, 100, 114, 101, 115, 115, 95, 102, 114, 111, 109, 95, 102, 101, 108, 116, 50, 53, 50>>,
     hash |-> <<61937, 26406, 52942, 41612, 5402, 62170, 9834, 33539, 27786, 35867, 6211, 37827, 1449, 46335, 10541, 173>>],
    [name |-> <<115, 116, 111, 114, 97, 103, 101, 95, 97, 100, 100, 114, 101, 115, 115, 95, 116, 114, 121, 95, 102, 114, 111, 109, 95, 102, 101, 108, 116, 50, 53, 50>>,
     hash |-> <<20487, 13060, 10295, 53803, 40086, 48462, 51959, 38607, 13041, 56882, 33476, 42244, 35492, 60600, 22801, 429>>],
    [name |-> <<115, 101, 99, 112, 50, 53, 54, 107, 49, 95, 103, 101, 116, 95, 112, 111, 105, 110, 116, 95, 102, 114, 111, 109, 95, 120, 95, 115, 121, 115, 99, 97, 108, 108>>,
     hash |-> <<27878, 58225, 57174, 38929, 32837, 44046, 7675, 58378, 3725, 55301, 6314, 28898, 830, 17366, 53557, 915>>],
    [name |-> <<115, 101, 99, 112, 50, 53, 54, 114, 49, 95, 103, 101, 116, 95, 112, 111, 105, 110, 116, 95, 102, 114, 111, 109, 95, 120, 95, 115, 121, 115, 99, 97, 108, 108>>,
     hash |-> <<8978, 35568, 53717, 35315, 37241, 22835, 63812, 48860, 57740, 4132, 26996, 33663, 28587, 27353, 22524, 903>>],
    [name |-> <<99, 105, 114, 99, 117, 105, 116, 95, 102, 97, 105, 108, 117, 114, 101, 95, 103, 117, 97, 114, 97, 110, 116, 101, 101, 95, 118, 101, 114, 105, 102, 121>>,
     hash |-> <<11029, 22755, 62385, 48614, 60133, 7510, 48864, 25166, 14647, 28004, 44793, 26129, 13531, 48205, 62387, 78>>],
    [name |-> <<117, 57, 54, 95, 108, 105, 109, 98, 115, 95, 108, 101, 115, 115, 95, 116, 104, 97, 110, 95, 103, 117, 97, 114, 97, 110, 116, 101, 101, 95, 118, 101, 114, 105, 102, 121>>,
     hash |-> <<62330, 27479, 57374, 61046, 10147, 45270, 56058, 43997, 43365, 14466, 14211, 35141, 7917, 41297, 7300, 1004>>],
    [name |-> <<117, 57, 54, 95, 115, 105, 110, 103, 108, 101, 95, 108, 105, 109, 98, 95, 108, 101, 115, 115, 95, 116, 104, 97, 110, 95, 103, 117, 97, 114, 97, 110, 116, 101, 101, 95, 118, 101, 114, 105, 102, 121>>,
     hash |-> <<61892, 31825, 14367, 6759, 52471, 19864, 21509, 13964, 60547, 7757, 26455, 26611, 31711, 17442, 9103, 465>>]
>>

LongName(l) == IF \E i \in 1..Len(LongIds) : LongIds[i].hash = l
               THEN LongIds[CHOOSE i \in 1..Len(LongIds) : LongIds[i].hash = l].name
               ELSE <<>>

(* ---- results: [ok, v, next] or [ok |-> FALSE, why, at] ------------------*)
Fail(why, at) == [ok |-> FALSE, why |-> why, at |-> at]
Good(v, next) == [ok |-> TRUE, v |-> v, next |-> next]

InRange(W, i) == i >= 1 /\ i <= Len(W)

\* a word that must be a small natural (count, index, tag, variable)
Nat30(W, i) == IF ~InRange(W, i) THEN Fail("end of stream", i)
               ELSE IF W[i] < 0 THEN Fail("expected a small number", i)
               ELSE Good(W[i], i + 1)

GenericId(W, Big, i) ==
    IF ~InRange(W, i) THEN Fail("end of stream", i)
    ELSE LET l == LimbsAt(W, Big, i)
             long == LongName(l) IN
         IF long # <<>> THEN Good(long, i + 1)
         ELSE IF Len(l) > 16 THEN Fail("generic id longer than a felt", i)
         ELSE LET b == BytesOf(l) IN
              IF Len(b) = 0 \/ Len(b) > 31 THEN Fail("generic id: not a short name", i)
              ELSE IF \E k \in 1..Len(b) : b[k] = 0 \/ b[k] > 127 THEN Fail("generic id: not ASCII", i)
              ELSE Good(b, i + 1)

GenericArg(W, Big, i) ==
    LET tag == Nat30(W, i) IN
    IF ~tag.ok THEN tag
    ELSE IF ~InRange(W, i + 1) THEN Fail("end of stream", i + 1)
    ELSE LET l == LimbsAt(W, Big, i + 1)
             idx == Nat30(W, i + 1) IN
         CASE tag.v = 0 -> Good([k |-> "ut", v |-> l], i + 2)
           [] tag.v = 1 -> (IF idx.ok THEN Good([k |-> "ty", v |-> idx.v], i + 2) ELSE idx)
           [] tag.v = 2 -> Good([k |-> "val", neg |-> FALSE, v |-> l], i + 2)
           [] tag.v = 3 -> (IF idx.ok THEN Good([k |-> "fn", v |-> idx.v], i + 2) ELSE idx)
           [] tag.v = 4 -> (IF idx.ok THEN Good([k |-> "lf", v |-> idx.v], i + 2) ELSE idx)
           [] tag.v = 5 -> Good([k |-> "val", neg |-> (l # <<>>), v |-> l], i + 2)
           [] OTHER     -> Fail("unknown generic argument tag", i)

RECURSIVE Args(_, _, _, _)
Args(W, Big, i, n) ==
    IF n = 0 THEN Good(<<>>, i)
    ELSE LET a == GenericArg(W, Big, i) IN
         IF ~a.ok THEN a
         ELSE LET rest == Args(W, Big, a.next, n - 1) IN
              IF ~rest.ok THEN rest ELSE Good(<<a.v>> \o rest.v, rest.next)

RECURSIVE Nats(_, _, _)
Nats(W, i, n) ==
    IF n = 0 THEN Good(<<>>, i)
    ELSE LET a == Nat30(W, i) IN
         IF ~a.ok THEN a
         ELSE LET rest == Nats(W, a.next, n - 1) IN
              IF ~rest.ok THEN rest ELSE Good(<<a.v>> \o rest.v, rest.next)

VecNats(W, i) == LET n == Nat30(W, i) IN IF ~n.ok THEN n ELSE Nats(W, n.next, n.v)

\* len + 2^128 * info
LenInfo(W, Big, i) ==
    IF ~InRange(W, i) THEN Fail("end of stream", i)
    ELSE LET l == LimbsAt(W, Big, i) IN
         IF Len(l) > 12 THEN Fail("length/info word wider than 192 bits", i)
         ELSE IF Limb(l, 2) >= 16384 \/ ~(\A j \in 3..8 : Limb(l, j) = 0) THEN Fail("generic argument count out of range", i)
         ELSE LET len == Limb(l, 1) + B16 * Limb(l, 2) IN
              IF Len(l) <= 8 THEN Good([len |-> len, info |-> <<>>], i + 1)
              ELSE IF Limb(l, 12) # 32768 \/ Limb(l, 11) # 0 \/ Limb(l, 10) # 0 \/ Limb(l, 9) >= 16
                   THEN Fail("declared type info: marker or unknown bits", i)
              ELSE LET b == Limb(l, 9) IN
                   Good([len |-> len,
                         info |-> <<b % 2 = 1, (b \div 2) % 2 = 1, (b \div 4) % 2 = 1, (b \div 8) % 2 = 1>>], i + 1)

TypeDecl(W, Big, i) ==
    LET g == GenericId(W, Big, i) IN
    IF ~g.ok THEN g
    ELSE LET li == LenInfo(W, Big, g.next) IN
         IF ~li.ok THEN li
         ELSE LET a == Args(W, Big, li.next, li.v.len) IN
              IF ~a.ok THEN a
              ELSE Good([g |-> g.v, info |-> li.v.info, args |-> a.v], a.next)

LibfuncDecl(W, Big, i) ==
    LET g == GenericId(W, Big, i) IN
    IF ~g.ok THEN g
    ELSE LET n == Nat30(W, g.next) IN
         IF ~n.ok THEN n
         ELSE LET a == Args(W, Big, n.next, n.v) IN
              IF ~a.ok THEN a ELSE Good([g |-> g.v, args |-> a.v], a.next)

Branch(W, Big, i) ==
    IF ~InRange(W, i) THEN Fail("end of stream", i)
    ELSE LET t == IF W[i] >= 0 THEN W[i]
                  ELSE IF Big[-W[i]] = Fallthrough THEN -1 ELSE -2 IN
         IF t = -2 THEN Fail("branch target neither an index nor the fallthrough marker", i)
         ELSE LET r == VecNats(W, i + 1) IN
              IF ~r.ok THEN r ELSE Good([t |-> t, res |-> r.v], r.next)

RECURSIVE Branches(_, _, _, _)
Branches(W, Big, i, n) ==
    IF n = 0 THEN Good(<<>>, i)
    ELSE LET b == Branch(W, Big, i) IN
         IF ~b.ok THEN b
         ELSE LET rest == Branches(W, Big, b.next, n - 1) IN
              IF ~rest.ok THEN rest ELSE Good(<<b.v>> \o rest.v, rest.next)

StatementItem(W, Big, i) ==
    LET tag == Nat30(W, i) IN
    IF ~tag.ok THEN tag
    ELSE IF tag.v = 1 THEN
         LET a == VecNats(W, i + 1) IN
         IF ~a.ok THEN a ELSE Good([k |-> "ret", args |-> a.v], a.next)
    ELSE IF tag.v = 0 THEN
         LET lf == Nat30(W, i + 1) IN
         IF ~lf.ok THEN lf
         ELSE LET a == VecNats(W, lf.next) IN
              IF ~a.ok THEN a
              ELSE LET nb == Nat30(W, a.next) IN
                   IF ~nb.ok THEN nb
                   ELSE LET br == Branches(W, Big, nb.next, nb.v) IN
                        IF ~br.ok THEN br
                        ELSE Good([k |-> "inv", lf |-> lf.v, args |-> a.v, br |-> br.v], br.next)
    ELSE Fail("unknown statement tag", i)

FunctionItem(W, Big, i) ==
    LET ps == VecNats(W, i) IN
    IF ~ps.ok THEN ps
    ELSE LET rs == VecNats(W, ps.next) IN
         IF ~rs.ok THEN rs
         ELSE LET vs == Nats(W, rs.next, Len(ps.v)) IN
              IF ~vs.ok THEN vs
              ELSE LET e == Nat30(W, vs.next) IN
                   IF ~e.ok THEN e
                   ELSE Good([params |-> [k \in 1..Len(ps.v) |-> [v |-> vs.v[k], ty |-> ps.v[k]]],
                              rets |-> rs.v, entry |-> e.v], e.next)

Item(section, W, Big, i) ==
    CASE section = "types"    -> TypeDecl(W, Big, i)
      [] section = "libfuncs" -> LibfuncDecl(W, Big, i)
      [] section = "stmts"    -> StatementItem(W, Big, i)
      [] section = "funcs"    -> FunctionItem(W, Big, i)

Sections == <<"types", "libfuncs", "stmts", "funcs">>
=============================================================================

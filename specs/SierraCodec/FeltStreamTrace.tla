---------------------------- MODULE FeltStreamTrace ----------------------------
(***************************************************************************)
(* Trace acceptor (binding V of C18).  Every record of IOEnv.TRACE is one  *)
(* program: the decompressed word stream of a contract class (`w`, `big`)  *)
(* and the abstract view `exp` of the program the real code serialised or  *)
(* read from it.  One step reads one item of the stream with the grammar   *)
(* of FeltStream and compares the reconstruction with `exp`.               *)
(*                                                                         *)
(* Verdict per program (printed as <<"VERDICT", ...>>):                    *)
(*   "ok"        the stream is a sentence and means the same program       *)
(*   "mismatch"  the stream is a sentence but means a DIFFERENT program    *)
(*   "drift"     the stream is not a sentence of this grammar              *)
(***************************************************************************)
EXTENDS FeltStream, Json, IOUtils, TLCExt

Rec == ndJsonDeserialize(IOEnv.TRACE)
Tamper == IF "TAMPER" \in DOMAIN IOEnv THEN IOEnv.TAMPER ELSE "none"

VARIABLES p,        \* index of the current program in Rec
          sec,      \* 0: before the first section; 1..4: inside Sections[sec]; 5: at the end
          idx,      \* items of the current section read so far
          left,     \* items of the current section still to read
          pos,      \* next word of the stream
          nok, nmismatch, ndrift

vars == <<p, sec, idx, left, pos, nok, nmismatch, ndrift>>

W   == Rec[p].w
Big == Rec[p].big
Exp(s) == CASE s = "types" -> Rec[p].exp.types [] s = "libfuncs" -> Rec[p].exp.libfuncs
            [] s = "stmts" -> Rec[p].exp.stmts [] s = "funcs" -> Rec[p].exp.funcs

Init == p = 1 /\ sec = 0 /\ idx = 0 /\ left = 0 /\ pos = 1 /\ nok = 0 /\ nmismatch = 0 /\ ndrift = 0

Verdict(kind, why, at) ==
    /\ PrintT(<<"VERDICT", ToJson([id |-> Rec[p].id, verdict |-> kind, section |-> IF sec \in 1..4 THEN Sections[sec] ELSE "-",
                                    item |-> idx, at |-> at, why |-> why, n |-> p])>>)
    /\ p' = p + 1 /\ sec' = 0 /\ idx' = 0 /\ left' = 0 /\ pos' = 1
    /\ nok' = nok + (IF kind = "ok" THEN 1 ELSE 0)
    /\ nmismatch' = nmismatch + (IF kind = "mismatch" THEN 1 ELSE 0)
    /\ ndrift' = ndrift + (IF kind = "drift" THEN 1 ELSE 0)

Continue == UNCHANGED <<p, nok, nmismatch, ndrift>>

\* the item the real code holds at this position (optionally corrupted for the self-test)
Expected(s, k) ==
    LET e == Exp(s)[k] IN
    IF Tamper = "flip_first_type_info" /\ s = "types" /\ k = 1
    THEN [e EXCEPT !.info = IF e.info = <<>> THEN <<TRUE, TRUE, TRUE, FALSE>> ELSE <<>>]
    ELSE e

\* open the next section: its item count
OpenSection ==
    /\ p <= Len(Rec) /\ sec < 4 /\ left = 0 /\ (IF sec = 0 THEN TRUE ELSE idx = Len(Exp(Sections[sec])))
    /\ LET n == Nat30(W, pos) IN
       IF ~n.ok THEN Verdict("drift", n.why, pos)
       ELSE /\ sec' = sec + 1 /\ idx' = 0 /\ left' = n.v /\ pos' = n.next /\ Continue

\* the stream announced fewer items than the program has
SectionShort ==
    /\ p <= Len(Rec) /\ sec \in 1..4 /\ left = 0 /\ idx < Len(Exp(Sections[sec]))
    /\ Verdict("mismatch", "the stream holds fewer items than the program", pos)

ReadItem ==
    /\ p <= Len(Rec) /\ sec \in 1..4 /\ left > 0
    /\ LET s == Sections[sec]
           r == Item(s, W, Big, pos) IN
       IF ~r.ok THEN Verdict("drift", r.why, r.at)
       ELSE IF idx + 1 > Len(Exp(s)) THEN Verdict("mismatch", "the stream holds more items than the program", pos)
       ELSE IF r.v # Expected(s, idx + 1) THEN Verdict("mismatch", "the item read from the stream differs from the program's", pos)
       ELSE /\ idx' = idx + 1 /\ left' = left - 1 /\ pos' = r.next /\ UNCHANGED sec /\ Continue

Finish ==
    /\ p <= Len(Rec) /\ sec = 4 /\ left = 0 /\ idx = Len(Exp("funcs"))
    /\ IF pos = Len(W) + 1 THEN Verdict("ok", "-", pos) ELSE Verdict("drift", "words after the last function", pos)

Next == OpenSection \/ SectionShort \/ ReadItem \/ Finish

Spec == Init /\ [][Next]_vars

\* every program got a verdict
Accepted == p = Len(Rec) + 1
\* (the driver additionally requires one VERDICT line per record)
PostCondition == TLCGet("stats").diameter - 1 >= Len(Rec)
=============================================================================

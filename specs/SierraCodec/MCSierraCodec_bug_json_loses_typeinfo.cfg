CONSTANTS
  MaxLen = 4
  BUG = "json_loses_typeinfo"
INIT Init
NEXT Next
INVARIANT TypeOK
INVARIANT ProgramPreserved
INVARIANT CasmUnchanged
INVARIANT DisplayFixpoint
CHECK_DEADLOCK FALSE

---------------------------- MODULE SierraCodec ----------------------------
(***************************************************************************)
(* One Sierra program and the representations it travels through (C18).   *)
(*                                                                         *)
(* The state is the current representation plus an abstract account of    *)
(* the information that representation carries:                            *)
(*   prog   the program proper, as a record of facets that every codec    *)
(*          must carry (declarations/statements/functions, signs of       *)
(*          negative generic values, declared-type-info bits, fallthrough *)
(*          markers, long generic ids, user types nested in generic       *)
(*          arguments)                                                     *)
(*   ids    how the type/libfunc/function ids are numbered                 *)
(*            "orig"   arbitrary (interned ids of the compiler database)  *)
(*            "canon"  declaration i has id i                              *)
(*            "hashed" every *named* id is the hash of its name (what the *)
(*                     text parser produces)                               *)
(*            "other"  no statement                                        *)
(*   same   the ids are literally those of the initial program            *)
(*   core   how many type/libfunc/function id occurrences carry a debug   *)
(*          name ("none" | "some" | "all"), ut: the same for user types   *)
(*   dcore  debug-name coverage captured in a contract class' DebugInfo   *)
(*   hasDb  a compiler database that can expand ids is available          *)
(*   casm   digest of the CASM generated from the current in-memory form  *)
(*   text   digest of the last text produced by Display                   *)
(*                                                                         *)
(* Actions are the codec steps with their real preconditions.  Invariants:*)
(* the program and the CASM digest never change; Display o Parse o        *)
(* Display = Display.  Every behaviour of length <= MaxLen is a codec     *)
(* composition that the harness replays on the real crates, comparing     *)
(* rep/ids/core/ut/same with what is predicted here.                      *)
(***************************************************************************)
EXTENDS Naturals, Sequences, TLC

CONSTANTS
    MaxLen,     \* bound on the number of steps of a path
    BUG         \* "none" or the name of a deliberately wrong variant

Reps    == {"mem", "text", "felts", "json", "classJson"}
IdKinds == {"orig", "canon", "hashed", "other"}
Cov     == {"none", "some", "all"}

Facets  == {"structure", "negsign", "typeinfo", "fallthrough", "longid", "nestedut"}
Prog0   == [f \in Facets |-> TRUE]           \* every facet intact

VARIABLES rep, prog, ids, uids, same, core, ut, dcore, hasDb, casm, text, prevText, init, hist, trail

vars == <<rep, prog, ids, uids, same, core, ut, dcore, hasDb, casm, text, prevText, init, hist, trail>>

(* What a compile of the in-memory program yields: a function of the      *)
(* program proper only - never of the numbering or of debug names.        *)
Casm(p, c) == IF BUG = "casm_depends_on_names" /\ c = "all" THEN <<p, "named">> ELSE <<p, "-">>

(* What Display shows: names where there are names, numbers elsewhere.    *)
TextOf(p, i, c, u) == [p |-> p, c |-> c, u |-> u, shown |-> IF c = "all" THEN "-" ELSE i]   \* i: numbering of the unnamed ids

Obs == [rep |-> rep, ids |-> ids, core |-> core, ut |-> ut, same |-> same]

Lose(p, facet) == [p EXCEPT ![facet] = FALSE]

Init ==
    /\ rep = "mem"
    /\ prog = Prog0
    /\ ids \in IdKinds
    /\ core \in Cov
    /\ ut \in Cov
    /\ hasDb \in BOOLEAN
    /\ hasDb => ids = "orig"
    /\ uids = ids
    /\ same = TRUE
    /\ dcore = "none"
    /\ casm = Casm(prog, core)
    /\ text = "-"
    /\ prevText = "-"
    /\ init = [ids |-> ids, core |-> core, ut |-> ut, db |-> hasDb]
    /\ hist = <<>>
    /\ trail = <<>>

Step(name) ==
    /\ Len(hist) < MaxLen
    /\ hist' = Append(hist, name)
    /\ init' = init

Record == trail' = Append(trail, [rep |-> rep', ids |-> ids', core |-> core', ut |-> ut', same |-> same'])

(* The CASM digest is re-derived whenever an in-memory program exists.    *)
Recompile == casm' = IF rep' = "mem" THEN Casm(prog', core') ELSE casm

Display ==
    /\ rep = "mem" /\ Step("Display")
    /\ rep' = "text"
    /\ text' = TextOf(prog, uids, core, ut)
    /\ prevText' = text
    /\ UNCHANGED <<prog, ids, uids, same, core, ut, dcore, hasDb>>
    /\ Recompile /\ Record

(* Named ids are re-derived from their names by hashing; `[n]` ids are    *)
(* read back literally.                                                    *)
Parse ==
    /\ rep = "text" /\ Step("Parse")
    /\ rep' = "mem"
    /\ prog' = IF BUG = "parse_loses_fallthrough" THEN Lose(prog, "fallthrough") ELSE prog
    /\ ids' = CASE core = "none" -> ids
                [] core = "all"  -> "hashed"
                [] OTHER         -> IF ids = "hashed" THEN "hashed" ELSE "other"
    \* user type ids are re-derived from their (possibly normalised) names: no exact prediction then
    /\ same' = (same /\ (core = "none" \/ ids = "hashed") /\ ut = "none")
    /\ UNCHANGED <<uids, core, ut, dcore, hasDb, text, prevText>>
    /\ Recompile /\ Record

Canonicalise ==
    /\ rep = "mem" /\ Step("Canonicalise")
    /\ ids' = "canon" /\ uids' = "canon"
    /\ same' = (same /\ ids = "canon")
    /\ UNCHANGED <<rep, prog, core, ut, dcore, hasDb, text, prevText>>
    /\ Recompile /\ Record

(* Needs the database that interned the ids, hence the original numbering. *)
ReplaceIds ==
    /\ rep = "mem" /\ hasDb /\ ids = "orig" /\ Step("ReplaceIds")
    /\ core' = "all"
    /\ UNCHANGED <<rep, prog, ids, uids, same, ut, dcore, hasDb, text, prevText>>
    /\ Recompile /\ Record

StripDebug ==
    /\ rep = "mem" /\ Step("StripDebug")
    /\ core' = "none" /\ ut' = "none"
    /\ UNCHANGED <<rep, prog, ids, uids, same, dcore, hasDb, text, prevText>>
    /\ Recompile /\ Record

(* The felt serialisation addresses declarations by position: it needs    *)
(* canonical ids.  The class keeps the names of the declared ids aside.   *)
ToFelts ==
    /\ rep = "mem" /\ ids = "canon" /\ Step("ToFelts")
    /\ rep' = "felts"
    /\ dcore' = core
    /\ UNCHANGED <<prog, ids, uids, same, core, ut, hasDb, text, prevText>>
    /\ Recompile /\ Record

FromFeltsCommon(name) ==
    /\ rep = "felts" /\ Step(name)
    /\ rep' = "mem"
    /\ prog' = IF BUG = "fromfelts_drops_negative" THEN Lose(prog, "negsign") ELSE prog
    /\ ids' = "canon" /\ uids' = "canon"
    /\ ut' = "none"          \* user type ids travel as numbers only
    /\ UNCHANGED <<same, dcore, hasDb, text, prevText>>

FromFelts ==
    /\ FromFeltsCommon("FromFelts")
    /\ core' = "none"
    /\ Recompile /\ Record

FromFeltsDbg ==
    /\ FromFeltsCommon("FromFeltsDbg")
    /\ core' = dcore
    /\ Recompile /\ Record

ClassToJson ==
    /\ rep = "felts" /\ Step("ClassToJson")
    /\ rep' = "classJson"
    /\ UNCHANGED <<prog, ids, uids, same, core, ut, dcore, hasDb, text, prevText>>
    /\ Recompile /\ Record

ClassFromJson ==
    /\ rep = "classJson" /\ Step("ClassFromJson")
    /\ rep' = "felts"
    /\ UNCHANGED <<prog, ids, uids, same, core, ut, dcore, hasDb, text, prevText>>
    /\ Recompile /\ Record

ProgToJson ==
    /\ rep = "mem" /\ Step("ToJson")
    /\ rep' = "json"
    /\ UNCHANGED <<prog, ids, uids, same, core, ut, dcore, hasDb, text, prevText>>
    /\ Recompile /\ Record

ProgFromJson ==
    /\ rep = "json" /\ Step("FromJson")
    /\ rep' = "mem"
    /\ prog' = IF BUG = "json_loses_typeinfo" THEN Lose(prog, "typeinfo") ELSE prog
    /\ UNCHANGED <<ids, uids, same, core, ut, dcore, hasDb, text, prevText>>
    /\ Recompile /\ Record

Next ==
    \/ Display \/ Parse \/ Canonicalise \/ ReplaceIds \/ StripDebug
    \/ ToFelts \/ FromFelts \/ FromFeltsDbg \/ ClassToJson \/ ClassFromJson
    \/ ProgToJson \/ ProgFromJson

Spec == Init /\ [][Next]_vars

---------------------------------------------------------------------------
TypeOK ==
    /\ rep \in Reps /\ ids \in IdKinds /\ core \in Cov /\ ut \in Cov /\ dcore \in Cov
    /\ same \in BOOLEAN /\ hasDb \in BOOLEAN
    /\ Len(hist) <= MaxLen /\ Len(trail) = Len(hist)

(* The program proper survives every path.                                 *)
ProgramPreserved == prog = Prog0

(* Whatever the path, compiling yields the CASM of the initial program.   *)
CasmUnchanged == casm = <<Prog0, "-">>

(* Display o Parse o Display = Display.                                    *)
DisplayFixpoint ==
    (Len(hist) >= 3 /\ hist[Len(hist)] = "Display" /\ hist[Len(hist) - 1] = "Parse" /\ hist[Len(hist) - 2] = "Display")
        => text = prevText

(* A database-free program can never reach ReplaceIds; felts need canon.  *)
Preconditions ==
    /\ (rep \in {"felts", "classJson"}) => ids = "canon"
    /\ (Len(hist) > 0 /\ hist[Len(hist)] = "ReplaceIds") => init.db

(* Ids identical to the initial ones implies the same numbering class.    *)
SameIsSound == same => ids = init.ids
=============================================================================

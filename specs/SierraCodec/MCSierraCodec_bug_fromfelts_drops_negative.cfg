CONSTANTS
  MaxLen = 4
  BUG = "fromfelts_drops_negative"
INIT Init
NEXT Next
INVARIANT TypeOK
INVARIANT ProgramPreserved
INVARIANT CasmUnchanged
INVARIANT DisplayFixpoint
CHECK_DEADLOCK FALSE

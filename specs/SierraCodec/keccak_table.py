# Independent Keccak-256 (original padding 0x01) to build the long-generic-id table of FeltStream.tla.
RC=[0x0000000000000001,0x0000000000008082,0x800000000000808A,0x8000000080008000,0x000000000000808B,0x0000000080000001,0x8000000080008081,0x8000000000008009,0x000000000000008A,0x0000000000000088,0x0000000080008009,0x000000008000000A,0x000000008000808B,0x800000000000008B,0x8000000000008089,0x8000000000008003,0x8000000000008002,0x8000000000000080,0x000000000000800A,0x800000008000000A,0x8000000080008081,0x8000000000008080,0x0000000080000001,0x8000000080008008]
ROT=[[0,36,3,41,18],[1,44,10,45,2],[62,6,43,15,61],[28,55,25,21,56],[27,20,39,8,14]]
M=(1<<64)-1
def rol(x,n): n%=64; return ((x<<n)|(x>>(64-n)))&M if n else x
def f(A):
    for rc in RC:
        C=[A[x][0]^A[x][1]^A[x][2]^A[x][3]^A[x][4] for x in range(5)]
        D=[C[(x-1)%5]^rol(C[(x+1)%5],1) for x in range(5)]
        A=[[A[x][y]^D[x] for y in range(5)] for x in range(5)]
        B=[[0]*5 for _ in range(5)]
        for x in range(5):
            for y in range(5):
                B[y][(2*x+3*y)%5]=rol(A[x][y],ROT[x][y])
        A=[[B[x][y]^((~B[(x+1)%5][y])&B[(x+2)%5][y]) for y in range(5)] for x in range(5)]
        A[0][0]^=rc
    return A
def keccak256(data):
    rate=136
    p=bytearray(data); p.append(0x01)
    while len(p)%rate: p.append(0)
    p[-1]|=0x80
    A=[[0]*5 for _ in range(5)]
    for off in range(0,len(p),rate):
        blk=p[off:off+rate]
        for i in range(rate//8):
            A[i%5][i//5]^=int.from_bytes(blk[8*i:8*i+8],'little')
        A=f(A)
    out=b''
    for i in range(4): out+=A[i%5][i//5].to_bytes(8,'little')
    return out
assert keccak256(b'').hex()=='c5d2460186f7233c927e7db2dcc703c0e500b653ca82273b7bfad8045d85a470'
def sn_keccak(b):
    h=bytearray(keccak256(b)); h[0]&=3; return int.from_bytes(h,'big')
names=["storage_address_from_base_and_offset","contract_address_try_from_felt252","storage_base_address_from_felt252","storage_address_try_from_felt252","secp256k1_get_point_from_x_syscall","secp256r1_get_point_from_x_syscall","circuit_failure_guarantee_verify","u96_limbs_less_than_guarantee_verify","u96_single_limb_less_than_guarantee_verify"]
def limbs(v):
    o=[]
    while v: o.append(v&0xffff); v>>=16
    return o
if __name__=='__main__':
    rows=[]
    for n in names:
        rows.append('    [name |-> <<%s>>,\n     hash |-> <<%s>>]'%(', '.join(str(c) for c in n.encode()), ', '.join(str(l) for l in limbs(sn_keccak(n.encode())))))
    print('LongIds == <<\n'+',\n'.join(rows)+'\n>>')
    print('constructor', hex(sn_keccak(b'constructor')))

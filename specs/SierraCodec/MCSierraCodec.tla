---------------------------- MODULE MCSierraCodec ----------------------------
(* Model-checking instance of SierraCodec: every behaviour prefix is emitted as a REPLAY path. *)
EXTENDS SierraCodec, Json

Emit == Len(hist) > 0 =>
    PrintT(<<"REPLAY", ToJson([k |-> "path", init |-> init, steps |-> hist, exp |-> trail])>>)
=============================================================================

INIT Init
NEXT Next
INVARIANT Report
POSTCONDITION Accepted
CHECK_DEADLOCK FALSE

---------------------------- MODULE SierraRunTrace ----------------------------
(* Trace validation of real VM runs against SierraRun (binding V).
   PROGS: ndjson of program exports (DESIGN A.3), TRACE: ndjson of run events (A.4).
   Every event is consumed by exactly one action; a violated law is appended to `bad`
   (with the line number) instead of stopping, so that the rest of the file is still
   checked; a run whose control flow was lost is skipped up to its next `reset`.     *)
EXTENDS SierraRun, Json, IOUtils

Progs == ndJsonDeserialize(IOEnv.PROGS)
Rec == ndJsonDeserialize(IOEnv.TRACE)

ProgIndex(id) == CHOOSE i \in 1..Len(Progs) : Progs[i].id = id

VARIABLES l, pi, fn, g, cur, pend, stack, steps, dead, bad, nruns
vars == <<l, pi, fn, g, cur, pend, stack, steps, dead, bad, nruns>>

MaxBad == 60
Note(laws) == IF laws = {} \/ Len(bad) >= MaxBad THEN bad
              ELSE Append(bad, [line |-> l, run |-> nruns, laws |-> laws])

Init == /\ l = 1 /\ pi = 0 /\ fn = 0 /\ g = 0 /\ cur = 0 /\ pend = <<"none">> /\ stack = <<>>
        /\ steps = 0 /\ dead = TRUE /\ bad = <<>> /\ nruns = 0

Ev == Rec[l]

Reset ==
  /\ Ev.e = "reset"
  /\ pi' = ProgIndex(Ev.prog) /\ fn' = Ev.fn /\ g' = Ev.g
  /\ cur' = 0 /\ pend' = <<"entry", Ev.fn>> /\ stack' = <<>> /\ steps' = 0 /\ dead' = FALSE
  /\ nruns' = nruns + 1 /\ bad' = bad /\ l' = l + 1

Exec ==
  /\ Ev.e = "x" /\ ~dead
  /\ LET P == Progs[pi].export
         v == ExecVerdict(P, cur, pend, stack, Ev.s, Ev.ap, Ev.st)
     IN /\ bad' = Note(v)
        /\ dead' = ("FlowOK" \in v)
        /\ stack' = StackAfter(P, pend, stack, Ev.s, Ev.ap)
        /\ pend' = PendAfter(P, pend, stack, Ev.s, Ev.ap)
        /\ cur' = Ev.s
        /\ steps' = steps + Ev.n
  /\ l' = l + 1 /\ UNCHANGED <<pi, fn, g, nruns>>

Finish ==
  /\ Ev.e = "fin" /\ ~dead
  /\ bad' = Note(FinishVerdict(Progs[pi].export, pend, fn, g, Ev, steps))
  /\ dead' = TRUE
  /\ l' = l + 1 /\ UNCHANGED <<pi, fn, g, cur, pend, stack, steps, nruns>>

\* events that have no SierraRun action: the run did not complete as the spec requires
Abnormal ==
  /\ Ev.e \in {"vmerr", "norange", "harness"} /\ ~dead
  /\ bad' = Note(CASE Ev.e = "vmerr" -> {"Completes"} [] Ev.e = "norange" -> {"OneStatementPerPc"} [] OTHER -> {"Harness"})
  /\ dead' = TRUE
  /\ l' = l + 1 /\ UNCHANGED <<pi, fn, g, cur, pend, stack, steps, nruns>>

\* bookkeeping events and the remainder of a run that was given up
Skip ==
  /\ \/ Ev.e \in {"result", "refused"}
     \/ (dead /\ Ev.e # "reset")
  /\ dead' = (dead \/ Ev.e = "refused")
  /\ l' = l + 1 /\ UNCHANGED <<pi, fn, g, cur, pend, stack, steps, bad, nruns>>

Next == l <= Len(Rec) /\ (Reset \/ Exec \/ Finish \/ Abnormal \/ Skip)
Spec == Init /\ [][Next]_vars

Report == l <= Len(Rec) \/ PrintT(<<"BAD", ToJson([runs |-> nruns, events |-> Len(Rec), bad |-> bad])>>)
Accepted == TLCGet("stats").diameter - 1 = Len(Rec)
=============================================================================

------------------------------ MODULE SierraRun ------------------------------
(***************************************************************************)
(* A compiled program's execution seen at Sierra granularity                *)
(* (properties C02, C04, C17).                                             *)
(*                                                                         *)
(* The machine: a stack of function frames [fn, entry_ap, call_stmt], the   *)
(* statement `cur` whose code ran last, and running totals.  One action per *)
(* observable step of a run:                                               *)
(*   Begin(f, g)        - the runner enters function f with gas g           *)
(*   Exec(s, n, ap)     - the code of statement s runs for n VM steps,      *)
(*                        starting with allocation pointer ap               *)
(*   Finish(kind, ...)  - the outermost `ret` returned to the runner        *)
(* Statements that emit no code (renames, drop, dup, struct construction,   *)
(* zero-burn branch_align, ...) never appear in a VM trace: they are        *)
(* composed into Exec as bounded *silent steps* (Closure).  Which branch of *)
(* the previous statement was taken is not observable either: Exec is       *)
(* enabled for s iff SOME branch's closure is s.                            *)
(*                                                                         *)
(* Laws (each a state predicate over the step just taken):                  *)
(*   FlowOK      control follows the Sierra CFG; calls and returns nest     *)
(*   StartOK     every statement instance begins at the statement's         *)
(*               recorded start offset (C17: ranges are exact)              *)
(*   ApExact     at every `return` of a function f with a declared ap       *)
(*               change k: ap - entry_ap(frame) = k   (C17)                 *)
(*   GasCovers   at Finish: priced actual cost <= charged + 100   (C04)     *)
(*   StepBound   100 * steps <= gas given + 100               (C02/C04)     *)
(*   Completes   the run ends in Finish(ok | panic), never in a VM error    *)
(*                                                              (C02)       *)
(* The program (statements, branch targets, code ranges, function table)   *)
(* is a parameter: `P` below is one export of DESIGN A.3.                   *)
(***************************************************************************)
EXTENDS Integers, Sequences, FiniteSets, TLC

\* ---------------------------------------------------------------- program accessors
NStmts(P) == Len(P.stmts)
Stmt(P, s) == P.stmts[s]
IsRet(P, s) == P.stmts[s].k = "ret"
CodeSize(P, s) == P.code[s].end - P.code[s].start
Callee(P, s) == IF P.stmts[s].k = "inv" /\ P.stmts[s].lf > 0 THEN P.libfuncs[P.stmts[s].lf].callee ELSE 0
Targets(P, s) == {P.stmts[s].br[b].t : b \in 1..Len(P.stmts[s].br)}

\* Silent closure: the first statement with code reached from t through single-branch
\* statements without code (0 = none / falls off the program).  Bounded by the program length.
RECURSIVE ClosureN(_, _, _)
ClosureN(P, t, fuel) ==
  IF t < 1 \/ t > NStmts(P) \/ fuel = 0 THEN 0
  ELSE IF CodeSize(P, t) > 0 THEN t
  ELSE IF P.stmts[t].k = "inv" /\ Len(P.stmts[t].br) = 1 THEN ClosureN(P, P.stmts[t].br[1].t, fuel - 1)
  ELSE 0
Closure(P, t) == ClosureN(P, t, NStmts(P))

\* statements that may run right after statement s (s has code, is not a call / return)
Succ(P, s) == {Closure(P, t) : t \in Targets(P, s)} \ {0}

\* ---------------------------------------------------------------- prices (runner: token_gas_cost, ConstCost::cost)
Price == [step |-> 100, rc |-> 70, rc96 |-> 56, pedersen |-> 4050, poseidon |-> 491, bitwise |-> 583,
          ec_op |-> 4085, add_mod |-> 230, mul_mod |-> 604]

PricedCost(r) ==
    Price.step * r.n_steps + Price.rc * r.rc + Price.rc96 * r.rc96 + Price.pedersen * r.pedersen
  + Price.poseidon * r.poseidon + Price.bitwise * r.bitwise + Price.ec_op * r.ec_op
  + Price.add_mod * r.add_mod + Price.mul_mod * r.mul_mod

\* ---------------------------------------------------------------- the step relation, as verdicts
\* Frames are records [fn, ap, call]; `pend` says what the next Exec must be:
\*   <<"entry", f>>  first statement of function f (pushes a frame)
\*   <<"after", c>>  continuation of call statement c after its callee returned
\*   <<"flow">>      any successor of `cur`

ExpectedNext(P, cur, pend) ==
  CASE pend[1] = "entry" -> {Closure(P, P.funcs[pend[2]].entry)} \ {0}
    [] pend[1] = "after" -> Succ(P, pend[2])
    [] OTHER -> Succ(P, cur)

\* verdict of Exec(s, ap, st) in state (cur, pend, stack): a set of violated law names
ExecVerdict(P, cur, pend, stack, s, ap, st) ==
     (IF s \in ExpectedNext(P, cur, pend) THEN {} ELSE {"FlowOK"})
  \cup (IF st THEN {} ELSE {"StartOK"})
  \cup (IF IsRet(P, s) THEN
          LET fr == IF pend[1] = "entry" THEN [fn |-> pend[2], ap |-> ap, call |-> 0]
                    ELSE IF Len(stack) > 0 THEN stack[Len(stack)] ELSE [fn |-> 0, ap |-> ap, call |-> 0]
          IN IF fr.fn = 0 THEN {"FlowOK"}
             ELSE IF P.funcs[fr.fn].fn_ap >= 0 /\ ap - fr.ap # P.funcs[fr.fn].fn_ap THEN {"ApExact"} ELSE {}
        ELSE {})

\* new (stack, pend) after Exec(s, ap)
StackAfter(P, pend, stack, s, ap) ==
  LET st1 == IF pend[1] = "entry" THEN Append(stack, [fn |-> pend[2], ap |-> ap, call |-> IF Len(pend) > 2 THEN pend[3] ELSE 0])
             ELSE stack
  IN IF IsRet(P, s) /\ Len(st1) > 0 THEN SubSeq(st1, 1, Len(st1) - 1) ELSE st1

PendAfter(P, pend, stack, s, ap) ==
  LET st1 == IF pend[1] = "entry" THEN Append(stack, [fn |-> pend[2], ap |-> ap, call |-> IF Len(pend) > 2 THEN pend[3] ELSE 0])
             ELSE stack
  IN IF IsRet(P, s) THEN
          (IF Len(st1) > 1 THEN <<"after", st1[Len(st1)].call>> ELSE <<"done">>)
     ELSE IF Callee(P, s) > 0 THEN <<"entry", Callee(P, s), s>>
     ELSE <<"flow">>

\* verdict of Finish: r = the fin record, g = gas given, f = function run
FinishVerdict(P, pend, f, g, r, steps) ==
  LET charged == IF r.gas_left >= 0 THEN g - r.gas_left ELSE P.funcs[f].req IN
     (IF pend[1] = "done" THEN {} ELSE {"FlowOK"})
  \cup (IF r.kind \in {"ok", "panic"} THEN {} ELSE {"Completes"})
  \cup (IF P.funcs[f].req >= 0 /\ PricedCost(r) > charged + 100 THEN {"GasCovers"} ELSE {})
  \cup (IF P.funcs[f].req >= 0 /\ r.gas_left >= 0 /\ 100 * r.n_steps > g + 100 THEN {"StepBound"} ELSE {})
  \cup (IF steps = r.n_steps THEN {} ELSE {"StepCount"})     \* diagnostic: the event derivation covers the whole trace
=============================================================================

CONSTANT MaxLen = 4
INIT Init
NEXT Next
INVARIANT Emit
INVARIANT Sanity
CHECK_DEADLOCK FALSE

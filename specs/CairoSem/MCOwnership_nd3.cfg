CONSTANT MaxLen = 3
CONSTANT Vars = {"mv","nd"}
INIT Init
NEXT Next
INVARIANT Emit
INVARIANT Sanity
CHECK_DEADLOCK FALSE

------------------------------- MODULE CairoSem -------------------------------
(***************************************************************************)
(* Reference semantics of a Cairo subset (properties C01, C05, C08).        *)
(*                                                                         *)
(* A definitional interpreter over abstract syntax trees (DESIGN A.2): the  *)
(* meaning of a program is what the language documentation and the core     *)
(* library say it is - checked integer arithmetic with the core library's   *)
(* panic data, left-to-right evaluation, short-circuit && and ||, blocks,   *)
(* let / mut / assignment, if / match, loop / while / for with break and    *)
(* continue, early return, `?`, calls, tuples / structs / enums / Option /   *)
(* Result, arrays, Felt252Dict, snapshots and boxes (value semantics),      *)
(* integer conversions, derived PartialEq and the length of derived Serde   *)
(* output.  Nothing here knows about lowering, Sierra or CASM.              *)
(*                                                                         *)
(* Values: Int (integers, felt252 in a window), BOOLEAN, sequences (tuples, *)
(* structs, arrays), records [tag, p] (enum / Option / Result values),      *)
(* functions with finite domain (dictionaries).                            *)
(* Evaluation threads a state st = [env, fuel] and returns a *signal*       *)
(*   [k |-> "val"|"panic"|"break"|"cont"|"ret"|"oom", v |-> value, st]      *)
(* "oom" (out of model): a result left the integer window, fuel ran out -   *)
(* such runs are never compared.                                           *)
(***************************************************************************)
EXTENDS Integers, Sequences, FiniteSets, TLC, Bitwise

Window == 1073741824   \* 2^30: integers outside (-2^30, 2^30) are out of model

\* ---------------------------------------------------------------- integer types
SmallTypes == {"u8", "u16", "i8", "i16"}
Unsigned == {"u8", "u16", "u32", "u64", "u128"}
Signed == {"i8", "i16", "i32", "i64", "i128"}
Lo(ty) == CASE ty = "u8" -> 0 [] ty = "u16" -> 0 [] ty = "i8" -> -128 [] ty = "i16" -> -32768
            [] ty \in Unsigned -> 0 [] OTHER -> -Window        \* wide signed / felt: window
Hi(ty) == CASE ty = "u8" -> 255 [] ty = "u16" -> 65535 [] ty = "i8" -> 127 [] ty = "i16" -> 32767
            [] OTHER -> Window
Exact(ty) == ty \in SmallTypes       \* both bounds are the type's real bounds
InWindow(n) == n > -Window /\ n < Window

AbsI(n) == IF n < 0 THEN -n ELSE n
Sig(k, v, st) == [k |-> k, v |-> v, st |-> st]
Val(v, st) == Sig("val", v, st)
Panic(msg, st) == Sig("panic", <<msg>>, st)
Oom(st) == Sig("oom", <<>>, st)
Unit == <<>>

\* checked arithmetic with the core library's panic data
Msg(ty, op, what) == ty \o "_" \o op \o " " \o what
Arith(op, ty, a, b, st) ==
  CASE op = "mul" /\ a # 0 /\ b # 0 /\ AbsI(a) > Window \div AbsI(b) ->
         \* the product leaves the window (TLC integers are 32 bit): certainly outside every exact type
         IF Exact(ty) THEN Panic(Msg(ty, "mul", "Overflow"), st) ELSE Oom(st)
    [] op \in {"add", "sub", "mul"} ->
         LET r == CASE op = "add" -> a + b [] op = "sub" -> a - b [] op = "mul" -> a * b IN
         IF ty = "felt" THEN (IF InWindow(r) THEN Val(r, st) ELSE Oom(st))
         ELSE IF r < Lo(ty) THEN
              (IF ty \in Unsigned \/ Exact(ty)
               THEN Panic(Msg(ty, op, IF ty \in Signed /\ op # "mul" THEN "Underflow" ELSE "Overflow"), st)
               ELSE Oom(st))
         ELSE IF r > Hi(ty) THEN (IF Exact(ty) THEN Panic(Msg(ty, op, "Overflow"), st) ELSE Oom(st))
         ELSE IF ~InWindow(r) THEN Oom(st) ELSE Val(r, st)
    [] op \in {"div", "rem"} ->
         IF b = 0 THEN Panic("Division by 0", st)
         ELSE LET aa == IF a < 0 THEN -a ELSE a
                  bb == IF b < 0 THEN -b ELSE b
                  q0 == aa \div bb
                  r0 == aa % bb
                  q == IF (a < 0) # (b < 0) THEN -q0 ELSE q0     \* truncating division
                  r == IF a < 0 THEN -r0 ELSE r0                  \* remainder takes the dividend's sign
              IN IF q > Hi(ty) THEN (IF Exact(ty) THEN Panic("attempt to divide with overflow", st) ELSE Oom(st))
                 ELSE Val(IF op = "div" THEN q ELSE r, st)

Cmp(op, a, b) ==
  CASE op = "lt" -> a < b [] op = "le" -> a <= b [] op = "gt" -> a > b [] op = "ge" -> a >= b
    [] op = "eq" -> a = b [] op = "ne" -> a # b

BitOp(op, a, b) == CASE op = "and" -> a & b [] op = "or" -> a | b [] op = "xor" -> a ^^ b

\* conversions between integer types / felt
ConvInto(to, v, st) == IF InWindow(v) THEN Val(v, st) ELSE Oom(st)
ConvTry(to, v, st) ==     \* Option<to>
  IF to = "felt" THEN Val([tag |-> 0, p |-> v], st)
  ELSE IF v < Lo(to) THEN (IF to \in Unsigned \/ Exact(to) THEN Val([tag |-> 1, p |-> Unit], st) ELSE Oom(st))
  ELSE IF v > Hi(to) THEN (IF Exact(to) THEN Val([tag |-> 1, p |-> Unit], st) ELSE Oom(st))
  ELSE Val([tag |-> 0, p |-> v], st)

\* Option: tag 0 = Some, 1 = None.  Result: tag 0 = Ok, 1 = Err.
SomeV(v) == [tag |-> 0, p |-> v]
NoneV == [tag |-> 1, p |-> Unit]

\* number of felts the derived Serde writes for value v of type descriptor t
RECURSIVE SerLen(_, _)
SerLen(t, v) ==
  CASE t.k \in {"int", "bool"} -> 1
    [] t.k = "tuple" -> LET RECURSIVE S(_) S(i) == IF i > Len(t.ts) THEN 0 ELSE SerLen(t.ts[i], v[i]) + S(i + 1) IN S(1)
    [] t.k = "enum" -> 1 + (IF t.vs[v.tag + 1].k = "unit" THEN 0 ELSE SerLen(t.vs[v.tag + 1], v.p))
    [] t.k = "array" -> LET RECURSIVE S(_) S(i) == IF i > Len(v) THEN 0 ELSE SerLen(t.t, v[i]) + S(i + 1) IN 1 + S(1)
    [] t.k = "unit" -> 0

\* ---------------------------------------------------------------- state helpers
Get(st, n) == st.env[n]
Put(st, n, v) == [st EXCEPT !.env = [x \in DOMAIN st.env \cup {n} |-> IF x = n THEN v ELSE st.env[x]]]
Tick(st) == [st EXCEPT !.fuel = st.fuel - 1]

RECURSIVE UpdPath(_, _, _, _)
UpdPath(v, path, k, nv) == IF k > Len(path) THEN nv ELSE [v EXCEPT ![path[k]] = UpdPath(v[path[k]], path, k + 1, nv)]

\* ---------------------------------------------------------------- the interpreter
\* P.fns : function name -> [params: <<names>>, body: expr]
RECURSIVE Ev(_, _, _), EvSeq(_, _, _, _), EvBlock(_, _, _, _), EvLoop(_, _, _), EvWhile(_, _, _), EvFor(_, _, _, _, _),
          EvArgs(_, _, _, _)

\* evaluate expressions es[i..] left to right, collecting values
EvSeq(P, es, i, acc) ==
  \* acc is a signal whose v is the sequence of values so far
  IF i > Len(es) THEN acc
  ELSE LET r == Ev(P, es[i], acc.st) IN
       IF r.k # "val" THEN r ELSE EvSeq(P, es, i + 1, Val(Append(acc.v, r.v), r.st))

EvArgs(P, es, st, dummy) == EvSeq(P, es, 1, Val(<<>>, st))

\* statements ss[i..] then the tail expression
EvBlock(P, b, i, st) ==
  IF i > Len(b.ss) THEN (IF b.tail.k = "none" THEN Val(Unit, st) ELSE Ev(P, b.tail, st))
  ELSE LET s == b.ss[i] IN
    CASE s.k = "let" ->
           LET r == Ev(P, s.e, st) IN IF r.k # "val" THEN r ELSE EvBlock(P, b, i + 1, Put(r.st, s.n, r.v))
      [] s.k = "lettuple" ->
           LET r == Ev(P, s.e, st) IN
           IF r.k # "val" THEN r
           ELSE LET RECURSIVE B(_, _) B(j, st2) == IF j > Len(s.ns) THEN st2 ELSE B(j + 1, Put(st2, s.ns[j], r.v[j]))
                IN EvBlock(P, b, i + 1, B(1, r.st))
      [] s.k = "set" ->
           LET r == Ev(P, s.e, st) IN IF r.k # "val" THEN r ELSE EvBlock(P, b, i + 1, Put(r.st, s.n, r.v))
      [] s.k = "setf" ->      \* n.path = e : assignment to a (nested) member of a struct variable
           LET r == Ev(P, s.e, st) IN
           IF r.k # "val" THEN r ELSE EvBlock(P, b, i + 1, Put(r.st, s.n, UpdPath(Get(r.st, s.n), s.path, 1, r.v)))
      [] s.k = "opset" ->     \* n op= e : the right-hand side is evaluated, then the operation on the current value
           LET r == Ev(P, s.e, st) IN
           IF r.k # "val" THEN r
           ELSE LET a == Arith(s.op, s.ty, Get(r.st, s.n), r.v, r.st) IN
                IF a.k # "val" THEN a ELSE EvBlock(P, b, i + 1, Put(a.st, s.n, a.v))
      [] s.k = "expr" ->
           LET r == Ev(P, s.e, st) IN IF r.k # "val" THEN r ELSE EvBlock(P, b, i + 1, r.st)

EvLoop(P, body, st) ==
  IF st.fuel <= 0 THEN Oom(st)
  ELSE LET r == Ev(P, body, Tick(st)) IN
       CASE r.k = "break" -> Val(r.v, r.st)
         [] r.k \in {"val", "cont"} -> EvLoop(P, body, r.st)
         [] OTHER -> r

EvWhile(P, e, st) ==
  IF st.fuel <= 0 THEN Oom(st)
  ELSE LET c == Ev(P, e.c, Tick(st)) IN
       IF c.k # "val" THEN c
       ELSE IF ~c.v THEN Val(Unit, c.st)
       ELSE LET r == Ev(P, e.body, c.st) IN
            CASE r.k = "break" -> Val(Unit, r.st)
              [] r.k \in {"val", "cont"} -> EvWhile(P, e, r.st)
              [] OTHER -> r

EvFor(P, e, i, hi, st) ==
  IF i >= hi THEN Val(Unit, st)
  ELSE IF st.fuel <= 0 THEN Oom(st)
  ELSE LET r == Ev(P, e.body, Put(Tick(st), e.n, i)) IN
       CASE r.k = "break" -> Val(Unit, r.st)
         [] r.k \in {"val", "cont"} -> EvFor(P, e, i + 1, hi, r.st)
         [] OTHER -> r

Ev(P, e, st) ==
  CASE e.k = "lit" -> Val(e.v, st)
    [] e.k = "unit" -> Val(Unit, st)
    [] e.k = "var" -> Val(Get(st, e.n), st)
    [] e.k = "bin" ->
         LET a == Ev(P, e.l, st) IN IF a.k # "val" THEN a ELSE
         LET b == Ev(P, e.r, a.st) IN IF b.k # "val" THEN b ELSE Arith(e.op, e.ty, a.v, b.v, b.st)
    [] e.k = "cmp" ->
         LET a == Ev(P, e.l, st) IN IF a.k # "val" THEN a ELSE
         LET b == Ev(P, e.r, a.st) IN IF b.k # "val" THEN b ELSE Val(Cmp(e.op, a.v, b.v), b.st)
    [] e.k = "veq" ->       \* derived PartialEq of struct values (member-wise equality)
         LET a == Ev(P, e.l, st) IN IF a.k # "val" THEN a ELSE
         LET b == Ev(P, e.r, a.st) IN IF b.k # "val" THEN b ELSE Val(a.v = b.v, b.st)
    [] e.k = "bit" ->
         LET a == Ev(P, e.l, st) IN IF a.k # "val" THEN a ELSE
         LET b == Ev(P, e.r, a.st) IN IF b.k # "val" THEN b ELSE Val(BitOp(e.op, a.v, b.v), b.st)
    [] e.k = "logic" ->     \* short circuit
         LET a == Ev(P, e.l, st) IN IF a.k # "val" THEN a ELSE
         IF (e.op = "and" /\ ~a.v) \/ (e.op = "or" /\ a.v) THEN a ELSE Ev(P, e.r, a.st)
    [] e.k = "not" -> LET a == Ev(P, e.e, st) IN IF a.k # "val" THEN a ELSE Val(~a.v, a.st)
    [] e.k = "neg" ->
         LET a == Ev(P, e.e, st) IN IF a.k # "val" THEN a ELSE
         IF e.ty = "felt" THEN Val(-a.v, a.st)
         ELSE IF -a.v > Hi(e.ty) THEN (IF Exact(e.ty) THEN Panic(Msg(e.ty, "neg", "Underflow"), a.st) ELSE Oom(a.st))
         ELSE Val(-a.v, a.st)
    [] e.k = "if" ->
         LET c == Ev(P, e.c, st) IN IF c.k # "val" THEN c ELSE
         IF c.v THEN Ev(P, e.t, c.st) ELSE Ev(P, e.e, c.st)
    [] e.k = "block" -> EvBlock(P, e, 1, st)
    [] e.k = "call" ->
         LET a == EvArgs(P, e.args, st, 0) IN IF a.k # "val" THEN a ELSE
         IF a.st.fuel <= 0 THEN Oom(a.st) ELSE
         LET f == P.fns[e.f]
             callee == [env |-> [n \in {f.params[i] : i \in 1..Len(f.params)} |->
                                    a.v[CHOOSE i \in 1..Len(f.params) : f.params[i] = n]],
                        fuel |-> a.st.fuel - 1]
             r == Ev(P, f.body, callee)
             back == [a.st EXCEPT !.fuel = r.st.fuel]
         IN CASE r.k \in {"val", "ret"} -> Val(r.v, back)
              [] r.k = "panic" -> Sig("panic", r.v, back)
              [] OTHER -> Oom(back)
    [] e.k = "tuple" -> EvArgs(P, e.es, st, 0)
    [] e.k = "tget" -> LET a == Ev(P, e.e, st) IN IF a.k # "val" THEN a ELSE Val(a.v[e.i], a.st)
    [] e.k = "enum" ->     \* also Some / None / Ok / Err
         IF e.e.k = "none" THEN Val([tag |-> e.tag, p |-> Unit], st)
         ELSE LET a == Ev(P, e.e, st) IN IF a.k # "val" THEN a ELSE Val([tag |-> e.tag, p |-> a.v], a.st)
    [] e.k = "match" ->    \* on an enum-like value; arm i binds the payload to arms[i].n (if any)
         LET a == Ev(P, e.e, st) IN IF a.k # "val" THEN a ELSE
         LET arm == e.arms[a.v.tag + 1]
             st2 == IF arm.n = "" THEN a.st ELSE Put(a.st, arm.n, a.v.p)
         IN Ev(P, arm.body, st2)
    [] e.k = "matchint" -> \* match on an integer with literal arms and a wildcard
         LET a == Ev(P, e.e, st) IN IF a.k # "val" THEN a ELSE
         LET hits == {i \in 1..Len(e.arms) : a.v \in {e.arms[i].vals[j] : j \in 1..Len(e.arms[i].vals)}}
         IN IF hits # {} THEN Ev(P, e.arms[CHOOSE i \in hits : \A j \in hits : i <= j].body, a.st)
            ELSE Ev(P, e.dflt, a.st)
    [] e.k = "unwrap" ->
         LET a == Ev(P, e.e, st) IN IF a.k # "val" THEN a ELSE
         IF a.v.tag = 0 THEN Val(a.v.p, a.st) ELSE Panic(e.msg, a.st)
    [] e.k = "try" ->      \* the ? operator
         LET a == Ev(P, e.e, st) IN IF a.k # "val" THEN a ELSE
         IF a.v.tag = 0 THEN Val(a.v.p, a.st) ELSE Sig("ret", a.v, a.st)
    [] e.k = "conv" ->
         LET a == Ev(P, e.e, st) IN IF a.k # "val" THEN a ELSE
         IF e.kind = "into" THEN ConvInto(e.to, a.v, a.st) ELSE ConvTry(e.to, a.v, a.st)
    [] e.k = "arr" -> EvArgs(P, e.es, st, 0)
    [] e.k = "alen" -> Val(Len(Get(st, e.a)), st)
    [] e.k = "aat" ->
         LET i == Ev(P, e.i, st) IN IF i.k # "val" THEN i ELSE
         LET arr == Get(i.st, e.a) IN
         IF i.v >= 0 /\ i.v < Len(arr) THEN Val(arr[i.v + 1], i.st) ELSE Panic("Index out of bounds", i.st)
    [] e.k = "append" ->
         LET a == Ev(P, e.e, st) IN IF a.k # "val" THEN a ELSE
         Val(Unit, Put(a.st, e.a, Append(Get(a.st, e.a), a.v)))
    [] e.k = "apop" ->
         LET arr == Get(st, e.a) IN
         IF Len(arr) = 0 THEN Val(NoneV, st) ELSE Val(SomeV(arr[1]), Put(st, e.a, Tail(arr)))
    [] e.k = "aspan" -> Val(Get(st, e.a), st)     \* a span is an immutable view: value copy of the current contents
    [] e.k = "slen" -> Val(Len(Get(st, e.s)), st)
    [] e.k = "sat" ->
         LET i == Ev(P, e.i, st) IN IF i.k # "val" THEN i ELSE
         LET sp == Get(i.st, e.s) IN
         IF i.v >= 0 /\ i.v < Len(sp) THEN Val(sp[i.v + 1], i.st) ELSE Panic("Index out of bounds", i.st)
    [] e.k = "dnew" -> Val(<<>>, st)      \* the empty function
    [] e.k = "dget" ->
         LET k == Ev(P, e.key, st) IN IF k.k # "val" THEN k ELSE
         LET d == Get(k.st, e.d) IN Val(IF k.v \in DOMAIN d THEN d[k.v] ELSE 0, k.st)
    [] e.k = "dins" ->
         LET k == Ev(P, e.key, st) IN IF k.k # "val" THEN k ELSE
         LET v == Ev(P, e.val, k.st) IN IF v.k # "val" THEN v ELSE
         LET d == Get(v.st, e.d) IN
         Val(Unit, Put(v.st, e.d, [x \in DOMAIN d \cup {k.v} |-> IF x = k.v THEN v.v ELSE d[x]]))
    [] e.k \in {"snap", "desnap", "box", "unbox"} -> Ev(P, e.e, st)     \* value semantics
    [] e.k = "serlen" -> LET a == Ev(P, e.e, st) IN IF a.k # "val" THEN a ELSE Val(SerLen(e.ty, a.v), a.st)
    [] e.k = "loop" -> EvLoop(P, e.body, st)
    [] e.k = "while" -> EvWhile(P, e, st)
    [] e.k = "for" ->
         LET lo == Ev(P, e.lo, st) IN IF lo.k # "val" THEN lo ELSE
         LET hi == Ev(P, e.hi, lo.st) IN IF hi.k # "val" THEN hi ELSE EvFor(P, e, lo.v, hi.v, hi.st)
    [] e.k = "break" ->
         IF e.e.k = "none" THEN Sig("break", Unit, st)
         ELSE LET a == Ev(P, e.e, st) IN IF a.k # "val" THEN a ELSE Sig("break", a.v, a.st)
    [] e.k = "continue" -> Sig("cont", Unit, st)
    [] e.k = "ret" -> LET a == Ev(P, e.e, st) IN IF a.k # "val" THEN a ELSE Sig("ret", a.v, a.st)
    [] e.k = "assert" ->
         LET c == Ev(P, e.c, st) IN IF c.k # "val" THEN c ELSE
         IF c.v THEN Val(Unit, c.st) ELSE Panic(e.msg, c.st)
    [] e.k = "panic" -> Panic(e.msg, st)

\* run function `main` of program P on argument values args
Run(P, args, fuel) ==
  LET f == P.fns[P.main]
      st0 == [env |-> [n \in {f.params[i] : i \in 1..Len(f.params)} |->
                          args[CHOOSE i \in 1..Len(f.params) : f.params[i] = n]],
              fuel |-> fuel]
      r == Ev(P, f.body, st0)
  IN CASE r.k \in {"val", "ret"} -> [t |-> "v", v |-> r.v]
       [] r.k = "panic" -> [t |-> "p", v |-> r.v]
       [] OTHER -> [t |-> "oom", v |-> <<>>]

\* flatten a result value of type descriptor t (ints, bools, nested tuples) into the felts the run returns
RECURSIVE Flat(_, _)
Flat(t, v) ==
  CASE t.k = "int" -> <<v>>
    [] t.k = "bool" -> IF v THEN <<1>> ELSE <<0>>
    [] t.k = "unit" -> <<>>
    [] t.k = "tuple" -> LET RECURSIVE F(_) F(i) == IF i > Len(t.ts) THEN <<>> ELSE Flat(t.ts[i], v[i]) \o F(i + 1) IN F(1)
=============================================================================

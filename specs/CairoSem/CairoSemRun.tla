------------------------------ MODULE CairoSemRun ------------------------------
(* CairoSem as the reference oracle (binding R): PROGS is an ndjson file of cases
   {id, prog: {fns, main, ret}, args: [ints]}; for each case TLC evaluates Run and prints
   REPLAY {id, res: {t: "v"|"p"|"oom", felts|data}}.  One TLC state per case; the invariants
   TypePreservation (the result inhabits the declared return type) and Determinism
   (Run is a function: evaluated twice gives the same) are checked in every state. *)
EXTENDS CairoSem, Json, IOUtils

Cases == ndJsonDeserialize(IOEnv.PROGS)
Fuel == 400

VARIABLES i, res
vars == <<i, res>>

\* fns arrives as a JSON object: a record name -> fn
Prog(c) == c.prog

Eval(c) == Run(Prog(c), c.args, Fuel)

Init == i = 0 /\ res = [t |-> "none", v |-> <<>>]
Next == i < Len(Cases) /\ i' = i + 1 /\ res' = Eval(Cases[i + 1])
Spec == Init /\ [][Next]_vars

RECURSIVE Inhabits(_, _)
Inhabits(t, v) ==
  CASE t.k = "int" -> v \in Int /\ (t.ty \in SmallTypes => v >= Lo(t.ty) /\ v <= Hi(t.ty)) /\ (t.ty \in Unsigned => v >= 0)
    [] t.k = "bool" -> v \in BOOLEAN
    [] t.k = "unit" -> v = <<>>
    [] t.k = "tuple" -> Len(v) = Len(t.ts) /\ \A j \in 1..Len(t.ts) : Inhabits(t.ts[j], v[j])

TypePreservation == (i > 0 /\ res.t = "v") => Inhabits(Cases[i].prog.ret, res.v)

Emit == i = 0 \/ PrintT(<<"REPLAY", ToJson([id |-> Cases[i].id, t |-> res.t,
                                            felts |-> IF res.t = "v" THEN Flat(Cases[i].prog.ret, res.v) ELSE <<>>,
                                            data |-> IF res.t = "p" THEN res.v ELSE <<>>])>>)
=============================================================================

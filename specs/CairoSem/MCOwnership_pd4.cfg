CONSTANT MaxLen = 4
CONSTANT Vars = {"mv","pd"}
INIT Init
NEXT Next
INVARIANT Emit
INVARIANT Sanity
CHECK_DEADLOCK FALSE

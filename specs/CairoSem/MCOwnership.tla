------------------------------ MODULE MCOwnership ------------------------------
(* Exhaustive generator: every body of length <= MaxLen over the statement alphabet, with the
   spec's verdict, printed as REPLAY lines. *)
EXTENDS Ownership, Json
CONSTANT MaxLen
VARIABLES body, done
Init == body = <<>> /\ done = FALSE
Extend == ~done /\ Len(body) < MaxLen /\ \E s \in Stmts : body' = Append(body, s) /\ done' = FALSE
Finish == ~done /\ done' = TRUE /\ UNCHANGED body
Next == Extend \/ Finish
Emit == ~done \/ PrintT(<<"REPLAY", ToJson([k |-> "own", vars |-> Vars, body |-> body, illegal |-> Illegal(body)])>>)
\* sanity (non-vacuity): both verdicts occur, and the empty body is illegal because a non-droppable variable is never consumed
Sanity == (done /\ body = <<>>) => Illegal(body)
=============================================================================

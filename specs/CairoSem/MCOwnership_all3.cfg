CONSTANT MaxLen = 3
CONSTANT Vars = {"mv","nd","pd"}
INIT Init
NEXT Next
INVARIANT Emit
INVARIANT Sanity
CHECK_DEADLOCK FALSE

------------------------------ MODULE Ownership ------------------------------
(***************************************************************************)
(* The static ownership rule of Cairo's linear type system (property C08,   *)
(* second half), as a decision procedure over small abstract function       *)
(* bodies - and, with TLC, the exhaustive generator of such bodies:          *)
(*                                                                         *)
(*   a value of a non-Copy type may not be used after it was moved, on any  *)
(*   control-flow path (including the next iteration of a loop);            *)
(*   a value whose type is neither Drop nor Destruct may not go out of      *)
(*   scope (fall off the end, or be live at a `return`) on any path.        *)
(*                                                                         *)
(* Abstract bodies: a sequence of statements over the variables Vars, a     *)
(* subset of                                                                *)
(*   "mv"  : movable, droppable     (a struct deriving only Drop)            *)
(*   "nd"  : movable, NOT droppable (a struct deriving nothing)              *)
(*   "pd"  : movable, NOT droppable, with a PanicDestruct impl only: it may  *)
(*           be live where the flow ends with a panic, nowhere else          *)
(* Statement kinds (v ranges over the variables):                           *)
(*   Move(v)      let _w = v;            (moves v)                          *)
(*   Use(v)       peek(@v);              (snapshot use: v must not be moved) *)
(*   IfMove(v)    if c { consume(v); }                                       *)
(*   IfElse(v)    if c { consume(v); } else { consume(v); }                  *)
(*   IfUse(v)     if c { peek(@v); }                                         *)
(*   LoopMove(v)  a loop whose body moves v                                  *)
(*   LoopUse(v)   a loop whose body uses v by snapshot                       *)
(*   RetIf        if c { return 0; }                                         *)
(* consume(v) takes v by value (for "nd" it destructures it, which is the    *)
(* only legal way to get rid of it).  consume and peek are `nopanic`; the   *)
(* loops contain checked arithmetic on their counter and therefore MAY      *)
(* PANIC: a panic is an implicit return, so a non-droppable value may not   *)
(* be live at a statement that may panic - unless it is PanicDestruct.       *)
(*                                                                         *)
(* Analysis state: may (set of possibly moved variables), must (set of       *)
(* definitely moved variables).  Legal iff no rule is violated.             *)
(***************************************************************************)
EXTENDS Integers, Sequences, FiniteSets, TLC

CONSTANT Vars
ASSUME Vars \subseteq {"mv", "nd", "pd"} /\ "mv" \in Vars
NoDrop == Vars \cap {"nd", "pd"}
\* the variables that must have been consumed where the flow may end with a panic
NoPanicDrop == Vars \cap {"nd"}
Kinds == {"Move", "Use", "IfMove", "IfElse", "IfUse", "LoopMove", "LoopUse"}
Stmts == [k : Kinds, v : Vars] \cup {[k |-> "RetIf", v |-> "mv"]}

\* one statement: returns [may, must, bad]
StepOwn(s, may, must) ==
  CASE s.k = "Move" -> [may |-> may \cup {s.v}, must |-> must \cup {s.v}, bad |-> s.v \in may]
    [] s.k = "Use" -> [may |-> may, must |-> must, bad |-> s.v \in may]
    [] s.k = "IfMove" -> [may |-> may \cup {s.v}, must |-> must, bad |-> s.v \in may]
    [] s.k = "IfElse" -> [may |-> may \cup {s.v}, must |-> must \cup {s.v}, bad |-> s.v \in may]
    [] s.k = "IfUse" -> [may |-> may, must |-> must, bad |-> s.v \in may]
       \* the loop body may run again: a move inside it is a use-after-move on the second iteration
    [] s.k = "LoopMove" -> [may |-> may \cup {s.v}, must |-> must, bad |-> TRUE]
    [] s.k = "LoopUse" -> [may |-> may, must |-> must, bad |-> s.v \in may \/ ~(NoPanicDrop \subseteq must)]
       \* at a return every non-droppable variable must already have been consumed
    [] s.k = "RetIf" -> [may |-> may, must |-> must, bad |-> ~(NoDrop \subseteq must)]

RECURSIVE Analyse(_, _, _, _)
Analyse(body, i, may, must) ==
  IF i > Len(body) THEN ~(NoDrop \subseteq must)        \* falling off the end: nd must be consumed on every path
  ELSE LET r == StepOwn(body[i], may, must) IN
       IF r.bad THEN TRUE ELSE Analyse(body, i + 1, r.may, r.must)

Illegal(body) == Analyse(body, 1, {}, {})
=============================================================================

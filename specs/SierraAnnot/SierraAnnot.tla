------------------------------ MODULE SierraAnnot ------------------------------
(***************************************************************************)
(* The Sierra -> CASM compile loop as a state machine, reduced to what      *)
(* property C15 speaks about: typing and exact-once use of every variable.  *)
(*                                                                         *)
(* One linear pass over the statements (as compiler.rs::compile), carrying  *)
(* per-statement *annotations*: the set of live variables with their types, *)
(* the function the statement belongs to, and whether other flows may       *)
(* converge on it.  One action per critical section of the loop:            *)
(*   EnterFunctions   seed the entry statement of every function            *)
(*   Invoke(idx)      take the arguments (each exactly once, types equal    *)
(*                    the libfunc's declared parameter types), then per     *)
(*                    branch put the results with their declared types and  *)
(*                    propagate / merge into the branch target              *)
(*   Return(idx)      take the returned variables; nothing may be left;     *)
(*                    types equal the function's declared return types      *)
(* The rules are this module's own (written from the property and the       *)
(* Sierra documentation), including an independent classification of which  *)
(* core types may be duplicated / dropped.  Declared libfunc signatures are *)
(* an input (the property says "arguments of exactly the declared types").  *)
(*                                                                         *)
(* StepVerdict returns the set of violated rule names for one statement,    *)
(* so that TLC can evaluate it both in the bounded design model (tiny       *)
(* programs, cross-checked against the declarative path formulation         *)
(* SierraPaths) and as the acceptor of real programs exported by the        *)
(* harness (SierraAnnotTrace).                                             *)
(***************************************************************************)
EXTENDS Integers, Sequences, FiniteSets, TLC

N(P) == Len(P.stmts)

\* ---------------------------------------------------------------- independent dup/drop classification
\* "y" / "n" / "u" (unknown to this table: the sub-check is skipped)
PlainDupDrop == {"felt252", "u8", "u16", "u32", "u64", "u128", "i8", "i16", "i32", "i64", "i128", "bytes31",
                 "EcPoint", "EcState", "BuiltinCosts", "Blake2sState", "qm31", "StorageBaseAddress", "StorageAddress",
                 "Secp256r1Point", "Secp256k1Point", "Sha256StateHandle", "Sha512StateHandle", "ContractAddress",
                 "ClassHash", "CircuitModulus", "BoundedInt", "Snapshot", "IntRange"}
PlainNeither == {"GasBuiltin", "RangeCheck", "RangeCheck96", "SegmentArena", "System", "EcOp", "Bitwise", "AddMod",
                 "MulMod", "Pedersen", "Poseidon", "U128MulGuarantee", "CircuitFailureGuarantee", "U96Guarantee",
                 "Felt252Dict", "Felt252DictEntry", "Const"}
DropOnly == {"Uninitialized", "GasReserve", "Coupon"}
SameAsInner == {"Box", "Nullable", "NonZero", "Span"}
DropAsInner == {"Array", "SquashedFelt252Dict"}       \* never duplicatable
AllMembers == {"Struct", "Enum"}

TypeArgs(P, t) == {P.types[t].args[k].t : k \in {k \in 1..Len(P.types[t].args) : P.types[t].args[k].k = "type"}}

Meet(S) == IF "n" \in S THEN "n" ELSE IF "u" \in S THEN "u" ELSE "y"

RECURSIVE Dup(_, _, _), Drop(_, _, _)
Dup(P, t, fuel) ==
  IF t < 1 \/ t > Len(P.types) \/ fuel = 0 THEN "u" ELSE
  LET g == P.types[t].gen IN
  CASE g \in PlainDupDrop -> "y"
    [] g \in PlainNeither \cup DropOnly \cup DropAsInner -> "n"
    [] g \in SameAsInner \cup AllMembers -> Meet({Dup(P, a, fuel - 1) : a \in TypeArgs(P, t)})
    [] OTHER -> "u"
Drop(P, t, fuel) ==
  IF t < 1 \/ t > Len(P.types) \/ fuel = 0 THEN "u" ELSE
  LET g == P.types[t].gen IN
  CASE g \in PlainDupDrop \cup DropOnly -> "y"
    [] g \in PlainNeither -> "n"
    [] g \in SameAsInner \cup AllMembers \cup DropAsInner -> Meet({Drop(P, a, fuel - 1) : a \in TypeArgs(P, t)})
    [] OTHER -> "u"

\* ---------------------------------------------------------------- annotations
\* vars: set of <<var, type>>; fn: function index; conv: other flows may converge here;
\* env: the static environment [ap, w]: ap-tracking (<<"dis">> or <<"en", change, base>>, base 0 = function start)
\* and the gas wallet (prepaid Const gas), replayed with this module's own rules from the per-branch ap change /
\* gas cost / tracking toggle that the real compile recorded (only when the export carries them: HasEnv).
Ann(vars, fn, conv, env) == [vars |-> vars, fn |-> fn, conv |-> conv, env |-> env]
HasEnv(P) == "code" \in DOMAIN P /\ Len(P.code) = Len(P.stmts)
NoEnv == [ap |-> <<"dis">>, w |-> 0]
EntryEnv(P, f) == IF HasEnv(P) THEN [ap |-> <<"en", 0, 0>>, w |-> P.funcs[f].cost] ELSE NoEnv
\* environment after branch b of statement idx towards statement t; bad = set of violated env rules
EnvAfter(P, idx, b, t, env) ==
  IF ~HasEnv(P) \/ b > Len(P.code[idx].br) THEN [env |-> NoEnv, bad |-> {}] ELSE
  LET cb == P.code[idx].br[b]
      ap2 == CASE cb.track = "disable" -> <<"dis">>
               [] cb.track = "enable" -> <<"en", 0, t>>
               [] OTHER -> IF env.ap[1] = "en" /\ cb.ap >= 0 THEN <<"en", env.ap[2] + cb.ap, env.ap[3]>> ELSE <<"dis">>
      w2 == env.w - cb.gas
  IN [env |-> [ap |-> ap2, w |-> w2],
      bad |-> (IF cb.track = "enable" /\ env.ap[1] = "en" THEN {"ApTrackingAlreadyEnabled"} ELSE {})
         \cup (IF w2 < 0 THEN {"WalletNegative"} ELSE {})]
ExpectedReturnAp(P, f) == IF P.funcs[f].fn_ap >= 0 THEN <<"en", P.funcs[f].fn_ap, 0>> ELSE <<"dis">>
VarIds(vars) == {p[1] : p \in vars}
TypeOfVar(vars, v) == LET S == {p[2] : p \in {q \in vars : q[1] = v}} IN IF Cardinality(S) = 1 THEN CHOOSE x \in S : TRUE ELSE 0

SeqToSet(s) == {s[i] : i \in 1..Len(s)}
Distinct(s) == \A i, j \in 1..Len(s) : i # j => s[i] # s[j]

BackTargets(P) ==
  UNION {{P.stmts[s].br[b].t : b \in {b \in 1..Len(P.stmts[s].br) : P.stmts[s].br[b].t <= s}} :
         s \in {s \in 1..N(P) : P.stmts[s].k = "inv"}}

IsBranchAlign(P, t) == t \in 1..N(P) /\ P.stmts[t].k = "inv" /\ P.stmts[t].lf \in 1..Len(P.libfuncs)
                       /\ P.libfuncs[P.stmts[t].lf].gen = "branch_align"

\* seed annotations: the entry statement of every function holds its parameters
EntryAnn(P) ==
  [t \in {P.funcs[f].entry : f \in 1..Len(P.funcs)} |->
     LET f == CHOOSE f \in 1..Len(P.funcs) : P.funcs[f].entry = t IN
     Ann({<<P.funcs[f].params[k].v, P.funcs[f].params[k].ty>> : k \in 1..Len(P.funcs[f].params)}, f, FALSE, EntryEnv(P, f))]
EntryClash(P) == \E f, h \in 1..Len(P.funcs) : f # h /\ P.funcs[f].entry = P.funcs[h].entry
EntryParamClash(P) == \E f \in 1..Len(P.funcs) : ~Distinct([k \in 1..Len(P.funcs[f].params) |-> P.funcs[f].params[k].v])

\* ---------------------------------------------------------------- one statement
\* result: [bad |-> set of violated rules, ann |-> new annotation map]
RECURSIVE Branches(_, _, _, _, _, _, _)
Branches(P, idx, a, rest, b, ann, bad) ==
  LET st == P.stmts[idx]
      lf == P.libfuncs[st.lf]
      nb == Len(st.br)
  IN IF b > nb THEN [bad |-> bad, ann |-> ann] ELSE
  LET br == st.br[b]
      sig == lf.branches[b].vars
      okLen == Len(br.res) = Len(sig)
      newv == IF okLen THEN {<<br.res[k], sig[k]>> : k \in 1..Len(sig)} ELSE {}
      override == okLen /\ (~Distinct(br.res) \/ (SeqToSet(br.res) \cap VarIds(rest) # {}))
      vars == rest \cup newv
      t == br.t
      ea == EnvAfter(P, idx, b, t, a.env)
      tOK == t \in 1..N(P)
      needAlign == nb > 1
      alignBad == tOK /\ needAlign /\ ~IsBranchAlign(P, t)
      already == tOK /\ needAlign /\ t \in DOMAIN ann
      merge == tOK /\ ~needAlign /\ t \in DOMAIN ann
      mergeBad == IF merge THEN
                        (IF ann[t].fn # a.fn THEN {"InconsistentFunction"} ELSE {})
                   \cup (IF ann[t].vars # vars THEN {"MergeMismatch"} ELSE {})
                   \cup (IF ~ann[t].conv THEN {"InvalidConvergence"} ELSE {})
                   \cup (IF HasEnv(P) /\ ann[t].env.ap # ea.env.ap THEN {"EnvApMismatch"} ELSE {})
                   \cup (IF HasEnv(P) /\ ann[t].env.w # ea.env.w THEN {"EnvWalletMismatch"} ELSE {})
                  ELSE {}
      bad2 == bad \cup (IF okLen THEN {} ELSE {"ResultCount"})
                  \cup (IF override THEN {"VarOverride"} ELSE {})
                  \cup (IF tOK THEN {} ELSE {"BadTarget"})
                  \cup (IF alignBad THEN {"ExpectedBranchAlign"} ELSE {})
                  \cup (IF already THEN {"AnnotationAlreadySet"} ELSE {})
                  \cup mergeBad \cup ea.bad
      ann2 == IF tOK /\ t \notin DOMAIN ann
              THEN [x \in DOMAIN ann \cup {t} |-> IF x = t THEN Ann(vars, a.fn, ~needAlign, ea.env) ELSE ann[x]]
              ELSE ann
  IN Branches(P, idx, a, rest, b + 1, ann2, bad2)

\* back = BackTargets(P), computed once per program by the caller
StepVerdict(P, idx, ann, back) ==
  LET st == P.stmts[idx]
      a == ann[idx]
      args == st.args
      present == \A i \in 1..Len(args) : args[i] \in VarIds(a.vars)
      takeOK == present /\ Distinct(args)
      argTys == [i \in 1..Len(args) |-> TypeOfVar(a.vars, args[i])]
      rest == {p \in a.vars : p[1] \notin SeqToSet(args)}
      \* the annotation of idx is consumed unless a later statement jumps back to it
      annKept == IF idx \in back THEN ann ELSE [x \in DOMAIN ann \ {idx} |-> ann[x]]
  IN
  IF st.k = "ret" THEN
     [bad |-> (IF takeOK THEN {} ELSE {"MissingOrReusedVar"})
          \cup (IF takeOK /\ rest # {} THEN {"DanglingVar"} ELSE {})
          \cup (IF takeOK /\ argTys # P.funcs[a.fn].rets THEN {"ReturnType"} ELSE {})
          \cup (IF HasEnv(P) /\ a.env.ap # ExpectedReturnAp(P, a.fn) THEN {"FunctionApChange"} ELSE {}),
      ann |-> annKept]
  ELSE IF st.lf \notin 1..Len(P.libfuncs) \/ ~P.libfuncs[st.lf].known THEN [bad |-> {"UnknownLibfunc"}, ann |-> annKept]
  ELSE
  LET lf == P.libfuncs[st.lf]
      typesOK == argTys = lf.params
      dupBad == lf.gen = "dup" /\ Len(lf.params) = 1 /\ Dup(P, lf.params[1], 12) = "n"
      dropBad == lf.gen = "drop" /\ Len(lf.params) = 1 /\ Drop(P, lf.params[1], 12) = "n"
      shapeOK == Len(st.br) = Len(lf.branches)
      bad0 == (IF takeOK THEN {} ELSE {"MissingOrReusedVar"})
         \cup (IF takeOK /\ ~typesOK THEN {"ArgType"} ELSE {})
         \cup (IF dupBad THEN {"DupNotAllowed"} ELSE {})
         \cup (IF dropBad THEN {"DropNotAllowed"} ELSE {})
         \cup (IF shapeOK THEN {} ELSE {"BranchCount"})
  IN IF ~takeOK \/ ~shapeOK THEN [bad |-> bad0, ann |-> annKept]
     ELSE Branches(P, idx, a, rest, 1, annKept, bad0)
=============================================================================

---------------------------- MODULE SierraAnnotTrace ----------------------------
(* SierraAnnot as the acceptor of real programs: PROGS is an ndjson file of program exports
   (DESIGN A.3) that the real compiler ACCEPTED.  The pass runs over every program; a program
   for which some rule is violated is recorded in `bad` (C15: compile = Ok and the spec rejects). *)
EXTENDS SierraAnnot, Json, IOUtils

Progs == ndJsonDeserialize(IOEnv.PROGS)

VARIABLES pi, idx, ann, bad, pbad, back
vars == <<pi, idx, ann, bad, pbad, back>>

P == Progs[pi].export

Init == /\ pi = 1 /\ idx = 0 /\ ann = <<>> /\ bad = <<>> /\ pbad = {} /\ back = {}

\* idx = 0: enter the functions of program pi
Enter ==
  /\ pi <= Len(Progs) /\ idx = 0
  /\ ann' = EntryAnn(P)
  /\ pbad' = (IF EntryClash(P) THEN {<<0, "InconsistentFunction">>} ELSE {}) \cup (IF EntryParamClash(P) THEN {<<0, "VarOverride">>} ELSE {})
  /\ back' = BackTargets(P)
  /\ idx' = 1 /\ UNCHANGED <<pi, bad>>

Step ==
  /\ pi <= Len(Progs) /\ idx >= 1 /\ idx <= N(P)
  /\ IF idx \in DOMAIN ann
     THEN LET r == StepVerdict(P, idx, ann, back) IN
          /\ ann' = r.ann
          /\ pbad' = pbad \cup {<<idx, x>> : x \in r.bad}
     ELSE /\ ann' = ann /\ pbad' = pbad       \* no flow reaches idx
  /\ idx' = idx + 1 /\ UNCHANGED <<pi, bad, back>>

NextProg ==
  /\ pi <= Len(Progs) /\ idx > N(P)
  /\ bad' = IF pbad = {} THEN bad ELSE Append(bad, [id |-> Progs[pi].id, rules |-> pbad])
  /\ pi' = pi + 1 /\ idx' = 0 /\ ann' = <<>> /\ pbad' = {} /\ back' = {}

Next == Enter \/ Step \/ NextProg
Spec == Init /\ [][Next]_vars

Report == pi <= Len(Progs) \/ PrintT(<<"BAD", ToJson([programs |-> Len(Progs), bad |-> bad])>>)
=============================================================================

CONSTANTS
  Alphabet <- SoupFull
  MaxLen = 2
  Kind = "soup"
  Ctxs <- AllCtxs
INIT Init
NEXT Next
INVARIANT TypeOK
INVARIANT Emit
CHECK_DEADLOCK FALSE

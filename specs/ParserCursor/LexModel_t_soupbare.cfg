CONSTANTS
  Alphabet <- SoupCore
  MaxLen = 4
  Kind = "soup"
  Ctxs <- Bare
INIT Init
NEXT Next
INVARIANT TypeOK
INVARIANT Emit
CHECK_DEADLOCK FALSE

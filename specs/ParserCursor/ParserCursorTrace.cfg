CONSTANTS
  BUG = "none"
  MaxMiss = 1000000
INIT Init
NEXT Next
INVARIANT Monitor
POSTCONDITION Post
CHECK_DEADLOCK FALSE

CONSTANTS
  Alphabet <- CoreAlphabet
  MaxLen = 5
  Kind = "str"
  Ctxs <- Bare
INIT Init
NEXT Next
INVARIANT TypeOK
INVARIANT Emit
CHECK_DEADLOCK FALSE

---------------------------- MODULE ParserCursor ----------------------------
(***************************************************************************)
(* The token cursor of the Cairo parser and its recovery protocol           *)
(* (crates/cairo-lang-parser/src/parser.rs): take_raw, take, skip_token /   *)
(* skip_until (append_skipped_token_to_pending_trivia), skip_taken_node_*,  *)
(* unglue, take_doc, add_trivia_to_terminal, the *::missing() constructors  *)
(* and the end-of-file fix-up of parse_syntax_file.                         *)
(*                                                                          *)
(* One action per cursor operation of the code.  The grammar (which action  *)
(* is chosen when) is left open: every interleaving of cursor operations is *)
(* a behaviour, so the invariants are statements about the cursor protocol  *)
(* itself, independent of the grammar that drives it.  The only assumption  *)
(* made about the driver is the guard of SkipTakenNode (see there).         *)
(*                                                                          *)
(* A leaf is a token of the final syntax tree:                              *)
(*   c : "tok"  token child of a terminal                                   *)
(*       "triv" trivium produced by the lexer (whitespace, newline, comment)*)
(*       "skip" TokenSkipped (text of a skipped terminal, now trivia)       *)
(*       "miss" TokenMissing (zero width)                                   *)
(*   k : syntax kind of the token,  w : byte width,                         *)
(*   p : byte position in the SOURCE (assigned by the lexer, never changed),*)
(*   d : number of enclosing TriviumSkippedNode.                            *)
(* A lexer terminal is [kind, lead, tok, trail]; lead/trail are leaf seqs.  *)
(***************************************************************************)
EXTENDS Naturals, Sequences, FiniteSets

CONSTANTS BUG,      \* "none" or the name of a deliberately wrong variant (self-test)
          MaxMiss   \* bound on the number of Missing steps (keeps the model finite)

VARIABLES
  rest,     \* terminals not yet consumed; Head(rest) is `peek()`; un-glued pieces are pushed in front
  total,    \* byte length of the input
  phase,    \* "start" (before take_doc) | "items" | "done" (EOF terminal built)
  offset,   \* Parser.offset
  cw,       \* Parser.current_width
  ltl,      \* Parser.last_trivia_length
  pending,  \* Parser.pending_trivia, flattened to leaves
  emitted,  \* terminals built so far, in tree order: seq of [leaves, tw] (tw = width of own trailing trivia)
  spanok,   \* did the four offsets computed by the last add_trivia_to_terminal delimit exactly the trivia they label
  diagok,   \* all diagnostic spans computed by the cursor operations so far lie inside the file
  nmiss

cvars == <<rest, total, phase, offset, cw, ltl, pending, emitted, spanok, diagok, nmiss>>

EOF == "TerminalEndOfFile"

-----------------------------------------------------------------------------
(* helpers *)

RECURSIVE SumW(_)
SumW(s) == IF s = <<>> THEN 0 ELSE Head(s).w + SumW(Tail(s))

TermW(t) == SumW(t.lead) + t.tok.w + SumW(t.trail)
TermLeaves(t) == t.lead \o <<t.tok>> \o t.trail

RECURSIVE FlatE(_)
FlatE(es) == IF es = <<>> THEN <<>> ELSE Head(es).leaves \o FlatE(Tail(es))

RECURSIVE RestLeaves(_)
RestLeaves(r) == IF r = <<>> THEN <<>> ELSE TermLeaves(Head(r)) \o RestLeaves(Tail(r))

RECURSIVE RestW(_)
RestW(r) == IF r = <<>> THEN 0 ELSE TermW(Head(r)) + RestW(Tail(r))

(* the positive-width leaves of ls lie at consecutive source positions s .. e *)
RECURSIVE Tiles(_, _, _)
Tiles(ls, s, e) ==
  IF ls = <<>> THEN s = e
  ELSE (Head(ls).w = 0 \/ Head(ls).p = s) /\ Tiles(Tail(ls), s + Head(ls).w, e)

Bump(ls) == [j \in 1..Len(ls) |-> [ls[j] EXCEPT !.d = @ + 1]]
Skipped(tok) == [tok EXCEPT !.c = "skip", !.k = "TokenSkipped"]
Cursor(x) == [s |-> x, e |-> x]
Inside(sp) == sp.s <= sp.e /\ sp.e <= total

EmittedW == SumW(FlatE(emitted))

(* `unglue::<Original, First, Second>(first, second)` instances of the code *)
UnglueTable ==
  [TerminalAndAnd |-> <<[kind |-> "TerminalAnd", tk |-> "TokenAnd", w |-> 1], [kind |-> "TerminalAnd", tk |-> "TokenAnd", w |-> 1]>>,
   TerminalOrOr   |-> <<[kind |-> "TerminalOr",  tk |-> "TokenOr",  w |-> 1], [kind |-> "TerminalOr",  tk |-> "TokenOr",  w |-> 1]>>,
   TerminalGE     |-> <<[kind |-> "TerminalGT",  tk |-> "TokenGT",  w |-> 1], [kind |-> "TerminalEq",  tk |-> "TokenEq",  w |-> 1]>>]
Gluable(kind) == kind \in DOMAIN UnglueTable

(* take_doc: number of leading trivia before the first doc comment, and whether a plain / inner comment is among them *)
RECURSIVE DocSplit(_)
DocSplit(lead) ==
  IF lead = <<>> \/ Head(lead).k = "TokenSingleLineDocComment" THEN 0 ELSE 1 + DocSplit(Tail(lead))
HasHeaderDoc(lead) ==
  \E j \in 1..DocSplit(lead) : lead[j].k \in {"TokenSingleLineComment", "TokenSingleLineInnerComment"}

-----------------------------------------------------------------------------
(* take_raw: offset += current_width; current_width = width(terminal); last_trivia_length = width(trailing) *)
TakeRawEffect(t) ==
  /\ rest' = Tail(rest)
  /\ offset' = offset + cw
  /\ cw' = TermW(t)
  /\ ltl' = SumW(t.trail)

(* add_trivia_to_terminal(lexer_terminal, terminal_start) with `pend` = mem::take(pending_trivia).
   The four offsets are computed exactly as in the code; spanok records whether the two spans handed to
   trivia_green dereference to the trivia they label (the text-keyed trivia cache relies on it). *)
Attached(t, tstart, pend) ==
  LET ls == tstart - SumW(pend)
      le == tstart + SumW(t.lead)
      ts == le + t.tok.w
      te == ts + SumW(t.trail)
  IN [term |-> [leaves |-> pend \o t.lead \o <<t.tok>> \o t.trail, tw |-> SumW(t.trail)],
      ok   |-> /\ tstart >= SumW(pend)
               /\ (pend \o t.lead = <<>> \/ Tiles(pend \o t.lead, ls, le))
               /\ (t.tok.w = 0 \/ t.tok.p = le)
               /\ (t.trail = <<>> \/ Tiles(t.trail, ts, te))]

(* take_doc(): the leading trivia of the next terminal up to the first doc comment, if they contain a
   plain / inner comment, become the leading trivia of an empty terminal (ItemHeaderDoc).  terminal_start
   is offset + current_width; offset is advanced by the width of the split-off trivia. *)
TakeDocEffect ==
  LET t   == Head(rest)
      n   == DocSplit(t.lead)
      hdr == SubSeq(t.lead, 1, n)
      et  == [kind |-> "TerminalEmpty", lead |-> hdr,
              tok |-> [c |-> "tok", k |-> "TokenEmpty", w |-> 0, p |-> 0, d |-> 0], trail |-> <<>>]
      a   == Attached(et, offset + cw, pending)
  IN /\ rest' = <<[t EXCEPT !.lead = SubSeq(t.lead, n + 1, Len(t.lead))]>> \o Tail(rest)
     /\ offset' = IF BUG = "take_doc_offset" THEN offset ELSE offset + SumW(hdr)
     /\ emitted' = Append(emitted, a.term)
     /\ spanok' = a.ok
     /\ pending' = <<>>
     /\ UNCHANGED <<total, cw, ltl, diagok, nmiss>>

(* parse_syntax_file begins with take_doc(): deterministic given the first terminal's leading trivia *)
Start ==
  /\ phase = "start"
  /\ phase' = "items"
  /\ IF HasHeaderDoc(Head(rest).lead)
     THEN TakeDocEffect
     ELSE UNCHANGED <<rest, total, offset, cw, ltl, pending, emitted, spanok, diagok, nmiss>>

(* take_doc() at the start of an inline module body *)
TakeDoc ==
  /\ phase = "items" /\ rest # <<>> /\ HasHeaderDoc(Head(rest).lead)
  /\ TakeDocEffect
  /\ UNCHANGED phase

(* take::<Terminal>() = take_raw + add_trivia_to_terminal(token, self.offset) *)
Take ==
  /\ phase = "items" /\ rest # <<>> /\ Head(rest).kind # EOF
  /\ LET t == Head(rest)
         a == Attached(t, IF BUG = "take_stale_offset" THEN offset ELSE offset + cw, pending)
     IN /\ TakeRawEffect(t)
        /\ emitted' = Append(emitted, a.term)
        /\ spanok' = a.ok
        /\ pending' = IF BUG = "attach_twice" THEN pending ELSE <<>>
  /\ UNCHANGED <<total, phase, diagok, nmiss>>

(* skip_token / one iteration of skip_until: take_raw, then leading trivia, TokenSkipped(text) and trailing
   trivia are appended to pending_trivia.  On EOF skip_token only reports a diagnostic. *)
SkipToken ==
  /\ phase = "items" /\ rest # <<>>
  /\ LET t == Head(rest) IN
       IF t.kind = EOF
       THEN /\ diagok' = (diagok /\ Inside(Cursor(offset + cw - ltl)))
            /\ UNCHANGED <<rest, total, phase, offset, cw, ltl, pending, emitted, spanok, nmiss>>
       ELSE /\ TakeRawEffect(t)
            /\ pending' = pending \o t.lead \o <<Skipped(t.tok)>>
                          \o (IF BUG = "skip_drops_trailing" THEN <<>> ELSE t.trail)
            /\ diagok' = (diagok /\ Inside([s |-> offset + cw + SumW(t.lead), e |-> offset + cw + SumW(t.lead) + t.tok.w]))
            /\ UNCHANGED <<total, phase, emitted, spanok, nmiss>>

(* skip_taken_node_with_offset: an already built node (here: the last m emitted terminals) becomes a
   TriviumSkippedNode appended to pending_trivia.  The code pushes unconditionally. *)
SkipTakenNodeAny(m) ==
  /\ phase = "items" /\ m \in 1..Len(emitted)
  /\ LET keep == SubSeq(emitted, 1, Len(emitted) - m)
         node == SubSeq(emitted, Len(emitted) - m + 1, Len(emitted))
     IN /\ emitted' = keep
        /\ pending' = pending \o Bump(FlatE(node))
        /\ diagok' = (diagok /\ Inside(Cursor(SumW(FlatE(emitted)) - node[Len(node)].tw)))
  /\ UNCHANGED <<rest, total, phase, offset, cw, ltl, spanok, nmiss>>

(* Driver assumption G1: when a taken node is skipped no skipped token is pending (everything skipped
   before the node started was attached to the node's first terminal, nothing was skipped after its last
   terminal).  With pending # <<>> the pushed node lands BEHIND text that follows it in the source. *)
SkipTakenNode(m) ==
  /\ (pending = <<>> \/ BUG = "skip_node_with_pending")
  /\ SkipTakenNodeAny(m)

(* Terminal::missing(db) / create_and_report_missing: a zero-width token in tree order *)
Missing ==
  /\ phase = "items" /\ nmiss < MaxMiss
  /\ emitted' = Append(emitted, [leaves |-> <<[c |-> "miss", k |-> "TokenMissing", w |-> 0, p |-> EmittedW, d |-> 0]>>, tw |-> 0])
  /\ diagok' = (diagok /\ Inside(Cursor(offset + cw - ltl)))
  /\ nmiss' = nmiss + 1
  /\ UNCHANGED <<rest, total, phase, offset, cw, ltl, pending, spanok>>

(* unglue: `&&` -> `&` `&`, `||` -> `|` `|`, `>=` -> `>` `=`; leading trivia stay with the first piece,
   trailing trivia with the second *)
Unglue ==
  /\ phase = "items" /\ rest # <<>> /\ Gluable(Head(rest).kind)
  /\ LET t  == Head(rest)
         u  == UnglueTable[t.kind]
         t1 == [kind |-> u[1].kind, lead |-> t.lead,
                tok |-> [c |-> "tok", k |-> u[1].tk, w |-> u[1].w, p |-> t.tok.p, d |-> 0], trail |-> <<>>]
         t2 == [kind |-> u[2].kind, lead |-> <<>>,
                tok |-> [c |-> "tok", k |-> u[2].tk, w |-> u[2].w, p |-> t.tok.p + u[1].w, d |-> 0],
                trail |-> IF BUG = "unglue_drops_trivia" THEN <<>> ELSE t.trail]
     IN /\ t.tok.w = u[1].w + u[2].w
        /\ rest' = <<t1, t2>> \o Tail(rest)
  /\ UNCHANGED <<total, phase, offset, cw, ltl, pending, emitted, spanok, diagok, nmiss>>

(* parse_syntax_file at EOF: offset += current_width (no take_raw), then
   add_trivia_to_terminal::<TerminalEndOfFile>(next_terminal, self.offset) *)
Eof ==
  /\ phase = "items" /\ rest # <<>> /\ Head(rest).kind = EOF
  /\ LET t  == Head(rest)
         no == IF BUG = "eof_no_offset_fix" THEN offset ELSE offset + cw
         a  == Attached(t, no, IF BUG = "eof_drops_pending" THEN <<>> ELSE pending)
     IN /\ offset' = no
        /\ emitted' = Append(emitted, a.term)
        /\ spanok' = a.ok
  /\ pending' = <<>>
  /\ rest' = Tail(rest)
  /\ phase' = "done"
  /\ UNCHANGED <<total, cw, ltl, diagok, nmiss>>

CursorNext ==
  \/ Start \/ TakeDoc \/ Take \/ SkipToken \/ Missing \/ Unglue \/ Eof
  \/ \E m \in 1..Len(emitted) : SkipTakenNode(m)

-----------------------------------------------------------------------------
(* Invariants *)

(* every source byte is in exactly one place - emitted tree, pending trivia or unconsumed input - and
   the three parts, in this order, are the source in order *)
Lossless == Tiles(FlatE(emitted) \o pending \o RestLeaves(rest), 0, total)

(* offset + current_width is the width consumed from the lexer; the trailing trivia is part of it *)
OffsetLaw == phase # "done" => (offset + cw = total - RestW(rest) /\ ltl <= cw)

(* "Pending trivia is source-contiguous and ends exactly at terminal_start" (comment in
   add_trivia_to_terminal): the next terminal starts at offset + current_width *)
PendingContiguous ==
  (phase # "done" /\ pending # <<>>) => (offset + cw >= SumW(pending) /\ Tiles(pending, offset + cw - SumW(pending), offset + cw))

SpanLaw == spanok

DiagInside == diagok

(* the finished tree is the whole file *)
Final == phase = "done" => (pending = <<>> /\ rest = <<>> /\ Tiles(FlatE(emitted), 0, total))

=============================================================================

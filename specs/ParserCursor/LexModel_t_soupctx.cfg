CONSTANTS
  Alphabet <- SoupCore
  MaxLen = 3
  Kind = "soup"
  Ctxs <- AllCtxs
INIT Init
NEXT Next
INVARIANT TypeOK
INVARIANT Emit
CHECK_DEADLOCK FALSE

-------------------------- MODULE ParserCursorTrace --------------------------
(***************************************************************************)
(* Trace acceptor for ParserCursor (binding V, hook-free).                  *)
(*                                                                          *)
(* The harness records, for every input of a batch,                         *)
(*   reset(nl, nf)    start of an input: number of lex / leaf events        *)
(*   lex ...          the terminal sequence produced by the REAL lexer      *)
(*   leaf ...         the leaves of the REAL syntax tree in pre-order       *)
(*   tree | panic     summary (root width, parser diagnostics) or a crash   *)
(* An input is ACCEPTED iff some sequence of ParserCursor actions turns the *)
(* lexed terminals into exactly the recorded leaves (kinds, widths, skipped-*)
(* node depths, order).  TLC resolves which action happened at every step;  *)
(* `Compat` prunes guesses that already disagree with the recording.        *)
(* Every invariant of ParserCursor is evaluated in every state of every     *)
(* explored run; failures are collected per input (they never stop the      *)
(* batch).  Results are reported by the POSTCONDITION as RESULT lines.      *)
(* Run with -workers 1.                                                     *)
(***************************************************************************)
EXTENDS ParserCursor, TLC, Json, IOUtils

Rec == ndJsonDeserialize(IOEnv.TRACE)
N == Len(Rec)

VARIABLES
  i,      \* index of the `reset` event of the current input (N + 1 when the file is exhausted)
  id,     \* id of the current input
  mode    \* "idle" (at a reset event, nothing loaded) | "run" (terminals loaded, cursor actions)

tvars == <<i, id, mode>>
allvars == <<cvars, tvars>>

ACC == 1   \* TLC register: set of accepted input ids
INV == 2   \* TLC register: set of <<id, invariant name>> that failed in some explored state
SEEN == 3  \* TLC register: set of all input ids
NSTEP == 4 \* TLC register: number of cursor steps explored

(* layout of one input: reset(nl, nf), nl lex events, nf leaf events, one tree | panic event *)
NL == Rec[i].nl
NF == Rec[i].nf
Want(j) == Rec[i + NL + j]
Summary == Rec[i + NL + NF + 1]
NextReset == i + NL + NF + 2

BlankNext ==
  /\ rest' = <<>> /\ total' = 0 /\ phase' = "start" /\ offset' = 0 /\ cw' = 0 /\ ltl' = 0
  /\ pending' = <<>> /\ emitted' = <<>> /\ spanok' = TRUE /\ diagok' = TRUE /\ nmiss' = 0

Init ==
  /\ i = 1 /\ id = 0 /\ mode = "idle"
  /\ rest = <<>> /\ total = 0 /\ phase = "start" /\ offset = 0 /\ cw = 0 /\ ltl = 0
  /\ pending = <<>> /\ emitted = <<>> /\ spanok = TRUE /\ diagok = TRUE /\ nmiss = 0
  /\ TLCSet(ACC, {}) /\ TLCSet(INV, {}) /\ TLCSet(SEEN, {}) /\ TLCSet(NSTEP, 0)

RECURSIVE PlaceT(_, _)
PlaceT(ts, pos) ==
  IF ts = <<>> THEN <<>>
  ELSE <<[c |-> "triv", k |-> Head(ts).k, w |-> Head(ts).w, p |-> pos, d |-> 0]>> \o PlaceT(Tail(ts), pos + Head(ts).w)
RECURSIVE SumT(_)
SumT(ts) == IF ts = <<>> THEN 0 ELSE Head(ts).w + SumT(Tail(ts))

(* the terminal of a lex event, placed at source position pos (positions are computed here, from the
   recorded widths only) *)
LexTerm(ev, pos) ==
  [kind  |-> ev.kind,
   lead  |-> PlaceT(ev.lead, pos),
   tok   |-> [c |-> "tok", k |-> ev.tk, w |-> ev.text, p |-> pos + SumT(ev.lead), d |-> 0],
   trail |-> PlaceT(ev.trail, pos + SumT(ev.lead) + ev.text)]
EvW(ev) == SumT(ev.lead) + ev.text + SumT(ev.trail)

RECURSIVE LoadLex(_, _, _)
LoadLex(j, last, pos) ==
  IF j > last THEN <<>> ELSE <<LexTerm(Rec[j], pos)>> \o LoadLex(j + 1, last, pos + EvW(Rec[j]))

(* start of an input: all lexer terminals are loaded at once.  A crash / time-out leaves a recording
   without a tree: there is no action that explains it, the input is rejected. *)
OnReset ==
  /\ mode = "idle" /\ i <= N /\ Rec[i].e = "reset"
  /\ id' = Rec[i].id
  /\ TLCSet(SEEN, TLCGet(SEEN) \cup {Rec[i].id})
  /\ IF Summary.e = "tree"
     THEN /\ mode' = "run" /\ i' = i
          /\ rest' = LoadLex(i + 1, i + NL, 0)
          /\ total' = RestW(rest')
          /\ phase' = "start" /\ offset' = 0 /\ cw' = 0 /\ ltl' = 0
          /\ pending' = <<>> /\ emitted' = <<>> /\ spanok' = TRUE /\ diagok' = TRUE /\ nmiss' = 0
     ELSE /\ mode' = "idle" /\ i' = NextReset /\ BlankNext

(* what has been built so far must be a prefix of the recording (depths may still grow: a later
   SkipTakenNode wraps leaves that are already in place) *)
Compat(es, pd) ==
  LET have == FlatE(es) \o pd IN
  /\ Len(have) <= NF
  /\ \A j \in 1..Len(have) :
       /\ have[j].c = Want(j).c /\ have[j].k = Want(j).k /\ have[j].w = Want(j).w
       /\ have[j].d <= Want(j).d

(* Which recorded TriviumSkippedNodes a SkipTakenNode step builds.  Every recorded leaf carries the
   pre-order ordinals `gs` of its enclosing skipped nodes (outermost first).  Wrapping happens inside out:
   a leaf that has been wrapped d times is next wrapped by the node gs[Len(gs) - d].  One step stands for a
   run of skip_taken_node_with_offset calls (the code skips e.g. attributes, visibility and path one after
   the other): the leaves of the last m emitted terminals must split into consecutive runs, each run being
   the complete content of the recorded node all its leaves name as their next node. *)
NextNode(j, d) == LET g == Want(j).gs IN IF Len(g) > d THEN g[Len(g) - d] ELSE 0
InNode(j, G) == \E x \in 1..Len(Want(j).gs) : Want(j).gs[x] = G
NodeOK(m) ==
  LET keepN == Len(FlatE(SubSeq(emitted, 1, Len(emitted) - m)))
      have  == FlatE(emitted)
      allN  == Len(have)
      G(j)  == NextNode(j, have[j].d)
  IN /\ allN > keepN /\ allN <= NF
     /\ \A j \in (keepN + 1)..allN :
          /\ G(j) # 0
          /\ (j - 1 >= 1 /\ (j - 1 <= keepN \/ G(j - 1) # G(j))) => ~InNode(j - 1, G(j))
          /\ (j + 1 <= NF /\ (j + 1 > allN \/ G(j + 1) # G(j))) => ~InNode(j + 1, G(j))

TraceCursorNext ==
  \/ Start \/ TakeDoc \/ Take \/ SkipToken \/ Missing \/ Unglue \/ Eof
  \/ \E m \in 1..Len(emitted) : NodeOK(m) /\ SkipTakenNodeAny(m)

Step ==
  /\ mode = "run"
  /\ TraceCursorNext
  /\ Compat(emitted', pending')
  /\ TLCSet(NSTEP, TLCGet(NSTEP) + 1)
  /\ UNCHANGED tvars

Accept ==
  /\ mode = "run" /\ phase = "done"
  /\ LET have == FlatE(emitted) IN
       /\ Len(have) = NF
       /\ \A j \in 1..NF :
            have[j].c = Want(j).c /\ have[j].k = Want(j).k /\ have[j].w = Want(j).w /\ have[j].d = Want(j).d
  /\ TLCSet(ACC, TLCGet(ACC) \cup {id})
  /\ mode' = "idle" /\ i' = NextReset /\ UNCHANGED id /\ BlankNext

(* leave an input that cannot (or need not) be explained; it stays out of ACC unless Accept also fires *)
Abandon ==
  /\ mode = "run" /\ phase = "start"
  /\ mode' = "idle" /\ i' = NextReset /\ UNCHANGED id /\ BlankNext

Next == OnReset \/ Step \/ Accept \/ Abandon

-----------------------------------------------------------------------------
(* recorded facts checked against the model's own bookkeeping *)

(* parser diagnostics lie inside the file (C09) *)
RecordedDiagsInside ==
  LET ds == Summary.diags IN \A j \in 1..Len(ds) : ds[j].s <= ds[j].t /\ ds[j].t <= total

(* in the finished tree the recorded offsets (derived by the implementation from green widths) are the
   source positions the lexer assigned *)
RecordedPositionsAgree ==
  phase = "done" =>
    LET have == FlatE(emitted) IN
    \A j \in 1..Len(have) : j <= NF => (have[j].w = 0 \/ have[j].p = Want(j).p)

Fail(name) == TLCSet(INV, TLCGet(INV) \cup {<<id, name>>})

(* every ParserCursor invariant, in every state of every explored run; never stops the batch *)
Monitor ==
  mode = "run" =>
    /\ (Lossless \/ Fail("Lossless"))
    /\ (OffsetLaw \/ Fail("OffsetLaw"))
    /\ (PendingContiguous \/ Fail("PendingContiguous"))
    /\ (SpanLaw \/ Fail("SpanLaw"))
    /\ (DiagInside \/ Fail("DiagInside"))
    /\ (Final \/ Fail("Final"))
    /\ (RecordedDiagsInside \/ Fail("RecordedDiagsInside"))
    /\ (RecordedPositionsAgree \/ Fail("RecordedPositionsAgree"))

Post ==
  /\ PrintT(<<"RESULT", ToJson([seen |-> Cardinality(TLCGet(SEEN)),
                                accepted |-> Cardinality(TLCGet(ACC)),
                                rejected |-> TLCGet(SEEN) \ TLCGet(ACC),
                                invfail |-> TLCGet(INV),
                                steps |-> TLCGet(NSTEP),
                                events |-> N])>>)
=============================================================================

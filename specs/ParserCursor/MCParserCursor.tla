--------------------------- MODULE MCParserCursor ---------------------------
(* Design-level exhaustive instance of ParserCursor: every terminal sequence of length <= MaxTerms over
   the configured terminal shapes (trivia and text widths in {0,1,2}), every interleaving of the cursor
   operations. *)
EXTENDS ParserCursor, TLC

CONSTANTS MaxTerms, Profile

WS  == [k |-> "TokenWhitespace", w |-> 1]
WS2 == [k |-> "TokenWhitespace", w |-> 2]
NL  == [k |-> "TokenNewline", w |-> 1]
CMT == [k |-> "TokenSingleLineComment", w |-> 2]
DOC == [k |-> "TokenSingleLineDocComment", w |-> 2]

(* shape = [kind, tk, lead, tw, trail]; lead/trail are sequences of [k, w] *)
Leads   == IF Profile = "full" THEN {<<>>, <<WS>>, <<WS2>>, <<CMT, NL>>, <<CMT, NL, DOC, NL>>}
           ELSE IF Profile = "mid" THEN {<<>>, <<WS>>, <<CMT, NL>>}
           ELSE {<<>>, <<WS>>}
Trails  == IF Profile = "min" THEN {<<>>, <<WS>>} ELSE {<<>>, <<WS>>, <<WS, NL>>}
Widths  == IF Profile = "min" THEN {1} ELSE {1, 2}

PlainShapes == {[kind |-> "TerminalIdentifier", tk |-> "TokenIdentifier", lead |-> l, tw |-> w, trail |-> t] :
                  l \in Leads, w \in Widths, t \in Trails}
GlueShapes  == {[kind |-> "TerminalAndAnd", tk |-> "TokenAndAnd", lead |-> l, tw |-> 2, trail |-> t] :
                  l \in (IF Profile = "full" THEN {<<>>, <<WS>>} ELSE {<<>>}), t \in {<<>>, <<WS>>}}
Shapes == PlainShapes \cup GlueShapes
EofShapes == {[kind |-> EOF, tk |-> "TokenEndOfFile", lead |-> l, tw |-> 0, trail |-> <<>>] : l \in Leads}

RECURSIVE Place(_, _)   \* trivia [k,w] -> leaves with source positions starting at pos
Place(ts, pos) ==
  IF ts = <<>> THEN <<>>
  ELSE <<[c |-> "triv", k |-> Head(ts).k, w |-> Head(ts).w, p |-> pos, d |-> 0]>> \o Place(Tail(ts), pos + Head(ts).w)

RECURSIVE SumTW(_)
SumTW(ts) == IF ts = <<>> THEN 0 ELSE Head(ts).w + SumTW(Tail(ts))

MkTerm(sh, pos) ==
  [kind  |-> sh.kind,
   lead  |-> Place(sh.lead, pos),
   tok   |-> [c |-> "tok", k |-> sh.tk, w |-> sh.tw, p |-> pos + SumTW(sh.lead), d |-> 0],
   trail |-> Place(sh.trail, pos + SumTW(sh.lead) + sh.tw)]
ShapeW(sh) == SumTW(sh.lead) + sh.tw + SumTW(sh.trail)

RECURSIVE Lexed(_, _)
Lexed(shs, pos) == IF shs = <<>> THEN <<>> ELSE <<MkTerm(Head(shs), pos)>> \o Lexed(Tail(shs), pos + ShapeW(Head(shs)))
RECURSIVE SeqW(_)
SeqW(shs) == IF shs = <<>> THEN 0 ELSE ShapeW(Head(shs)) + SeqW(Tail(shs))

Inputs == UNION {{s \o <<e>> : s \in [1..n -> Shapes], e \in EofShapes} : n \in 0..MaxTerms}

Init ==
  /\ \E s \in Inputs : rest = Lexed(s, 0) /\ total = SeqW(s)
  /\ phase = "start" /\ offset = 0 /\ cw = 0 /\ ltl = 0
  /\ pending = <<>> /\ emitted = <<>> /\ spanok = TRUE /\ diagok = TRUE /\ nmiss = 0

Next == CursorNext

=============================================================================

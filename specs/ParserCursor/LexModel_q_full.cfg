CONSTANTS
  Alphabet <- FullAlphabet
  MaxLen = 3
  Kind = "str"
  Ctxs <- Bare
INIT Init
NEXT Next
INVARIANT TypeOK
INVARIANT Emit
CHECK_DEADLOCK FALSE

CONSTANTS
  BUG = "none"
  MaxMiss = 1
  MaxTerms = 1
  Profile = "full"
INIT Init
NEXT Next
INVARIANT Lossless
INVARIANT OffsetLaw
INVARIANT PendingContiguous
INVARIANT SpanLaw
INVARIANT DiagInside
INVARIANT Final
CHECK_DEADLOCK FALSE

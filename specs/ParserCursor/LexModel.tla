------------------------------ MODULE LexModel ------------------------------
(***************************************************************************)
(* Input space of the front end (C09/C10): ALL strings of length <= MaxLen  *)
(* over an alphabet of character classes (Kind = "str"), or of token texts  *)
(* embedded in a syntactic context (Kind = "soup").  Each class / token     *)
(* stands for a fixed concrete text (harness/src/parser_gen.rs); the model  *)
(* carries its UTF-8 byte width, so it predicts the byte length of every    *)
(* generated input: the lexer's terminals and the syntax tree must tile     *)
(* exactly that many bytes (checked by the harness on the real lexer/tree). *)
(* Every reachable state is one input; it is emitted as a REPLAY line.      *)
(***************************************************************************)
EXTENDS Naturals, Sequences, FiniteSets, TLC, Json

CONSTANTS Alphabet, MaxLen, Kind, Ctxs

VARIABLES s, ctx

ClassTable == {
    <<"sp", 1>>, <<"tab", 1>>, <<"cr", 1>>, <<"nl", 1>>, <<"slash", 1>>, <<"digit", 1>>, <<"zero", 1>>,
    <<"alpha", 1>>, <<"hexx", 1>>, <<"us", 1>>, <<"quote", 1>>, <<"dquote", 1>>, <<"bslash", 1>>, <<"gt", 1>>,
    <<"lt", 1>>, <<"amp", 1>>, <<"bar", 1>>, <<"eq", 1>>, <<"colon", 1>>, <<"minus", 1>>, <<"bang", 1>>,
    <<"dot", 1>>, <<"hash", 1>>, <<"lbrack", 1>>, <<"rbrack", 1>>, <<"lparen", 1>>, <<"rparen", 1>>,
    <<"lbrace", 1>>, <<"rbrace", 1>>, <<"semi", 1>>, <<"comma", 1>>, <<"dollar", 1>>, <<"star", 1>>,
    <<"at", 1>>, <<"plus", 1>>, <<"ff", 1>>, <<"u2", 2>>, <<"u3", 3>>, <<"u4", 4>> }
SoupTable == {
    <<"fn", 3>>, <<"id", 2>>, <<"id2", 1>>, <<"pub", 4>>, <<"mod", 4>>, <<"struct", 7>>, <<"enum", 5>>,
    <<"trait", 6>>, <<"impl", 5>>, <<"of", 3>>, <<"use", 4>>, <<"let", 4>>, <<"if", 3>>, <<"else", 5>>,
    <<"match", 6>>, <<"while", 6>>, <<"for", 4>>, <<"loop", 5>>, <<"return", 7>>, <<"const", 6>>,
    <<"extern", 7>>, <<"type", 5>>, <<"macro", 6>>, <<"mut", 4>>, <<"ref", 4>>, <<"lbrace", 1>>,
    <<"rbrace", 1>>, <<"lparen", 1>>, <<"rparen", 1>>, <<"lbrack", 1>>, <<"rbrack", 1>>, <<"semi", 1>>,
    <<"comma", 1>>, <<"colon", 1>>, <<"coloncolon", 2>>, <<"lt", 1>>, <<"gt", 1>>, <<"ge", 2>>, <<"eq", 1>>,
    <<"arrow", 2>>, <<"matcharrow", 2>>, <<"andand", 2>>, <<"and", 1>>, <<"oror", 2>>, <<"or", 1>>,
    <<"bang", 1>>, <<"dot", 1>>, <<"dotdot", 2>>, <<"plus", 1>>, <<"minus", 1>>, <<"star", 1>>, <<"at", 1>>,
    <<"question", 1>>, <<"dollar", 1>>, <<"hash", 1>>, <<"hashbrack", 2>>, <<"underscore", 2>>, <<"num", 1>>,
    <<"numsuf", 8>>, <<"badnum", 5>>, <<"str", 3>>, <<"strunterm", 2>>, <<"short", 3>>, <<"shortunterm", 2>>,
    <<"bytestr", 4>>, <<"comment", 5>>, <<"doc", 6>>, <<"innerdoc", 6>>, <<"nl", 1>>, <<"sp", 1>>,
    <<"bad", 2>>, <<"ff", 1>> }
CtxTable == {
    <<"bare", 0>>, <<"fnbody", 11>>, <<"fnbody_open", 9>>, <<"params", 9>>, <<"generics", 11>>,
    <<"struct", 13>>, <<"enum", 11>>, <<"trait", 12>>, <<"impl", 16>>, <<"attr", 13>>, <<"use", 10>>,
    <<"macro", 16>>, <<"match", 23>>, <<"expr", 15>>, <<"letpat", 20>>, <<"mod", 10>>, <<"macrodecl", 12>>,
    <<"closure", 24>> }

FullAlphabet == {p[1] : p \in ClassTable}
CoreAlphabet == {"sp", "nl", "slash", "digit", "alpha", "us", "quote", "dquote", "bslash", "gt", "amp", "bar", "eq", "colon", "u3", "lbrace"}
SoupFull == {p[1] : p \in SoupTable}
SoupCore == {"fn", "id", "pub", "struct", "trait", "impl", "of", "use", "let", "if", "else", "match", "const", "mut", "lbrace", "rbrace", "lparen", "rparen", "lbrack", "semi", "comma", "colon", "coloncolon", "lt", "gt", "ge", "eq", "arrow", "matcharrow", "andand", "oror", "bang", "dot", "minus", "hashbrack", "num", "strunterm", "comment", "doc", "bad"}
AllCtxs == {p[1] : p \in CtxTable}
Bare == {"bare"}

Lookup(T, x) == (CHOOSE p \in T : p[1] = x)[2]
WidthOf(x) == IF Kind = "str" THEN Lookup(ClassTable, x) ELSE Lookup(SoupTable, x)

RECURSIVE ByteLen(_)
ByteLen(q) == IF q = <<>> THEN 0 ELSE WidthOf(Head(q)) + ByteLen(Tail(q))

Init == s = <<>> /\ ctx \in Ctxs
Next == Len(s) < MaxLen /\ \E c \in Alphabet : s' = Append(s, c) /\ UNCHANGED ctx

(* the alphabet is concretisable and the widths are the UTF-8 widths of 1..4 byte characters / token texts *)
TypeOK ==
  /\ Alphabet \subseteq (IF Kind = "str" THEN FullAlphabet ELSE SoupFull)
  /\ Ctxs \subseteq AllCtxs
  /\ \A j \in 1..Len(s) : WidthOf(s[j]) \in 1..8
  /\ ByteLen(s) >= Len(s)

Emit == PrintT(<<"REPLAY", ToJson([k |-> Kind, ctx |-> ctx, classes |-> s,
                                    len |-> ByteLen(s) + Lookup(CtxTable, ctx)])>>)
=============================================================================

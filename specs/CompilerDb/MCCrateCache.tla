--------------------------- MODULE MCCrateCache ---------------------------
(* Model-checking / history-generating instance of CrateCache. *)
EXTENDS CrateCache, Json

D(c, k, n) == [c |-> c, k |-> k, n |-> n]
F(c, n, g) == [c |-> c, n |-> n, gen |-> g]

MC_Cacheable == <<"core", "lib">>

MC_Kinds == {"struct", "enum", "const", "extern_fn", "generic_impl", "ext_file_item", "trait_default",
             "panic_site", "const_generic"}

MC_Defs == {
    D("core", "enum", "Option"), D("core", "extern_fn", "array_len"), D("core", "generic_impl", "OptionTraitImpl"),
    D("core", "ext_file_item", "derive_Drop"), D("core", "panic_site", "panic_with_felt252"),
    D("core", "trait_default", "Iterator::next"), D("core", "const_generic", "FixedSizeArray"),
    D("lib", "struct", "Point"), D("lib", "enum", "Shape"), D("lib", "const", "BASE"),
    D("lib", "extern_fn", "u16_wide_mul"), D("lib", "generic_impl", "DescribeArr"),
    D("lib", "ext_file_item", "derive_Serde"), D("lib", "trait_default", "Describe::double_code"),
    D("lib", "const_generic", "repeat") }

opt_map     == F("core", "OptionTrait::map", FALSE)
opt_map_c   == F("core", "OptionTrait::map#closure", TRUE)
arr_len     == F("core", "ArrayTrait::len", FALSE)
core_panic  == F("core", "panic_with_felt252", FALSE)
weight      == F("lib", "ShapeTrait::weight", FALSE)
weight_loop == F("lib", "ShapeTrait::weight#loop", TRUE)
sum_sq      == F("lib", "sum_sq", FALSE)
sum_sq_c    == F("lib", "sum_sq#closure", TRUE)
base_plus   == F("lib", "base_plus", FALSE)
describe    == F("lib", "DescribeArr::code", FALSE)

MC_Fns == {opt_map, opt_map_c, arr_len, core_panic, weight, weight_loop, sum_sq, sum_sq_c, base_plus, describe}

MC_Refs == [f \in MC_Fns |->
    CASE f = opt_map     -> {D("core", "enum", "Option"), D("core", "generic_impl", "OptionTraitImpl")}
      [] f = opt_map_c   -> {D("core", "enum", "Option")}
      [] f = arr_len     -> {D("core", "extern_fn", "array_len"), D("core", "const_generic", "FixedSizeArray")}
      [] f = core_panic  -> {D("core", "panic_site", "panic_with_felt252"), D("core", "ext_file_item", "derive_Drop")}
      [] f = weight      -> {D("lib", "enum", "Shape"), D("lib", "struct", "Point"), D("lib", "ext_file_item", "derive_Serde")}
      [] f = weight_loop -> {D("lib", "struct", "Point"), D("core", "trait_default", "Iterator::next")}
      [] f = sum_sq      -> {D("lib", "const", "BASE")}
      [] f = sum_sq_c    -> {D("lib", "extern_fn", "u16_wide_mul")}
      [] f = base_plus   -> {D("lib", "const", "BASE"), D("lib", "const_generic", "repeat")}
      [] f = describe    -> {D("lib", "generic_impl", "DescribeArr"), D("lib", "trait_default", "Describe::double_code")}]

MC_Calls == [f \in MC_Fns |->
    CASE f = opt_map     -> {opt_map_c}
      [] f = weight      -> {weight_loop, arr_len}
      [] f = weight_loop -> {core_panic}
      [] f = sum_sq      -> {sum_sq_c, opt_map}
      [] f = describe    -> {arr_len}
      [] OTHER           -> {}]

MC_Variants == << {weight}, {sum_sq, base_plus}, {describe, arr_len} >>

\* ---- history generator: emit every history that ends with a query and uses a cache somewhere;
\* no repeated query, at most two edits in a row (keeps the generator small, loses nothing)
GenConstraint ==
    /\ \A i \in 1..(Len(ops) - 1) : ~(ops[i].op = "query" /\ ops[i + 1].op = "query")
    /\ \A i \in 1..(Len(ops) - 2) : ~(ops[i].op = "edit" /\ ops[i + 1].op = "edit" /\ ops[i + 2].op = "edit")
EmitHist == (GenConstraint /\ ops # <<>> /\ ops[Len(ops)].op = "query" /\ \E i \in 1..Len(ops) : ops[i].op = "use") =>
              PrintT(<<"REPLAY", ToJson([k |-> "hist", ops |-> ops,
                                         cached |-> {c \in CrateSet : mode[c] = "cached"}])>>)
=============================================================================

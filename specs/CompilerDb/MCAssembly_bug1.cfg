\* exhaustive: 3 warm-up workers, 4 functions, 3 shared libfuncs, prefixes of <= 2 (of 4) queries, all interleavings
CONSTANTS
  Funcs <- MC_Funcs
  Body <- MC_Body
  Requested <- MC_Requested
  FuncOrder <- MC_FuncOrder
  LibTypes <- MC_LibTypes
  Slot <- MC_Slot
  MaxWorkers = 3
  ThreadChoices = {1, 2, 4}
  PrefixQueries <- FewQueries
  MaxPrefix = 2
  Modes = {"seq", "par"}
  Entries = {"artifact", "plain"}
  BUG = "OrderByRawId"
INIT Init
NEXT Next
VIEW View
INVARIANT TypeOK
INVARIANT Canonical
INVARIANT MemoOnce
CHECK_DEADLOCK TRUE

\* history generator: every (threads, mode, entry, prefix of <= 3 distinct queries in every order)
CONSTANTS
  Funcs <- MC_Funcs
  Body <- MC_Body
  Requested <- MC_Requested
  FuncOrder <- MC_FuncOrder
  LibTypes <- MC_LibTypes
  Slot <- MC_Slot
  MaxWorkers = 3
  ThreadChoices = {1, 2, 4, 16}
  PrefixQueries <- AllQueries
  MaxPrefix = 3
  Modes = {"seq", "par"}
  Entries = {"artifact", "plain"}
  BUG = "none"
INIT Init
NEXT Next
CONSTRAINT GenConstraint
INVARIANT EmitHist
CHECK_DEADLOCK FALSE

------------------------------ MODULE SalsaIncr ------------------------------
(***************************************************************************)
(* CompilerDb.SalsaIncr -- the incremental database mechanism the Cairo    *)
(* compiler relies on (DESIGN 3.9, property C13), written to be bound.     *)
(*                                                                         *)
(* Shaped like the code:                                                   *)
(*  * filesystem/src/db.rs : input `file_overrides` (one input, whole map, *)
(*    changed_at = ovrAt), priv_raw_file_content = untracked read ("ut"    *)
(*    dependency: re-executed in every new revision, back-dated if equal), *)
(*    file_content(f) = override or raw.                                   *)
(*  * parser/src/db.rs : file_syntax_data(f) ("syn") parses and seeds the  *)
(*    canonical root, a tracked struct whose identity is Root(f).          *)
(*  * syntax/src/node/mod.rs : SyntaxNodeData is a tracked struct: the id  *)
(*    (parent, kind, key_fields, index among same-keyed siblings) is its   *)
(*    identity and is never updated; the fields `green` and                *)
(*    `offset_in_parent` are tracked, each with its own changed_at (gAt,   *)
(*    oAt), updated only when the value differs.  node_children ("ch")     *)
(*    depends on the node's green only and creates the children;           *)
(*    absolute_offset ("abs") = offset_in_parent + abs(parent).            *)
(*  * defs/semantic: names of items are read from the id's key fields      *)
(*    (no dependency edge); item semantics ("sem") reads the green;        *)
(*    module diagnostics ("mdiag") hold stable pointers (node ids), the    *)
(*    location is computed when formatting (TopDiag) through "abs".        *)
(*  * salsa: memo = [val, deps (ordered), vAt, cAt, made]; fetch = shallow *)
(*    check, else deep verification of the deps in order                   *)
(*    (maybe_changed_after, which itself verifies / re-executes the        *)
(*    dependency), else re-execution with back-dating when the value is    *)
(*    equal; tracked structs not re-created by a re-execution are deleted  *)
(*    together with the memos keyed on them.                               *)
(*                                                                         *)
(* Abstract project: NFILES files, each a sequence of <= MAXITEMS items    *)
(* [name, ver, lead, broken].  Abstract offsets are lines.                 *)
(***************************************************************************)
EXTENDS Naturals, Sequences, FiniteSets, TLC

CONSTANTS NFILES,     \* 1 or 2
          MAXITEMS,   \* <= 3
          MAXLEN,     \* bound on history length (state constraint)
          BUG,        \* "none" | "OffsetCachedInNode" | "IdFromOffset" | "NoBackdateCheck" | "OverrideNoInvalidate"
          QS,         \* queries that may be fused to an edit step: subset of {"none","diag","sierra"}
          SEPQ,       \* TRUE: Query is also a step of its own
          INITS       \* set of initial projects (sequences of file contents)

VARIABLES rev, disk, hasOvr, ovr, ovrAt, memos, nodes, hist, init0

vars == <<rev, disk, hasOvr, ovr, ovrAt, memos, nodes, hist, init0>>
\* history and initial project are hidden from the fingerprint
view == <<rev, disk, hasOvr, ovr, ovrAt, memos, nodes>>

Files == 1..NFILES
Names == {"a", "b"}
Other(nm) == IF nm = "a" THEN "b" ELSE "a"
Item(nm, v, l, b) == [name |-> nm, ver |-> v, lead |-> l, broken |-> b]

-----------------------------------------------------------------------------
(* Geometry: an item occupies lead + 4 (ver 1) or lead + 5 (ver 2) lines;   *)
(* file 1 of a two-file project starts with the line `mod m;`.              *)
H(it) == it.lead + (IF it.ver = 1 THEN 4 ELSE 5)
Base(f) == IF NFILES = 2 /\ f = 1 THEN 1 ELSE 0
RECURSIVE SumH(_, _)
SumH(c, n) == IF n = 0 THEN 0 ELSE SumH(c, n - 1) + H(c[n])

ErrKinds == {"syntax", "unresolved", "dup"}

-----------------------------------------------------------------------------
(* Reference semantics: what a fresh database answers for given contents.   *)
FreshNames(cs) == {cs[1][p].name : p \in DOMAIN cs[1]}
FreshDiagF(cs, f) ==
  LET c == cs[f] IN
  UNION {
    LET it == c[p]
        l0 == Base(f) + SumH(c, p - 1) + it.lead
        D(k, l) == [f |-> f, k |-> k, l |-> l]
    IN (IF \E q \in 1..(p - 1) : c[q].name = it.name THEN {D("dup", l0)} ELSE {})
       \cup (IF it.broken THEN {D("syntax", l0 + 1), D("unused", l0 + it.ver)}
             ELSE IF it.ver = 1 THEN {D("unused", l0 + 1)}
             ELSE {D("unused", l0 + 2)}
                  \cup (IF "a" \notin FreshNames(cs) THEN {D("unresolved", l0 + 1)} ELSE {}))
    : p \in DOMAIN c }
FreshDiag(cs) == UNION {FreshDiagF(cs, f) : f \in Files}
RECURSIVE FreshFns(_, _)
FreshFns(cs, f) ==
  IF f = 0 THEN <<>>
  ELSE FreshFns(cs, f - 1) \o [p \in DOMAIN cs[f] |-> [name |-> cs[f][p].name, ver |-> cs[f][p].ver]]
FreshSierra(cs) ==
  IF \E d \in FreshDiag(cs) : d.k \in ErrKinds THEN [ok |-> FALSE, fns |-> <<>>]
  ELSE [ok |-> TRUE, fns |-> FreshFns(cs, NFILES)]

-----------------------------------------------------------------------------
(* Ids, keys, dependency edges (all records of one shape each, so that TLC  *)
(* can compare them).                                                       *)
Gid == [t |-> "G", f |-> 0, k |-> "-", i |-> 0, v |-> 0]
RootId(f) == [t |-> "R", f |-> f, k |-> "-", i |-> 0, v |-> 0]
\* identity of the item at position p of content c: (parent, kind, key = name, index among same-named)
ItemIdAt(f, c, p) ==
  IF BUG = "IdFromOffset"
  THEN [t |-> "I", f |-> f, k |-> "@", i |-> Base(f) + SumH(c, p - 1), v |-> 0]
  ELSE [t |-> "I", f |-> f, k |-> c[p].name,
        i |-> Cardinality({q \in 1..(p - 1) : c[q].name = c[p].name}), v |-> 0]
InnerId(n, ver) == [n EXCEPT !.t = "S", !.v = ver]
ParentOf(n) == IF n.t = "S" THEN [n EXCEPT !.t = "I", !.v = 0] ELSE RootId(n.f)

K(q, n) == [q |-> q, n |-> n]
DQ(q, n) == [d |-> "q", q |-> q, n |-> n]     \* another memoised query
DG(n) == [d |-> "g", q |-> "-", n |-> n]      \* tracked field green of node n
DO(n) == [d |-> "o", q |-> "-", n |-> n]      \* tracked field offset_in_parent of node n
DIN == [d |-> "in", q |-> "-", n |-> Gid]     \* the file_overrides input
DUT == [d |-> "ut", q |-> "-", n |-> Gid]     \* untracked read
Ent(k, p, d) == [k |-> k, p |-> p, d |-> d]   \* diagnostic: kind, stable pointer, line delta

\* environment = inputs + revision, threaded explicitly (so that a step can edit and then query)
Env == [rev |-> rev, disk |-> disk, hasOvr |-> hasOvr, ovr |-> ovr, ovrAt |-> ovrAt]
Eff(E) == [f \in Files |-> IF E.hasOvr[f] THEN E.ovr[f] ELSE E.disk[f]]

-----------------------------------------------------------------------------
(* Tracked structs.                                                         *)
MakeNode(E, S, id, g, o, key) ==
  IF id \in DOMAIN S.nodes
  THEN LET old == S.nodes[id] IN
       [S EXCEPT !.nodes[id] = [old EXCEPT !.green = g, !.off = o,
                                 !.gAt = IF old.green = g THEN old.gAt ELSE E.rev,
                                 !.oAt = IF old.off = o THEN old.oAt ELSE E.rev]]
  ELSE [S EXCEPT !.nodes = (id :> [green |-> g, off |-> o, gAt |-> E.rev, oAt |-> E.rev, key |-> key]) @@ S.nodes]

NodeKeyed == {"ch", "abs", "sem"}
RECURSIVE DeleteNodes(_, _)
DeleteNodes(S, ids) ==
  IF ids = {} THEN S
  ELSE LET id == CHOOSE x \in ids : TRUE
           ks == {k \in DOMAIN S.memos : k.n = id /\ k.q \in NodeKeyed}
           sub == UNION {S.memos[k].made : k \in ks}
           S1 == [memos |-> [k \in (DOMAIN S.memos) \ ks |-> S.memos[k]],
                  nodes |-> [x \in (DOMAIN S.nodes) \ {id} |-> S.nodes[x]]]
       IN DeleteNodes(S1, (ids \ {id}) \cup sub)

-----------------------------------------------------------------------------
(* The memoisation algorithm.                                               *)
RECURSIVE Fetch(_, _, _), VerifyDeps(_, _, _, _, _), Exec(_, _, _), Body(_, _, _),
          MakeItems(_, _, _, _, _), FetchSems(_, _, _, _), CollectFns(_, _, _)

Val(S, k) == S.memos[k].val
Res(S, v, ds, mk) == [S |-> S, val |-> v, deps |-> ds, made |-> mk]

\* has dependency dep changed after revision r?  (verifies / re-executes query dependencies)
DepChanged(E, S, dep, r) ==
  CASE dep.d = "in" -> [S |-> S, ch |-> E.ovrAt > r]
    [] dep.d = "ut" -> [S |-> S, ch |-> TRUE]
    [] dep.d = "g" -> [S |-> S, ch |-> IF dep.n \in DOMAIN S.nodes THEN S.nodes[dep.n].gAt > r ELSE TRUE]
    [] dep.d = "o" -> [S |-> S, ch |-> IF dep.n \in DOMAIN S.nodes THEN S.nodes[dep.n].oAt > r ELSE TRUE]
    [] dep.d = "q" -> (LET k == K(dep.q, dep.n) IN
                       IF k \notin DOMAIN S.memos THEN [S |-> S, ch |-> TRUE]
                       ELSE LET S1 == Fetch(E, S, k) IN [S |-> S1, ch |-> S1.memos[k].cAt > r])

VerifyDeps(E, S, deps, i, r) ==
  IF i > Len(deps) THEN [S |-> S, ch |-> FALSE]
  ELSE LET c == DepChanged(E, S, deps[i], r) IN
       IF c.ch THEN c ELSE VerifyDeps(E, c.S, deps, i + 1, r)

Fetch(E, S, k) ==
  IF k \in DOMAIN S.memos
  THEN IF S.memos[k].vAt = E.rev THEN S
       ELSE LET r == VerifyDeps(E, S, S.memos[k].deps, 1, S.memos[k].vAt) IN
            IF r.ch THEN Exec(E, r.S, k)
            ELSE [r.S EXCEPT !.memos[k].vAt = E.rev]
  ELSE Exec(E, S, k)

Exec(E, S, k) ==
  LET R == Body(E, S, k)
      had == k \in DOMAIN S.memos
      oldMade == IF had THEN S.memos[k].made ELSE {}
      cAt == IF ~had THEN E.rev
             ELSE IF BUG = "NoBackdateCheck" THEN S.memos[k].cAt      \* back-dates without comparing
             ELSE IF S.memos[k].val = R.val THEN S.memos[k].cAt ELSE E.rev
      S1 == DeleteNodes(R.S, oldMade \ R.made)
      m == [val |-> R.val, deps |-> R.deps, vAt |-> E.rev, cAt |-> cAt, made |-> R.made]
  IN [S1 EXCEPT !.memos = (k :> m) @@ [x \in (DOMAIN S1.memos) \ {k} |-> S1.memos[x]]]

MakeItems(E, S, f, c, p) ==
  IF p > Len(c) THEN S
  ELSE MakeItems(E, MakeNode(E, S, ItemIdAt(f, c, p), c[p], Base(f) + SumH(c, p - 1), c[p].name), f, c, p + 1)

FetchSems(E, S, ids, p) ==
  IF p > Len(ids) THEN S ELSE FetchSems(E, Fetch(E, S, K("sem", ids[p])), ids, p + 1)

\* Sierra functions of files f..NFILES: [S, val, deps]
CollectFns(E, S, f) ==
  IF f > NFILES THEN [S |-> S, val |-> <<>>, deps |-> <<>>]
  ELSE LET r == RootId(f)
           S1 == Fetch(E, S, K("syn", r))
           S2 == Fetch(E, S1, K("ch", r))
           ids == Val(S2, K("ch", r))
           here == [p \in DOMAIN ids |-> [name |-> S2.nodes[ids[p]].key, ver |-> S2.nodes[ids[p]].green.ver]]
           rest == CollectFns(E, S2, f + 1)
       IN [S |-> rest.S, val |-> here \o rest.val,
           deps |-> <<DQ("syn", r), DQ("ch", r)>> \o [p \in DOMAIN ids |-> DG(ids[p])] \o rest.deps]

Body(E, S, k) ==
  LET n == k.n
      f == n.f
  IN
  CASE k.q = "raw" -> Res(S, E.disk[f], <<DUT>>, {})
    [] k.q = "fc" ->
         (IF E.hasOvr[f] THEN Res(S, E.ovr[f], <<DIN>>, {})
          ELSE LET S1 == Fetch(E, S, K("raw", n)) IN
               Res(S1, Val(S1, K("raw", n)), <<DIN, DQ("raw", n)>>, {}))
    [] k.q = "syn" ->
         (LET S1 == Fetch(E, S, K("fc", n))
              c == Val(S1, K("fc", n))
          IN Res(MakeNode(E, S1, n, c, 0, "-"), n, <<DQ("fc", n)>>, {n}))
    [] k.q = "ch" ->
         (IF n.t = "R"
          THEN LET c == S.nodes[n].green
                   ids == [p \in DOMAIN c |-> ItemIdAt(f, c, p)]
               IN Res(MakeItems(E, S, f, c, 1), ids, <<DG(n)>>, {ids[p] : p \in DOMAIN ids})
          ELSE LET it == S.nodes[n].green
                   cid == InnerId(n, it.ver)
               IN Res(MakeNode(E, S, cid, [ver |-> it.ver, broken |-> it.broken], it.lead + 1, "-"),
                      <<cid>>, <<DG(n)>>, {cid}))
    [] k.q = "abs" ->
         (LET off == S.nodes[n].off IN
          IF n.t = "R"
          THEN Res(S, off, IF BUG = "OffsetCachedInNode" THEN <<>> ELSE <<DO(n)>>, {})
          ELSE LET pk == K("abs", ParentOf(n))
                   S1 == Fetch(E, S, pk)
               IN Res(S1, Val(S1, pk) + off,
                      \* the wrong variant computes the offset once and keeps it with the node
                      IF BUG = "OffsetCachedInNode" THEN <<>> ELSE <<DO(n), DQ("abs", ParentOf(n))>>, {}))
    [] k.q = "names" ->
         (LET r == RootId(1)
              S1 == Fetch(E, S, K("syn", r))
              S2 == Fetch(E, S1, K("ch", r))
              ids == Val(S2, K("ch", r))
          IN Res(S2, {S2.nodes[ids[p]].key : p \in DOMAIN ids}, <<DQ("syn", r), DQ("ch", r)>>, {}))
    [] k.q = "sem" ->
         (LET it == S.nodes[n].green
              S1 == Fetch(E, S, K("ch", n))
              inner == Val(S1, K("ch", n))[1]
              need == it.ver = 2 /\ ~it.broken
              S2 == IF need THEN Fetch(E, S1, K("names", Gid)) ELSE S1
              v == IF it.broken THEN <<Ent("syntax", inner, 0), Ent("unused", inner, it.ver - 1)>>
                   ELSE IF it.ver = 1 THEN <<Ent("unused", inner, 0)>>
                   ELSE (IF "a" \notin Val(S2, K("names", Gid)) THEN <<Ent("unresolved", inner, 0)>> ELSE <<>>)
                        \o <<Ent("unused", inner, 1)>>
          IN Res(S2, v, <<DG(n), DQ("ch", n)>> \o (IF need THEN <<DQ("names", Gid)>> ELSE <<>>), {}))
    [] k.q = "mdiag" ->
         (LET S1 == Fetch(E, S, K("syn", n))
              S2 == Fetch(E, S1, K("ch", n))
              ids == Val(S2, K("ch", n))
              S3 == FetchSems(E, S2, ids, 1)
              RECURSIVE Cat(_)
              Cat(p) == IF p > Len(ids) THEN <<>>
                        ELSE (IF \E q \in 1..(p - 1) : S3.nodes[ids[q]].key = S3.nodes[ids[p]].key
                              THEN <<Ent("dup", ids[p], 0)>> ELSE <<>>)
                             \o Val(S3, K("sem", ids[p])) \o Cat(p + 1)
          IN Res(S3, Cat(1), <<DQ("syn", n), DQ("ch", n)>> \o [p \in DOMAIN ids |-> DQ("sem", ids[p])], {}))
    [] k.q = "sierra" ->
         (LET r == CollectFns(E, S, 1) IN Res(r.S, r.val, r.deps, {}))

-----------------------------------------------------------------------------
(* What the user observes (formatting of diagnostics happens outside the    *)
(* memoised queries: location = absolute_offset(ptr) + leading trivia).     *)
LeadOf(S, id) == IF id.t = "I" THEN S.nodes[id].green.lead ELSE 0

RECURSIVE Locate(_, _, _, _, _)
Locate(E, S, f, ents, p) ==
  IF p > Len(ents) THEN [S |-> S, val |-> {}]
  ELSE LET e == ents[p]
           S1 == Fetch(E, S, K("abs", e.p))
           line == Val(S1, K("abs", e.p)) + LeadOf(S1, e.p) + e.d
           rest == Locate(E, S1, f, ents, p + 1)
       IN [S |-> rest.S, val |-> {[f |-> f, k |-> e.k, l |-> line]} \cup rest.val]

RECURSIVE TopDiagF(_, _, _)
TopDiagF(E, S, f) ==
  IF f > NFILES THEN [S |-> S, val |-> {}]
  ELSE LET S1 == Fetch(E, S, K("mdiag", RootId(f)))
           here == Locate(E, S1, f, Val(S1, K("mdiag", RootId(f))), 1)
           rest == TopDiagF(E, here.S, f + 1)
       IN [S |-> rest.S, val |-> here.val \cup rest.val]
TopDiag(E, S) == TopDiagF(E, S, 1)

\* compile = ensure(diagnostics) then get_sierra_program
TopSierra(E, S) ==
  LET d == TopDiag(E, S) IN
  IF \E x \in d.val : x.k \in ErrKinds THEN [S |-> d.S, val |-> [ok |-> FALSE, fns |-> <<>>]]
  ELSE LET S1 == Fetch(E, d.S, K("sierra", Gid)) IN
       [S |-> S1, val |-> [ok |-> TRUE, fns |-> Val(S1, K("sierra", Gid))]]

DoQuery(E, S, q) ==
  CASE q = "none" -> S
    [] q = "diag" -> TopDiag(E, S).S
    [] q = "sierra" -> TopSierra(E, S).S

-----------------------------------------------------------------------------
(* Edits of one file content.                                               *)
SetAt(c, i, it) == [c EXCEPT ![i] = it]
RemoveAt(c, i) == SubSeq(c, 1, i - 1) \o SubSeq(c, i + 1, Len(c))
InsertAt(c, p, it) == SubSeq(c, 1, p) \o <<it>> \o SubSeq(c, p + 1, Len(c))    \* after position p (0 = front)

\* the set of [op, i, nm, c2] applicable to content c
EditsOf(c) ==
     {[op |-> "trivia", i |-> i, nm |-> "-", c2 |-> SetAt(c, i, [c[i] EXCEPT !.lead = 1 - @])] : i \in DOMAIN c}
  \cup {[op |-> "rename", i |-> i, nm |-> "-", c2 |-> SetAt(c, i, [c[i] EXCEPT !.name = Other(@)])] : i \in DOMAIN c}
  \cup {[op |-> "body", i |-> i, nm |-> "-", c2 |-> SetAt(c, i, [c[i] EXCEPT !.ver = 3 - @])] : i \in DOMAIN c}
  \cup {[op |-> IF c[i].broken THEN "repair" ELSE "break", i |-> i, nm |-> "-",
         c2 |-> SetAt(c, i, [c[i] EXCEPT !.broken = ~@])] : i \in DOMAIN c}
  \cup {[op |-> "delete", i |-> i, nm |-> "-", c2 |-> RemoveAt(c, i)] : i \in DOMAIN c}
  \cup (IF Len(c) < MAXITEMS
        THEN {[op |-> "dup", i |-> i, nm |-> "-", c2 |-> InsertAt(c, i, c[i])] : i \in DOMAIN c}
             \cup {[op |-> "insert", i |-> p, nm |-> nm, c2 |-> InsertAt(c, p, Item(nm, 1, 0, FALSE))]
                   : p \in 0..Len(c), nm \in Names}
        ELSE {})

Expect(E) == [d |-> FreshDiag(Eff(E)), ok |-> FreshSierra(Eff(E)).ok, fns |-> FreshSierra(Eff(E)).fns]
HEnt(op, f, i, nm, q, E) == [op |-> op, f |-> f, i |-> i, nm |-> nm, q |-> q, exp |-> Expect(E)]

\* apply environment E2 (the edited inputs), then the fused query q
Commit(E2, op, f, i, nm, q) ==
  LET S2 == DoQuery(E2, [memos |-> memos, nodes |-> nodes], q) IN
  /\ rev' = E2.rev /\ disk' = E2.disk /\ hasOvr' = E2.hasOvr /\ ovr' = E2.ovr /\ ovrAt' = E2.ovrAt
  /\ memos' = S2.memos /\ nodes' = S2.nodes
  /\ hist' = Append(hist, HEnt(op, f, i, nm, q, E2))
  /\ UNCHANGED init0

\* an edit goes to the override when there is one, else to the file on disk (followed by a
\* notification that bumps the revision: the harness re-sets the file_overrides input)
OvrStamp == IF BUG = "OverrideNoInvalidate" THEN ovrAt ELSE rev + 1
StepsOf ==
  UNION {
    {[op |-> e.op, f |-> f, i |-> e.i, nm |-> e.nm,
      E2 |-> IF hasOvr[f]
             THEN [Env EXCEPT !.rev = rev + 1, !.ovr[f] = e.c2, !.ovrAt = OvrStamp]
             ELSE [Env EXCEPT !.rev = rev + 1, !.disk[f] = e.c2, !.ovrAt = rev + 1]]
       : e \in EditsOf(Eff(Env)[f])}
    \cup (IF hasOvr[f]
          THEN {[op |-> "unsetovr", f |-> f, i |-> 0, nm |-> "-",
                 E2 |-> [Env EXCEPT !.rev = rev + 1, !.hasOvr[f] = FALSE, !.ovr[f] = <<>>, !.ovrAt = OvrStamp]]}
          ELSE {[op |-> "setovr", f |-> f, i |-> 0, nm |-> "-",
                 E2 |-> [Env EXCEPT !.rev = rev + 1, !.hasOvr[f] = TRUE, !.ovr[f] = disk[f], !.ovrAt = OvrStamp]]})
    : f \in Files }

EditStep == \E s \in StepsOf : \E q \in QS : Commit(s.E2, s.op, s.f, s.i, s.nm, q)

Query ==
  /\ SEPQ
  /\ \E q \in {"diag", "sierra"} : Commit(Env, "query", 0, 0, "-", q)

Next == EditStep \/ Query

Init ==
  \E c0 \in INITS :
    /\ rev = 1 /\ disk = c0 /\ hasOvr = [f \in Files |-> FALSE] /\ ovr = [f \in Files |-> <<>>] /\ ovrAt = 1
    /\ init0 = c0
    /\ hist = <<>>
    \* the database has answered a full compile request once
    /\ LET E == [rev |-> 1, disk |-> c0, hasOvr |-> [f \in Files |-> FALSE], ovr |-> [f \in Files |-> <<>>], ovrAt |-> 1]
           S == TopSierra(E, [memos |-> <<>>, nodes |-> <<>>]).S
       IN memos = S.memos /\ nodes = S.nodes

Spec == Init /\ [][Next]_vars

-----------------------------------------------------------------------------
(* MemoSound: whatever the algorithm would return now (from the memos it    *)
(* has, for the current inputs) equals recomputation from the inputs.       *)
S0 == [memos |-> memos, nodes |-> nodes]
MemoSound ==
  /\ TopDiag(Env, S0).val = FreshDiag(Eff(Env))
  /\ TopSierra(Env, S0).val = FreshSierra(Eff(Env))
  /\ \A f \in Files : Val(Fetch(Env, S0, K("fc", RootId(f))), K("fc", RootId(f))) = Eff(Env)[f]
  /\ Val(Fetch(Env, S0, K("names", Gid)), K("names", Gid)) = FreshNames(Eff(Env))

\* every memo verified in the current revision has up-to-date dependencies recorded in order:
\* a verified memo never depends on a deleted node
NoDanglingVerified ==
  \A k \in DOMAIN memos : memos[k].vAt = rev =>
     \A j \in DOMAIN memos[k].deps :
        memos[k].deps[j].d \in {"g", "o"} => memos[k].deps[j].n \in DOMAIN nodes

Bounded == Len(hist) < MAXLEN
=============================================================================

---------------------------- MODULE MCSalsaIncr ----------------------------
(* Model-checking / history-generator instance of SalsaIncr. *)
EXTENDS SalsaIncr, Json

A1 == Item("a", 1, 0, FALSE)
A2 == Item("a", 2, 0, FALSE)
B1 == Item("b", 1, 0, FALSE)
B2 == Item("b", 2, 0, FALSE)
B2l == Item("b", 2, 1, FALSE)
A1x == Item("a", 1, 0, TRUE)

\* one-file projects
INITS_1 == { <<<<A1, B2>>>>, <<<<B1, A1, B2l>>>>, <<<<A1, A1>>>> }
INITS_1s == { <<<<A1, B2>>>> }
\* two-file projects (file 1 = lib.cairo with `mod m;`, file 2 = m.cairo)
INITS_2 == { <<<<A1, B2>>, <<A2>>>>, <<<<B1>>, <<A1, B2l>>>> }
INITS_2s == { <<<<A1, B2>>, <<B2l, A1>>>> }
INITS_2x == { <<<<A1, B2>>, <<A2>>>>, <<<<B1>>, <<A1, B2l>>>>, <<<<A1x, B2, A1>>, <<B1, A2>>>> }

Q_none == {"none"}
Q_all == {"none", "diag", "sierra"}

\* one REPLAY line per distinct (view) state: the first history that reached it, with the
\* spec's prediction of the observable after every step
Emit == Len(hist) >= 1 =>
   PrintT(<<"REPLAY", ToJson([k |-> "hist", nfiles |-> NFILES, init |-> init0, ops |-> hist])>>)
\* simulation mode: one line per completed behaviour
EmitFull == Len(hist) = MAXLEN =>
   PrintT(<<"REPLAY", ToJson([k |-> "hist", nfiles |-> NFILES, init |-> init0, ops |-> hist])>>)
=============================================================================

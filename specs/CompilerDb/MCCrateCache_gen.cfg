CONSTANTS
  Cacheable <- MC_Cacheable
  Kinds <- MC_Kinds
  Defs <- MC_Defs
  Fns <- MC_Fns
  Refs <- MC_Refs
  Calls <- MC_Calls
  Variants <- MC_Variants
  Sigmas = {"s1"}
  MaxOps = 7
  BUG = "none"
  BugKind = "none"
  BugKind2 = "none"
INIT Init
NEXT Next
CONSTRAINT GenConstraint
INVARIANT EmitHist
CHECK_DEADLOCK FALSE

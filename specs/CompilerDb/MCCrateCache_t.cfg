CONSTANTS
  Cacheable <- MC_Cacheable
  Kinds <- MC_Kinds
  Defs <- MC_Defs
  Fns <- MC_Fns
  Refs <- MC_Refs
  Calls <- MC_Calls
  Variants <- MC_Variants
  Sigmas = {"s1", "s2"}
  MaxOps = 9
  BUG = "none"
  BugKind = "none"
  BugKind2 = "none"
INIT Init
NEXT Next
VIEW View
INVARIANT TypeOK
INVARIANT CacheTransparent
INVARIANT QueryTransparent
CHECK_DEADLOCK FALSE

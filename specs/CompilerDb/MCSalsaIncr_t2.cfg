CONSTANTS
  NFILES = 2
  MAXITEMS = 3
  MAXLEN = 4
  BUG = "none"
  QS <- Q_none
  SEPQ = TRUE
  INITS <- INITS_2
INIT Init
NEXT Next
VIEW view
CONSTRAINT Bounded
INVARIANT MemoSound
INVARIANT NoDanglingVerified
INVARIANT Emit
CHECK_DEADLOCK FALSE

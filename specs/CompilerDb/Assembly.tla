------------------------------ MODULE Assembly ------------------------------
(***************************************************************************)
(* CompilerDb.Assembly - how a Sierra program is put together, and why the *)
(* result does not depend on the schedule (property C12).                  *)
(*                                                                         *)
(* Shaped like the code:                                                   *)
(*  * salsa intern tables hand out ids in first-come order                 *)
(*    (sierra-generator/src/db.rs: intern_concrete_lib_func,               *)
(*    intern_concrete_type, intern_sierra_function = id of the lowering    *)
(*    FunctionId).  A table is a sequence of long ids; the raw id of a     *)
(*    long id is its position.                                             *)
(*  * function_with_body_sierra(f) is a memoised query; computing it       *)
(*    interns, statement by statement, the callee's function id, the       *)
(*    libfunc and the libfunc's types.  A query that is being computed by  *)
(*    another thread blocks the asker (salsa), so it is computed once.     *)
(*  * compile_prepared_db_program_artifact (entry "artifact") first runs   *)
(*    warmup_functions_blocking when rayon::current_num_threads() > 1:     *)
(*    workers on database clones pull functions from a shared              *)
(*    processed-set, compute their Sierra and push the callees             *)
(*    (compiler/src/lib.rs).  compile_prepared_db (entry "plain") does not.*)
(*  * get_sierra_program_for_functions then runs on the main thread: BFS   *)
(*    from the requested functions through a FIFO queue; statements are    *)
(*    concatenated in that order; libfunc declarations in first-use order; *)
(*    type declarations in first-use order of the libfunc declarations     *)
(*    (ordered sets) - program_generator.rs.                               *)
(*  * Before that, a *prefix* of unrelated queries may have run on the     *)
(*    same database (sequentially, or on clones in parallel): Sierra of    *)
(*    some function, lowering of some function (interns function ids),    *)
(*    diagnostics of a crate (lowers every function of it), module         *)
(*    discovery (no Sierra-level interning).                               *)
(*  * The output is observed after id replacement: debug names             *)
(*    (replace_ids.rs) or canonical renumbering by declaration order       *)
(*    (canonical_id_replacer.rs).                                          *)
(*                                                                         *)
(* Invariant Canonical: the replaced output equals Reference, which is     *)
(* defined from the sources alone.  BUG selects a wrong variant:           *)
(*   "OrderByRawId"      libfunc declarations sorted by raw intern id      *)
(*   "IterateUnordered"  callees pushed in the iteration order of an       *)
(*                       unordered set keyed by raw function id            *)
(*   "OrderByCompletion" functions emitted in memo completion order        *)
(*                                                                         *)
(* The same module generates the *histories* replayed against the real     *)
(* compiler (thread count x prefix x sequential/parallel x entry).         *)
(***************************************************************************)
EXTENDS Naturals, Sequences, FiniteSets, TLC

CONSTANTS
    Funcs,          \* function names
    Body,           \* [Funcs -> Seq(statement)]; [k |-> "call", f |-> g] or [k |-> "lib", l |-> x]
    Requested,      \* Seq(Funcs): find_all_free_function_ids / executables order
    FuncOrder,      \* Seq(Funcs): every function once, in module order (what crate diagnostics walk)
    LibTypes,       \* [libfunc long id -> Seq(type long id)] (priv_libfunc_dependencies)
    Slot,           \* <<f, g>>: the functions the prefix queries lower(i)/sierra(i) refer to
    MaxWorkers,     \* warm-up workers modelled
    ThreadChoices,  \* rayon pool sizes of the histories, e.g. {1, 2, 4, 16}
    PrefixQueries,  \* set of [q |-> "diag"|"lower"|"sierra"|"modules", a |-> 0|1]
    MaxPrefix,
    Modes,          \* subset of {"seq", "par"}
    Entries,        \* subset of {"artifact", "plain"}
    BUG

NONE == "none"
Min(a, b) == IF a < b THEN a ELSE b

(* ---------- sources ---------- *)
CallLib(g) == <<"function_call", g>>                  \* long id of the libfunc function_call<g>
StmtLib(s) == IF s.k = "call" THEN CallLib(s.f) ELSE <<"lib", s.l>>
StmtTypes(s) == IF s.k = "call" THEN <<>> ELSE LibTypes[s.l]
Callees(f) == SelectSeq(Body[f], LAMBDA s : s.k = "call")

(* ---------- sequences as ordered sets ---------- *)
Range(s) == {s[i] : i \in 1..Len(s)}
Has(s, x) == \E i \in 1..Len(s) : s[i] = x
Pos(s, x) == CHOOSE i \in 1..Len(s) : s[i] = x
AddNew(s, x) == IF Has(s, x) THEN s ELSE Append(s, x)
RECURSIVE AddFrom(_, _, _)
AddFrom(s, xs, i) == IF i > Len(xs) THEN s ELSE AddFrom(AddNew(s, xs[i]), xs, i + 1)
AddAll(s, xs) == AddFrom(s, xs, 1)
RECURSIVE Flatten(_)
Flatten(ss) == IF ss = <<>> THEN <<>> ELSE Head(ss) \o Flatten(Tail(ss))
RECURSIVE SortBy(_, _)   \* the elements of set S in increasing order of key[x] (key: a function, injective on S)
SortBy(S, key) ==
    IF S = {} THEN <<>>
    ELSE LET m == CHOOSE x \in S : \A y \in S : key[x] <= key[y]
         IN  <<m>> \o SortBy(S \ {m}, key)

(* ---------- the answer defined from the sources alone ---------- *)
RECURSIVE RefBfs(_, _)
RefBfs(queue, out) ==
    IF queue = <<>> THEN out
    ELSE LET f == Head(queue) IN
         IF Has(out, f) THEN RefBfs(Tail(queue), out)
         ELSE RefBfs(Tail(queue) \o [i \in 1..Len(Callees(f)) |-> Callees(f)[i].f], Append(out, f))

RefFuncs == RefBfs(Requested, <<>>)
StmtsOf(fs) == Flatten([i \in 1..Len(fs) |-> Body[fs[i]]])
LibDeclsOf(stmts) == AddAll(<<>>, [i \in 1..Len(stmts) |-> StmtLib(stmts[i])])
TypeDeclsOf(stmts) == AddAll(<<>>, Flatten([i \in 1..Len(stmts) |-> StmtTypes(stmts[i])]))

Program(fs, libs, types, stmts) ==
    [ named |-> [funcs |-> fs, libs |-> libs, types |-> types,
                 stmts |-> [i \in 1..Len(stmts) |-> StmtLib(stmts[i])]],
      \* canonical ids: position in the declaration lists (canonical_id_replacer.rs)
      canon |-> [nfuncs |-> Len(fs), nlibs |-> Len(libs), ntypes |-> Len(types),
                 stmts |-> [i \in 1..Len(stmts) |-> Pos(libs, StmtLib(stmts[i]))],
                 calls |-> [i \in 1..Len(stmts) |->
                              IF stmts[i].k = "call" /\ Has(fs, stmts[i].f) THEN Pos(fs, stmts[i].f) ELSE 0]] ]

Reference ==
    LET fs == RefFuncs
        st == StmtsOf(fs)
    IN  Program(fs, LibDeclsOf(st), TypeDeclsOf(st), st)

(* ---------- state ---------- *)
VARIABLES
    phase,      \* "setup" | "prefix" | "warm" | "bfs" | "done"
    hist,       \* [threads, mode, entry, prefix]
    nworkers,   \* number of warm-up workers of this run (0 = no warm-up)
    tabs,       \* [fn, lib, ty |-> sequence of long ids]: the intern tables
    memo,       \* [Funcs -> "none" | "busy" | "done"]: function_with_body_sierra
    completed,  \* functions in memo completion order
    agents,     \* [agent -> [job, f, pos]]: what every thread is doing
    todo,       \* prefix queries not yet started
    pending,    \* warm-up: functions pushed and not yet taken by a worker
    claimed,    \* warm-up: processed_function_ids
    queue,      \* BFS queue of the main thread
    outFuncs,   \* functions in assembly order
    out         \* the assembled program after id replacement (when done)

vars == <<phase, hist, nworkers, tabs, memo, completed, agents, todo, pending, claimed, queue, outFuncs, out>>

Main == <<"m", 0>>
Workers == {<<"w", i>> : i \in 1..MaxWorkers}
PrefixThreads == {<<"p", i>> : i \in 1..MaxPrefix}
Agents == {Main} \cup Workers \cup PrefixThreads
Active(w) == w \in Workers /\ w[2] <= nworkers
Idle == [job |-> "idle", f |-> NONE, pos |-> 0]

WorkersFor(n, entry) == IF entry = "plain" \/ n = 1 THEN 0 ELSE Min(n, MaxWorkers)

Init ==
    /\ phase = "setup"
    /\ hist = [threads |-> 1, mode |-> "seq", entry |-> "artifact", prefix |-> <<>>]
    /\ nworkers = 0
    /\ tabs = [fn |-> <<>>, lib |-> <<>>, ty |-> <<>>]
    /\ memo = [f \in Funcs |-> "none"]
    /\ completed = <<>>
    /\ agents = [a \in Agents |-> Idle]
    /\ todo = <<>>
    /\ pending = {}
    /\ claimed = {}
    /\ queue = <<>>
    /\ outFuncs = <<>>
    /\ out = NONE

(* ---------- choosing the history ---------- *)
AddPrefix(q) ==
    /\ phase = "setup"
    /\ Len(hist.prefix) < MaxPrefix
    /\ ~Has(hist.prefix, q)
    /\ hist' = [hist EXCEPT !.prefix = Append(@, q)]
    /\ UNCHANGED <<phase, nworkers, tabs, memo, completed, agents, todo, pending, claimed, queue, outFuncs, out>>

Start(n, mode, entry) ==
    /\ phase = "setup"
    /\ hist' = [hist EXCEPT !.threads = n, !.mode = mode, !.entry = entry]
    /\ nworkers' = WorkersFor(n, entry)
    /\ todo' = hist.prefix
    /\ phase' = "prefix"
    /\ UNCHANGED <<tabs, memo, completed, agents, pending, claimed, queue, outFuncs, out>>

(* ---------- interning ---------- *)
InternStmt(t, s) ==      \* one statement of a function body being generated
    [fn  |-> IF s.k = "call" THEN AddNew(t.fn, s.f) ELSE t.fn,
     lib |-> AddNew(t.lib, StmtLib(s)),
     ty  |-> AddAll(t.ty, StmtTypes(s))]

RawFn(f) == Pos(tabs.fn, f)
RawLib(l) == Pos(tabs.lib, l)

(* ---------- jobs: what a thread does, one statement at a time ---------- *)
\* job "sierra": function_with_body_sierra(f);  job "lower": lowering of f interns the callees'
\* function ids;  job "diag": lowering of every function (in name order) of the main crate.
FuncSeq == FuncOrder

BeginSierra(a, f) ==     \* salsa: claim the query, or find it done; a busy query blocks the asker
    /\ memo[f] = "none"
    /\ memo' = [memo EXCEPT ![f] = "busy"]
    /\ agents' = [agents EXCEPT ![a] = [job |-> "sierra", f |-> f, pos |-> 1]]

StepJob(a) ==
    LET j == agents[a] IN
    /\ j.job \in {"sierra", "lower"}
    /\ j.pos <= Len(Body[j.f])
    /\ LET s == Body[j.f][j.pos] IN
       tabs' = IF j.job = "sierra" THEN InternStmt(tabs, s)
               ELSE [tabs EXCEPT !.fn = IF s.k = "call" THEN AddNew(@, s.f) ELSE @]
    /\ agents' = [agents EXCEPT ![a].pos = @ + 1]

FinishJob(a) ==          \* common part; the caller says what happens next
    LET j == agents[a] IN
    /\ j.job \in {"sierra", "lower"}
    /\ j.pos > Len(Body[j.f])
    /\ memo' = IF j.job = "sierra" THEN [memo EXCEPT ![j.f] = "done"] ELSE memo
    /\ completed' = IF j.job = "sierra" THEN Append(completed, j.f) ELSE completed

(* ---------- prefix of unrelated queries ---------- *)
QueryJob(q) == IF q.q \in {"sierra", "lower"} THEN q.q ELSE "noop"
QueryFn(q) == Slot[q.a + 1]

\* sequential prefix: the main thread takes the next query when it is idle
PrefixSeqTake ==
    /\ phase = "prefix" /\ hist.mode = "seq" /\ todo # <<>> /\ agents[Main].job = "idle"
    /\ LET q == Head(todo) IN
       /\ todo' = Tail(todo)
       /\ CASE QueryJob(q) = "sierra" /\ memo[QueryFn(q)] = "none" ->
                    /\ BeginSierra(Main, QueryFn(q))
                    /\ UNCHANGED tabs
            [] QueryJob(q) = "lower" ->
                    /\ agents' = [agents EXCEPT ![Main] = [job |-> "lower", f |-> QueryFn(q), pos |-> 1]]
                    /\ UNCHANGED <<memo, tabs>>
            [] q.q = "diag" /\ q.a = 0 ->   \* lowers all functions of the main crate: interns callee ids
                    /\ tabs' = [tabs EXCEPT !.fn =
                                 AddAll(@, Flatten([i \in 1..Len(FuncSeq) |->
                                        [k \in 1..Len(Callees(FuncSeq[i])) |-> Callees(FuncSeq[i])[k].f]]))]
                    /\ UNCHANGED <<memo, agents>>
            [] OTHER -> UNCHANGED <<memo, agents, tabs>>
    /\ UNCHANGED <<phase, hist, nworkers, completed, pending, claimed, queue, outFuncs, out>>

\* parallel prefix: every query runs on its own clone/thread; all are started at once
PrefixParSpawn ==
    /\ phase = "prefix" /\ hist.mode = "par" /\ todo # <<>>
    /\ \A i \in 1..MaxPrefix : agents[<<"p", i>>].job = "idle"
    /\ agents' = [a \in Agents |->
                    IF a \in PrefixThreads /\ a[2] <= Len(todo)
                    THEN [job |-> (IF todo[a[2]].q = "diag" /\ todo[a[2]].a = 0 THEN "diagq" ELSE
                                   IF QueryJob(todo[a[2]]) = "noop" THEN "idle" ELSE "want_" \o QueryJob(todo[a[2]])),
                          f |-> QueryFn(todo[a[2]]), pos |-> 1]
                    ELSE agents[a]]
    /\ todo' = <<>>
    /\ UNCHANGED <<phase, hist, nworkers, tabs, memo, completed, pending, claimed, queue, outFuncs, out>>

PrefixParStep(a) ==
    /\ phase = "prefix" /\ a \in PrefixThreads
    /\ LET j == agents[a] IN
       \/ /\ j.job = "want_sierra"
          /\ \/ /\ BeginSierra(a, j.f) /\ UNCHANGED tabs
             \/ /\ memo[j.f] = "done" /\ agents' = [agents EXCEPT ![a] = Idle] /\ UNCHANGED <<memo, tabs>>
          /\ UNCHANGED completed
       \/ /\ j.job = "want_lower"
          /\ agents' = [agents EXCEPT ![a].job = "lower"]
          /\ UNCHANGED <<memo, tabs, completed>>
       \/ /\ j.job = "diagq"     \* lowering of function number pos of the crate
          /\ IF j.pos > Len(FuncSeq) THEN agents' = [agents EXCEPT ![a] = Idle] /\ UNCHANGED tabs
             ELSE /\ tabs' = [tabs EXCEPT !.fn = AddAll(@, [k \in 1..Len(Callees(FuncSeq[j.pos])) |->
                                                              Callees(FuncSeq[j.pos])[k].f])]
                  /\ agents' = [agents EXCEPT ![a].pos = @ + 1]
          /\ UNCHANGED <<memo, completed>>
    /\ UNCHANGED <<phase, hist, nworkers, todo, pending, claimed, queue, outFuncs, out>>

AnyStep(a) ==            \* progress of a running sierra / lower job of any thread
    /\ phase \in {"prefix", "warm", "bfs"}
    /\ \/ /\ StepJob(a) /\ UNCHANGED <<memo, completed, pending>>
       \/ /\ FinishJob(a)
          /\ agents' = [agents EXCEPT ![a] = Idle]
          /\ pending' = IF a \in Workers /\ agents[a].job = "sierra"   \* warm-up recursion into callees
                        THEN pending \cup {Callees(agents[a].f)[i].f : i \in 1..Len(Callees(agents[a].f))}
                        ELSE pending
          /\ UNCHANGED tabs
    /\ UNCHANGED <<phase, hist, nworkers, todo, claimed, queue, outFuncs, out>>

PrefixDone ==
    /\ phase = "prefix" /\ todo = <<>>
    /\ \A a \in Agents : agents[a].job = "idle"
    /\ IF nworkers > 0
       THEN /\ phase' = "warm" /\ pending' = Range(Requested) /\ UNCHANGED queue
       ELSE /\ phase' = "bfs" /\ queue' = Requested /\ UNCHANGED pending
    /\ UNCHANGED <<hist, nworkers, tabs, memo, completed, agents, todo, claimed, outFuncs, out>>

(* ---------- warm-up (warmup_functions_blocking) ---------- *)
WarmTake(w) ==
    /\ phase = "warm" /\ Active(w) /\ agents[w].job = "idle"
    /\ \E f \in pending :
        IF f \in claimed
        THEN /\ pending' = pending \ {f}
             /\ UNCHANGED <<claimed, memo, agents>>
        ELSE /\ claimed' = claimed \cup {f}
             /\ IF memo[f] = "none"
                THEN /\ BeginSierra(w, f)               \* callees are pushed when the job finishes
                     /\ pending' = pending \ {f}
                ELSE /\ UNCHANGED <<memo, agents>>       \* memoised by the prefix: only visit the callees
                     /\ pending' = (pending \ {f}) \cup {Callees(f)[i].f : i \in 1..Len(Callees(f))}
    /\ UNCHANGED <<phase, hist, nworkers, tabs, completed, todo, queue, outFuncs, out>>

WarmDone ==
    /\ phase = "warm" /\ pending \subseteq claimed
    /\ \A a \in Agents : agents[a].job = "idle"
    /\ phase' = "bfs" /\ queue' = Requested /\ pending' = {}
    /\ UNCHANGED <<hist, nworkers, tabs, memo, completed, agents, todo, claimed, outFuncs, out>>

(* ---------- assembly on the main thread (get_sierra_program_for_functions) ---------- *)
CalleeOrder(f) ==
    LET cs == [i \in 1..Len(Callees(f)) |-> Callees(f)[i].f] IN
    IF BUG = "IterateUnordered"
    THEN SortBy(Range(cs), [g \in Range(cs) |-> (RawFn(g) * 5) % 11])   \* hash order of an unordered set of raw ids
    ELSE cs

BfsStep ==
    /\ phase = "bfs" /\ queue # <<>> /\ agents[Main].job = "idle"
    /\ LET f == Head(queue) IN
       IF Has(outFuncs, f)
       THEN /\ queue' = Tail(queue) /\ UNCHANGED <<outFuncs, memo, agents>>
       ELSE IF memo[f] = "done"
            THEN /\ outFuncs' = Append(outFuncs, f)
                 /\ queue' = Tail(queue) \o CalleeOrder(f)
                 /\ UNCHANGED <<memo, agents>>
            ELSE /\ BeginSierra(Main, f)          \* memo miss: compute now, then retry
                 /\ UNCHANGED <<queue, outFuncs>>
    /\ UNCHANGED <<phase, hist, nworkers, tabs, completed, todo, pending, claimed, out>>

Assemble ==
    /\ phase = "bfs" /\ queue = <<>> /\ agents[Main].job = "idle"
    /\ LET fs == IF BUG = "OrderByCompletion"
                 THEN SelectSeq(completed, LAMBDA f : Has(outFuncs, f))
                 ELSE outFuncs
           st == StmtsOf(fs)
           libs0 == LibDeclsOf(st)
           libs == IF BUG = "OrderByRawId" THEN SortBy(Range(libs0), [l \in Range(libs0) |-> RawLib(l)]) ELSE libs0
       IN  out' = Program(fs, libs, TypeDeclsOf(st), st)
    /\ phase' = "done"
    /\ UNCHANGED <<hist, nworkers, tabs, memo, completed, agents, todo, pending, claimed, queue, outFuncs>>

Next ==
    \/ \E q \in PrefixQueries : AddPrefix(q)
    \/ \E n \in ThreadChoices, m \in Modes, e \in Entries : Start(n, m, e)
    \/ PrefixSeqTake \/ PrefixParSpawn \/ PrefixDone
    \/ \E a \in Agents : PrefixParStep(a) \/ AnyStep(a)
    \/ \E w \in Workers : WarmTake(w)
    \/ WarmDone \/ BfsStep \/ Assemble
    \/ (phase = "done" /\ UNCHANGED vars)

Spec == Init /\ [][Next]_vars

(* ---------- properties ---------- *)
TypeOK ==
    /\ phase \in {"setup", "prefix", "warm", "bfs", "done"}
    /\ \A f \in Funcs : memo[f] \in {"none", "busy", "done"}
    /\ nworkers \in 0..MaxWorkers

\* C12: the observable program is a function of the sources alone
Canonical == phase = "done" => out = Reference

\* every function is generated at most once, and the memo is complete for what is assembled
MemoOnce == Len(completed) = Cardinality(Range(completed))

\* (a run that gets stuck before "done" is a deadlock: TLC's deadlock check is on)

\* the view hides the chosen history once it has no influence any more: runs with the same
\* abstract effect are merged
View == <<phase, nworkers, tabs, memo, completed, agents, todo, pending, claimed, queue, outFuncs, out,
          IF phase = "setup" THEN hist ELSE IF phase = "prefix" THEN <<hist.mode>> ELSE <<>> >>
=============================================================================

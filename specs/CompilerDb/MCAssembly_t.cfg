\* exhaustive: 3 warm-up workers, 4 functions, 3 shared libfuncs, prefixes of <= 3 (of 7) queries, all interleavings
CONSTANTS
  Funcs <- MC_Funcs
  Body <- MC_Body
  Requested <- MC_Requested
  FuncOrder <- MC_FuncOrder
  LibTypes <- MC_LibTypes
  Slot <- MC_Slot
  MaxWorkers = 3
  ThreadChoices = {1, 2, 4}
  PrefixQueries <- AllQueries
  MaxPrefix = 3
  Modes = {"seq", "par"}
  Entries = {"artifact", "plain"}
  BUG = "none"
INIT Init
NEXT Next
VIEW View
INVARIANT TypeOK
INVARIANT Canonical
INVARIANT MemoOnce
CHECK_DEADLOCK TRUE

INIT Init
NEXT Next
INVARIANT Agree
INVARIANT Report
CHECK_DEADLOCK FALSE

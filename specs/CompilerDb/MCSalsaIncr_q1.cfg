CONSTANTS
  NFILES = 1
  MAXITEMS = 3
  MAXLEN = 4
  BUG = "none"
  QS <- Q_none
  SEPQ = TRUE
  INITS <- INITS_1
INIT Init
NEXT Next
VIEW view
CONSTRAINT Bounded
INVARIANT MemoSound
INVARIANT NoDanglingVerified
INVARIANT Emit
CHECK_DEADLOCK FALSE

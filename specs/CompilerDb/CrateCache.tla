----------------------------- MODULE CrateCache -----------------------------
(***************************************************************************)
(* CompilerDb.CrateCache - a crate supplied as a pre-generated cache blob  *)
(* instead of being analysed from source (property C20).                   *)
(*                                                                         *)
(* Shaped like the code:                                                   *)
(*  * CrateConfiguration.cache_file (filesystem/src/db.rs) says, per       *)
(*    crate, whether a blob is consulted: mode[c] in {"source","cached"}.  *)
(*  * generate_crate_cache(db, c) (lowering/src/cache/mod.rs) walks every  *)
(*    function with a body of crate c - free functions, impl functions,    *)
(*    trait functions with default bodies, plus the functions *generated*  *)
(*    while lowering them (closures, loop bodies) - and writes, for each,  *)
(*    the cached mirror of its lowering: every reference to a definition   *)
(*    (struct, enum variant, const, extern function, generic impl, impl    *)
(*    alias, associated item, plugin-generated item living in an external  *)
(*    file, ...) is re-encoded as a path-like key in a parallel set of     *)
(*    serialisable types (one variant per definition kind), together with  *)
(*    the metadata (settings hash, compiler version, global flags).        *)
(*  * cached_multi_lowerings / load_cached_crate_functions decode the blob *)
(*    (after validate_metadata) and the lowering of a function of a cached *)
(*    crate is taken from there instead of lower_semantic_function.        *)
(*                                                                         *)
(* Abstractly: the lowering of a function is the set of (definition,       *)
(* payload) pairs it refers to, where the payload depends on the           *)
(* definition's content and on the settings.  Encode maps it to cached     *)
(* entries, one shape per definition kind; Decode maps entries back.       *)
(* Invariant CacheTransparent: what a dependent observes (diagnostics +    *)
(* code, as a function of the lowerings it reaches) equals the observation *)
(* with every crate in source mode, same contents, same settings.          *)
(*                                                                         *)
(* BUG selects a wrong variant of the cache:                               *)
(*   "DropKind"        entries of kind BugKind are not written             *)
(*   "MergeKinds"      kind BugKind is written with the shape of BugKind2  *)
(*   "SkipGenerated"   generated functions (closures/loops) are not saved  *)
(*   "NoMetadataCheck" a blob made under other settings is accepted        *)
(*                                                                         *)
(* The module also generates the cache/edit/query histories replayed       *)
(* against the real compiler.                                              *)
(***************************************************************************)
EXTENDS Naturals, Sequences, FiniteSets, TLC

CONSTANTS
    Cacheable,      \* crates that can be supplied as a blob, dependency order: e.g. <<"core", "lib">>
    Kinds,          \* definition kinds
    Defs,           \* set of definitions [c |-> crate, k |-> kind, n |-> name]
    Fns,            \* functions with bodies of the cacheable crates: [c |-> crate, n |-> name, gen |-> BOOLEAN]
    Refs,           \* [Fns -> SUBSET Defs]: definitions a function's lowering refers to
    Calls,          \* [Fns -> SUBSET Fns]: functions reached from a function (incl. its generated ones)
    Variants,       \* dependent program variants (what Edit cycles through): Seq(SUBSET Fns) = entry functions used
    Sigmas,         \* settings points
    MaxOps,         \* bound on history length
    BUG, BugKind, BugKind2

NONE == "none"
CrateSet == {Cacheable[i] : i \in 1..Len(Cacheable)}

(* ---------- lowering, and its cached mirror ---------- *)
\* what the lowering says about a definition: depends on the definition and, for some kinds, on the settings
Payload(d, sigma) == [d |-> d, s |-> IF d.k \in {"extern_fn", "panic_site"} THEN sigma ELSE NONE]

Lower(f, sigma) == {Payload(d, sigma) : d \in Refs[f]}

\* the cached entry of one reference: a path-like key, shaped by the kind
EncodeRef(p) ==
    LET k0 == p.d.k
        k  == IF BUG = "MergeKinds" /\ k0 = BugKind THEN BugKind2 ELSE k0
    IN  [shape |-> k, crate |-> p.d.c, name |-> p.d.n, s |-> p.s]

Encode(L) == {EncodeRef(p) : p \in {q \in L : ~(BUG = "DropKind" /\ q.d.k = BugKind)}}

\* decoding looks the definition up again by (crate, shape, name); an entry whose shape does not match a
\* definition resolves to a "missing" definition (what a wrong variant does in the real code)
DecodeRef(e) ==
    LET cands == {d \in Defs : d.c = e.crate /\ d.k = e.shape /\ d.n = e.name} IN
    IF cands = {} THEN [d |-> [c |-> e.crate, k |-> "missing", n |-> e.name], s |-> e.s]
    ELSE [d |-> CHOOSE d \in cands : TRUE, s |-> e.s]

Decode(E) == {DecodeRef(e) : e \in E}

(* ---------- state ---------- *)
VARIABLES
    mode,       \* [CrateSet -> {"source", "cached"}]
    blob,       \* [CrateSet -> [sigma, entries: function -> encoded lowering]]; sigma = NONE: no blob yet
    sigma,      \* current settings point
    variant,    \* index of the current dependent variant
    ops,        \* the history so far (sequence of operations)
    lastObs     \* the last observation made by Query ({} before the first one)

vars == <<mode, blob, sigma, variant, ops, lastObs>>

FnsOf(c) == {f \in Fns : f.c = c}
NoBlob == [sigma |-> NONE, entries |-> <<>>]
HasBlob(c) == blob[c].sigma # NONE

\* the lowering the database actually uses for f
Effective(f) ==
    IF mode[f.c] = "cached"
    THEN IF f \in DOMAIN blob[f.c].entries
         THEN Decode(blob[f.c].entries[f])
         ELSE {[d |-> [c |-> f.c, k |-> "panic:function not found in cached lowering", n |-> f.n], s |-> NONE]}
    ELSE Lower(f, sigma)

RECURSIVE Reach(_, _)
Reach(frontier, seen) ==
    IF frontier \subseteq seen THEN seen
    ELSE LET new == frontier \ seen IN Reach(UNION {Calls[f] : f \in new}, seen \cup new)

\* what a dependent observes: for every reached function, the lowering used
Observe(v, eff(_)) == {<<f, eff(f)>> : f \in Reach(Variants[v], {})}

ObsNow(v) == Observe(v, Effective)
ObsAllSource(v) == Observe(v, LAMBDA f : Lower(f, sigma))

Init ==
    /\ mode = [c \in CrateSet |-> "source"]
    /\ blob = [c \in CrateSet |-> NoBlob]
    /\ sigma \in Sigmas
    /\ variant = 1
    /\ ops = <<>>
    /\ lastObs = {}

Record(op) == ops' = Append(ops, op)

\* generate_crate_cache on the current database (the crate itself is analysed from source)
GenerateCache(c) ==
    /\ mode[c] = "source"
    /\ blob' = [blob EXCEPT ![c] =
                  [sigma |-> sigma,
                   entries |-> [f \in {g \in FnsOf(c) : ~(BUG = "SkipGenerated" /\ g.gen)} |-> Encode(Effective(f))]]]
    /\ Record([op |-> "gen", c |-> c])
    /\ UNCHANGED <<mode, sigma, variant, lastObs>>

\* set cache_file; validate_metadata refuses a blob generated under other settings
UseCache(c) ==
    /\ mode[c] = "source" /\ HasBlob(c)
    /\ BUG = "NoMetadataCheck" \/ blob[c].sigma = sigma
    /\ mode' = [mode EXCEPT ![c] = "cached"]
    /\ Record([op |-> "use", c |-> c])
    /\ UNCHANGED <<blob, sigma, variant, lastObs>>

DropCache(c) ==
    /\ mode[c] = "cached"
    /\ mode' = [mode EXCEPT ![c] = "source"]
    /\ Record([op |-> "drop", c |-> c])
    /\ UNCHANGED <<blob, sigma, variant, lastObs>>

\* the dependent is edited: it now uses another set of entry functions of its dependencies
Edit ==
    /\ variant' = (variant % Len(Variants)) + 1
    /\ Record([op |-> "edit"])
    /\ UNCHANGED <<mode, blob, sigma, lastObs>>

\* settings can only change while no crate is cached (otherwise loading panics on the metadata check)
SetSettings(s) ==
    /\ s # sigma
    /\ BUG = "NoMetadataCheck" \/ \A c \in CrateSet : mode[c] = "source"
    /\ sigma' = s
    /\ Record([op |-> "settings", s |-> s])
    /\ UNCHANGED <<mode, blob, variant, lastObs>>

Query ==
    /\ lastObs' = ObsNow(variant)
    /\ Record([op |-> "query"])
    /\ UNCHANGED <<mode, blob, sigma, variant>>

Next ==
    /\ Len(ops) < MaxOps
    /\ \/ \E c \in CrateSet : GenerateCache(c) \/ UseCache(c) \/ DropCache(c)
       \/ Edit \/ Query
       \/ \E s \in Sigmas : SetSettings(s)

Spec == Init /\ [][Next]_vars

(* ---------- properties ---------- *)
TypeOK ==
    /\ \A c \in CrateSet : mode[c] \in {"source", "cached"}
    /\ \A c \in CrateSet : mode[c] = "cached" => HasBlob(c)
    /\ variant \in 1..Len(Variants)

\* C20: every observation equals the all-source observation with the same contents and settings
CacheTransparent == \A v \in 1..Len(Variants) : ObsNow(v) = ObsAllSource(v)

\* the observation actually made by the last Query was the all-source one
QueryTransparent == ops # <<>> /\ ops[Len(ops)].op = "query" => lastObs = ObsAllSource(variant)

\* the history does not influence the future: hide it (and the last observation) from the fingerprint
View == <<mode, blob, sigma, variant, Len(ops)>>
=============================================================================

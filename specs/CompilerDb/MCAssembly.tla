---------------------------- MODULE MCAssembly ----------------------------
(* Model-checking / history-generating instance of Assembly. *)
EXTENDS Assembly, Json

\* A small project: main calls a and b, both call c; three libfuncs shared between the bodies.
C(g) == [k |-> "call", f |-> g]
L(x) == [k |-> "lib", l |-> x]

MC_Funcs == {"main", "a", "b", "c"}
MC_Body == [f \in MC_Funcs |->
    CASE f = "main" -> <<L("L1"), C("a"), C("b"), L("L2")>>
      [] f = "a"    -> <<L("L2"), C("c"), L("L3")>>
      [] f = "b"    -> <<L("L3"), C("c"), L("L1")>>
      [] f = "c"    -> <<L("L1"), L("L3")>>]
MC_Requested == <<"main", "c">>
MC_FuncOrder == <<"main", "a", "b", "c">>
MC_LibTypes == [l \in {"L1", "L2", "L3"} |->
    CASE l = "L1" -> <<"T1">> [] l = "L2" -> <<"T1", "T2">> [] l = "L3" -> <<"T2">>]
MC_Slot == <<"c", "b">>      \* slot 0: the "last" function, slot 1: one in the middle

AllQueries == {[q |-> k, a |-> i] : k \in {"diag", "lower", "sierra"}, i \in {0, 1}} \cup {[q |-> "modules", a |-> 0]}
FewQueries == {[q |-> "sierra", a |-> 0], [q |-> "lower", a |-> 1], [q |-> "diag", a |-> 0], [q |-> "sierra", a |-> 1]}

\* ---- history generator: stop right after the history has been fixed
Fresh == phase = "prefix" /\ todo = hist.prefix /\ \A a \in Agents : agents[a].job = "idle"
GenConstraint == phase = "setup" \/ Fresh
EmitHist == Fresh => PrintT(<<"REPLAY", ToJson([k |-> "hist", threads |-> hist.threads, mode |-> hist.mode,
                                                   entry |-> hist.entry, prefix |-> hist.prefix,
                                                   workers |-> nworkers])>>)
=============================================================================

CONSTANTS
  NFILES = 2
  MAXITEMS = 3
  MAXLEN = 30
  BUG = "none"
  QS <- Q_all
  SEPQ = FALSE
  INITS <- INITS_2x
INIT Init
NEXT Next
CONSTRAINT Bounded
INVARIANT MemoSound
INVARIANT NoDanglingVerified
INVARIANT EmitFull
CHECK_DEADLOCK FALSE

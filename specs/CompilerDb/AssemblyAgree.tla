--------------------------- MODULE AssemblyAgree ---------------------------
(***************************************************************************)
(* Binds Assembly to the real program generator in the V direction: the    *)
(* harness exports, for a real project, the requested functions and the    *)
(* body of every function (as call / libfunc statements) together with     *)
(* what get_sierra_program_for_functions really produced; this module      *)
(* instantiates Assembly with the exported sources and checks that         *)
(* Reference - the order defined from the sources alone - is the real      *)
(* function order and the real libfunc declaration order.                  *)
(* A disagreement is a *model* disagreement (diagnostic), not a C12 alarm. *)
(***************************************************************************)
EXTENDS Naturals, Sequences, FiniteSets, TLC, Json, IOUtils

G == JsonDeserialize(IOEnv.GRAPH)

A_Funcs == DOMAIN G.body
A_Body == [f \in A_Funcs |-> G.body[f]]

VARIABLES step, phase, hist, nworkers, tabs, memo, completed, agents, todo, pending, claimed, queue, outFuncs, out

A == INSTANCE Assembly WITH
        Funcs <- A_Funcs, Body <- A_Body, Requested <- G.requested, FuncOrder <- G.funcs,
        LibTypes <- [l \in {} |-> <<>>], Slot <- <<G.funcs[1], G.funcs[1]>>,
        MaxWorkers <- 0, ThreadChoices <- {1}, PrefixQueries <- {}, MaxPrefix <- 0,
        Modes <- {"seq"}, Entries <- {"plain"}, BUG <- "none"

PredFuncs == A!RefFuncs
PredStmts == A!StmtsOf(PredFuncs)
PredLibNames == A!AddAll(<<>>, [i \in 1..Len(PredStmts) |-> PredStmts[i].l])

\* evaluated on the successor state, i.e. on a TLC worker thread (large stack), not on the main thread
Agree == step = 1 =>
    /\ PredFuncs = G.funcs
    /\ PredLibNames = G.libs
    /\ Len(A!LibDeclsOf(PredStmts)) = Len(G.libs)

Init == A!Init /\ step = 0
Next == step = 0 /\ step' = 1 /\ UNCHANGED <<phase, hist, nworkers, tabs, memo, completed, agents, todo, pending, claimed, queue, outFuncs, out>>
Report == step = 1 => PrintT(<<"AGREE", G.project, Len(PredFuncs), Len(PredLibNames), Agree>>)
=============================================================================

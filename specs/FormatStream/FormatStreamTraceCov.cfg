CONSTANTS
  Cases <- TraceCases
  BUG = "none"
INIT Init
NEXT Next
CHECK_DEADLOCK FALSE

------------------------- MODULE FormatStreamTrace -------------------------
(* V binding of C11: accepts / rejects the element streams recorded by the  *)
(* harness (`fmt_check run`) from the real parser + formatter.  One NDJSON  *)
(* line = one case; every case is an initial state, so one TLC run decides  *)
(* a whole batch; a case whose output stream is reachable prints                *)
(* <<"VERDICT", id, v>>; a case without such a line is rejected (tokens    *)
(* or comments changed).                                                    *)
(*                                                                          *)
(* TLC note: the design spec is INSTANCEd (not EXTENDed with a cfg          *)
(* override `Cases <- ...`) because TLC re-evaluates an overridden constant *)
(* - i.e. re-reads the file - whenever it is referenced under a bound       *)
(* variable; a plain zero-arity definition is evaluated once.  Run with     *)
(* -workers 1 (the state graph is a bundle of long thin chains).            *)
EXTENDS Json, IOUtils, TLC, Naturals, Sequences

TraceCases == TLCEval(ndJsonDeserialize(IOEnv.TRACE))

VARIABLES c, i, j, done

FS == INSTANCE FormatStream WITH Cases <- TraceCases, BUG <- "none"

Init == FS!Init
\* FS!Next, disjunct by disjunct, so that TLC reports coverage per named action
Next == \/ FS!Keep
        \/ FS!DropTrailingComma \/ FS!AddTrailingComma
        \/ FS!DropEmpty \/ FS!DropStmtSemicolon \/ FS!DropTurbofishColonColon
        \/ FS!RewrapSplit \/ FS!RewrapJoin
        \/ FS!PermuteWithinSection \/ FS!MergeUse
        \/ FS!Fin

\* one line per case whose output stream is reachable; `ok` is the full verdict
Accept == done => PrintT(<<"VERDICT", TraceCases[c].id,
                           IF FS!Accepted THEN "ok"
                           ELSE IF ~TraceCases[c].parse_ok THEN "output_unparsable" ELSE "not_idempotent">>)
AcceptSound == FS!AcceptSound
\* cross-check of the walk by a direct computation, once per accepted case
FinalLayoutOnly == done => FS!LayoutOnly
=============================================================================

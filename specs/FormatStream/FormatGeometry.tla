---------------------------- MODULE FormatGeometry ----------------------------
(***************************************************************************)
(* C11 - generator of layout stress cases for the Cairo formatter (R        *)
(* binding).  The formatter's line breaking is a search over break points   *)
(* whose outcome depends on where each element ends relative to             *)
(* max_line_length, on comments between the elements and on the trailing    *)
(* separator.  This module enumerates that geometry abstractly:             *)
(*                                                                          *)
(*   construct x number of elements x width class of every element          *)
(*   x reference line of the width classes (anchor) x comment placement     *)
(*   x trailing separator x input layout x the FormatterConfig lattice      *)
(*                                                                          *)
(* Every state is one case; `Emit` prints it as a REPLAY line.  The harness *)
(* (fmtstream.rs render_geometry) turns it into Cairo source: width class   *)
(* 0 is a short identifier, classes 1..3 size the element so that the line  *)
(* it ends (the flat one-line layout for anchor "flat", the element's own   *)
(* broken line for anchor "list") is max_line_length - 1, exactly           *)
(* max_line_length, max_line_length + 1 columns wide.                       *)
(* The expected behaviour of every case is the property itself (C11):       *)
(* output parses, formatting is idempotent, and the output stream is        *)
(* reachable from the input stream in FormatStream - decided on the         *)
(* recorded trace of the real formatter by FormatStreamTrace.               *)
(***************************************************************************)
EXTENDS Naturals, Sequences, FiniteSets, TLC, Json

CONSTANTS Constructs,   \* subset of AllConstructs
          MaxN,         \* elements per construct: 1..MaxN
          MaxWide,      \* MaxWide[n]: at most this many of n elements have a non-short width class
          Tabs, MLs,    \* tab_size, max_line_length values
          Lays,         \* input layouts: "flat" (one line), "vert" (one element per line)
          CLens         \* comment lengths: "s" short, "l" longer than any line

VARIABLE g

AllConstructs == {"call", "mchain", "tuple", "farray", "slit", "spat", "fnsig", "generic", "genargs",
                  "binary", "match", "uselist", "usetree", "macro", "letelse", "closure", "ifelse",
                  "implhdr", "attr"}
\* constructs whose elements are not separated by commas: no trailing-separator dimension
NoSeparator == {"mchain", "binary", "letelse", "ifelse"}
\* constructs on which the sort / merge / duplicates options act
UseConstructs == {"uselist", "usetree"}

\* values of MaxWide for the quick / thorough configurations (a cfg file cannot hold a tuple)
MaxWideQ == <<1, 2, 2>>
MaxWideT == <<1, 2, 3, 2>>

Classes == 0..3     \* 0 short, 1 at-limit-1, 2 at-limit, 3 at-limit+1

WidthVectors(n) == {w \in [1..n -> Classes] : Cardinality({k \in 1..n : w[k] # 0}) <= MaxWide[n]}

\* reference line of the width classes; irrelevant when every element is short
Anchors(w) == IF \A k \in DOMAIN w : w[k] = 0 THEN {"flat"} ELSE {"flat", "list"}

Commas(con) == IF con \in NoSeparator THEN {FALSE} ELSE BOOLEAN

\* where the comment goes: nowhere; on its own line before element ci; at the end of the line of
\* element ci; on its own line before the closing token; after the trailing separator
Placements(con, n) ==
    {[cpos |-> "none", ci |-> 0, clen |-> "s", comma |-> cm] : cm \in Commas(con)}
    \cup {[cpos |-> p, ci |-> k, clen |-> l, comma |-> cm] :
             p \in {"before", "after"}, k \in 1..n, l \in CLens, cm \in Commas(con)}
    \cup {[cpos |-> "trailing", ci |-> 0, clen |-> l, comma |-> cm] : l \in CLens, cm \in Commas(con)}
    \cup {[cpos |-> "aftercomma", ci |-> 0, clen |-> l, comma |-> TRUE] :
             l \in IF con \in NoSeparator THEN {} ELSE CLens}

\* the options that can influence the construct; the others stay at FALSE
Flags(con) ==
    {[sort |-> s, merge |-> m, dup |-> d, tuple |-> t, farr |-> f, mac |-> c] :
        s \in IF con \in UseConstructs THEN BOOLEAN ELSE {FALSE},
        m \in IF con \in UseConstructs THEN BOOLEAN ELSE {FALSE},
        d \in IF con \in UseConstructs THEN BOOLEAN ELSE {FALSE},
        t \in IF con = "tuple" THEN BOOLEAN ELSE {FALSE},
        f \in IF con = "farray" THEN BOOLEAN ELSE {FALSE},
        c \in IF con = "macro" THEN BOOLEAN ELSE {FALSE}}

Case(con, n, w, an, pl, lay, tab, ml, fl) ==
    [construct |-> con, n |-> n, w |-> w, anchor |-> an,
     cpos |-> pl.cpos, ci |-> pl.ci, clen |-> pl.clen, comma |-> pl.comma, lay |-> lay,
     cfg |-> [tab |-> tab, ml |-> ml, sort |-> fl.sort, merge |-> fl.merge, dup |-> fl.dup,
              tuple |-> fl.tuple, farr |-> fl.farr, mac |-> fl.mac]]

Init == \E con \in Constructs, n \in 1..MaxN :
          \E w \in WidthVectors(n) :
            \E an \in Anchors(w), pl \in Placements(con, n), lay \in Lays, tab \in Tabs, ml \in MLs,
               fl \in Flags(con) :
                 \* duplicates are only an option of merging
                 /\ (fl.dup => fl.merge)
                 /\ g = Case(con, n, w, an, pl, lay, tab, ml, fl)

Next == UNCHANGED g

WellFormed ==
    /\ g.construct \in AllConstructs
    /\ Len(g.w) = g.n /\ g.n \in 1..MaxN
    /\ (g.cpos \in {"before", "after"} <=> g.ci \in 1..g.n)
    /\ (g.cpos = "aftercomma" => g.comma)
    /\ (g.construct \in NoSeparator => ~g.comma)
    /\ (g.cfg.dup => g.cfg.merge)

Emit == PrintT(<<"REPLAY", ToJson(g)>>)
=============================================================================

CONSTANTS
  Constructs <- AllConstructs
  MaxN = 3
  MaxWide <- MaxWideQ
  Tabs = {2, 4}
  MLs = {20, 40, 100}
  Lays = {"flat"}
  CLens = {"s", "l"}
INIT Init
NEXT Next
INVARIANT WellFormed
INVARIANT Emit
CHECK_DEADLOCK FALSE

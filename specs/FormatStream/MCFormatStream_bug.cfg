CONSTANTS
  Cases <- MCCases
  BUG = "any_comma"
INIT Init
NEXT Next
INVARIANT TypeOK
INVARIANT LayoutOnly
INVARIANT AcceptSound
INVARIANT ExpectedVerdict
INVARIANT Emit
PROPERTY Progress
CHECK_DEADLOCK FALSE

---------------------------- MODULE FormatStream ----------------------------
(***************************************************************************)
(* C11 - what the Cairo formatter may change.                              *)
(*                                                                         *)
(* A case is the pair of element streams obtained by parsing the           *)
(* formatter's input and its output (harness: fmtstream.rs).  An element   *)
(* is a code token [k: terminal kind, t: text, p: parent node kind] - with *)
(* position facts `x` for the four kinds that have a dropping rule - or a  *)
(* piece of a comment: "cs" (start of a comment line, t = its prefix       *)
(* //, ///, //!) and "cw" (one word, p = prefix of its line).              *)
(*                                                                         *)
(* The state is a pair of cursors.  The actions are the COMPLETE list of   *)
(* layout-only edits; each guard is the syntactic context in which the     *)
(* real formatter is allowed to make that edit (node_properties.rs         *)
(* should_skip_terminal, formatter_impl.rs comma_if_broken, comment        *)
(* re-wrapping, sort_items_sections, merge_use_items).  A case is accepted *)
(* iff the state (end, end) is reachable (`done`) and the recorded run was *)
(* idempotent and its output parsed (`Accepted`).  Any other dropped,      *)
(* added, changed or reordered element has no action, so no accepting path *)
(* exists.                                                                 *)
(*                                                                         *)
(* Deliberate deviations from the property's literal wording ("only        *)
(* whitespace, optional trailing commas, order/grouping of use/mod"), all  *)
(* pinned by the formatter's golden tests and each a named action:         *)
(* DropEmpty, DropStmtSemicolon, DropTurbofishColonColon, RewrapSplit/     *)
(* RewrapJoin, and the de-duplication / `self` canonicalisation inside     *)
(* MergeUse.                                                               *)
(***************************************************************************)
EXTENDS Naturals, Sequences, FiniteSets

CONSTANTS Cases,  \* sequence of case records (see Appendix A.6 / fmtstream.rs)
          BUG     \* "none", or the name of a deliberately wrong variant (self-test)

VARIABLES c,      \* index of the case being walked
          i,      \* cursor into the input stream  (next element to account for)
          j,      \* cursor into the output stream
          done    \* both streams fully accounted for

vars == <<c, i, j, done>>

In   == Cases[c].in
Out  == Cases[c].out
ISec == Cases[c].isec
OSec == Cases[c].osec
Cfg  == Cases[c].cfg

-----------------------------------------------------------------------------
(* Tables transcribed from node_properties.rs / operators.rs.              *)

\* the 13 separated lists whose trailing separator is optional
ListKinds == {"ExprList", "PatternList", "ArgList", "ParamList", "ImplicitsList", "MemberList",
              "VariantList", "UsePathList", "GenericArgList", "GenericParamList", "MatchArms",
              "StructArgList", "PatternStructParamList"}
\* ... except that a one-element tuple / pattern needs its comma
ExprPatLists == {"ExprList", "PatternList"}

\* statement expressions that end in a block: a `;` after them is redundant
BlockLike == {"ExprBlock", "ExprIf", "ExprMatch", "ExprLoop", "ExprWhile", "ExprFor"}

\* a following statement starting with one of these would continue the expression
PostOps == {"TerminalDot", "TerminalQuestionMark", "TerminalLBrack", "TerminalMul", "TerminalDiv",
            "TerminalMod", "TerminalPlus", "TerminalMinus", "TerminalAnd", "TerminalXor",
            "TerminalOr", "TerminalEqEq", "TerminalNeq", "TerminalLT", "TerminalGT", "TerminalLE",
            "TerminalGE", "TerminalAndAnd", "TerminalOrOr", "TerminalDotDot", "TerminalDotDotEq",
            "TerminalEq", "TerminalPlusEq", "TerminalMinusEq", "TerminalMulEq", "TerminalDivEq",
            "TerminalModEq"}

\* type positions: `T::<A>` and `T<A>` are the same there
TypePos == {"GenericArgNamed", "GenericArgUnnamed", "GenericParamImplAnonymous",
            "GenericParamImplNamed", "ItemImpl", "ReturnTypeClause", "TypeClause"}

-----------------------------------------------------------------------------
(* Element predicates (facts x: anc = kinds of the ancestors, nearest      *)
(* first; pos[n] = <<index among siblings, number of siblings>> of the     *)
(* element (n = 1), of its parent (n = 2); sib = kinds of the parent's     *)
(* children; nxt = kind of the first terminal of the parent's next         *)
(* sibling, "none" when there is no next sibling).                         *)

IsComment(e) == e.k \in {"cs", "cw"}
IsCode(e) == ~IsComment(e)

IsLast(e, n) == Len(e.x.pos) >= n /\ e.x.pos[n][1] = e.x.pos[n][2]

\* a separator that is the last child of one of the 13 lists
LastSeparator(e, minLen) ==
    /\ e.k = "TerminalComma"
    /\ Len(e.x.anc) >= 1
    /\ e.x.anc[1] \in ListKinds
    /\ IsLast(e, 1)
    /\ (e.x.anc[1] \in ExprPatLists => e.x.pos[1][2] > minLen)

\* deliberately wrong variant for the self-test: any separator of such a list
AnySeparator(e) == e.k = "TerminalComma" /\ Len(e.x.anc) >= 1 /\ e.x.anc[1] \in ListKinds

\* should_skip_terminal: ExprList/PatternList only with more than 2 children
DroppableComma(e) == IF BUG = "any_comma" THEN AnySeparator(e) ELSE LastSeparator(e, 2)
\* comma_if_broken: set on the same 13 lists; for ExprList/PatternList only when the list had
\* more than 2 children before the comma was added, i.e. more than 3 with it
AddableComma(e) == LastSeparator(e, 3)

RedundantSemicolon(e) ==
    /\ e.k = "TerminalSemicolon"
    /\ Len(e.x.anc) >= 1
    /\ e.x.anc[1] = "StatementExpr"
    /\ Len(e.x.sib) >= 2
    /\ e.x.sib[2] \in BlockLike
    /\ e.x.nxt # "none"
    /\ e.x.nxt \notin PostOps

TypeTurbofish(e) ==
    /\ e.k = "TerminalColonColon"
    /\ Len(e.x.anc) >= 4
    /\ e.x.anc[1] = "PathSegmentWithGenericArgs"
    /\ IsLast(e, 2)                       \* the segment is the last of its path
    /\ e.x.anc[4] \in TypePos             \* ExprPathInner -> ExprPath -> <type position>

Same(a, b) == a.k = b.k /\ a.t = b.t /\ a.p = b.p

-----------------------------------------------------------------------------
(* Sections of `use` items / body-less `mod` items (sort_items_sections,   *)
(* merge_use_items).  A section record has sk, a..b (element range) and    *)
(* items [a, b (, d, dollar, leaves)].                                     *)

Range(s) == {s[n] : n \in DOMAIN s}
Count(x, s) == Cardinality({n \in DOMAIN s : s[n] = x})
\* canonical value of the bag of a sequence's elements
Bag(s) == {<<x, Count(x, s)>> : x \in Range(s)}

RECURSIVE Flatten(_)
Flatten(ss) == IF ss = <<>> THEN <<>> ELSE Head(ss) \o Flatten(Tail(ss))

Optional(e) ==
    \/ e.k = "TerminalEmpty"
    \/ LastSeparator(e, 2)
    \/ RedundantSemicolon(e)
    \/ TypeTurbofish(e)

\* what must survive of a range of elements: mandatory code tokens and comment words
Sel(S, a, b) == IF b < a THEN <<>> ELSE SubSeq(S, a, b)
Proj(s) == [n \in DOMAIN s |-> <<s[n].k, s[n].t>>]
Essential(s) == Proj(SelectSeq(s, LAMBDA e : e.k # "cs" /\ ~(IsCode(e) /\ Optional(e))))
CodeOnly(s) == Proj(SelectSeq(s, LAMBDA e : IsCode(e) /\ ~Optional(e)))
Words(s) == Proj(SelectSeq(s, LAMBDA e : e.k = "cw"))

\* `a::b::self` is `a::b` (organize_self_imports)
NormLeaf(l) == IF Len(l.path) >= 2 /\ l.path[Len(l.path)] = "self"
               THEN <<SubSeq(l.path, 1, Len(l.path) - 1), l.alias>>
               ELSE <<l.path, l.alias>>

\* a leaf together with the decorations (attributes, visibility) of its item
LeafKeys(S, it) == [n \in DOMAIN it.leaves |->
                       <<CodeOnly(Sel(S, it.a, it.d)), NormLeaf(it.leaves[n]), it.dollar>>]

\* hw: comment words found in front of the section that belong to its first item (see HeaderRun)
UseItemSig(S, it, hw) == <<Bag(LeafKeys(S, it)), hw \o Words(Sel(S, it.a, it.b))>>
ModItemSig(S, it, hw) == hw \o Essential(Sel(S, it.a, it.b))

ItemSigs(S, sec, hw) ==
    [n \in DOMAIN sec.items |->
        LET h == IF n = 1 THEN hw ELSE <<>> IN
        IF sec.sk = "use" THEN UseItemSig(S, sec.items[n], h) ELSE ModItemSig(S, sec.items[n], h)]

\* sort_module_level_items: the items of a section are permuted (and the elements of a `use`
\* list are permuted inside an item); nothing is regrouped
Permuted(s, t, hw) == Bag(ItemSigs(In, s, <<>>)) = Bag(ItemSigs(Out, t, hw))

AllLeaves(S, sec) == Flatten([n \in DOMAIN sec.items |-> LeafKeys(S, sec.items[n])])
ItemWords(S, sec, hw) ==
    SelectSeq([n \in DOMAIN sec.items |->
                  (IF n = 1 THEN hw ELSE <<>>) \o Words(Sel(S, sec.items[n].a, sec.items[n].b))],
              LAMBDA w : w # <<>>)

\* merge_use_items: the same leaves (as a set unless allow_duplicate_uses), regrouped at will;
\* items carrying comments are not merged, so every item's comment words survive as a unit
Merged(s, t, hw) ==
    /\ IF Cfg.dup THEN Bag(AllLeaves(In, s)) = Bag(AllLeaves(Out, t))
                  ELSE Range(AllLeaves(In, s)) = Range(AllLeaves(Out, t))
    /\ Bag(ItemWords(In, s, <<>>)) = Bag(ItemWords(Out, t, hw))

\* cheap pre-filter: the first element of an item
MayStartItem(e) == e.k \in {"cs", "TerminalUse", "TerminalModule", "TerminalHash", "TerminalPub"}

-----------------------------------------------------------------------------
Init == /\ c \in DOMAIN Cases
        /\ i = 1 /\ j = 1 /\ done = FALSE

HasIn  == i <= Len(In)
HasOut == j <= Len(Out)

StepI == i' = i + 1 /\ UNCHANGED <<c, j, done>>
StepJ == j' = j + 1 /\ UNCHANGED <<c, i, done>>

(* The element is carried over unchanged: same kind, same text, same parent node kind. *)
Keep == /\ HasIn /\ HasOut /\ Same(In[i], Out[j])
        /\ i' = i + 1 /\ j' = j + 1 /\ UNCHANGED <<c, done>>

DropTrailingComma == HasIn /\ DroppableComma(In[i]) /\ StepI
AddTrailingComma  == HasOut /\ AddableComma(Out[j]) /\ StepJ
DropEmpty         == HasIn /\ In[i].k = "TerminalEmpty" /\ StepI
DropStmtSemicolon == HasIn /\ RedundantSemicolon(In[i]) /\ StepI
DropTurbofishColonColon == HasIn /\ TypeTurbofish(In[i]) /\ StepI

(* Comment re-wrapping: a line is split (the output starts a new comment line with the same  *)
(* prefix in the middle of an input line) or a continuation is joined.  Words are never       *)
(* touched: they only move by Keep.                                                           *)
RewrapSplit == /\ HasIn /\ HasOut /\ i > 1
               /\ In[i].k = "cw" /\ In[i - 1].k = "cw"
               /\ Out[j].k = "cs" /\ Out[j].t = In[i].p
               /\ StepJ
RewrapJoin  == /\ HasIn /\ HasOut /\ j > 1
               /\ Out[j].k = "cw" /\ Out[j - 1].k = "cw"
               /\ In[i].k = "cs" /\ In[i].t = Out[j].p
               /\ StepI
RewrapComment == RewrapSplit \/ RewrapJoin

\* The parser attributes the comments at the very start of a file to a header item (an empty
\* terminal) and not to the item they precede.  When sorting moves a commented item to the start
\* of the file, its comments are therefore found in front of the output's section: a run of
\* comment elements from j up to the empty terminal at k.
HeaderRun == {k \in j..Len(Out) : Out[k].k = "TerminalEmpty" /\ \A m \in j..(k - 1) : IsComment(Out[m])}

\* <<si, ti, hw>>: a section of the input starts at i and a section of the same kind of the output
\* starts at j (hw empty) or right after a header run starting at j (hw = the words of that run)
SectionPairs ==
    IF HasIn /\ HasOut /\ MayStartItem(In[i])
    THEN {<<st[1], st[2], <<>>>> : st \in {st \in (DOMAIN ISec) \X (DOMAIN OSec) :
                                              /\ ISec[st[1]].a = i /\ OSec[st[2]].a = j
                                              /\ ISec[st[1]].sk = OSec[st[2]].sk}}
         \cup
         (IF IsComment(Out[j])
          THEN {<<st[1], st[2], Words(Sel(Out, j, st[3] - 1))>> :
                   st \in {st \in (DOMAIN ISec) \X (DOMAIN OSec) \X HeaderRun :
                             /\ ISec[st[1]].a = i /\ OSec[st[2]].a = st[3] + 1
                             /\ ISec[st[1]].sk = OSec[st[2]].sk}}
          ELSE {})
    ELSE {}

Jump(st) == /\ i' = ISec[st[1]].b + 1 /\ j' = OSec[st[2]].b + 1
            /\ UNCHANGED <<c, done>>

PermuteWithinSection ==
    /\ Cfg.sort
    /\ \E st \in SectionPairs : Permuted(ISec[st[1]], OSec[st[2]], st[3]) /\ Jump(st)

MergeUse ==
    /\ Cfg.merge
    /\ \E st \in SectionPairs :
          /\ ISec[st[1]].sk = "use"
          /\ Merged(ISec[st[1]], OSec[st[2]], st[3])
          /\ Jump(st)

(* Both streams are exhausted: the output stream is reachable from the input stream. *)
Fin == /\ ~done /\ ~HasIn /\ ~HasOut
       /\ done' = TRUE /\ UNCHANGED <<c, i, j>>

Next == \/ Keep
        \/ DropTrailingComma \/ AddTrailingComma
        \/ DropEmpty \/ DropStmtSemicolon \/ DropTurbofishColonColon
        \/ RewrapComment
        \/ PermuteWithinSection \/ MergeUse
        \/ Fin

Spec == Init /\ [][Next]_vars

-----------------------------------------------------------------------------
(* Properties of the action system itself (checked on MCFormatStream).     *)

TypeOK == /\ c \in DOMAIN Cases
          /\ i \in 1..(Len(In) + 1) /\ j \in 1..(Len(Out) + 1)
          /\ done \in BOOLEAN

\* Every step consumes something: no infinite stuttering, every walk is finite.
Progress == [][i' + j' > i + j \/ (done' /\ ~done)]_vars

\* With sorting and merging off, whatever path led here, the mandatory code tokens and the
\* comment words consumed on both sides are the same sequence: an accepted case has the same
\* code tokens and comments modulo the optional ones.  (This is what `BUG` variants break.)
LayoutOnly == (~Cfg.sort /\ ~Cfg.merge) =>
                  Essential(Sel(In, 1, i - 1)) = Essential(Sel(Out, 1, j - 1))

\* `done` is only ever set with both streams fully accounted for.
AcceptSound == done => ~HasIn /\ ~HasOut

\* The verdict on a case (C11): layout-only change, idempotent, output parses.
LayoutOnlyChange == done
Accepted == done /\ Cases[c].idem /\ Cases[c].parse_ok
=============================================================================

--------------------------- MODULE MCFormatStream ---------------------------
(* Design-level model check of FormatStream on hand-written cases: every    *)
(* named action is exercised in a context where it is allowed and in one    *)
(* where it is not.  Checked: TypeOK, LayoutOnly, AcceptSound, Progress,    *)
(* and (by the driver, from the VERDICT lines) that exactly the cases with  *)
(* exp # "reject" are accepted.  With BUG = "any_comma" (DropTrailingComma  *)
(* without the is-last guard) TLC must find LayoutOnly violated.            *)
EXTENDS FormatStream, TLC

T(k, t, p) == [k |-> k, t |-> t, p |-> p]
Id(t) == T("TerminalIdentifier", t, "PathSegmentSimple")
LP == T("TerminalLParen", "(", "ArgListParenthesized")
RP == T("TerminalRParen", ")", "ArgListParenthesized")
Comma(lk, idx, n) == [k |-> "TerminalComma", t |-> ",", p |-> lk,
                      x |-> [anc |-> <<lk, "Wrapper">>, pos |-> <<<<idx, n>>, <<2, 3>>>>]]
Semi(ek, nxt) == [k |-> "TerminalSemicolon", t |-> ";", p |-> "StatementExpr",
                  x |-> [anc |-> <<"StatementExpr", "StatementList", "ExprBlock">>,
                         pos |-> <<<<3, 3>>, <<1, 2>>, <<2, 3>>>>,
                         sib |-> <<"AttributeList", ek, "TerminalSemicolon">>, nxt |-> nxt]]
CC(last, ctx) == [k |-> "TerminalColonColon", t |-> "::", p |-> "PathSegmentWithGenericArgs",
                  x |-> [anc |-> <<"PathSegmentWithGenericArgs", "ExprPathInner", "ExprPath", ctx, "Y">>,
                         pos |-> <<<<2, 3>>, IF last THEN <<3, 3>> ELSE <<1, 3>>, <<2, 2>>>>]]
Cs(p) == [k |-> "cs", t |-> p, p |-> ""]
Cw(w, p) == [k |-> "cw", t |-> w, p |-> p]
LB == T("TerminalLBrace", "{", "ExprBlock")
RB == T("TerminalRBrace", "}", "ExprBlock")
Empty == [k |-> "TerminalEmpty", t |-> "", p |-> "ItemHeaderDoc",
          x |-> [anc |-> <<"ItemHeaderDoc", "ModuleItemList">>, pos |-> <<<<1, 1>>, <<1, 2>>>>]]

Off == [sort |-> FALSE, merge |-> FALSE, dup |-> FALSE]
C(id, exp, cfg, in, out) == [id |-> id, exp |-> exp, cfg |-> cfg, in |-> in, out |-> out,
                             isec |-> <<>>, osec |-> <<>>, idem |-> TRUE, parse_ok |-> TRUE]

\* `use a::b; use a::c;`-style items: [leaf paths], rendered as tokens  use p1 :: p2 ;
UCC == [k |-> "TerminalColonColon", t |-> "::", p |-> "UsePathSingle",
        x |-> [anc |-> <<"UsePathSingle", "ItemUse", "ModuleItemList">>, pos |-> <<<<2, 3>>, <<5, 6>>, <<1, 2>>>>]]
USemi == [k |-> "TerminalSemicolon", t |-> ";", p |-> "ItemUse",
          x |-> [anc |-> <<"ItemUse", "ModuleItemList">>, pos |-> <<<<6, 6>>, <<1, 2>>>>,
                 sib |-> <<"AttributeList", "VisibilityDefault", "TerminalUse", "OptionTerminalDollarEmpty",
                           "UsePathSingle", "TerminalSemicolon">>, nxt |-> "TerminalUse"]]
UseToks(path) == <<T("TerminalUse", "use", "ItemUse"), Id(path[1]),
                   UCC, Id(path[2]), USemi>>
UseItem(a, path) == [a |-> a, b |-> a + 4, d |-> a - 1, dollar |-> FALSE,
                     leaves |-> <<[path |-> path, alias |-> ""]>>]
\* merged form  use a :: { x , y } ;   (10 tokens)
MergedToks(root, x, y) == <<T("TerminalUse", "use", "ItemUse"), Id(root),
                            UCC, T("TerminalLBrace", "{", "UsePathMulti"), Id(x),
                            Comma("UsePathList", 2, 3), Id(y),
                            T("TerminalRBrace", "}", "UsePathMulti"), USemi>>
MergedItem(a, root, x, y) == [a |-> a, b |-> a + 8, d |-> a - 1, dollar |-> FALSE,
                              leaves |-> <<[path |-> <<root, x>>, alias |-> ""],
                                           [path |-> <<root, y>>, alias |-> ""]>>]
Sec(items) == [sk |-> "use", a |-> items[1].a, b |-> items[Len(items)].b, items |-> items]

TwoUses(p, q) == UseToks(p) \o UseToks(q)
TwoSec(p, q) == <<Sec(<<UseItem(1, p), UseItem(6, q)>>)>>

\* `mod b; // c \n mod a;`  sorted to  `// c \n mod a; mod b;` : at the start of the file the parser gives
\* the comment to a header item (empty terminal) in front of the section
ModToks(name) == <<T("TerminalModule", "mod", "ItemModule"), T("TerminalIdentifier", name, "ItemModule"),
                   [USemi EXCEPT !.p = "ItemModule"]>>
CmtC == <<Cs("//"), Cw("c", "//")>>
ModSec(a, items) == [sk |-> "mod", a |-> a, b |-> items[Len(items)].b, items |-> items]

MCCases == <<
  C("keep", "ok", Off, <<Id("f"), LP, Id("a"), RP>>, <<Id("f"), LP, Id("a"), RP>>),
  C("drop_last_comma", "ok", Off,
    <<LP, Id("a"), Comma("ArgList", 2, 4), Id("b"), Comma("ArgList", 4, 4), RP>>,
    <<LP, Id("a"), Comma("ArgList", 2, 3), Id("b"), RP>>),
  C("drop_inner_comma", "reject", Off,
    <<LP, Id("a"), Comma("ArgList", 2, 3), Id("b"), RP>>,
    <<LP, Id("a"), Id("b"), RP>>),
  C("add_last_comma", "ok", Off,
    <<LP, Id("a"), Comma("ArgList", 2, 3), Id("b"), RP>>,
    <<LP, Id("a"), Comma("ArgList", 2, 4), Id("b"), Comma("ArgList", 4, 4), RP>>),
  C("add_inner_comma", "reject", Off,
    <<LP, Id("a"), RP>>,
    <<LP, Comma("ArgList", 1, 2), Id("a"), RP>>),
  C("one_tuple_comma_dropped", "reject", Off,
    <<LP, Id("a"), Comma("ExprList", 2, 2), RP>>, <<LP, Id("a"), RP>>),
  C("tuple_comma_dropped", "ok", Off,
    <<LP, Id("a"), Comma("ExprList", 2, 4), Id("b"), Comma("ExprList", 4, 4), RP>>,
    <<LP, Id("a"), Comma("ExprList", 2, 3), Id("b"), RP>>),
  C("comma_of_other_list", "reject", Off,
    <<LP, Id("a"), Comma("ModifierList", 2, 2), RP>>, <<LP, Id("a"), RP>>),
  C("semi_after_block", "ok", Off,
    <<LB, RB, Semi("ExprBlock", "TerminalLet"), Id("x")>>, <<LB, RB, Id("x")>>),
  C("semi_before_postop", "reject", Off,
    <<LB, RB, Semi("ExprIf", "TerminalMinus"), Id("x")>>, <<LB, RB, Id("x")>>),
  C("semi_last_stmt", "reject", Off,
    <<LB, RB, Semi("ExprMatch", "none")>>, <<LB, RB>>),
  C("semi_after_call", "reject", Off,
    <<Id("f"), Semi("ExprFunctionCall", "TerminalLet"), Id("x")>>, <<Id("f"), Id("x")>>),
  C("turbofish_type", "ok", Off,
    <<Id("T"), CC(TRUE, "TypeClause"), T("TerminalLT", "<", "GenericArgs")>>,
    <<Id("T"), T("TerminalLT", "<", "GenericArgs")>>),
  C("turbofish_expr", "reject", Off,
    <<Id("T"), CC(TRUE, "ExprFunctionCall"), T("TerminalLT", "<", "GenericArgs")>>,
    <<Id("T"), T("TerminalLT", "<", "GenericArgs")>>),
  C("turbofish_not_last_segment", "reject", Off,
    <<Id("T"), CC(FALSE, "TypeClause"), T("TerminalLT", "<", "GenericArgs")>>,
    <<Id("T"), T("TerminalLT", "<", "GenericArgs")>>),
  C("drop_empty", "ok", Off, <<Cs("//!"), Cw("doc", "//!"), Empty, Id("a")>>,
    <<Cs("//!"), Cw("doc", "//!"), Id("a")>>),
  C("rewrap_split", "ok", Off,
    <<Cs("//"), Cw("a", "//"), Cw("b", "//"), Cw("c", "//"), Id("x")>>,
    <<Cs("//"), Cw("a", "//"), Cs("//"), Cw("b", "//"), Cw("c", "//"), Id("x")>>),
  C("rewrap_join", "ok", Off,
    <<Cs("//"), Cw("a", "//"), Cs("//"), Cw("b", "//"), Id("x")>>,
    <<Cs("//"), Cw("a", "//"), Cw("b", "//"), Id("x")>>),
  C("rewrap_other_prefix", "reject", Off,
    <<Cs("//"), Cw("a", "//"), Cw("b", "//"), Id("x")>>,
    <<Cs("//"), Cw("a", "//"), Cs("///"), Cw("b", "///"), Id("x")>>),
  C("comment_word_lost", "reject", Off,
    <<Cs("//"), Cw("a", "//"), Cw("b", "//"), Id("x")>>,
    <<Cs("//"), Cw("a", "//"), Id("x")>>),
  C("comment_line_lost", "reject", Off,
    <<Id("a"), Comma("ArgList", 2, 2), Cs("//"), Cw("c", "//"), RP>>,
    <<Id("a"), RP>>),
  C("comment_moved_across_token", "reject", Off,
    <<Cs("//"), Cw("c", "//"), Id("a"), Id("b")>>,
    <<Id("a"), Cs("//"), Cw("c", "//"), Id("b")>>),
  C("empty_comment_line_added", "reject", Off,
    <<Cs("//"), Cw("a", "//"), Id("x")>>,
    <<Cs("//"), Cs("//"), Cw("a", "//"), Id("x")>>),
  C("token_text_changed", "reject", Off, <<Id("a"), Id("b")>>, <<Id("a"), Id("c")>>),
  C("token_reordered", "reject", Off, <<Id("a"), Id("b")>>, <<Id("b"), Id("a")>>),
  C("structure_changed", "reject", Off,
    <<T("TerminalMinus", "-", "ExprUnary"), Id("a")>>,
    <<T("TerminalMinus", "-", "ExprBinary"), Id("a")>>),
  C("token_added", "reject", Off, <<Id("a")>>, <<Id("a"), Id("a")>>),
  [C("sorted", "ok", [Off EXCEPT !.sort = TRUE],
     TwoUses(<<"m", "b">>, <<"m", "a">>), TwoUses(<<"m", "a">>, <<"m", "b">>))
     EXCEPT !.isec = TwoSec(<<"m", "b">>, <<"m", "a">>), !.osec = TwoSec(<<"m", "a">>, <<"m", "b">>)],
  [C("sorted_but_sort_off", "reject", Off,
     TwoUses(<<"m", "b">>, <<"m", "a">>), TwoUses(<<"m", "a">>, <<"m", "b">>))
     EXCEPT !.isec = TwoSec(<<"m", "b">>, <<"m", "a">>), !.osec = TwoSec(<<"m", "a">>, <<"m", "b">>)],
  [C("sorted_item_replaced", "reject", [Off EXCEPT !.sort = TRUE],
     TwoUses(<<"m", "b">>, <<"m", "a">>), TwoUses(<<"m", "a">>, <<"m", "c">>))
     EXCEPT !.isec = TwoSec(<<"m", "b">>, <<"m", "a">>), !.osec = TwoSec(<<"m", "a">>, <<"m", "c">>)],
  [C("merged", "ok", [Off EXCEPT !.merge = TRUE],
     TwoUses(<<"m", "a">>, <<"m", "b">>), MergedToks("m", "a", "b"))
     EXCEPT !.isec = TwoSec(<<"m", "a">>, <<"m", "b">>), !.osec = <<Sec(<<MergedItem(1, "m", "a", "b")>>)>>],
  [C("merged_but_merge_off", "reject", [Off EXCEPT !.sort = TRUE],
     TwoUses(<<"m", "a">>, <<"m", "b">>), MergedToks("m", "a", "b"))
     EXCEPT !.isec = TwoSec(<<"m", "a">>, <<"m", "b">>), !.osec = <<Sec(<<MergedItem(1, "m", "a", "b")>>)>>],
  [C("merged_leaf_lost", "reject", [Off EXCEPT !.merge = TRUE],
     TwoUses(<<"m", "a">>, <<"m", "b">>), UseToks(<<"m", "a">>))
     EXCEPT !.isec = TwoSec(<<"m", "a">>, <<"m", "b">>), !.osec = <<Sec(<<UseItem(1, <<"m", "a">>)>>)>>],
  [C("merged_dedup", "ok", [Off EXCEPT !.merge = TRUE],
     TwoUses(<<"m", "a">>, <<"m", "a">>), UseToks(<<"m", "a">>))
     EXCEPT !.isec = TwoSec(<<"m", "a">>, <<"m", "a">>), !.osec = <<Sec(<<UseItem(1, <<"m", "a">>)>>)>>],
  [C("merged_dedup_but_dups_allowed", "reject", [Off EXCEPT !.merge = TRUE, !.dup = TRUE],
     TwoUses(<<"m", "a">>, <<"m", "a">>), UseToks(<<"m", "a">>))
     EXCEPT !.isec = TwoSec(<<"m", "a">>, <<"m", "a">>), !.osec = <<Sec(<<UseItem(1, <<"m", "a">>)>>)>>],
  [C("sorted_comment_becomes_header", "ok", [Off EXCEPT !.sort = TRUE],
     ModToks("b") \o CmtC \o ModToks("a"), CmtC \o <<Empty>> \o ModToks("a") \o ModToks("b"))
     EXCEPT !.isec = <<ModSec(1, <<[a |-> 1, b |-> 3], [a |-> 4, b |-> 8]>>)>>,
            !.osec = <<ModSec(4, <<[a |-> 4, b |-> 6], [a |-> 7, b |-> 9]>>)>>],
  [C("sorted_comment_lost_at_header", "reject", [Off EXCEPT !.sort = TRUE],
     ModToks("b") \o CmtC \o ModToks("a"), <<Cs("//"), Empty>> \o ModToks("a") \o ModToks("b"))
     EXCEPT !.isec = <<ModSec(1, <<[a |-> 1, b |-> 3], [a |-> 4, b |-> 8]>>)>>,
            !.osec = <<ModSec(3, <<[a |-> 3, b |-> 5], [a |-> 6, b |-> 8]>>)>>],
  [C("not_idempotent", "not_idempotent", Off, <<Id("a")>>, <<Id("a")>>) EXCEPT !.idem = FALSE],
  [C("output_unparsable", "output_unparsable", Off, <<Id("a")>>, <<Id("a")>>) EXCEPT !.parse_ok = FALSE]
>>

Verdict == IF Accepted THEN "ok" ELSE IF ~Cases[c].parse_ok THEN "output_unparsable" ELSE "not_idempotent"

\* no false accept; the verdict of an accepted walk is the expected one
ExpectedVerdict == done => Cases[c].exp = Verdict
Emit == done => PrintT(<<"VERDICT", Cases[c].id, Verdict>>)
=============================================================================

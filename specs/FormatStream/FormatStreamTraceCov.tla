------------------------ MODULE FormatStreamTraceCov ------------------------
(* Same acceptor as FormatStreamTrace, but EXTENDing the design spec so     *)
(* that `tlc -coverage 1` attributes states to the named actions (through   *)
(* an INSTANCE they are all reported under one location).  Only for small   *)
(* sample files: with the constant override TLC re-reads the trace file     *)
(* whenever Cases is referenced under a bound variable.                     *)
EXTENDS FormatStream, Json, IOUtils, TLC

TraceCases == TLCEval(ndJsonDeserialize(IOEnv.TRACE))
=============================================================================

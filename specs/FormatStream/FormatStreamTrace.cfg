INIT Init
NEXT Next
INVARIANT Accept
INVARIANT AcceptSound
INVARIANT FinalLayoutOnly
CHECK_DEADLOCK FALSE

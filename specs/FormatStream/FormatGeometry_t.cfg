CONSTANTS
  Constructs <- AllConstructs
  MaxN = 4
  MaxWide <- MaxWideT
  Tabs = {2, 4}
  MLs = {20, 40, 100}
  Lays = {"flat", "vert"}
  CLens = {"s", "l"}
INIT Init
NEXT Next
INVARIANT WellFormed
INVARIANT Emit
CHECK_DEADLOCK FALSE

#!/usr/bin/env python3
"""Generates /verif/MANIFEST.json from the table below (single source of truth)."""
import json
import os

VERIF = os.path.dirname(os.path.dirname(os.path.abspath(__file__)))

ALL = ["C%02d" % i for i in range(1, 21)]

# property -> dict(level, text, note, technique, design_ref, engine)
CHECKS = {
    "C16": dict(
        level="model_checking",
        text="TLC exhaustively checks, on the CairoCpu specification, that executing Decode(Bits(Assemble(i))) equals "
             "the CASM-level Meaning(i) for every instruction shape x offsets x small machine states (incl. aliasing layouts "
             "and unknown cells), and every explored (instruction, pre, post) triple is replayed on the real assembler/encoder "
             "and the real cairo-vm step with immediates instantiated to 2^64/2^128/2^250/P-k. Exhaustive over shapes; "
             "offsets from the extreme set; states small-scope.",
        note="Trusts cairo-vm 3.2.0 as the machine, the blake2s compression function of cairo-vm (operand routing is checked), "
             "QM31 arithmetic only on small naturals; assumes [fp-1] is known (WellFormedFrame).",
        technique="TLA+ spec CairoCpu (Meaning vs Exec.Decode.Bits.Assemble) checked by TLC; all TLC behaviours replayed into assembler+VM",
        design_ref="3.1, 5/C16",
        engine="tlc+cvh",
    ),
}

NOT_YET = "check not built yet in this session (see DESIGN.md section 9 build order); no claim is made"


def main():
    checks = []
    for p in ALL:
        if p not in CHECKS:
            continue
        c = CHECKS[p]
        checks.append({
            "property_id": p,
            "quick_cmd": f"python3 check/run.py {p} --tier quick",
            "thorough_cmd": f"python3 check/run.py {p} --tier thorough",
            "evidence_file": f"/verif/evidence/{p}.json",
            "replay_cmd_template": f"python3 check/run.py {p} --replay {{path}}",
            "engine": c["engine"],
            "level_claimed": {"category": c["level"], "text": c["text"], "design_ref": c["design_ref"]},
            "level_note": c["note"],
            "technique": c["technique"],
        })
    na = [{"property_id": p, "reason": NA.get(p, NOT_YET)} for p in ALL if p not in CHECKS]
    m = {
        "version": 1,
        "setup_cmd": "cd /verif/harness && CARGO_NET_OFFLINE=true cargo build --release --offline",
        "hooks": {
            "guard": "--cfg cairo_verif",
            "enable": "harness/.cargo/config.toml passes rustflags --cfg cairo_verif to every crate of the path-dependency build of /repo",
            "baseline_off_cmd": "cd /repo && cargo test --workspace --no-fail-fast --offline",
            "source_commits": HOOK_COMMITS,
            "add_only": True,
        },
        "engines": [
            {"name": "tlc", "path": "/verif/specs", "serves_properties": sorted(CHECKS),
             "kind_free_text": "TLA+ specifications checked with TLC 1.8.0 (exhaustive, simulation, trace validation)"},
            {"name": "cvh", "path": "/verif/harness", "serves_properties": sorted(CHECKS),
             "kind_free_text": "Rust conformance harness (path dependency on /repo): replays TLC behaviours into the real crates and records traces for TLC"},
        ],
        "checks": checks,
        "not_applicable": na,
        "notes": "Driver: check/run.py <id> --tier quick|thorough [--replay file]. Exit 0/1/2 = held / VIOLATION / tool error. See DESIGN.md.",
    }
    with open(os.path.join(VERIF, "MANIFEST.json"), "w") as f:
        json.dump(m, f, indent=1)
    print("MANIFEST.json written:", len(checks), "checks,", len(na), "not_applicable")


NA = {}
HOOK_COMMITS = []

if __name__ == "__main__":
    main()

#!/usr/bin/env python3
"""Generates /verif/MANIFEST.json from the table below (single source of truth)."""
import json
import os

VERIF = os.path.dirname(os.path.dirname(os.path.abspath(__file__)))

ALL = ["C%02d" % i for i in range(1, 21)]

# property -> dict(level, text, note, technique, design_ref, engine)
CHECKS = {
    "C16": dict(
        level="model_checking",
        text="TLC exhaustively checks, on the CairoCpu specification, that executing Decode(Bits(Assemble(i))) equals "
             "the CASM-level Meaning(i) for every instruction shape x offsets x small machine states (incl. aliasing layouts "
             "and unknown cells), and every explored (instruction, pre, post) triple is replayed on the real assembler/encoder "
             "and the real cairo-vm step with immediates instantiated to 2^64/2^128/2^250/P-k. Exhaustive over shapes; "
             "offsets from the extreme set; states small-scope.",
        note="Trusts cairo-vm 3.2.0 as the machine, the blake2s compression function of cairo-vm (operand routing is checked), "
             "QM31 arithmetic only on small naturals; assumes [fp-1] is known (WellFormedFrame).",
        technique="TLA+ spec CairoCpu (Meaning vs Exec.Decode.Bits.Assemble) checked by TLC; all TLC behaviours replayed into assembler+VM",
        design_ref="3.1, 5/C16",
        engine="tlc+cvh",
    ),
}

_RUN_NOTE = ("Trusts cairo-vm's relocated trace and ExecutionResources, the debug_info/metadata exported from the real compile, "
             "and the harness's derivation of statement instances from trace entries (cross-checked by the StepCount law). "
             "Inputs are in-range scalars; corpus = own programs, examples/, 120 (quick) / all (thorough) libfunc e2e wrappers.")
CHECKS["C17"] = dict(
    level="model_checking",
    text="Every recorded VM run of the corpus (both ap-change solvers) is validated event by event by TLC against the SierraRun "
         "specification: control must follow the Sierra CFG through silent (code-less) statements, every statement instance must begin "
         "at its recorded start offset, every traced pc must lie in a statement range (or be one of the auxiliary `ret`s), and at every "
         "dynamic `return` of a function with a declared ap change k the observed ap - entry_ap must equal k; statically, each statement's "
         "recorded range must equal the size of its instructions.",
    note=_RUN_NOTE,
    technique="TLA+ spec SierraRun; TLC trace validation of real VM traces (statement events derived from relocated_trace + debug_info)",
    design_ref="3.3, 5/C17", engine="tlc+cvh")
CHECKS["C04"] = dict(
    level="model_checking",
    text="Every recorded VM run (linear and LP gas solver) is validated by TLC against SierraRun; at Finish the law GasCovers "
         "(100*steps + 70*rc + 56*rc96 + sum price(b)*uses(b) <= charged + 100, charged = gas given - gas left, or the declared entry cost "
         "for functions without a gas builtin) and StepBound are evaluated on the real counters. On the unchanged tree the inequality is "
         "tight (equality) on most runs, so an under-charge of a single step on an executed path is detected. Design level: GasDesign "
         "(wallet discipline => GasCovers / Bounded / termination on every small CFG) and FeedbackSet (a step-for-step transcription of "
         "calc_feedback_set, the algorithm that decides which functions of a call cycle withdraw gas: TLC checks Covers / Inside / "
         "SelfLoops on every graph with <= 3 nodes and every successor order (12 288 cases; thorough also 4 nodes, 262 144 cases) and "
         "each case is replayed into the real compute_scc / calc_feedback_set, which must return the identical ordered set; a real "
         "result that leaves a cycle uncovered is a violation).",
    note=_RUN_NOTE + " Memory holes and blake2s opcode uses are not priced.",
    technique="TLA+ specs SierraRun (GasCovers/StepBound laws; TLC trace validation of real VM runs with gas ladder), GasDesign (TLC design model) and FeedbackSet (TLC-enumerated graphs replayed into the real call-graph algorithms)",
    design_ref="3.3, 3.4, 5/C04", engine="tlc+cvh")
CHECKS["C02"] = dict(
    level="model_checking",
    text="Every run of every accepted program (corpus plus the single-point Sierra mutants that ProgramRegistry+metadata+compile still "
         "accept) on boundary/random in-range inputs and a gas ladder must be accepted by the SierraRun trace specification: it ends in "
         "Finish(ok|panic) - never a VM error - with control following the Sierra CFG and steps bounded by the gas given.",
    note=_RUN_NOTE + " Programs using libfuncs outside audited.json are run but a VM failure there is only a diagnostic.",
    technique="TLA+ spec SierraRun (Completes/FlowOK/StepBound); TLC trace validation of real VM runs incl. accepted Sierra mutants",
    design_ref="3.3, 5/C02", engine="tlc+cvh")
CHECKS["C15"] = dict(
    level="model_checking",
    text="Every program the real compiler accepts - the corpus and every single-point Sierra mutant (statement delete/dup/swap, "
         "variable/libfunc/type/branch-target/entry-point edits, signature edits) that ProgramRegistry+metadata+compile still accept - "
         "is replayed by TLC through the SierraAnnot specification's own typing and linearity pass (argument types = declared types, "
         "each variable taken exactly once, nothing live at return, return types, merge agreement, branch_align targets, dup/drop only "
         "for types an independent table allows). Alarm: compile = Ok and the spec rejects. Compiler-rejected mutants are also passed "
         "through the spec to show every rule fires.",
    note="Declared libfunc signatures/type declarations come from the real ProgramRegistry; environment (ap tracking, frame state, gas) "
         "is outside this property; statements no flow reaches are skipped.",
    technique="TLA+ spec SierraAnnot (compile loop as a state machine with its own typing/linearity rules) run by TLC over exported real programs and accepted mutants",
    design_ref="3.2, 5/C15", engine="tlc+cvh")
CHECKS["C14"] = dict(
    level="exploration",
    text="Bounded exploration of the untrusted-input space: single- and double-point mutants (21 operators: statement delete/dup/swap, "
         "variable/libfunc/type/branch/entry-point/signature/declaration edits) of every corpus Sierra program, felt-level mutants of "
         "every serialized contract class in the repository and random felt vectors are pushed through ProgramRegistryInfo::new, "
         "calc_metadata (linear; LP on programs <= 250 statements), compile, extract_sierra_program and CasmContractClass::from_contract_class "
         "under catch_unwind; the stage logs are validated by TLC against the SierraPipeline protocol specification (which has no action for a "
         "panic or an unfinished stage). Findings are keyed by (stage, file, message). Crash detection is the harness's, hence level exploration.",
    note="Panics are observed with catch_unwind + panic hook (file:line); aborts/hangs through the process exit status/time budget; "
         "allocation bounded by a 24 GB address-space limit. Three known findings (LP gas solver only) are listed in known_findings.json "
         "and replayed deterministically from corpus/findings/C14.",
    technique="mutation-plan exploration of untrusted Sierra / felt vectors; TLA+ stage-protocol spec SierraPipeline as trace acceptor (TLC)",
    design_ref="3.12, 5/C14", engine="tlc+cvh")
_SEM_NOTE = ("The reference semantics (specs/CairoSem) is my transcription of the language documentation and corelib behaviour for the modelled "
             "subset (checked ints with corelib panic data, control flow, tuples/structs/Option, arrays, Felt252Dict, conversions, derived "
             "PartialEq/Serde length); integers beyond a 2^30 window and fuel exhaustion are out of model and never compared. Programs come "
             "from a seeded typed generator (check/semgen.py); compiler passes are bound end-to-end only.")
CHECKS["C01"] = dict(
    level="model_checking",
    text="TLC interprets every generated (program, argument vector) case with the CairoSem reference semantics (TypePreservation checked on "
         "every result) and emits the expected value or panic data; the real pipeline compiles the same programs (default configuration) and "
         "runs them on the VM; every in-model case must yield exactly the reference value / panic data.",
    note=_SEM_NOTE,
    technique="TLA+ definitional interpreter CairoSem run by TLC as reference oracle; its results replayed against real compile+VM runs",
    design_ref="3.5, 5/C01", engine="tlc+cvh")
CHECKS["C05"] = dict(
    level="model_checking",
    text="The generated programs (reference result from CairoSem via TLC) and the scalar functions of the corpus are compiled and run under "
         "every configuration point (quick: 8 points covering Optimizations::Disabled, inlining Default/Avoid/InlineSmallFunctions(0,50,10^6), "
         "skip_const_folding, numeric-match threshold 0/2/100, LP solver; thorough: the 58-point lattice): all configurations must agree with "
         "the reference and with each other on values and panic data.",
    note=_SEM_NOTE + " Gas/steps ignored; Out-of-gas runs re-run with 100x gas, else excluded..",
    technique="TLA+ reference semantics CairoSem (TLC) as configuration-free oracle; replay under the configuration lattice + cross-configuration comparison",
    design_ref="3.5, 4, 5/C05", engine="tlc+cvh")
CHECKS["C08"] = dict(
    level="model_checking",
    text="(a) every generated well-typed program is compiled under the optimisation lattice: no error diagnostics must imply that Sierra "
         "generation, ProgramRegistry validation, metadata and CASM compilation all succeed; (b) TLC enumerates exhaustively all abstract "
         "function bodies up to length 3 (quick) / 4 (thorough) over 15 ownership statement forms (move, snapshot use, conditional move, "
         "move in a loop, early return, ... on a droppable and a non-droppable movable value), decides each with the Ownership specification's "
         "static rule, and every body is rendered to Cairo and compiled: an illegal body must be rejected with an error (the legal ones must "
         "compile - checked as a diagnostic; on the unchanged tree spec and compiler agree on all of them).",
    note=_SEM_NOTE + " (b) covers two variables of struct type and the listed statement forms, not arbitrary programs.",
    technique="TLA+ Ownership rule + exhaustive TLC enumeration of abstract bodies replayed into the real front end; generator-driven compile sweep over configurations",
    design_ref="3.5, 5/C08", engine="tlc+cvh")
CHECKS["C18"] = dict(
    level="model_checking",
    text="TLC enumerates every codec composition of length <= 4 (quick; <= 5 thorough) of the SierraCodec specification (Display, Parse, ToFelts, "
         "FromFelts with/without debug info, JSON, ReplaceIds, Canonicalise, StripDebug with their real preconditions) and checks at design level "
         "that each path preserves the program up to renaming and its CASM; every path is executed with the real crates on every corpus / generated "
         "program (isomorphism by the harness's own bijection checker, Display fix-point, CASM text equality). Every felt stream is additionally "
         "read by an independent grammar of the format (FeltStream, a TLC trace acceptor) and the reconstructed abstract program must equal the one "
         "that was serialised - this sees symmetric encoder/decoder errors a round trip cannot.",
    note="The LALRPOP text grammar and serde_json are exercised, not modelled; structurally ill-formed corpus inputs (deliberately invalid test data) "
         "and programs with ids >= 2^30 are excluded from the felt-stream acceptor; one known finding (closure types in names are not parsable).",
    technique="TLA+ specs SierraCodec (TLC path enumeration, replayed into the real codecs) and FeltStream (TLC trace acceptor over the serialized felt stream)",
    design_ref="3.10, 5/C18", engine="tlc+cvh")
CHECKS["C19"] = dict(
    level="model_checking",
    text="Every compiled class of the corpus and of generated contracts (varied entry-point sets, constructor / l1-handler presence, builtin use) is "
         "exported as an abstract view and TLC evaluates the CasmClass structural predicates on it (entry offsets = function starts at instruction "
         "starts, builtin lists in protocol order, selectors sorted, constructor rules, canonical words, hint offsets at instructions, segment tree "
         "sums, functions start segments); TLC also enumerates the publication routes (JSON once/twice, republish via felts with/without debug info, "
         "drop debug, CASM class through its own JSON) of the ClassRoutes specification and every route is executed: content, compiled class and "
         "class hashes must be identical, also against the never-serialised compiler output, with pythonic hints on/off and bytecode size limits.",
    note="Debug info and the cairo-vm instruction encoding are trusted for function / instruction starts; the hash functions are trusted; "
         "Republish only for current-version classes.",
    technique="TLA+ specs CasmClass (one-state TLC acceptor per class) and ClassRoutes (TLC route enumeration replayed into the real class compiler)",
    design_ref="3.11, 5/C19", engine="tlc+cvh")
CHECKS["C13"] = dict(
    level="model_checking",
    text="SalsaIncr is an explicit TLA+ model of the salsa mechanism the repository relies on (revisions, the file-override input, memos with ordered "
         "dependencies / deep verification / back-dating, tracked syntax nodes whose identity is (parent, kind, key, index) with separately tracked "
         "green / offset fields, deletion of stale nodes, the chain file content -> syntax -> node -> absolute offset -> item semantics -> diagnostics "
         "-> Sierra). TLC checks MemoSound for every edit/query history <= 4 (1 file) / <= 3-4 (2 files) and on random histories of length 30; the "
         "explored histories are concretised on a synthetic crate (several text styles) and on /repo/examples and replayed on one long-lived "
         "RootDatabase: at every query step and at the end diagnostics text (with locations) and Sierra text must equal a fresh database's.",
    note="The fresh instance is assumed deterministic (C12's subject); only function items; no plugin / flag / crate-config changes in histories; "
         "a history costs about one CPU-second, so thorough replays a seeded selection of the ~30k histories <= 4 plus all of length 1.",
    technique="TLA+ spec SalsaIncr (TLC BFS + simulation, BUG variants) as history generator; histories replayed on the real RootDatabase vs fresh databases",
    design_ref="3.9, 5/C13", engine="tlc+cvh")
CHECKS["C06"] = dict(
    level="model_checking",
    text="IntOps defines every primitive operation mathematically (arbitrary precision by limbs). TLC computes the complete operand square for u8 and i8 "
         "(65 536 pairs x 31 / 22 binary ops, all unary ops and conversions on complete 8/16-bit domains) and every cell is executed on the real "
         "compiler + corelib + VM with run-time arguments (value or overflow / underflow / div-by-zero verdict must agree). For u16..u128, i16..i128, "
         "u256, u512 division and felt252 the harness logs {op, T, x, y, outcome} events on boundary cross products, structured edge pairs and seeded "
         "random operands, and the IntOpsTrace acceptor checks each relationally (q*d + r = x, s^2 <= x < (s+1)^2, hi*2^128 + lo = x*y, wrap "
         "congruences); a rejection is only an alarm if an independent big-integer computation agrees.",
    note="Outcome encoding through Into<_, felt252> and corelib panic strings is trusted; iN::MIN % -1 is modelled as failing (corelib's DivRem "
         "route); bounded-int ops, byte_reverse and large-exponent felt252 pow are not covered.",
    technique="TLA+ spec IntOps: TLC-computed exhaustive 8-bit tables replayed on the real VM + TLC trace acceptor for wide operands",
    design_ref="3.5, 5/C06", engine="tlc+cvh")
CHECKS["C07"] = dict(
    level="model_checking",
    text="TLC enumerates every expression of the bounded const grammar of ConstEval (depth <= 2 over arithmetic, comparison, bitwise, boolean, "
         "negation, DivRem, into / try_into, if, && / ||, tuples, Option match, const fn calls incl. recursion and Pow) x boundary operands for 12 "
         "numeric types, evaluates it with IntOps and failure propagation (TypePreservation checked), and each expression is compiled three ways: "
         "as a const item (value or diagnostic kind), as a run-time twin on opaque arguments, and as an inlined-literal twin with const folding on "
         "and off. Alarm = the property itself: const value != run-time value, a const value where run time panics (or vice versa), folding on != off.",
    note="Expressions are rendered by the harness; no struct constructors or bounded-int const ops; depth 3 not built. Disagreements of both sides "
         "with IntOps are C06 matters and only logged.",
    technique="TLA+ spec ConstEval/IntOps: TLC-enumerated expressions with expected outcomes replayed through the const evaluator, the run-time path and the const folder",
    design_ref="3.5, 5/C07", engine="tlc+cvh")
CHECKS["C03"] = dict(
    level="model_checking",
    text="L2 (symbolic): for 14 (quick) / 270 (thorough) libfunc instantiations compiled by the real compiler at check time, the real CASM is turned "
         "into a TLA+ module in AIR form (memory an arbitrary total function, hints absent, range-check cells < 2^128, inputs in range) and Apalache "
         "checks that at every ret the outputs satisfy the mathematical post-condition (IntOpsPost) for every memory, i.e. every hint answer; a "
         "counter-example is replayed on the real VM with scripted hint values and only a reproduced wrong result is a violation. L1 (concrete): "
         "TLC enumerates single-occurrence fault plans per recorded hint occurrence (flip, +-1, negation, 0, 2^128-1, 2^128, P-1, random, swap, "
         "q+-1 / r-+d, decomposition of value + P); each plan is injected into the real VM run through a wrapping hint processor and the event log "
         "is validated by TLC (every injection is an enumerated plan; ok => same result): an altered run must fail in the VM or give the identical "
         "content-level result.",
    note="L2 covers loop-free wrappers without calls / data-dependent jumps / builtins other than RangeCheck and Gas; non-linear u256 families are "
         "skipped on time-out (listed as symbolic_skipped); only Sound (not Exact) is checked; L1 is a finite plan set; allocation, syscall and "
         "external hints are excluded; opaque result types are diagnostics; the VM's write-once memory and range-check validation are trusted.",
    technique="Apalache bounded symbolic checking of compiler-generated CASM in AIR form (TLA+), plus TLC-enumerated hint fault plans replayed on cairo-vm with TLC trace validation",
    design_ref="3.6, 5/C03", engine="apalache+tlc+cvh")
CHECKS["C12"] = dict(
    level="model_checking",
    text="Assembly is an explicit TLA+ model of how the Sierra program is assembled: salsa intern tables handing out ids in first-come order, the "
         "memoised per-function Sierra query with blocking, warm-up workers on database clones, a prefix of unrelated queries (sequential or on "
         "parallel clones), BFS assembly with first-use declaration order, id replacement. TLC checks Canonical (the replaced output is a function of "
         "the sources alone) over ALL interleavings of 3 workers x 4 functions x 3 shared libfuncs with prefixes <= 2 (quick) / <= 3 (thorough), "
         "and emits 4 160 histories (threads {1,2,4,16} x {seq,par} x {artifact,plain} x ordered prefixes of <= 3 queries). Sampled (quick: 6 projects "
         "x 40) or all histories are executed on fresh RootDatabases inside rayon pools of the given size; diagnostics, Sierra (debug-name and "
         "canonical ids, text and JSON), CASM, contract classes and CASM classes must be byte-identical across histories of a project.",
    note="Real thread schedules are not controlled (repetitions at 16 threads only sample them); corpus projects and default settings only; a model "
         "agreement check (AssemblyAgree: the spec's Reference order equals the real function / libfunc order) is a diagnostic.",
    technique="TLA+ spec Assembly (TLC exhaustive over interleavings, BUG variants) as history generator; histories replayed on the real compiler under rayon pools",
    design_ref="3.9, 5/C12", engine="tlc+cvh")
CHECKS["C20"] = dict(
    level="model_checking",
    text="CrateCache models per-crate mode (source / cached blob generated under settings s), GenerateCache / UseCache (guarded by the metadata check) "
         "/ DropCache / Edit / SetSettings / Query, with lowering as a set of (definition kind, payload) pairs and Encode shaped by definition kind; "
         "TLC checks CacheTransparent / QueryTransparent exhaustively (<= 7 / <= 9 operations; 4 BUG variants) and emits cache/edit/query histories. "
         "Each history runs on a database A (generate_crate_cache, cache_file for corelib and for a 9-module library crate that exposes many "
         "definition kinds) and every dependent program of the current block (68 single-feature + 15 combined + 100 repository programs in quick) is "
         "compared with a long-lived all-source database B on diagnostics, Sierra (debug-name and canonical ids, JSON) and CASM; a difference is "
         "re-checked on a fresh pair of databases differing only in cache_file.",
    note="The blob is generated by the same binary, plugins and flags; definition kinds are those reachable through the library crate and the "
         "repository programs; differences that do not survive the fresh-pair re-check are incremental-only diagnostics (C13's subject).",
    technique="TLA+ spec CrateCache (TLC exhaustive, BUG variants) as history generator; histories replayed with real crate caches vs an all-source database",
    design_ref="3.9, 5/C20", engine="tlc+cvh")
CHECKS["C10"] = dict(
    level="model_checking",
    text="ParserCursor models the parser's token cursor (unconsumed terminals incl. un-glued pieces, offset / current_width / last_trivia_length, "
         "pending trivia with source positions, emitted terminals) with one action per cursor operation of parser.rs (Start/TakeDoc, Take, "
         "SkipToken/skip_until, SkipTakenNode, Missing, Unglue, Eof) and the invariants Lossless, OffsetLaw, PendingContiguous, SpanLaw, Final; "
         "TLC explores every terminal sequence and every interleaving of cursor actions at small scope (8 BUG variants). LexModel makes TLC "
         "enumerate ALL strings over a 16 / 39 character-class alphabet up to length 4 / 3 (thorough 5 / 4) and token soups in syntactic contexts "
         "(291k inputs quick, 7.7M thorough), plus seeded corpus mutants; each is lexed and parsed as a module file with the real crates and the "
         "tree-level laws of the property are checked on the real tree (leaf text = input, widths, consecutive child spans, get_text = input[span], "
         "root spans the file). The recorded (lexer terminals, tree leaves) pairs are validated hook-free by the ParserCursorTrace acceptor: a "
         "recording is accepted iff some sequence of cursor actions explains it with every invariant holding.",
    note="Module files only (the Expr / StatementList entry points have no EOF terminal by construction); the TLC-validated subset of traces is "
         "stride-thinned and limited to <= 40 terminals; a trace rejected while the tree laws hold is binding drift (diagnostic).",
    technique="TLA+ specs ParserCursor (TLC exhaustive design model) + LexModel (TLC-enumerated input space replayed on the real lexer/parser) + ParserCursorTrace (TLC acceptor of real parses)",
    design_ref="3.7, 5/C10", engine="tlc+cvh")
CHECKS["C11"] = dict(
    level="model_checking",
    text="FormatStream models a source file as the stream of its code tokens (with the syntactic facts that decide which are optional: "
         "trailing comma of a list, empty terminal, statement semicolon, turbofish `::`, use/mod section membership) and comment words, and "
         "formatting as a sequence of named layout-only actions (Keep, Drop/AddTrailingComma, DropEmpty, DropStmtSemicolon, "
         "DropTurbofishColonColon, RewrapSplit/Join of comments, PermuteWithinSection and MergeUse only when the options are on); TLC checks "
         "LayoutOnly on hand-written cases and a BUG variant. R: TLC enumerates FormatGeometry (construct x element count x width classes x "
         "anchor x comment placement x trailing separator x layout x FormatterConfig lattice: 572k cases quick-sampled, 2.4M thorough, all "
         "run); every case is rendered to Cairo and formatted by the real get_formatted_file. V: for geometry cases, every error-free corpus "
         "source (repository .cairo files, formatter test inputs, e2e snippets) and seeded layout mutants of them (re-wrapped, re-indented, "
         "comment-injected, stretched, one-lined) under the config lattice, the harness records the input's and the output's streams from the "
         "real parse trees, whether f(f(t)) = f(t) and whether f(t) parses; FormatStreamTrace (TLC) accepts a case iff the output stream is "
         "reachable from the input stream by the layout-only actions. Alarms: output has parser diagnostics, not idempotent, no accepting "
         "path (token/comment dropped, added, changed, reordered), formatter panic.",
    note="Three formatter defects found this way were repaired in /repo (fix: d88701a, 092efff, b11ba77; their minimal inputs are replayed in "
         "every run without any known entry); the remaining idempotence defects around comments in unusual positions are known findings "
         "(known_findings.json, classes keyed by the difference signature; all but one only for comment-injected mutants).",
    technique="TLA+ specs FormatStream (TLC design model + BUG variant), FormatGeometry (TLC-enumerated input space replayed into the real formatter) and FormatStreamTrace (TLC acceptor of real format runs)",
    design_ref="3.8, 5/C11", engine="tlc+cvh")
CHECKS["C09"] = dict(
    level="model_checking",
    text="The input space of C10 (all strings / token soups enumerated by TLC from LexModel, corpus mutants, nesting probes at depth 200) is pushed "
         "through lexing, parsing, get_formatted_file, parser-diagnostic formatting and - on every mutant, the nesting probes, small corpus files and "
         "a stride of the enumerated inputs - semantic + lowering diagnostics with the corelib and the Starknet plugin suite, under catch_unwind, an "
         "8 MiB stack, a watchdog (hangs confirmed alone at 10x budget) and process supervision; every diagnostic span must lie inside its file; the "
         "cursor traces must end in Eof with DiagInside holding (ParserCursorTrace).",
    note="Crash detection is the harness's, not the model's (the model contributes the bounded-exhaustive input space and the cursor protocol), so "
         "the crash-freedom half is exploration-level assurance; full diagnostics run on a subset; one known finding class (salsa query cycles).",
    technique="TLA+ LexModel input enumeration by TLC replayed into lexer / parser / formatter / diagnostics under crash supervision; ParserCursorTrace acceptance",
    design_ref="3.7, 5/C09", engine="tlc+cvh")

NOT_YET = "check not built yet in this session (see DESIGN.md section 9 build order); no claim is made"


def main():
    checks = []
    for p in ALL:
        if p not in CHECKS:
            continue
        c = CHECKS[p]
        checks.append({
            "property_id": p,
            "quick_cmd": f"python3 check/run.py {p} --tier quick",
            "thorough_cmd": f"python3 check/run.py {p} --tier thorough",
            "evidence_file": f"/verif/evidence/{p}.json",
            "replay_cmd_template": f"python3 check/run.py {p} --replay {{path}}",
            "engine": c["engine"],
            "level_claimed": {"category": c["level"], "text": c["text"], "design_ref": c["design_ref"]},
            "level_note": c["note"] + (" " + EXTRA_NOTES[p] if p in EXTRA_NOTES else ""),
            "technique": c["technique"],
        })
    na = [{"property_id": p, "reason": NA.get(p, NOT_YET)} for p in ALL if p not in CHECKS]
    m = {
        "version": 1,
        "setup_cmd": "cd /verif/harness && CARGO_NET_OFFLINE=true cargo build --release --offline",
        "hooks": {
            "guard": "--cfg cairo_verif",
            "enable": "harness/.cargo/config.toml passes rustflags --cfg cairo_verif to every crate of the path-dependency build of /repo",
            "baseline_off_cmd": "cd /repo && cargo test --workspace --no-fail-fast --offline",
            "source_commits": HOOK_COMMITS,
            "add_only": True,
        },
        "engines": [
            {"name": "tlc", "path": "/verif/specs", "serves_properties": sorted(CHECKS),
             "kind_free_text": "TLA+ specifications checked with TLC 1.8.0 (exhaustive, simulation, trace validation)"},
            {"name": "cvh", "path": "/verif/harness", "serves_properties": sorted(CHECKS),
             "kind_free_text": "Rust conformance harness (path dependency on /repo): replays TLC behaviours into the real crates and records traces for TLC"},
        ],
        "checks": checks,
        "not_applicable": na,
        "notes": "Driver: check/run.py <id> --tier quick|thorough [--replay file]. Exit 0/1/2 = held / VIOLATION / tool error. See DESIGN.md.",
    }
    with open(os.path.join(VERIF, "MANIFEST.json"), "w") as f:
        json.dump(m, f, indent=1)
    print("MANIFEST.json written:", len(checks), "checks,", len(na), "not_applicable")


NA = {}
HOOK_COMMITS = []
# notes added while the checks were strengthened against seeded changes (DESIGN 11.4)
EXTRA_NOTES = {
    "C01": "The modelled subset includes assignment to nested struct members and derived struct equality; 12% of the generated programs are "
           "probe programs whose main returns targeted probes directly (array / span / loop-with-struct-snapshots / permuting rebuild / "
           "non-copyable enum pair / pass triggers).",
    "C05": "The corelib's own test-suite IS run under 2 (quick) / 7 (thorough) configuration points (gas-observing tests excluded); one "
           "configuration point is a known finding (size-estimation ICE).",
    "C12": "Projects include call cycles (cycles: strict; cycles_plain: known finding, the gas feedback set depends on the SCC representative = "
           "smallest intern id); prefix queries intern only the function they ask for, so they really perturb the interning order.",
    "C13": "Abstract items are concretised as functions, as impls of one trait observed by an ambiguous call (order-sensitive), and as "
           "mutually recursive functions (known finding: same SCC-representative defect as C12).",
    "C19": "A fitting class rejected at max_bytecode_size = its exact length is a violation (the property quantifies over size limits); a "
           "limit that is not enforced stays a diagnostic.",
    "C03": "The adversarial layer also gets candidate programs just outside the libfunc specialisation guards (wide div_rem divisors, downcast "
           "ranges over the size limit): skipped when the compiler rejects them, attacked when it accepts them.",
    "C14": "Mutation operators include boundary values for value arguments of type / libfunc declarations (deterministic pass over every "
           "declaration), return-arity edits, and deterministic truncations of class felts at the boundaries of the container format; the "
           "recorded inputs of repaired findings are replayed in every run.",
    "C08": "(b) now has three variable classes (droppable, non-droppable, PanicDestruct-only); (a) includes probe programs with pairs of "
           "identical constructions of non-copyable enums.",
}

if __name__ == "__main__":
    main()

"""C01 - compiled programs compute exactly what the Cairo source means.

Generated well-typed programs of the modelled subset are (a) interpreted by TLC with the CairoSem
reference semantics and (b) compiled with the real pipeline (default configuration) and run on the VM;
every (program, input) whose reference result is in the model must produce exactly that value / panic data."""
import json
import os

from lib import Check, ToolError, build_harness, log
from sem_common import DEFAULT_CFG, generate, norm_real, norm_spec, real_results, reference_results


def compare(chk, prop, progs, expected, reals, cfg_names=None):
    """Compares every real run with the reference; returns stats."""
    byid = {}
    for p in progs:
        for j, a in enumerate(p["args"]):
            byid[f"p{p['pid']}a{j}"] = (p, a)
    stats = {"compared": 0, "oom": 0, "out_of_gas": 0, "value": 0, "panic": 0, "compile_rejected_files": 0, "mismatch": 0}
    for job in reals:
        cfg = job["cfg"]
        if job["diag_errors"] or job["stages"].get("sierra") != "ok" or any(
                not str(job["stages"].get(s, "ok")).startswith("ok") for s in ("registry", "metadata", "casm")):
            stats["compile_rejected_files"] += 1
            log(f"[{prop}] file {job['id']} did not compile: diag_errors={job['diag_errors']} stages={job['stages']} {job['diag'][:300]}")
            continue
        for r in job["results"]:
            p, a = byid[r["rid"]]
            e = expected[r["rid"]]
            sk, sv = norm_spec(e)
            rk, rv = norm_real(r)
            if sk == "oom":
                stats["oom"] += 1
                continue
            if rk == "out_of_gas":
                stats["out_of_gas"] += 1
                continue
            stats["compared"] += 1
            stats["value" if sk == "v" else "panic"] += 1
            if (sk, sv) != (rk, rv):
                stats["mismatch"] += 1
                chk.violation({"kind": "result_mismatch", "program": p["source"][:80], "args": a, "cfg": cfg},
                              {"source": p["source"], "main": p["main"], "args": a, "cfg": cfg, "expected": e, "observed": r, "prog": p["prog"]},
                              f"{p['main']}({a}) under {cfg}: reference {sk} {sv[:6]} but real run gives {rk} {rv[:6]} ({r.get('value', [])[:3]})")
    return stats


def main(tier, replay=None):
    chk = Check("C01", tier)
    build_harness(["sem_run"])
    quick = tier == "quick"
    n = 240 if quick else 10000
    progs, files = generate(n, 12, 3 if quick else 4, "c01")
    res, expected = reference_results(progs, "c01")
    chk.add_tlc(res)
    reals = real_results(files, [DEFAULT_CFG], "c01")
    stats = compare(chk, "C01", progs, expected, reals)
    log(f"[C01] {stats}")
    if stats["compile_rejected_files"] > len(files) // 4:
        raise ToolError("too many generated files rejected by the compiler (generator drift)")
    chk.cov["traces_validated_against_impl"] = stats["compared"]
    for p in progs[:2]:
        chk.sample({"source": p["source"][:600], "args": p["args"][0], "expected": expected[f"p{p['pid']}a0"]})
    chk.assumptions = ["modelled subset only (DESIGN 5/C01); integers beyond the 2^30 window and fuel exhaustion are out of model and not compared",
                       "default compiler configuration (C05 covers the others)"]
    distinct = len({(p["pid"], tuple(a)) for p in progs for a in p["args"]})
    return chk.finish({"programs": len(progs), "cases": distinct, "distinct_nontrivial": stats["compared"],
                       "rule": "distinct (program, argument vector) pairs whose reference result is in the model and that were run",
                       **stats, "exhaustive": False})

#!/usr/bin/env python3
"""check/run.py <Cxx> [--tier quick|thorough] [--replay FILE]"""
import argparse
import importlib
import os
import sys

sys.path.insert(0, os.path.dirname(os.path.abspath(__file__)))
from lib import tool_guard  # noqa: E402


def main():
    ap = argparse.ArgumentParser()
    ap.add_argument("prop")
    ap.add_argument("--tier", default=os.environ.get("VERIF_TIER", "quick"), choices=["quick", "thorough"])
    ap.add_argument("--replay", default=None)
    a = ap.parse_args()
    mod = importlib.import_module(a.prop.lower())
    sys.exit(tool_guard(lambda: mod.main(a.tier, a.replay)))


if __name__ == "__main__":
    main()

"""C06 - primitive integer and felt252 operations are exact on every operand.

R: TLC evaluates IntOps over the full operand square of u8 / i8 (and complete 8/16-bit unary
   domains) and emits the tables; every cell is executed through the real compiler + corelib + VM.
V: generated Cairo functions are run on boundary x random operands of the wide types; every call is
   recorded as an event and accepted / rejected by IntOpsTrace.tla (relational checks on limbs).
Alarm: an outcome that IntOps rejects AND an independent num-bigint computation also contradicts.
"""
import json
import os
import random

from lib import (BIN, SPECS, WORK, Check, ToolError, build_harness, extract_replay, log, read_ndjson, run, seed, sha,
                 tlc, workdir, write_ndjson)

SPEC = os.path.join(SPECS, "IntOps")
STACK = {"JDK_JAVA_OPTIONS": "-Xss512m"}
TRACE_OPTS = "-Dtlc2.tool.queue.IStateQueue=StateDeque"
MAX_REPORTS = 12


def wd():
    return workdir("c06")


def harness(*args, timeout=3600):
    return run([os.path.join(BIN, "intops_run")] + list(args), timeout=timeout)[1]


# ---------------------------------------------------------------------------- trace acceptor

def validate(chk, events_path, tag, nproc=1):
    """Runs IntOpsTrace over the events (split over nproc TLC processes); returns the rejected ids."""
    evs = read_ndjson(events_path)
    if not evs:
        return set(), 0
    nproc = max(1, min(nproc, len(evs) // 2000 or 1))
    chunks = [evs[i::nproc] for i in range(nproc)]
    import concurrent.futures as cf

    def one(ci):
        p = os.path.join(wd(), f"trace_{tag}_{ci}.ndjson")
        write_ndjson(p, chunks[ci])
        res = tlc(SPEC, "IntOpsTrace", "IntOpsTrace.cfg", f"c06_trace_{tag}_{ci}", workers=1, timeout=3000,
                  env=dict(STACK, TRACE=p), java_opts=TRACE_OPTS, heap="6g")
        return ci, p, res

    rejected = set()
    with cf.ThreadPoolExecutor(max_workers=min(nproc, 8)) as ex:
        for ci, p, res in ex.map(one, range(nproc)):
            if res.errors or res.violated:
                raise ToolError(f"IntOpsTrace failed on {p}: {res.errors[:2]} {res.violated} (see {res.out_path})")
            if res.distinct != len(chunks[ci]) + 1:
                raise ToolError(f"IntOpsTrace did not give every event a verdict ({res.distinct} states for "
                                f"{len(chunks[ci])} events, see {res.out_path})")
            chk.add_tlc(res)
            n = extract_replay(res.out_path, p + ".rej", tag="REJECT")
            rejected |= {r["id"] for r in read_ndjson(p + ".rej")} if n else set()
            os.remove(res.out_path)
            os.remove(p)
    return rejected, len(evs)


def gate(chk, events_path, tag, nproc=1, source="wide", want_ids=False):
    """The decision procedure for recorded events: TLC verdict x independent num-bigint verdict."""
    rejected, n = validate(chk, events_path, tag, nproc)
    allp = os.path.join(wd(), "all.json")
    json.dump("all", open(allp, "w"))
    conf = os.path.join(wd(), f"confirm_{tag}.ndjson")
    harness("confirm", events_path, allp, conf)
    big = {r["id"]: r for r in read_ndjson(conf)}
    evs = {e["id"]: e for e in read_ndjson(events_path)}
    spec_bugs, holes, viol = [], [], {}
    for i, e in evs.items():
        if e["out"]["t"] == "error":
            raise ToolError(f"runner error on {e['op']} {e['ty']} {e['args']}: {e['out']['msg']}")
        b = big[i]
        if i in rejected and not b["bigint_agrees_with_impl"]:
            viol.setdefault((e["op"], e["ty"], e["to"]), []).append((e, b))
        elif i in rejected:
            spec_bugs.append((e, b))
        elif not b["bigint_agrees_with_impl"]:
            holes.append((e, b))
    if spec_bugs:
        e, b = spec_bugs[0]
        raise ToolError(f"IntOpsTrace rejects an outcome that num-bigint confirms (spec bug): {e['op']} {e['ty']} "
                        f"{e['to']} {e['args']} -> {json.dumps(e['out'])[:200]}; {len(spec_bugs)} such events")
    if holes:
        e, b = holes[0]
        raise ToolError(f"IntOpsTrace accepts an outcome that num-bigint refutes (spec hole or model bug): {e['op']} "
                        f"{e['ty']} {e['to']} {e['args']} -> {json.dumps(e['out'])[:200]} expected "
                        f"{b['bigint_expected']}; {len(holes)} such events")
    for (op, ty, to), items in sorted(viol.items())[:MAX_REPORTS]:
        items.sort(key=lambda eb: (len("".join(eb[0]["args"])), eb[0]["args"]))
        e, b = items[0]
        key = {"op": op, "ty": ty, "to": to}
        cases = [{"op": op, "ty": ty, "to": to, "args": x["args"], "observed": x["out"],
                  "expected": y["bigint_expected"]} for x, y in items[:10]]
        chk.violation(key, {"cases": cases, "source": source},
                      f"{op} on {ty}{'->' + to if to else ''}({', '.join(e['args'])}) = {fmt_out(e['out'])}, "
                      f"mathematics says {b['bigint_expected']}; {len(items)} operand tuple(s) differ")
    if want_ids:
        return n, len(rejected), rejected
    return n, len(rejected)


def fmt_out(o):
    if o["t"] == "panic":
        return f"panic '{o.get('msg', o.get('c'))}'"
    if o["t"] == "vmerror":
        return "VM failure '" + " ".join(o["msg"].split())[:120] + "'"
    return "(" + ", ".join(str(zint(z)) for z in o["r"]) + ")"


def zint(z):
    v = 0
    for limb in reversed(z["m"]):
        v = (v << 15) + limb
    return -v if z["s"] < 0 else v


# ---------------------------------------------------------------------------- tables (R)

def tables(chk, tier):
    cfg = f"MCIntOps_{tier[0]}.cfg"
    res = tlc(SPEC, "MCIntOps", cfg, f"c06_tables_{tier[0]}", workers=8, timeout=3000, env=STACK, heap="8g")
    log(f"[C06] TLC tables: {res.distinct} states ({res.wall:.0f}s) violated={res.violated} errors={res.errors[:2]}")
    if res.errors:
        raise ToolError(f"TLC error in MCIntOps: {res.errors[:2]} (see {res.out_path})")
    if res.violated:
        raise ToolError(f"IntOps design invariant violated: {res.violated} (see {res.out_path})")
    chk.add_tlc(res)
    rows = os.path.join(wd(), "rows.ndjson")
    n = extract_replay(res.out_path, rows)
    os.remove(res.out_path)
    if n == 0:
        raise ToolError("TLC emitted no table rows")
    out = os.path.join(wd(), "table_result.ndjson")
    harness("table", rows, out, os.path.join(wd(), "scratch"))
    summary, mism = None, []
    for r in read_ndjson(out):
        if "summary" in r:
            summary = r["summary"]
        else:
            mism.append(r)
    if summary is None:
        raise ToolError("intops_run table produced no summary")
    per_fn = summary.pop("per_fn")
    log(f"[C06] table replay: {summary}")
    sample_rows = []
    with open(rows) as f:
        for i, line in enumerate(f):
            if i in (3, 4000, 9000):
                r = json.loads(line)
                sample_rows.append({"op": r["op"], "ty": r["ty"], "to": r["to"], "x0": r["x0"], "v0": r["v0"],
                                    "cells": r["cells"][:6]})
    os.remove(rows)
    if mism:
        # Every mismatching cell is re-examined as a recorded event: IntOpsTrace + num-bigint decide.
        cases = [{"op": m["op"], "ty": m["ty"], "to": m["to"], "args": [str(a) for a in m["args"]]} for m in mism[:1500]]
        log(f"[C06] {len(mism)} table cells differ from the spec's table, e.g. {json.dumps(mism[0])[:300]}")
        cp = os.path.join(wd(), "table_cases.json")
        json.dump(cases, open(cp, "w"))
        ev = os.path.join(wd(), "table_events.ndjson")
        harness("single", cp, ev, os.path.join(wd(), "scratch"))
        n, rej = gate(chk, ev, "tablemis", source="table")
        if rej == 0:
            raise ToolError("table cells differ but IntOpsTrace accepts the same calls: table/trace encodings disagree")
    return summary, len(per_fn), sample_rows


# ---------------------------------------------------------------------------- wide (V)

def wide(chk, tier):
    plan = {"seed": seed()}
    if tier == "quick":
        plan.update(boundary_per_op=40, random_per_op=16, boundary_per_conv=40, random_per_conv=6)
    else:
        plan.update(boundary_per_op=2500, random_per_op=600, boundary_per_conv=200, random_per_conv=300)
    pp = os.path.join(wd(), "plan.json")
    json.dump(plan, open(pp, "w"))
    ev = os.path.join(wd(), "events.ndjson")
    out = harness("wide", pp, ev, os.path.join(wd(), "scratch"))
    s = json.loads(out.strip().splitlines()[-1])["summary"]
    log(f"[C06] wide events recorded: {s}")
    if s["runner_errors"]:
        raise ToolError("runner errors while recording wide events")
    n, rej, rejected_ids = gate(chk, ev, "wide", nproc=8 if tier == "thorough" else 4, want_ids=True)
    log(f"[C06] wide events: {n} validated by IntOpsTrace, {rej} rejected")
    samples = []
    for e in read_ndjson(ev)[:4000:1333]:
        samples.append({"op": e["op"], "ty": e["ty"], "to": e["to"], "args": e["args"], "out": fmt_out(e["out"])})
    selftest(chk, ev, rejected_ids)
    os.remove(ev)
    return s, n, rej, samples, plan


def selftest(chk, events_path, exclude=()):
    """Anti-vacuity: corrupt one recorded field in a sample of events; IntOpsTrace must reject exactly those."""
    rnd = random.Random(seed())
    evs = [e for e in read_ndjson(events_path) if e["id"] not in exclude]
    rnd.shuffle(evs)
    evs = evs[:600]
    bad = set()
    for k, e in enumerate(evs):
        e["id"] = k + 1
        if k % 6:
            continue
        o = e["out"]
        if o["t"] == "ok" and o["r"]:
            j = rnd.randrange(len(o["r"]))
            z = o["r"][j]
            if z["s"] == 0:
                o["r"][j] = {"s": 1, "m": [1]}
            else:
                m = list(z["m"])
                m[0] ^= 1
                while m and m[-1] == 0:
                    m.pop()
                o["r"][j] = {"s": z["s"] if m else 0, "m": m}
        else:
            e["out"] = {"t": "ok", "r": [{"s": 0, "m": []}]}
        bad.add(e["id"])
    p = os.path.join(wd(), "selftest.ndjson")
    write_ndjson(p, evs)
    scratch = Check.__new__(Check)
    scratch.cov = {"states": 0, "transitions": 0}
    rejected, _ = validate(scratch, p, "selftest")
    os.remove(p)
    if rejected != bad:
        raise ToolError(f"self-test: corrupted events {sorted(bad - rejected)[:5]} not rejected / "
                        f"uncorrupted {sorted(rejected - bad)[:5]} rejected")
    log(f"[C06] self-test: {len(bad)} corrupted events rejected, {len(evs) - len(bad)} intact events accepted")


def bug_selfcheck():
    """Anti-vacuity of the design invariant: each named wrong variant of IntOps must violate RowOK."""
    for b in ("floor_div", "wrap_off", "no_min_ovf", "sat_sub"):
        res = tlc(SPEC, "MCIntOps", f"MCIntOps_bug_{b}.cfg", f"c06_bug_{b}", workers=8, timeout=900, env=STACK, heap="4g",
                  extra=["-noGenerateSpecTE"] if False else None)
        if "RowOK" not in res.violated:
            raise ToolError(f"self-check: IntOps with BUG={b} does not violate RowOK (see {res.out_path})")
        os.remove(res.out_path)
    log("[C06] self-check: BUG variants floor_div, wrap_off, no_min_ovf, sat_sub each violate RowOK")


def main(tier, replay=None):
    chk = Check("C06", tier)
    build_harness(["intops_run"])
    if replay:
        obj = json.load(open(replay))["replay"]
        cp = os.path.join(wd(), "replay_cases.json")
        json.dump([{k: c[k] for k in ("op", "ty", "to", "args")} for c in obj["cases"]], open(cp, "w"))
        ev = os.path.join(wd(), "replay_events.ndjson")
        harness("single", cp, ev, os.path.join(wd(), "scratch"))
        n, rej = gate(chk, ev, "replay", source="replay")
        log(f"[C06] replay: {n} calls, {rej} rejected by IntOpsTrace")
        chk.cov["traces_validated_against_impl"] = n
        return chk.finish()
    if tier == "thorough":
        bug_selfcheck()
    tsum, nfn, trows = tables(chk, tier)
    wsum, nev, nrej, wsamples, plan = wide(chk, tier)
    for s in trows[:3] + wsamples[:3]:
        chk.sample(s)
    chk.cov["traces_validated_against_impl"] = tsum["cells"] + nev - nrej
    chk.assumptions = [
        "a field element is displayed as its centred representative; results are read back through source-level "
        "encodings (Option -> (1, v) | (0, 0), bool -> 0 | 1, u256 -> (low, high)) using Into<_, felt252>",
        "panic classes are read from corelib's panic strings (Overflow / Underflow / Division by 0); a direction "
        "is required only where corelib names one (signed add / sub)",
        "`%` follows corelib's documented DivRem route: MIN % -1 fails like MIN / -1",
        "relational checks use harness-computed witnesses (quotients, Bezout-free inverse witnesses); a wrong "
        "witness can only cause rejection",
        "operands reach the code as run-time arguments (entry-code WriteRunParam), so nothing is constant-folded",
    ]
    return chk.finish({
        "exhaustive": True,
        "exhaustive_scope": "u8 and i8: all 65536 operand pairs of every binary operation; all values of 8-bit and "
                            "16-bit unary operations; conversions from 16-bit / felt-window sources on "
                            + ("every block" if tier == "thorough" else "the boundary blocks"),
        "table_cells_replayed": tsum["cells"], "table_rows": tsum["rows"], "table_functions": nfn,
        "table_vm_runs": tsum["vm_runs"], "table_panics_observed": tsum["panics_observed"],
        "wide_events": nev, "wide_rejected": nrej, "wide_functions": wsum["functions"], "wide_panics": wsum["panics"],
        "wide_plan": plan,
        "distinct_nontrivial": tsum["panics_observed"] + wsum["panics"],
        "rule": "every (operation, type, operand tuple) is executed once (table cells enumerated by TLC; wide tuples "
                "de-duplicated per operation); non-trivial = the call ends in an overflow / underflow / "
                "division-by-zero panic",
        "evaluations": tsum["cells"] + nev,
    })

"""C07 - compile-time evaluation agrees with run-time evaluation.

TLC enumerates the const-evaluable expressions of ConstEval.tla (depth <= 2 x boundary operands), evaluates each
with IntOps + failure propagation and emits them; every expression is compiled by the real compiler as
(a) a `const` item (value / diagnostic read from the semantic db), (b) a run-time twin on opaque arguments,
(c) a twin with inlined literals, const folding on and off.
Alarm (the property itself): (a) value != run-time value; (a) value while run time panics; (a) calculation failure
while run time returns; (c) folding on != folding off.  Both agreeing with each other but not with IntOps is a C06
matter: logged only.
"""
import json
import os

from lib import BIN, SPECS, Check, ToolError, build_harness, extract_replay, log, read_ndjson, run, tlc, workdir, write_ndjson

SPEC = os.path.join(SPECS, "IntOps")
STACK = {"JDK_JAVA_OPTIONS": "-Xss512m"}
P = 0x800000000000011000000000000000000000000000000000000000000000001
MAX_REPORTS = 12
SYM = {"add": "+", "sub": "-", "mul": "*", "div": "/", "rem": "%", "and": "&", "or": "|", "xor": "^", "eq": "==",
       "ne": "!=", "lt": "<", "le": "<=", "gt": ">", "ge": ">="}
BITS = {"u8": 8, "u16": 16, "u32": 32, "u64": 64, "u128": 128, "u256": 256, "i8": 8, "i16": 16, "i32": 32, "i64": 64,
        "i128": 128}


def wd():
    return workdir("c07")


def zint(z):
    v = 0
    for limb in reversed(z["m"]):
        v = (v << 15) + limb
    return -v if z["s"] < 0 else v


def centre(v):
    c = v % P
    return c - P if c > (P - 1) // 2 else c


# ------------------------------------------------------------------ stable, width-independent description of a case

def sig(ty):
    return "signed" if ty.startswith("i") else ty if ty in ("felt252", "u256", "bool") else "unsigned"


def lit_class(ty, v):
    if ty == "felt252":
        c = centre(v)
        names = {0: "0", 1: "1", 2: "2", -1: "-1", -2: "-2", (P - 1) // 2: "HALFP", -((P - 1) // 2): "-HALFP"}
        if v == P - 1:
            return "P-1"
        return names.get(c, "2^128" if c == 1 << 128 else "v")
    n = BITS[ty]
    lo, hi = (-(1 << (n - 1)), (1 << (n - 1)) - 1) if ty.startswith("i") else (0, (1 << n) - 1)
    if v == lo and lo < 0:
        return "MIN"
    for d in (0, 1, 2):
        if v == hi - d:
            return "MAX" + ("-%d" % d if d else "")
        if lo < 0 and v == lo + d:
            return "MIN+%d" % d
    if -3 <= v <= 3:
        return str(v)
    if v == 1 << (n // 2):
        return "2^h"
    return "v"


def shape(e):
    """(class string, set of type signatures, root op)"""
    k = e["k"]
    if k == "lit":
        return lit_class(e["ty"], zint(e["v"])), {sig(e["ty"])}, "lit"
    if k == "blit":
        return str(e["v"]).lower(), {"bool"}, "lit"
    if k == "bin":
        (l, tl, ol), (r, tr, orr) = shape(e["l"]), shape(e["r"])
        l = f"({l})" if ol not in ("lit",) else l
        r = f"({r})" if orr not in ("lit",) else r
        return f"{l} {SYM[e['op']]} {r}", tl | tr, e["op"]
    if k in ("land", "lor"):
        (l, tl, _), (r, tr, _) = shape(e["l"]), shape(e["r"])
        return f"({l}) {'&&' if k == 'land' else '||'} ({r})", tl | tr, k
    if k == "un":
        s, t, _ = shape(e["e"])
        return f"{'-' if e['op'] == 'neg' else '!'}({s})", t, e["op"]
    if k == "divrem":
        s, t, _ = shape(e["l"])
        return f"div_rem({s}, {lit_class(e['ty'], zint(e['d']))}).{e['sel']}", t, "divrem"
    if k == "conv":
        s, t, _ = shape(e["e"])
        return f"{e['kind']}<{sig(e['from'])}{BITS.get(e['from'], '')}->{sig(e['to'])}{BITS.get(e['to'], '')}>({s})", t, e["kind"]
    if k == "if":
        parts = [shape(e[x]) for x in ("c", "a", "b")]
        return "if {} {{ {} }} else {{ {} }}".format(*[p[0] for p in parts]), set().union(*[p[1] for p in parts]), "if"
    if k == "tup":
        parts = [shape(x) for x in e["es"]]
        return "(" + ", ".join(p[0] for p in parts) + ")", set().union(*[p[1] for p in parts]), "tuple"
    if k == "fld":
        s, t, _ = shape(e["e"])
        return f"{s}.{e['i']}", t, "member"
    if k == "some":
        s, t, _ = shape(e["e"])
        return f"match Some({s})", t, "enum"
    if k == "call":
        parts = [shape(x) for x in e["args"]]
        return f"{e['f']}(" + ", ".join(p[0] for p in parts) + ")", set().union(*[p[1] for p in parts]), e["f"]
    raise ToolError(f"unknown AST node {k}")


def at_key(kind, at):
    """Key from the failing operator application recorded by ConstEval (evaluated operand values)."""
    ty, op = at["ty"], at["op"]
    x, y = lit_class(ty, zint(at["x"])), lit_class(ty, zint(at["y"]))
    if op in SYM:
        cls = f"{sig(ty)} {x} {SYM[op]} {y}"
    elif op in ("neg", "into", "try_into"):
        cls = f"{sig(ty)} {op}({x})"
    else:
        cls = f"{sig(ty)} {op}({x}, {y})"
    return {"kind": kind, "op": op, "class": cls}


def children(e):
    out = []
    for v in e.values():
        if isinstance(v, dict) and "k" in v:
            out.append(v)
        elif isinstance(v, list):
            out.extend(x for x in v if isinstance(x, dict) and "k" in x)
    return out


def depth(e):
    return 1 + max((depth(c) for c in children(e)), default=-1)


# ------------------------------------------------------------------ decision procedure

def same_outcome(x, y):
    if x["t"] != y["t"]:
        return False
    if x["t"] == "v":
        return x["v"] == y["v"]
    if x["t"] == "panic":
        return x["data"] == y["data"]
    return x == y


def judge(case, r):
    """Returns (violation kind | None, text)."""
    a, b, con, coff = r["a"], r["b"], r["c_on"], r["c_off"]
    # the compiler itself panicked on one rendering (isolated by the harness)
    if con["t"] == "compile_panic" and coff["t"] in ("v", "panic"):
        return "fold_on_ne_off", (f"inlined literals: the compiler panics with const folding on ({con['msg'][:160]}) "
                                  f"while without folding the program gives {brief(coff)}")
    if a["t"] == "compile_panic" and b["t"] == "v":
        return "const_fail_runtime_value", f"const evaluation panics ({a['msg'][:160]}) but run time returns {b['v']}"
    if "compile_panic" in (a["t"], b["t"], con["t"], coff["t"]):
        log(f"[C07] diagnostic: compiler panic outside the property's scope on `{r['src']}`: "
            f"a={a['t']} b={b['t']} c_on={con['t']} c_off={coff['t']}")
        return None, ""
    for name, o in (("b", b), ("c_on", con), ("c_off", coff)):
        if o["t"] == "error":
            raise ToolError(f"runner error in {name} of `{r['src']}`: {o['msg']}")
    if a["t"] == "other":
        raise ToolError(f"unexpected diagnostics on `const C: {r['ty']} = {r['src']}`: {a.get('diag')}")
    if a["t"] == "v":
        if b["t"] == "v" and a["v"] != b["v"]:
            return "const_value_ne_runtime", f"const value {a['v']} but run time returns {b['v']}"
        if b["t"] != "v":
            return "const_value_runtime_panic", f"const value {a['v']} but run time fails: {b.get('msg')}"
    elif a["t"] == "fail" and b["t"] == "v":
        return "const_fail_runtime_value", f"const evaluation reports {a['kind']} but run time returns {b['v']}"
    if not same_outcome(con, coff):
        return "fold_on_ne_off", f"inlined literals: folding on gives {brief(con)}, folding off gives {brief(coff)}"
    return None, ""


def brief(o):
    return o["v"] if o["t"] == "v" else f"{o['t']} {o.get('msg', '')}"


def spec_agrees(case, r):
    exp, b = case["exp"], r["b"]
    if b["t"] == "compile_panic":
        return True
    if exp["t"] == "v":
        return b["t"] == "v" and [str(centre(zint(z))) for z in exp["v"]] == b["v"]
    return b["t"] == "panic"


def evaluate(chk, cases_path, tag):
    out = os.path.join(wd(), f"result_{tag}.ndjson")
    run([os.path.join(BIN, "consteval_run"), cases_path, out, os.path.join(wd(), "scratch"), "200"], timeout=3400)
    cases = {i + 1: c for i, c in enumerate(read_ndjson(cases_path))}
    summary = None
    stats = {"compared": 0, "const_values": 0, "const_failures": 0, "unsupported_in_const": 0, "runtime_panics": 0,
             "spec_disagreements": 0, "fold_pairs": 0}
    viol = []
    spec_dis = []
    for r in read_ndjson(out):
        if "summary" in r:
            summary = r["summary"]
            continue
        if "skipped" in r:
            stats["skipped_batch_panics"] = stats.get("skipped_batch_panics", 0) + 1
            continue
        case = cases[r["id"]]
        stats["compared"] += 1
        stats["fold_pairs"] += 1
        stats["const_values"] += r["a"]["t"] == "v"
        stats["const_failures"] += r["a"]["t"] == "fail"
        stats["unsupported_in_const"] += r["a"]["t"] == "unsupported"
        stats["runtime_panics"] += r["b"]["t"] == "panic"
        kind, text = judge(case, r)
        if kind:
            viol.append((kind, text, case, r))
        elif not spec_agrees(case, r):
            stats["spec_disagreements"] += 1
            spec_dis.append((case, r))
    if summary is None:
        raise ToolError("consteval_run produced no summary")
    if spec_dis:
        c, r = spec_dis[0]
        log(f"[C07] diagnostic (C06 matter, no alarm): {len(spec_dis)} expressions where compile time and run time agree "
            f"with each other but not with IntOps, e.g. `{r['src']}` -> {brief(r['b'])}, IntOps: {c['exp']['t']}")
    report(chk, viol)
    return stats, summary


def report(chk, viol):
    # attribute a violating expression to the smallest violating sub-expression it contains
    viol.sort(key=lambda v: (depth(v[2]["e"]), len(v[3]["src"])))
    groups, bases = {}, []
    for kind, text, case, r in viol:
        base = next((b for b in bases if b[0] == kind and b[1] in r["src"]), None)
        if kind == "const_value_runtime_panic" and case["exp"]["t"] == "fail" and "at" in case["exp"]:
            # the run-time failure happens where the spec's evaluation fails: name that application
            ks = json.dumps(at_key(kind, case["exp"]["at"]), sort_keys=True)
        elif base is None:
            cls, sigs, op = shape(case["e"])
            key = {"kind": kind, "op": op, "class": " ".join(sorted(sigs)) + " " + cls}
            bases.append((kind, r["src"], json.dumps(key, sort_keys=True)))
            ks = bases[-1][2]
        else:
            ks = base[2]
        groups.setdefault(ks, []).append((text, case, r))
    # report round-robin over the violation kinds so that no kind is crowded out by another
    by_kind = {}
    for ks in groups:
        by_kind.setdefault(json.loads(ks)["kind"], []).append(ks)
    order = []
    while any(by_kind.values()):
        for kind in sorted(by_kind):
            if by_kind[kind]:
                order.append(by_kind[kind].pop(0))
    if len(order) > MAX_REPORTS:
        log(f"[C07] {len(order)} violation classes; reporting the first {MAX_REPORTS}")
    for ks in order[:MAX_REPORTS]:
        items = groups[ks]
        text, case, r = items[0]
        chk.violation(json.loads(ks),
                      {"cases": [{"e": c["e"], "ty": c["ty"], "exp": c["exp"], "src": x["src"], "observed":
                                  {k: x[k] for k in ("a", "b", "c_on", "c_off")}} for _, c, x in items[:10]]},
                      f"`const C: {r['ty']} = {r['src']};` - {text}  ({len(items)} expression(s) in this class)")


def main(tier, replay=None):
    chk = Check("C07", tier)
    build_harness(["consteval_run"])
    if replay:
        obj = json.load(open(replay))["replay"]
        p = os.path.join(wd(), "replay_cases.ndjson")
        write_ndjson(p, [{"k": "const", "e": c["e"], "ty": c["ty"], "exp": c["exp"]} for c in obj["cases"]])
        stats, _ = evaluate(chk, p, "replay")
        chk.cov["traces_validated_against_impl"] = stats["compared"]
        log(f"[C07] replay: {stats}")
        return chk.finish()
    res = tlc(SPEC, "ConstEval", f"ConstEval_{tier[0]}.cfg", f"c07_{tier[0]}", workers=8, timeout=3000, env=STACK, heap="8g")
    log(f"[C07] TLC ConstEval: {res.distinct} states ({res.wall:.0f}s) violated={res.violated} errors={res.errors[:2]}")
    if res.errors:
        raise ToolError(f"TLC error in ConstEval: {res.errors[:2]} (see {res.out_path})")
    if res.violated:
        raise ToolError(f"ConstEval design invariant violated: {res.violated} (see {res.out_path})")
    chk.add_tlc(res)
    cases = os.path.join(wd(), "cases.ndjson")
    n = extract_replay(res.out_path, cases)
    os.remove(res.out_path)
    if n == 0:
        raise ToolError("TLC emitted no expressions")
    stats, summary = evaluate(chk, cases, tier[0])
    log(f"[C07] {n} expressions: {stats} harness={summary}")
    allc = read_ndjson(cases)
    for c in allc[:: max(1, len(allc) // 5)][:5]:
        chk.sample({"expr": shape(c["e"])[0], "ty": c["ty"], "exp": c["exp"]["t"]})
    predicted_fail = sum(1 for c in allc if c["exp"]["t"] == "fail")
    os.remove(cases)
    chk.cov["traces_validated_against_impl"] = stats["compared"]
    chk.assumptions = [
        "expressions are rendered to Cairo by the harness (literals `<v>_<ty>`, NonZero literals for div_rem, "
        "tuple destructuring for member access); a rendering error shows as an unexpected diagnostic -> tool error",
        "const values are read with constant_const_value and flattened (struct members in order, enum variant index "
        "first); felt252 cells compared modulo P",
        "UnsupportedConstant on the const item means 'not const-evaluable': (a) is skipped, (b)/(c) still compared",
        "panic data must be identical between folding on and off; const failure kinds are not mapped to panic strings",
    ]
    return chk.finish({
        "exhaustive": True,
        "exhaustive_scope": "every expression of ConstEval's bounded grammar (depth <= 2) x its boundary operand sets",
        "expressions": n, "predicted_failures": predicted_fail, **stats,
        "distinct_nontrivial": predicted_fail,
        "rule": "TLC enumerates each expression of the grammar once (distinct states); non-trivial = its denotation is "
                "a failure (overflow / division by zero somewhere in the tree)",
        "evaluations": 4 * n,
    })

"""C09 - the front end is total: any source text yields diagnostics, never a crash.

Spec: LexModel (generator of ALL class strings / token soups up to a length - the input space, binding R),
ParserCursor + ParserCursorTrace (a recording of a parse must be explained by cursor actions ending in
Eof; a panic / time-out leaves a recording without a tree, for which the acceptor has no action; recorded
parser diagnostics must lie inside the file - binding V).

Alarm criterion (the property as stated, observed on the real crates): a panic, an abort / stack overflow
(8 MiB stack, nesting <= 200), a confirmed hang (re-run alone with 10x budget), in the lexer, the parser
(`file_syntax` of a module file = Parser::parse_file_green), the formatter (`get_formatted_file`) or the
semantic + lowering diagnostics (`module_semantic_diagnostics`, `module_lowering_diagnostics`,
`DiagnosticsReporter::check` on a RootDatabase with the corelib); or a diagnostic whose span is not inside
its file.  Crash detection is the harness's (catch_unwind, watchdog, process supervision), not the model's.
"""
import hashlib
import json
import os
import re

import parser_common as pc
from lib import VERIF, Check, ToolError, build_harness, clean_dir, log, seed, workdir

C09_KINDS = ("panic", "crash", "hang", "diag_span")


def norm_loc(detail):
    """`<file>:<line>[ [in <symbol>]]: message` -> (site relative to the repository / registry crate, symbol, message)."""
    m = re.match(r"^(.*?):(\d+)(?: \[in (.*?)\])?: (.*)$", detail, re.S)
    if not m:
        return "", "", detail
    f = m.group(1)
    i = f.find("crates/")
    if i >= 0:
        f = f[i:]
    else:
        j = f.find("/registry/src/")
        if j >= 0:
            f = "/".join(f[j:].split("/")[4:])
    return f"{f}:{m.group(2)}", m.group(3) or "", m.group(4)


def c09_key(p):
    if p["kind"] not in C09_KINDS:
        return None
    if p["kind"] == "panic":
        if p["stage"] == "tree_walk":
            return None  # tree API failing on the tree it came from: C10's criterion
        site, sym, msg = norm_loc(p["detail"])
        return {"kind": "panic", "stage": p["stage"], "at": site, "message_prefix": re.sub(r"Id\([0-9a-f]+\)", "Id(_)", msg)[:60]}
    if p["kind"] == "diag_span":
        return {"kind": "diag_span", "stage": p["stage"], "what": p["detail"].split(":")[0]}
    # crash / hang: no panic site is available - keyed by the input itself, so that one known crash
    # never masks another one
    return {"kind": p["kind"], "stage": p["stage"], "input_sha": hashlib.sha256((p.get("text") or "").encode()).hexdigest()[:16]}


def report(chk, problems, mode_of):
    n = 0
    for key, ps in pc.group_problems(problems, c09_key):
        by_input = {}
        for p in ps:
            by_input.setdefault(p["id"], p)
        ex = sorted(by_input.values(), key=lambda p: (len(p["text"] or ""), p["id"]))[:3]
        replay = {"inputs": [{"text": p["text"], "origin": p.get("origin"), "observed": p["detail"]} for p in ex],
                  "mode": mode_of(ex[0]), "n_inputs_affected": len(by_input)}
        if chk.violation(key, replay, f"{key['kind']} in stage `{key['stage']}` on {len(by_input)} input(s), e.g. "
                                      f"{(ex[0]['text'] or '')[:80]!r}: {ex[0]['detail'][:200]}"):
            n += 1
    return n


def sample_lines(src, dest, every, offset, keep=lambda o: True):
    n = 0
    with open(src) as f, open(dest, "a") as g:
        for i, line in enumerate(f):
            if (i + offset) % every == 0 and keep(line):
                g.write(line)
                n += 1
    return n


def main(tier, replay=None):
    chk = Check("C09", tier)
    build_harness(["parse_trace"])
    tag = "c09" + pc.WTAG
    wd = workdir("parser", tag)
    if replay:
        inp = os.path.join(wd, "replay_in.ndjson")
        obj = pc.replay_inputs(replay, inp)
        mode = obj.get("mode", "full")
        summary, problems = pc.run_harness(inp, clean_dir(os.path.join(wd, "replay_out")), mode=mode, threads=1,
                                           budget_ms=60000 if mode == "full" else 5000)
        report(chk, problems, lambda p: mode)
        log(f"[C09] replay ({mode}): {summary['inputs'] if summary else 0} input(s), problems: {[(p['kind'], p['stage']) for p in problems]}")
        chk.cov["traces_validated_against_impl"] = summary["inputs"] if summary else 0
        chk.sample({"replay": replay})
        return chk.finish({"states": 1, "transitions": 1})

    # 1. input space: LexModel (exhaustive strings / soups), corpus mutants, corpus originals, nesting probes
    inputs = os.path.join(wd, "inputs.ndjson")
    n_lex, per_cfg = pc.gen_lexmodel(chk, pc.LEX_CFGS[tier], tag, inputs)
    n_mut = 6000 if tier == "quick" else 60000
    mut = os.path.join(wd, "mutants.ndjson")
    info = pc.gen_texts("gen-mutants", mut, n_lex + 1, [str(n_mut), "--cap", str(pc.NEST_CAP)])
    corp = os.path.join(wd, "corpus.ndjson")
    cinfo = pc.gen_texts("gen-corpus", corp, n_lex + 1 + info["mutants"])
    nest = os.path.join(wd, "nest.ndjson")
    ninfo = pc.gen_texts("gen-nesting", nest, n_lex + 1 + info["mutants"] + cinfo["corpus"], ["--cap", str(pc.NEST_CAP)])
    # subset for the full (semantic + lowering) diagnostics: all mutants, nesting probes, corpus originals that
    # are small, and a stride sample of the LexModel inputs
    full_in = os.path.join(wd, "full_inputs.ndjson")
    open(full_in, "w").close()
    stride = 12 if tier == "quick" else 40
    n_full = sample_lines(inputs, full_in, stride, seed() % stride)
    n_full += sample_lines(mut, full_in, 1, 0)
    n_full += sample_lines(nest, full_in, 1, 0)
    n_full += sample_lines(corp, full_in, 1, 0, keep=lambda line: len(line) < 6000)
    # reproducing inputs of recorded findings are always part of the run (deterministic KNOWN-FINDING lines)
    fdir = os.path.join(VERIF, "corpus", "findings", "C09")
    n_find = 0
    if os.path.isdir(fdir):
        with open(full_in, "a") as g:
            for name in sorted(os.listdir(fdir)):
                with open(os.path.join(fdir, name)) as f:
                    g.write(json.dumps({"k": "text", "id": 900000000 + n_find, "origin": "corpus/findings/C09/" + name,
                                        "text": f.read()}) + "\n")
                n_find += 1
    n_full += n_find
    with open(inputs, "a") as g:
        for p in (mut, corp, nest):
            with open(p) as f:
                for line in f:
                    g.write(line)
            os.remove(p)
    n_inputs = n_lex + info["mutants"] + cinfo["corpus"] + ninfo["probes"]
    log(f"[C09] inputs: {n_lex} LexModel + {info['mutants']} corpus mutants + {cinfo['corpus']} corpus originals + "
        f"{ninfo['probes']} nesting probes (depth {pc.NEST_CAP}); {n_full} of them also through semantic+lowering diagnostics")

    # 2. lexer + parser + formatter on every input (8 MiB stack, watchdog)
    out = clean_dir(os.path.join(wd, "out"))
    summary, problems = pc.run_harness(inputs, out, mode="format", stack_mb=8, budget_ms=5000,
                                       trace_max=32)
    log(f"[C09] parse+format: {json.dumps({k: summary[k] for k in ('inputs', 'parsed', 'formatted', 'with_parser_diags', 'with_skipped_token', 'with_missing', 'distinct_traces', 'wall_ms')})}")
    n_crash = len([p for p in problems if p["kind"] == "crash"])
    n_hang = len([p for p in problems if p["kind"] == "hang"])
    if summary["inputs"] + n_crash < n_inputs:
        if n_hang == 0:
            raise ToolError(f"harness processed {summary['inputs']} of {n_inputs} inputs")
        # confirmed hangs block their worker threads for good: the rest of the batch was not processed, the hangs
        # themselves are reported below as violations
        log(f"[C09] {n_hang} confirmed hang(s) stalled the batch: {summary['inputs']} of {n_inputs} inputs processed")
    mode_by_id = {}
    for p in problems:
        mode_by_id[p["id"]] = "format"

    # 3. semantic + lowering diagnostics on the subset
    out2 = clean_dir(os.path.join(wd, "out_full"))
    summary2, problems2 = pc.run_harness(full_in, out2, mode="full", stack_mb=8, budget_ms=60000, trace_max=0)
    log(f"[C09] semantic+lowering diagnostics: {json.dumps({k: summary2[k] for k in ('inputs', 'full', 'sem_diags', 'wall_ms')})}")
    # the full run repeats parse/format of its inputs: keep only what is new
    seen = {(p["id"], p["kind"], p["stage"], p["detail"]) for p in problems}
    for p in problems2:
        if (p["id"], p["kind"], p["stage"], p["detail"]) not in seen:
            problems.append(p)
            mode_by_id[p["id"]] = "full"
    report(chk, problems, lambda p: mode_by_id.get(p["id"], "full"))
    other = {}
    for p in problems:
        if c09_key(p) is None:
            other[p["kind"] + "/" + p["stage"]] = other.get(p["kind"] + "/" + p["stage"], 0) + 1
    if other:
        log(f"[C09] observations that are not C09's criterion (tree laws are C10's; model length drift is a diagnostic): {other}")

    # 4. V: recordings must be explained by the cursor protocol ending in Eof; recorded diagnostics inside the file
    bad_ids = {p["id"] for p in problems}
    tv = pc.validate_traces(chk, os.path.join(out, "traces.ndjson"), tag, shards=8,
                            limit=12000 if tier == "quick" else 150000)
    rejected = tv["rejected"]
    rej_known = [s for s in rejected if tv["idmap"][s] in bad_ids]
    rej_drift = [s for s in rejected if tv["idmap"][s] not in bad_ids]
    diag_fail = [x for x in tv["invfail"] if x[1] in ("RecordedDiagsInside", "DiagInside")]
    log(f"[C09] ParserCursorTrace: {tv['traces']} distinct traces, {tv['accepted']} accepted, {len(rejected)} rejected "
        f"({len(rej_known)} of inputs with a reported problem, {len(rej_drift)} binding_drift), "
        f"model invariant failures: {len(tv['invfail'])} (diagnostic-span ones: {len(diag_fail)})")
    if rej_drift:
        ev = pc.trace_text(os.path.join(out, "traces.ndjson"), rej_drift[:3])
        for s in rej_drift[:3]:
            log(f"[C09] binding_drift (diagnostic): trace {s} (input {tv['idmap'][s]}) rejected; events: {json.dumps(ev.get(s, []))[:1500]}")

    with open(inputs) as f:
        for i, line in enumerate(f):
            if i % 61000 == 7:
                o = json.loads(line)
                chk.sample({k: o[k] for k in o if k in ("k", "ctx", "classes", "len", "origin", "gen")} |
                           ({"text": o["text"][:120]} if "text" in o else {}))
    chk.cov["traces_validated_against_impl"] = tv["accepted"] + summary["len_pred_checked"]
    chk.assumptions = [
        "crash / hang detection is the harness's (catch_unwind, per-input watchdog, process supervision with re-run of in-flight inputs), not the model's",
        "stack budget 8 MiB per thread (the default main-thread stack; the repository sets no stack size), nesting depth of inputs <= 200",
        "a time-out is believed only after the input was re-run alone with 10x the budget (parse/format 5 s -> 50 s, diagnostics 60 s -> 600 s)",
        "semantic + lowering diagnostics run on a subset (all mutants, nesting probes, small corpus files, every 12th/40th LexModel input) with the default + Starknet plugin suites and the corelib of the repository under test",
        "inputs are parsed as module files; valid UTF-8 only",
    ]
    return chk.finish({
        "exhaustive": True,
        "lexmodel_inputs": per_cfg,
        "inputs": n_inputs, "evaluations": summary["inputs"] + summary2["inputs"],
        "distinct_nontrivial": summary["distinct_nontrivial_traces"],
        "rule": "inputs = all LexModel strings/soups of the tier + seeded corpus mutants + corpus originals + nesting probes at depth 200; "
                "distinct = distinct abstract (lexer terminals, tree leaves) trace among inputs with <= 32 terminals; "
                "non-trivial = the parse needed recovery (a skipped token, a missing token or a skipped node in the tree)",
        "parsed_and_formatted": summary["formatted"], "with_parser_diagnostics": summary["with_parser_diags"],
        "full_diagnostics_inputs": summary2["full"], "semantic_lowering_diagnostics_seen": summary2["sem_diags"],
        "exhaustive_scope": "LexModel input spaces enumerated completely by TLC; corpus mutants are a seeded sample; semantic+lowering "
                            "diagnostics on a subset; TLC validates distinct_traces_validated of distinct_traces_recorded",
        "distinct_traces_recorded": summary["distinct_traces"], "distinct_traces_validated": tv["traces"],
        "traces_accepted": tv["accepted"], "binding_drift": len(rej_drift),
        "traces_rejected_problem_inputs": len(rej_known), "model_invariant_failures_on_traces": len(tv["invfail"]),
        "replays_executed": summary["len_pred_checked"], "cursor_steps": tv["steps"],
        "panics": len([p for p in problems if p["kind"] == "panic" and p["stage"] != "tree_walk"]),
        "crashes": n_crash, "hangs": len([p for p in problems if p["kind"] == "hang"]),
        "diag_span_outside": len([p for p in problems if p["kind"] == "diag_span"]),
    })

"""C17 - see sierra_runs.py (SierraRun specification, trace validation of real VM runs)."""
from sierra_runs import main_for


def main(tier, replay=None):
    return main_for("C17", tier, replay)

"""C19 - a compiled Starknet class is consistent and reproducible from its Sierra.

R: TLC enumerates the routes of specs/CasmClass/ClassRoutes.tla by which a class reaches the CASM compiler and the
   compiled class its consumers (direct, JSON once/twice, extract-and-publish-again with/without names, without
   debug info, compiled class through its own JSON); the harness walks every route with the real crates for every
   contract and compares published content, compiled class and both class hashes with the direct compilation.  For
   contracts compiled from source the bytecode is also compared with a compilation of the compiler's in-memory
   Sierra program that never went through the felt serialisation.
V: an abstract view of every compiled class (x pythonic hints on/off) is judged by TLC against the predicates of
   specs/CasmClass/CasmClass.tla (one state per class).
"""
import json
import os

from lib import (BIN, JAVA_OPTS_TRACE, SPECS, Check, ToolError, build_harness, extract_replay, log, read_ndjson, run,
                 seed, tlc, workdir, write_ndjson)

SPEC = os.path.join(SPECS, "CasmClass")
ROUTE_BUGS = {"bug1": "ContentPreserved", "bug2": "SameCompiledClass", "bug3": "HashStable"}
# findings of the harness that contradict the property as stated
VIOLATION_KINDS = {"compile_failed", "route_step_failed", "published_program_changed", "entry_points_changed",
                   "class_changed", "compiled_class_differs", "class_hash_differs", "class_hash_failed",
                   "direct_differs", "config_changes_class", "pythonic_hints_misaligned", "pythonic_hints_missing",
                   "view_failed", "limit_rejects_fitting_class"}


def routes(chk, cfg):
    res = tlc(SPEC, "MCClassRoutes", f"MCClassRoutes_{cfg}.cfg", f"c19_routes_{cfg}", workers=2, timeout=600)
    chk.add_tlc(res)
    if res.errors or res.violated:
        raise ToolError(f"ClassRoutes design invariant violated / TLC error: {res.violated} {res.errors[:2]}")
    p = os.path.join(workdir("c19"), f"routes_{cfg}.ndjson")
    n = extract_replay(res.out_path, p)
    os.remove(res.out_path)
    if n == 0:
        raise ToolError("TLC emitted no routes")
    log(f"[C19] TLC ClassRoutes/{cfg}: {res.distinct} states, {n} complete routes ({res.wall:.0f}s)")
    return p, n


def selfcheck_routes():
    for cfg, inv in ROUTE_BUGS.items():
        res = tlc(SPEC, "MCClassRoutes", f"MCClassRoutes_{cfg}.cfg", f"c19_{cfg}", workers=2, timeout=300)
        if inv not in res.violated:
            raise ToolError(f"ClassRoutes wrong variant {cfg} not caught by {inv}: {res.violated} {res.errors[:1]}")
    log(f"[C19] spec self-check: {len(ROUTE_BUGS)} wrong route variants all caught by TLC")


def judge_views(chk, views_p, tag, cfg="CasmClassTrace.cfg", tamper=None, count=True):
    n = sum(1 for _ in open(views_p))
    if n == 0:
        return []
    env = {"TRACE": views_p}
    if tamper:
        env["TAMPER"] = tamper
    for attempt in range(3):
        res = tlc(SPEC, "CasmClassTrace", cfg, f"c19_views_{tag}", workers=1, timeout=3000, java_opts=JAVA_OPTS_TRACE,
                  env=env, heap="12g")
        if not any("exit code 143" in e or "exit code 137" in e for e in res.errors):
            break
    if res.errors or res.violated:
        raise ToolError(f"CasmClassTrace failed: {res.errors[:2]} {res.violated} (see {res.out_path})")
    if count:
        chk.add_tlc(res)
    vp = views_p + f".{tag}.verdicts"
    extract_replay(res.out_path, vp, tag="VERDICT")
    v = read_ndjson(vp)
    os.remove(vp)
    os.remove(res.out_path)
    if len(v) != n:
        raise ToolError(f"CasmClassTrace judged {len(v)} of {n} class views")
    return v


def run_harness(routes_p, tag, tier, only=None):
    d = workdir("c19")
    res_p = os.path.join(d, f"results_{tag}.ndjson")
    views_p = os.path.join(d, f"views_{tag}.ndjson")
    cmd = [os.path.join(BIN, "c19_class"), "run", routes_p, res_p, views_p, tier]
    if only:
        cmd += ["--only", only]
    run(cmd, timeout=3300, env={"VERIF_SCRATCH": d})
    results = read_ndjson(res_p)
    summary = [r["summary"] for r in results if "summary" in r]
    if not summary:
        raise ToolError("c19_class produced no summary")
    return results, summary[0], views_p


def judge(chk, results, verdicts, views_p, tier):
    diag = {}
    seen = set()
    for r in results:
        if "finding" not in r:
            continue
        kind, item = r["finding"], r["item"]
        if kind not in VIOLATION_KINDS:
            diag[kind] = diag.get(kind, 0) + 1
            if diag[kind] <= 3:
                log(f"[C19] diagnostic {kind}: {item}: {r['detail'][:200]}")
            continue
        if (kind, item) in seen:
            continue
        seen.add((kind, item))
        if sum(1 for (k2, _) in seen if k2 == kind) > 8:
            continue  # one root cause: a handful of replay files is enough
        chk.violation({"kind": kind, "item": item},
                      {"item": item, "path": r["path"], "seed": seed(), "tier": tier, "observed": r["detail"]},
                      f"{kind} on {item} via {'>'.join(r['path'])}: {r['detail'][:300]}")
    views = None
    for v in verdicts:
        if v["stricter"]:
            for s in v["stricter"]:
                diag["stricter:" + s] = diag.get("stricter:" + s, 0) + 1
            log(f"[C19] diagnostic (stricter than the property): {v['id']} [{v['cfg']}]: {v['stricter']}")
        if not v["failed"]:
            continue
        diag["_classes_violating_invariants"] = diag.get("_classes_violating_invariants", 0) + 1
        if diag["_classes_violating_invariants"] > 10:
            continue
        if views is None:
            views = {(x["id"], x["cfg"]): x for x in read_ndjson(views_p)}
        view = views.get((v["id"], v["cfg"]), {})
        slim = {k: view.get(k) for k in ("eps", "funcs", "len", "code_end", "has_seg", "seg", "hints", "has_py", "limit_exact")}
        chk.violation({"kind": "class_invariant", "invariants": sorted(v["failed"]), "item": v["id"]},
                      {"item": v["id"], "cfg": v["cfg"], "seed": seed(), "tier": tier, "path": [], "failed": v["failed"], "view": slim},
                      f"compiled class of {v['id']} [{v['cfg']}] violates {', '.join(sorted(v['failed']))}")
    return diag


def main(tier, replay=None):
    chk = Check("C19", tier)
    build_harness(["c19_class"])
    cfg = "q" if tier == "quick" else "t"
    if replay:
        obj = json.load(open(replay))["replay"]
        os.environ["VERIF_SEED"] = str(obj.get("seed", seed()))
        routes_p, _ = routes(chk, "q" if len(obj.get("path", [])) <= 7 else "t")
        results, summary, views_p = run_harness(routes_p, "replay", "thorough", only=obj["item"])
        log(f"[C19] replay: {summary}")
        verdicts = judge_views(chk, views_p, "replay")
        judge(chk, results, verdicts, views_p, obj.get("tier", "thorough"))
        return chk.finish()

    selfcheck_routes()
    routes_p, n_routes = routes(chk, cfg)
    results, summary, views_p = run_harness(routes_p, cfg, tier)
    log(f"[C19] harness: {summary}")
    for s in [r for r in results if "skipped" in r][:5]:
        log(f"[C19] corpus source skipped: {s['skipped']}: {str(s['why'])[:200]}")
    verdicts = judge_views(chk, views_p, cfg)
    diag = judge(chk, results, verdicts, views_p, tier)

    # anti-vacuity of the V binding: a wrong spec variant and corrupted recorded fields must be noticed
    small = os.path.join(workdir("c19"), "views_selftest.ndjson")
    allv = read_ndjson(views_p)
    with_ext = [v for v in allv if v["eps"]["EXTERNAL"]][:6]
    write_ndjson(small, with_ext)
    if with_ext:
        t1 = judge_views(chk, small, "tamper1", tamper="bump_first_external_offset", count=False)
        if not all("EntryOffsets" in v["failed"] for v in t1):
            raise ToolError("self-test: a bumped entry point offset was not rejected")
        t2 = judge_views(chk, small, "bug1", cfg="CasmClassTrace_bug_offset_plus_one.cfg", count=False)
        if not all("EntryOffsets" in v["failed"] for v in t2):
            raise ToolError("self-test: the wrong spec variant offset_plus_one accepted real classes")
        segd = [v for v in with_ext if v["has_seg"] and "n" in v["seg"] and len(v["seg"]["n"]) > 1]
        if segd:
            write_ndjson(small, segd)
            t3 = judge_views(chk, small, "tamper2", tamper="drop_last_segment", count=False)
            if not all("SegmentsSum" in v["failed"] for v in t3):
                raise ToolError("self-test: a dropped segment was not rejected")
        both = [v for v in allv if any("bitwise" in e["builtins"] and "ec_op" in e["builtins"]
                                      for t in v["eps"].values() for e in t)][:4]
        if both:
            write_ndjson(small, both)
            t4 = judge_views(chk, small, "bug2", cfg="CasmClassTrace_bug_order_swapped.cfg", count=False)
            if not all("EntryBuiltins" in v["failed"] for v in t4):
                raise ToolError("self-test: the wrong spec variant order_swapped accepted real classes")
        log(f"[C19] self-test: corrupted offsets/segments and wrong spec variants rejected on {len(with_ext)} recorded classes"
            f" (builtin-order variant exercised on {len(both)})")
    os.remove(small)

    items = [r for r in results if "item" in r and "finding" not in r and "note" not in r]
    builtins = {}
    for it in items:
        for b in it.get("builtins", []):
            builtins[b] = builtins.get(b, 0) + 1
    for it in items[:60:12]:
        chk.sample({k: it.get(k) for k in ("item", "routes", "bytecode", "eps", "builtins", "segments", "direct")})
    for p in read_ndjson(routes_p)[:200:70]:
        chk.sample({"route": p["steps"], "dbg0": p["dbg0"], "current_version": p["cur"]})
    chk.cov["traces_validated_against_impl"] = summary.get("routes", 0) + len(verdicts)
    chk.assumptions = [
        "instruction starts are recovered from the bytecode itself (op1-immediate flag, bit 50), independent of the compiler's bookkeeping",
        "function start offsets and the end of the code come from the compile debug info (sierra_statement_info)",
        "segment boundaries = function starts, entry cost = 10000 and exactness of max_bytecode_size are checked as diagnostics "
        "(stricter than the property statement)",
        "Republish routes only for classes stamped with the current compiler/Sierra version (publishing stamps the versions)",
        "the class hash functions (Poseidon / Blake2s from starknet-types-core) are trusted; only their stability is checked",
    ]
    os.remove(views_p)
    return chk.finish({
        "exhaustive": True,
        "routes": n_routes,
        "contracts": summary.get("contracts", 0),
        "route_executions": summary.get("routes", 0),
        "class_views_judged": len(verdicts),
        "casm_compilations": summary.get("compiles", 0),
        "contracts_with_direct_sierra_route": sum(1 for it in items if it.get("direct")),
        "distinct_nontrivial": sum(1 for it in items if it.get("bytecode", 0) > 0 and sum(it.get("eps") or [0]) >= 1),
        "distinct_nontrivial_rule": "contracts with non-empty bytecode and at least one entry point",
        "builtin_usage": builtins,
        "entry_point_shapes": sorted({tuple(it.get("eps") or []) for it in items}),
        "diagnostics": diag,
        "corpus_sources_skipped": summary.get("skipped", 0),
        "tlc_configs": [f"MCClassRoutes_{cfg}", "CasmClassTrace"] + [f"MCClassRoutes_{b}" for b in ROUTE_BUGS]
        + ["CasmClassTrace_bug_offset_plus_one", "CasmClassTrace_bug_order_swapped"],
    })

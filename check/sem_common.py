"""Shared driver code for the source-level checks (C01, C05, C08): program generation (semgen),
the TLA+ reference evaluation (CairoSemRun) and real compilation + runs (sem_run)."""
import json
import os
import re

import semgen
from lib import (BIN, JAVA_OPTS_TRACE, SPECS, ToolError, clean_dir, extract_replay, log, read_ndjson, run, seed, tlc, tlc_heap,
                 worker_threads, workdir)

SPEC = os.path.join(SPECS, "CairoSem")
PRIME = 0x800000000000011000000000000000000000000000000000000000000000001

DEFAULT_CFG = {"opt": "default", "skip_cf": False, "match_thr": None, "solver": "linear"}


def short_string_felt(s):
    return int.from_bytes(s.encode(), "big")


def generate(n_programs, per_file, depth, tag, base_seed=None):
    """Generates programs; writes source files; returns (programs, files) where files = [(path, [programs])]."""
    sd = seed() if base_seed is None else base_seed
    d = clean_dir(os.path.join(workdir("sem"), tag, "src"))
    progs = [semgen.make_program(sd, pid, depth) for pid in range(n_programs)]
    files = []
    for j in range(0, n_programs, per_file):
        chunk = progs[j:j + per_file]
        path = os.path.join(d, f"f{j // per_file}.cairo")
        with open(path, "w") as f:
            if any(p["uses_dict"] for p in chunk):
                f.write("use core::dict::Felt252Dict;\n")
            for p in chunk:
                f.write(p["source"])
        for p in chunk:
            p["file"] = path
        files.append((path, chunk))
    return progs, files


def reference_results(progs, tag):
    """Evaluates every (program, args) case with the TLA+ reference semantics. Returns (TlcResult, {case id: res})."""
    d = os.path.join(workdir("sem"), tag)
    cases = os.path.join(d, "cases.ndjson")
    n = 0
    with open(cases, "w") as f:
        for p in progs:
            for j, a in enumerate(p["args"]):
                f.write(json.dumps({"id": f"p{p['pid']}a{j}", "prog": p["prog"], "args": a}) + "\n")
                n += 1
    res = tlc(SPEC, "CairoSemRun", "CairoSemRun.cfg", f"sem_{tag}", workers=1, timeout=3000,
              env={"PROGS": cases}, java_opts=JAVA_OPTS_TRACE, heap=tlc_heap(8))
    if res.errors or res.violated:
        raise ToolError(f"CairoSemRun ({tag}): {res.violated} {res.errors[:3]} (see {res.out_path})")
    out = os.path.join(d, "expected.ndjson")
    k = extract_replay(res.out_path, out)
    if k != n:
        raise ToolError(f"CairoSemRun ({tag}): {k} results for {n} cases (see {res.out_path})")
    os.remove(res.out_path)
    return res, {r["id"]: r for r in read_ndjson(out)}


def real_results(files, cfgs, tag, gas=20_000_000, with_runs=True):
    """Compiles each file under each configuration and runs every case. Returns list of sem_run outputs."""
    d = workdir("sem", tag)
    jobs = []
    for path, chunk in files:
        runs = []
        if with_runs:
            for p in chunk:
                for j, a in enumerate(p["args"]):
                    runs.append({"rid": f"p{p['pid']}a{j}", "fn": p["main"], "args": [str(x) for x in a]})
        for ci, cfg in enumerate(cfgs):
            jobs.append({"id": f"{os.path.basename(path)}@{ci}", "path": path, "cfg": cfg, "gas": gas, "runs": runs})
    jp = os.path.join(d, "jobs.json")
    json.dump({"threads": worker_threads(0.6), "jobs": jobs}, open(jp, "w"))
    out = os.path.join(d, "real.ndjson")
    run([os.path.join(BIN, "sem_run"), jp, out], timeout=3000)
    return read_ndjson(out)


def norm_real(r):
    """Real result -> ('v', [ints mod P]) | ('p', [ints]) | (other kind, [])."""
    if r["kind"] == "ok":
        return "v", [int(x) % PRIME for x in r["value"]]
    if r["kind"] == "panic":
        return "p", [int(x) % PRIME for x in r["value"]]
    return r["kind"], []


def norm_spec(e):
    if e["t"] == "v":
        return "v", [int(x) % PRIME for x in e["felts"]]
    if e["t"] == "p":
        return "p", [short_string_felt(x) if isinstance(x, str) else int(x) % PRIME for x in e["data"]]
    return "oom", []

"""Shared driver code of the Sierra-level checks (C02, C04, C15, C17, C14):
corpus discovery, sierra_tool invocation, SierraRun trace validation, SierraAnnot pass."""
import glob
import json
import os
import re
import subprocess

from lib import (BIN, JAVA_OPTS_TRACE, REPO, SPECS, VERIF, ToolError, clean_dir, log, read_ndjson, run, seed, sha,
                 tlc, workdir, write_ndjson)

SPEC_RUN = os.path.join(SPECS, "SierraRun")
SPEC_ANNOT = os.path.join(SPECS, "SierraAnnot")


def e2e_cases(dest, families=None):
    """Extract the `cairo_code` sections of tests/e2e_test_data/libfuncs/* into single-file crates."""
    out = []
    os.makedirs(dest, exist_ok=True)
    base = os.path.join(REPO, "tests", "e2e_test_data", "libfuncs")
    for fam in sorted(os.listdir(base)):
        if families and fam not in families:
            continue
        path = os.path.join(base, fam)
        if not os.path.isfile(path):
            continue
        text = open(path, errors="replace").read()
        # sections are introduced by "//! > name"; tests are separated by "//! > ====…"
        for ti, test in enumerate(re.split(r"^//! > =+.*$", text, flags=re.M)):
            m = re.search(r"^//! > cairo_code\n(.*?)(?=^//! > )", test, flags=re.M | re.S)
            if not m:
                continue
            code = m.group(1).strip() + "\n"
            if "starknet" in code and "#[starknet" in code:
                continue
            name = f"e2e_{fam}_{ti}"
            p = os.path.join(dest, name + ".cairo")
            with open(p, "w") as f:
                f.write(code)
            out.append((name, p))
    return out


P_FELT = 0x800000000000011000000000000000000000000000000000000000000000001
FELT_BOUNDS = [0, 1, 2 ** 64, 2 ** 128 - 1, 2 ** 128, 2 ** 128 + 1, 2 ** 129, 2 ** 250, 2 ** 251, P_FELT - 2, P_FELT - 1]
# explicit runs of own corpus functions whose interesting inputs are key / boundary values of a felt252 argument
# (the generic vector sampler only reaches the first few boundary values in the quick tier)
OWN_EXPLICIT = {
    "dicts": [{"fn_name": f"::{fn}", "args": [str(k), "9"], "g": 10_000_000}
              for fn in ("dict_single_key", "dict_adjacent_keys", "dict_key_and_zero") for k in FELT_BOUNDS],
}


def corpus_jobs(tier, want_mutants=0, solvers=("linear",), e2e_limit=None, run=True, sample=None):
    jobs = []
    d = clean_dir(os.path.join(workdir("sierra"), "e2e_src"))
    own = sorted(glob.glob(os.path.join(VERIF, "corpus", "cairo", "*.cairo")))
    ex = [p for p in sorted(glob.glob(os.path.join(REPO, "examples", "*.cairo"))) if not p.endswith("lib.cairo")]
    e2e = e2e_cases(d)
    if e2e_limit is not None:
        # deterministic spread over families
        step = max(1, len(e2e) // e2e_limit)
        e2e = e2e[seed() % step::step][:e2e_limit]
    for solver in solvers:
        sfx = "" if solver == "linear" else "@lp"
        for p in own:
            jobs.append({"id": "own_" + os.path.basename(p)[:-6] + sfx, "kind": "cairo", "path": p, "solver": solver,
                         "mutants": want_mutants, "max_funcs": 12, "run": run,
                         "explicit": OWN_EXPLICIT.get(os.path.basename(p)[:-6], []) if run else [], "also_generic": True})
        for p in ex:
            jobs.append({"id": "ex_" + os.path.basename(p)[:-6] + sfx, "kind": "cairo", "path": p, "solver": solver,
                         "mutants": want_mutants, "run": run})
        for name, p in e2e:
            jobs.append({"id": name + sfx, "kind": "cairo", "path": p, "solver": solver,
                         "mutants": max(0, want_mutants // 4), "max_funcs": 3, "run": run})
        if run:
            import bounded_sweep
            jobs.extend(bounded_sweep.jobs(tier, solver))
        if tier == "thorough":
            for p in sorted(glob.glob(os.path.join(REPO, "crates", "**", "*.sierra"), recursive=True)):
                jobs.append({"id": "sierra_" + os.path.basename(p)[:-7] + sfx, "kind": "sierra", "path": p,
                             "solver": solver, "mutants": want_mutants, "run": run})
            jobs.append({"id": "bug_samples" + sfx, "kind": "cairo", "path": os.path.join(REPO, "tests", "bug_samples"),
                         "solver": solver, "mutants": 0, "max_funcs": 40, "run": run})
    return jobs


def run_tool(tag, jobs, vectors, ample_gas=1_000_000, threads=None, timeout=3000):
    out = clean_dir(os.path.join(workdir("sierra"), tag))
    from lib import worker_threads
    threads = threads or worker_threads(0.5)
    spec = {"seed": seed(), "vectors": vectors, "threads": threads, "workers": max(1, min(4, threads // 3)), "ample_gas": ample_gas,
            "worker_mem_kb": 10_000_000, "jobs": jobs}
    jp = os.path.join(out, "jobs.json")
    json.dump(spec, open(jp, "w"))
    rc, o = run([os.path.join(BIN, "sierra_tool"), "batch", jp, out], timeout=timeout)
    log("[sierra_tool] " + (o or "").strip().splitlines()[-1])
    return out


AUDITED = None


def audited_set():
    global AUDITED
    if AUDITED is None:
        p = os.path.join(REPO, "crates", "cairo-lang-starknet-classes", "src", "allowed_libfuncs_lists", "audited.json")
        AUDITED = set(json.load(open(p))["allowed_libfuncs"].keys())
    return AUDITED


def only_audited(export):
    a = audited_set()
    return all(lf["gen"] in a for lf in export["libfuncs"])


def shard_runs(outdir, nshards):
    """Split progs/trace into shards by program (a program and all its runs stay together)."""
    progs = read_ndjson(os.path.join(outdir, "progs.ndjson"))
    byid = {p["id"]: p for p in progs}
    runs = []  # (prog id, [events])
    cur = None
    with open(os.path.join(outdir, "trace.ndjson")) as f:
        for line in f:
            e = json.loads(line)
            if e["e"] == "reset":
                cur = (e["prog"], [e])
                runs.append(cur)
            elif cur is not None:
                cur[1].append(e)
    shards = [dict(progs={}, runs=[], events=0) for _ in range(nshards)]
    # greedy balance by event count, program-wise
    per_prog = {}
    for pid, evs in runs:
        per_prog.setdefault(pid, []).append(evs)
    for pid, rl in sorted(per_prog.items(), key=lambda kv: -sum(len(x) for x in kv[1])):
        s = min(shards, key=lambda s: s["events"])
        s["progs"][pid] = byid[pid]
        s["runs"].extend(rl)
        s["events"] += sum(len(x) for x in rl)
    return [s for s in shards if s["runs"]], byid


def validate_runs(outdir, tag, nshards=None):
    """Validate all recorded runs against SierraRunTrace. Returns (stats, bad) where bad is a list of
    dicts {laws, prog, run(events), event}."""
    from lib import worker_threads, tlc_heap
    nshards = nshards or max(1, min(6, worker_threads(2.0)))
    shards, byid = shard_runs(outdir, nshards)
    procs = []
    for i, s in enumerate(shards):
        pp = os.path.join(outdir, f"shard{i}.progs.ndjson")
        tp = os.path.join(outdir, f"shard{i}.trace.ndjson")
        # keep exports light: the trace spec needs stmts/libfuncs/code/funcs only
        with open(pp, "w") as f:
            for pid, p in s["progs"].items():
                ex = p["export"]
                slim = {"id": pid, "export": {"stmts": ex["stmts"], "libfuncs": [{"callee": lf["callee"]} for lf in ex["libfuncs"]],
                                               "code": [{"start": c["start"], "end": c["end"]} for c in ex["code"]],
                                               "funcs": [{"entry": fn["entry"], "fn_ap": fn["fn_ap"], "req": fn["req"]} for fn in ex["funcs"]]}}
                f.write(json.dumps(slim) + "\n")
        with open(tp, "w") as f:
            for evs in s["runs"]:
                for e in evs:
                    f.write(json.dumps(e) + "\n")
        procs.append((i, s, pp, tp))
    # run TLC shards in parallel (each -workers 1)
    import concurrent.futures

    def one(item):
        i, s, pp, tp = item
        return i, s, tlc(SPEC_RUN, "SierraRunTrace", "SierraRunTrace.cfg", f"{tag}_shard{i}", workers=1, timeout=3000,
                         env={"PROGS": pp, "TRACE": tp}, java_opts=JAVA_OPTS_TRACE, heap=tlc_heap(6))

    stats = {"states": 0, "transitions": 0, "runs": 0, "events": 0}
    bad = []
    with concurrent.futures.ThreadPoolExecutor(max_workers=len(procs) or 1) as ex:
        for i, s, res in ex.map(one, procs):
            if res.errors or res.violated:
                raise ToolError(f"SierraRunTrace shard {i}: {res.errors[:2]} {res.violated} (see {res.out_path})")
            stats["states"] += res.distinct
            stats["transitions"] += res.generated
            rep = None
            for line in open(res.out_path, errors="replace"):
                m = re.match(r'^<<"BAD", "(.*)">>\s*$', line)
                if m:
                    rep = json.loads(m.group(1).replace('\\"', '"').replace("\\\\", "\\"))
            if rep is None:
                raise ToolError(f"SierraRunTrace shard {i}: no report (see {res.out_path})")
            if rep["events"] != s["events"]:
                raise ToolError(f"SierraRunTrace shard {i}: event count mismatch")
            stats["runs"] += rep["runs"]
            stats["events"] += rep["events"]
            # map line numbers back to runs
            starts = []
            n = 1
            for evs in s["runs"]:
                starts.append(n)
                n += len(evs)
            for b in rep["bad"]:
                ri = b["run"] - 1
                evs = s["runs"][ri]
                ev = evs[b["line"] - starts[ri]]
                bad.append({"laws": b["laws"], "prog": evs[0]["prog"], "reset": evs[0], "event": ev,
                            "result": [e for e in evs if e["e"] in ("fin", "result", "vmerr")][-2:]})
            os.remove(res.out_path)
    return stats, bad, byid


def replay_obj(byid, b):
    p = byid.get(b["prog"], {})
    return {"prog": b["prog"], "plan": p.get("plan"), "sierra": p.get("sierra"), "reset": b["reset"], "event": b["event"],
            "laws": b["laws"], "result": b["result"]}

"""C05 - observable behaviour is invariant under optimisation / lowering configuration.

The generated programs of C01 (reference result known from CairoSem) and the scalar functions of the
corpus are compiled and run under every configuration point; all configurations must agree with each
other (and, for modelled programs, with the reference)."""
import glob
import json
import os

from c01 import compare
from lib import REPO, VERIF, Check, ToolError, build_harness, log, seed
from sem_common import DEFAULT_CFG, generate, norm_real, real_results, reference_results

CFGS_QUICK = [
    {"opt": "default", "skip_cf": False, "match_thr": None, "solver": "linear"},
    {"opt": "disabled", "skip_cf": False, "match_thr": None, "solver": "linear"},
    {"opt": "avoid", "skip_cf": False, "match_thr": None, "solver": "linear"},
    {"opt": "small:0", "skip_cf": True, "match_thr": None, "solver": "linear"},
    {"opt": "small:1000000", "skip_cf": False, "match_thr": 0, "solver": "linear"},
    {"opt": "default", "skip_cf": True, "match_thr": 100, "solver": "linear"},
    {"opt": "default", "skip_cf": False, "match_thr": 2, "solver": "lp"},
    {"opt": "small:50", "skip_cf": False, "match_thr": None, "solver": "linear"},
]


def cfgs_thorough():
    out = []
    for opt in ["disabled", "default", "avoid", "small:0", "small:1", "small:5", "small:50", "small:1000000"]:
        for skip in ([False] if opt == "disabled" else [False, True]):
            for thr in [None, 0, 2, 100]:
                out.append({"opt": opt, "skip_cf": skip, "match_thr": thr, "solver": "linear"})
    out.append({"opt": "default", "skip_cf": False, "match_thr": None, "solver": "lp"})
    out.append({"opt": "disabled", "skip_cf": False, "match_thr": None, "solver": "lp"})
    return out


# scalar functions of the own corpus: file -> [(fn, [param types])]
OWN = {
    "loops_arrays": [("sum_to", ["u32"]), ("build_and_index", ["u8", "u8"]), ("span_pop", ["u16"]), ("nested_loops", ["u8", "u8"])],
    "recursion": [("fact", ["u8"]), ("fib_rec", ["u8"]), ("parity", ["u16"]), ("ackermann_small", ["u8", "u8"])],
    "structs_enums": [("area", ["u32", "u32"]), ("serde_roundtrip", ["u32", "u32"]), ("option_chain", ["u8", "u8"])],
    "dicts": [("dict_counts", ["u8", "u8", "u8"]), ("dict_entry", ["felt", "u64"]), ("dict_squash_explicit", ["u8"])],
    "int_math": [("u8_mix", ["u8", "u8"]), ("u128_div", ["u128", "u128"]), ("u256_ops", ["u128", "u128"]), ("i32_ops", ["i32", "i32"]),
                 ("sqrt_mix", ["u64", "u128"]), ("checked_panics", ["u16", "u16"]), ("felt_ops", ["felt", "felt"]), ("casts", ["u64"])],
    "hashes_bits": [("ped", ["felt", "felt"]), ("pos", ["felt", "u8"]), ("pos_state", ["felt", "u64"]), ("bits", ["u128", "u128"]), ("u64_bits", ["u64", "u64"])],
    "control_flow": [("early_return", ["u32", "u32"]), ("match_num", ["u8"]), ("assert_path", ["u64", "u64"]),
                     ("locals_across_calls", ["felt", "felt"]), ("bool_logic", ["u8", "u8"])],
    "boxes_nullable": [("boxed", ["u128", "u128"]), ("nullable", ["u32"]), ("snapshots", ["u64"]), ("byte_array", ["u8"]), ("boxed_enum_match", ["u8", "felt"])],
}
BOUNDS = {"u8": [0, 1, 2, 7, 100, 254, 255], "u16": [0, 1, 255, 256, 65535, 1000], "u32": [0, 1, 3, 1000, 2 ** 32 - 1, 65536],
          "u64": [0, 1, 2 ** 32, 2 ** 64 - 1, 999999], "u128": [0, 1, 2 ** 64, 2 ** 128 - 1, 12345678901234567890],
          "i32": [0, 1, -1, 2 ** 31 - 1, -2 ** 31, 77, -1000], "felt": [0, 1, 2, 2 ** 128, -1, 10 ** 30, 255]}


def own_corpus_files(k):
    import random
    r = random.Random(seed())
    files = []
    for name, fns in OWN.items():
        path = os.path.join(VERIF, "corpus", "cairo", name + ".cairo")
        chunk = []
        for fi, (fn, ptys) in enumerate(fns):
            args = []
            for j in range(k):
                args.append([BOUNDS[t][(j * 3 + i * 5 + fi) % len(BOUNDS[t])] if j < 4 else r.choice(BOUNDS[t]) for i, t in enumerate(ptys)])
            chunk.append({"pid": f"{name}.{fn}", "main": fn, "args": args, "source": f"corpus/cairo/{name}.cairo::{fn}", "prog": None})
        files.append((path, chunk))
    return files


def cross_compare(chk, reals, label):
    """All configurations of one file must agree run by run. Returns (#runs compared, #pairs)."""
    byfile = {}
    for job in reals:
        f = job["id"].rsplit("@", 1)[0]
        byfile.setdefault(f, []).append(job)
    n = 0
    for f, jobs in byfile.items():
        base = None
        for job in jobs:
            ok = not job["diag_errors"] and all(str(job["stages"].get(s, "ok")).startswith("ok") for s in ("sierra", "registry", "metadata", "casm"))
            if not ok:
                log(f"[C05] {f} under {job['cfg']} did not compile: {job['stages']}")
                continue
            res = {r["rid"]: norm_real(r) for r in job["results"]}
            if base is None:
                base = (job, res)
                continue
            for rid, v in res.items():
                b = base[1].get(rid)
                if b is None or "out_of_gas" in (v[0], b[0]):
                    continue
                n += 1
                if v != b:
                    chk.violation({"kind": "config_disagreement", "file": os.path.basename(f), "rid": rid, "cfg": job["cfg"]},
                                  {"file": job.get("path", f), "rid": rid, "cfg_a": base[0]["cfg"], "cfg_b": job["cfg"], "a": b, "b": v,
                                   "label": label},
                                  f"{label} {f} run {rid}: {base[0]['cfg']} gives {b[0]} {b[1][:5]} but {job['cfg']} gives {v[0]} {v[1][:5]}")
    return n


def corelib_verdicts(cfg, tag):
    """Runs the core library's own test-suite under one configuration; returns {test name: verdict}."""
    from lib import BIN, workdir
    import subprocess
    out = os.path.join(workdir("sem", "corelib"), f"{tag}.txt")
    cmd = [os.path.join(BIN, "corelib_tests"), os.path.join(REPO, "corelib"), cfg["opt"], "true" if cfg["skip_cf"] else "false",
           str(cfg["match_thr"]) if cfg["match_thr"] is not None else "none"]
    with open(out, "w") as f:
        r = subprocess.run(cmd, stdout=f, stderr=subprocess.STDOUT, timeout=3000)
    verdicts = {}
    for line in open(out, errors="replace"):
        if line.startswith("test ") and " ... " in line:
            name, rest = line[5:].split(" ... ", 1)
            verdicts[name.strip()] = rest.split()[0].strip()
    if not verdicts:
        tail = open(out, errors="replace").read()[-1500:]
        return None, tail
    return verdicts, ""


def gas_observing_tests():
    """Names (last path segment) of corelib tests whose body reads the gas counter: their verdict legitimately depends on
    gas consumption, which the property allows to differ between configurations."""
    import re as _re
    names = set()
    for path in glob.glob(os.path.join(REPO, "corelib", "src", "test", "**", "*.cairo"), recursive=True):
        text = open(path, errors="replace").read()
        parts = _re.split(r"(?m)^\s*fn\s+([A-Za-z0-9_]+)\s*\(", text)
        # parts = [pre, name1, body1, name2, body2, ...]
        for i in range(1, len(parts) - 1, 2):
            if _re.search(r"get_available_gas|get_unspent_gas|get_builtin_costs|redeposit_gas|withdraw_gas", parts[i + 1]):
                names.add(parts[i])
    return names


def corelib_under_configs(chk, cfgs):
    import concurrent.futures
    with concurrent.futures.ThreadPoolExecutor(max_workers=2) as ex:
        res = list(ex.map(lambda ic: corelib_verdicts(ic[1], f"cfg{ic[0]}"), enumerate(cfgs)))
    base = None
    n = 0
    gas_tests = gas_observing_tests()
    for cfg, (v, tail) in zip(cfgs, res):
        if v is None:
            # the whole suite failed to build / run under this configuration
            if base is not None:
                chk.violation({"kind": "corelib_suite_fails", "cfg": cfg}, {"cfg": cfg, "output_tail": tail},
                              f"the corelib test-suite does not build/run under {cfg} although it does under {base[0]}: {tail[-300:]}")
            continue
        if base is None:
            base = (cfg, v)
            continue
        for name, verdict in v.items():
            b = base[1].get(name)
            if b is None:
                continue
            if name.rsplit("::", 1)[-1] in gas_tests:
                continue          # observes the gas counter: verdict may legitimately depend on gas consumption
            n += 1
            if b != verdict:
                chk.violation({"kind": "corelib_verdict_differs", "test": name, "cfg": cfg},
                              {"test": name, "cfg_a": base[0], "verdict_a": b, "cfg_b": cfg, "verdict_b": verdict},
                              f"corelib test {name}: {b} under {base[0]} but {verdict} under {cfg}")
    return n, (len(base[1]) if base else 0)


def main(tier, replay=None):
    chk = Check("C05", tier)
    build_harness(["sem_run", "corelib_tests"])
    quick = tier == "quick"
    cfgs = CFGS_QUICK if quick else cfgs_thorough()
    progs, files = generate(120 if quick else 1200, 12, 3 if quick else 4, "c05")
    res, expected = reference_results(progs, "c05")
    chk.add_tlc(res)
    reals = real_results(files, cfgs, "c05")
    stats = compare(chk, "C05", progs, expected, reals)
    n_cross = cross_compare(chk, reals, "generated")
    own = own_corpus_files(5 if quick else 12)
    reals2 = real_results(own, cfgs, "c05own", gas=50_000_000)
    n_cross2 = cross_compare(chk, reals2, "corpus")
    # the core library's own test-suite: same verdict under every configuration
    lin = [c for c in cfgs if c["solver"] == "linear"]
    core_cfgs = [lin[0], lin[1 + seed() % (len(lin) - 1)]] if quick else [lin[0]] + lin[1::9][:6]
    n_core, n_tests = corelib_under_configs(chk, core_cfgs)
    log(f"[C05] generated: {stats}; cross-config comparisons: generated {n_cross}, corpus {n_cross2}; configurations: {len(cfgs)}; "
        f"corelib tests: {n_tests} tests x {len(core_cfgs)} configurations ({n_core} verdict comparisons)")
    chk.cov["traces_validated_against_impl"] = stats["compared"] + n_cross2 + n_core
    chk.sample({"configs": cfgs[:4], "program": progs[0]["source"][:400], "args": progs[0]["args"][0]})
    chk.assumptions = ["gas and step counts are ignored; a run that is 'Out of gas' under some configuration is re-run with 100x gas and otherwise excluded",
                       "the corelib test-suite is run under 2 (quick) / 7 (thorough) configuration points, verdicts (ok / fail / ignored) compared"]
    return chk.finish({"configurations": len(cfgs), "programs": len(progs), "distinct_nontrivial": stats["compared"] + n_cross2,
                       "rule": "(program, args, configuration) runs compared with the reference (generated) or with the first configuration (corpus)",
                       "generated": stats, "cross_generated": n_cross, "cross_corpus": n_cross2, "corelib_tests": n_tests, "corelib_configs": len(core_cfgs), "corelib_verdict_comparisons": n_core,
                       "exhaustive": False})

"""C05 - observable behaviour is invariant under optimisation / lowering configuration.

The generated programs of C01 (reference result known from CairoSem) and the scalar functions of the
corpus are compiled and run under every configuration point; all configurations must agree with each
other (and, for modelled programs, with the reference)."""
import glob
import json
import os

from c01 import compare
from lib import REPO, VERIF, Check, ToolError, build_harness, log, seed
from sem_common import DEFAULT_CFG, generate, norm_real, real_results, reference_results

CFGS_QUICK = [
    {"opt": "default", "skip_cf": False, "match_thr": None, "solver": "linear"},
    {"opt": "disabled", "skip_cf": False, "match_thr": None, "solver": "linear"},
    {"opt": "avoid", "skip_cf": False, "match_thr": None, "solver": "linear"},
    {"opt": "small:0", "skip_cf": True, "match_thr": None, "solver": "linear"},
    {"opt": "small:1000000", "skip_cf": False, "match_thr": 0, "solver": "linear"},
    {"opt": "default", "skip_cf": True, "match_thr": 100, "solver": "linear"},
    {"opt": "default", "skip_cf": False, "match_thr": 2, "solver": "lp"},
    {"opt": "small:50", "skip_cf": False, "match_thr": None, "solver": "linear"},
]


def cfgs_thorough():
    out = []
    for opt in ["disabled", "default", "avoid", "small:0", "small:1", "small:5", "small:50", "small:1000000"]:
        for skip in ([False] if opt == "disabled" else [False, True]):
            for thr in [None, 0, 2, 100]:
                out.append({"opt": opt, "skip_cf": skip, "match_thr": thr, "solver": "linear"})
    out.append({"opt": "default", "skip_cf": False, "match_thr": None, "solver": "lp"})
    out.append({"opt": "disabled", "skip_cf": False, "match_thr": None, "solver": "lp"})
    return out


# scalar functions of the own corpus: file -> [(fn, [param types])]
OWN = {
    "loops_arrays": [("sum_to", ["u32"]), ("build_and_index", ["u8", "u8"]), ("span_pop", ["u16"]), ("nested_loops", ["u8", "u8"])],
    "recursion": [("fact", ["u8"]), ("fib_rec", ["u8"]), ("parity", ["u16"]), ("ackermann_small", ["u8", "u8"])],
    "structs_enums": [("area", ["u32", "u32"]), ("serde_roundtrip", ["u32", "u32"]), ("option_chain", ["u8", "u8"])],
    "dicts": [("dict_counts", ["u8", "u8", "u8"]), ("dict_entry", ["felt", "u64"]), ("dict_squash_explicit", ["u8"])],
    "int_math": [("u8_mix", ["u8", "u8"]), ("u128_div", ["u128", "u128"]), ("u256_ops", ["u128", "u128"]), ("i32_ops", ["i32", "i32"]),
                 ("sqrt_mix", ["u64", "u128"]), ("checked_panics", ["u16", "u16"]), ("felt_ops", ["felt", "felt"]), ("casts", ["u64"])],
    "hashes_bits": [("ped", ["felt", "felt"]), ("pos", ["felt", "u8"]), ("pos_state", ["felt", "u64"]), ("bits", ["u128", "u128"]), ("u64_bits", ["u64", "u64"])],
    "control_flow": [("early_return", ["u32", "u32"]), ("match_num", ["u8"]), ("assert_path", ["u64", "u64"]),
                     ("locals_across_calls", ["felt", "felt"]), ("bool_logic", ["u8", "u8"])],
    "boxes_nullable": [("boxed", ["u128", "u128"]), ("nullable", ["u32"]), ("snapshots", ["u64"]), ("byte_array", ["u8"])],
}
BOUNDS = {"u8": [0, 1, 2, 7, 100, 254, 255], "u16": [0, 1, 255, 256, 65535, 1000], "u32": [0, 1, 3, 1000, 2 ** 32 - 1, 65536],
          "u64": [0, 1, 2 ** 32, 2 ** 64 - 1, 999999], "u128": [0, 1, 2 ** 64, 2 ** 128 - 1, 12345678901234567890],
          "i32": [0, 1, -1, 2 ** 31 - 1, -2 ** 31, 77, -1000], "felt": [0, 1, 2, 2 ** 128, -1, 10 ** 30, 255]}


def own_corpus_files(k):
    import random
    r = random.Random(seed())
    files = []
    for name, fns in OWN.items():
        path = os.path.join(VERIF, "corpus", "cairo", name + ".cairo")
        chunk = []
        for fi, (fn, ptys) in enumerate(fns):
            args = []
            for j in range(k):
                args.append([BOUNDS[t][(j * 3 + i * 5 + fi) % len(BOUNDS[t])] if j < 4 else r.choice(BOUNDS[t]) for i, t in enumerate(ptys)])
            chunk.append({"pid": f"{name}.{fn}", "main": fn, "args": args, "source": f"corpus/cairo/{name}.cairo::{fn}", "prog": None})
        files.append((path, chunk))
    return files


def cross_compare(chk, reals, label):
    """All configurations of one file must agree run by run. Returns (#runs compared, #pairs)."""
    byfile = {}
    for job in reals:
        f = job["id"].rsplit("@", 1)[0]
        byfile.setdefault(f, []).append(job)
    n = 0
    for f, jobs in byfile.items():
        base = None
        for job in jobs:
            ok = not job["diag_errors"] and all(str(job["stages"].get(s, "ok")).startswith("ok") for s in ("sierra", "registry", "metadata", "casm"))
            if not ok:
                log(f"[C05] {f} under {job['cfg']} did not compile: {job['stages']}")
                continue
            res = {r["rid"]: norm_real(r) for r in job["results"]}
            if base is None:
                base = (job, res)
                continue
            for rid, v in res.items():
                b = base[1].get(rid)
                if b is None or "out_of_gas" in (v[0], b[0]):
                    continue
                n += 1
                if v != b:
                    chk.violation({"kind": "config_disagreement", "file": os.path.basename(f), "rid": rid, "cfg": job["cfg"]},
                                  {"file": job.get("path", f), "rid": rid, "cfg_a": base[0]["cfg"], "cfg_b": job["cfg"], "a": b, "b": v,
                                   "label": label},
                                  f"{label} {f} run {rid}: {base[0]['cfg']} gives {b[0]} {b[1][:5]} but {job['cfg']} gives {v[0]} {v[1][:5]}")
    return n


def main(tier, replay=None):
    chk = Check("C05", tier)
    build_harness(["sem_run"])
    quick = tier == "quick"
    cfgs = CFGS_QUICK if quick else cfgs_thorough()
    progs, files = generate(120 if quick else 1200, 12, 3 if quick else 4, "c05")
    res, expected = reference_results(progs, "c05")
    chk.add_tlc(res)
    reals = real_results(files, cfgs, "c05")
    stats = compare(chk, "C05", progs, expected, reals)
    n_cross = cross_compare(chk, reals, "generated")
    own = own_corpus_files(5 if quick else 12)
    reals2 = real_results(own, cfgs, "c05own", gas=50_000_000)
    n_cross2 = cross_compare(chk, reals2, "corpus")
    log(f"[C05] generated: {stats}; cross-config comparisons: generated {n_cross}, corpus {n_cross2}; configurations: {len(cfgs)}")
    chk.cov["traces_validated_against_impl"] = stats["compared"] + n_cross2
    chk.sample({"configs": cfgs[:4], "program": progs[0]["source"][:400], "args": progs[0]["args"][0]})
    chk.assumptions = ["gas and step counts are ignored; a run that is 'Out of gas' under some configuration is re-run with 100x gas and otherwise excluded",
                       "the corelib's own test-suite is not run here (not part of this check yet)"]
    return chk.finish({"configurations": len(cfgs), "programs": len(progs), "distinct_nontrivial": stats["compared"] + n_cross2,
                       "rule": "(program, args, configuration) runs compared with the reference (generated) or with the first configuration (corpus)",
                       "generated": stats, "cross_generated": n_cross, "cross_corpus": n_cross2, "exhaustive": False})

"""C18 - Sierra programs survive every serialisation unchanged.

R: TLC enumerates every codec composition of length <= MaxLen from specs/SierraCodec/SierraCodec.tla (checking on
   the abstract information model that every path preserves the program and the CASM digest) and emits each as a
   REPLAY path together with the predicted representation / id numbering / debug-name coverage after every step;
   the harness executes every path on every corpus program with the real crates and checks isomorphism to the
   original (own checker), the predictions, Display fix-points and CASM text equality.
V: the decompressed felt stream of every program (and of every published contract class of the repository) is read
   by the independent grammar of specs/SierraCodec/FeltStream.tla; the reconstruction must equal the abstract view
   of the program the real code serialised / deserialised.
"""
import json
import os
import re

from lib import (BIN, JAVA_OPTS_TRACE, SPECS, Check, ToolError, build_harness, extract_replay, log, read_ndjson, run,
                 seed, tlc, workdir, write_ndjson)

SPEC = os.path.join(SPECS, "SierraCodec")
STREAM_ITEMS = 0
BUGS = {
    "parse_loses_fallthrough": "ProgramPreserved",
    "fromfelts_drops_negative": "ProgramPreserved",
    "json_loses_typeinfo": "ProgramPreserved",
    "casm_depends_on_names": "CasmUnchanged",
}
# steps after which the quantifier of the property demands literally the same ids (json == s, extract(new(canon)) == canon)
EXACT_STEPS = {"ToJson", "FromJson", "ToFelts", "FromFelts", "FromFeltsDbg", "ClassToJson", "ClassFromJson", "Canonicalise",
               "StripDebug"}
VIOLATION_KINDS = {"step_failed", "not_isomorphic", "casm_differs", "casm_fails", "display_not_fixpoint", "parse_failed",
                   "published_class_undecodable"}


def spec_selfcheck(chk):
    """The design spec must hold, and every named wrong variant must be caught (anti-vacuity)."""
    for bug, inv in BUGS.items():
        res = tlc(SPEC, "MCSierraCodec", f"MCSierraCodec_bug_{bug}.cfg", f"c18_bug_{bug}", workers=2, timeout=300)
        if inv not in res.violated:
            raise ToolError(f"SierraCodec BUG={bug} was not caught by {inv} (violated={res.violated}, errors={res.errors[:1]})")
    log(f"[C18] spec self-check: {len(BUGS)} wrong variants all caught by TLC")


def gen_paths(chk, cfg):
    res = tlc(SPEC, "MCSierraCodec", f"MCSierraCodec_{cfg}.cfg", f"c18_paths_{cfg}", workers=4, timeout=900)
    chk.add_tlc(res)
    if res.errors or res.violated:
        raise ToolError(f"SierraCodec design invariant violated / TLC error: {res.violated} {res.errors[:2]} (see {res.out_path})")
    paths = os.path.join(workdir("c18"), f"paths_{cfg}.ndjson")
    n = extract_replay(res.out_path, paths)
    os.remove(res.out_path)
    if n == 0:
        raise ToolError("TLC emitted no codec paths")
    log(f"[C18] TLC SierraCodec/{cfg}: {res.distinct} states = {n} codec paths ({res.wall:.0f}s)")
    return paths, n


def classify_parse_failure(detail):
    m = re.search(r"at char `(.)`", detail)
    ch = m.group(1) if m else "?"
    ctx = detail.split(" in `", 1)[1] if " in `" in detail else ""
    if "closure@" in detail:
        construct = "closure_type_in_name"
    elif ch == "!" and "array!" in ctx:
        construct = "array_macro_in_specialized_name"
    else:
        construct = "other"
    return ch, construct


def judge_findings(chk, results, tier):
    """Turns harness findings into violations (property as stated) or diagnostics."""
    diag = {}
    seen = set()
    items = {}
    for r in results:
        if "item" in r and "finding" not in r:
            items[r["item"]] = r
    for r in results:
        if "finding" not in r:
            continue
        kind, item, path, detail = r["finding"], r["item"], r["path"], r["detail"]
        if kind == "ids_changed":
            if not set(path) <= EXACT_STEPS:
                diag["ids_changed_model_only"] = diag.get("ids_changed_model_only", 0) + 1
                continue
            kind = "ids_not_preserved"
        elif kind not in VIOLATION_KINDS:
            diag[kind] = diag.get(kind, 0) + 1
            if diag[kind] <= 3:
                log(f"[C18] diagnostic {kind}: {item} {path}: {detail[:200]}")
            continue
        key = {"kind": kind}
        if kind in ("parse_failed", "step_failed") and "parse error" in detail:
            ch, construct = classify_parse_failure(detail)
            key = {"kind": "display_unparsable", "char": ch, "construct": construct}
        elif kind == "step_failed":
            key = {"kind": kind, "step": path[-1], "error": detail[:60]}
        dk = (json.dumps(key, sort_keys=True), item)
        if dk in seen:
            continue
        seen.add(dk)
        per_kind = sum(1 for (k2, _) in seen if k2 == dk[0])
        if per_kind > 8:
            continue  # one root cause: a handful of replay files is enough
        src = items.get(item, {}).get("src")
        chk.violation(key, {"item": item, "path": path, "seed": seed(), "tier": tier, "src": src, "observed": detail},
                      f"{key['kind']} on {item} after {'>'.join(path)}: {detail[:300]}")
    return diag


def run_harness(paths, tag, tier, only=None):
    d = workdir("c18")
    res_p = os.path.join(d, f"results_{tag}.ndjson")
    str_p = os.path.join(d, f"streams_{tag}.ndjson")
    cmd = [os.path.join(BIN, "c18_codec"), "run", paths, res_p, str_p, tier]
    if only:
        cmd += ["--only", only]
    run(cmd, timeout=3300, env={"VERIF_SCRATCH": d})
    results = read_ndjson(res_p)
    summary = [r["summary"] for r in results if "summary" in r]
    if not summary:
        raise ToolError("c18_codec produced no summary")
    return results, summary[0], str_p


def validate_streams(chk, str_p, tag, tamper=None):
    """FeltStreamTrace over the recorded streams; returns (verdicts, n_records)."""
    n = sum(1 for _ in open(str_p))
    if n == 0:
        return [], 0
    # chunks keep the JSON documents TLC loads at a moderate size
    chunk_files = []
    lines = open(str_p).read().splitlines()
    global STREAM_ITEMS
    STREAM_ITEMS = 0
    for line in lines:
        e = json.loads(line)["exp"]
        STREAM_ITEMS += len(e["types"]) + len(e["libfuncs"]) + len(e["stmts"]) + len(e["funcs"])
    per = 120
    for k in range(0, len(lines), per):
        p = os.path.join(workdir("c18"), f"streams_{tag}_{k // per}.ndjson")
        with open(p, "w") as f:
            f.write("\n".join(lines[k:k + per]) + "\n")
        chunk_files.append(p)
    verdicts = []
    for k, p in enumerate(chunk_files):
        env = {"TRACE": p}
        if tamper:
            env["TAMPER"] = tamper
        for attempt in range(3):
            res = tlc(SPEC, "FeltStreamTrace", "FeltStreamTrace.cfg", f"c18_stream_{tag}_{k}", workers=1, timeout=3000,
                      java_opts=JAVA_OPTS_TRACE, env=env, heap="12g")
            # the JVM was terminated from outside (shared machine): run it again
            if not any("exit code 143" in e or "exit code 137" in e for e in res.errors):
                break
        if res.errors or res.violated:
            raise ToolError(f"FeltStreamTrace failed: {res.errors[:2]} {res.violated} (see {res.out_path})")
        if not tamper:
            chk.add_tlc(res)
        vp = p + ".verdicts"
        extract_replay(res.out_path, vp, tag="VERDICT")
        verdicts += read_ndjson(vp)
        os.remove(res.out_path)
        os.remove(vp)
        os.remove(p)
    if len(verdicts) != n:
        raise ToolError(f"FeltStreamTrace judged {len(verdicts)} of {n} recorded streams")
    return verdicts, n


def main(tier, replay=None):
    chk = Check("C18", tier)
    build_harness(["c18_codec"])
    cfg = "q" if tier == "quick" else "t"
    only = None
    if replay:
        obj = json.load(open(replay))["replay"]
        os.environ["VERIF_SEED"] = str(obj.get("seed", seed()))
        only = obj["item"]
        tier_h = "thorough"  # enumerate the whole corpus; --only selects the item
        if obj.get("path"):
            # the single codec path of the replay, with the predictions TLC made for it
            paths_all, _ = gen_paths(chk, "q" if len(obj["path"]) <= 4 else "t")
            sel = [p for p in read_ndjson(paths_all) if p["steps"] == obj["path"]]
            paths = os.path.join(workdir("c18"), "paths_replay.ndjson")
            write_ndjson(paths, sel)
        else:
            paths, _ = gen_paths(chk, "q")
        results, summary, str_p = run_harness(paths, "replay", tier_h, only=only)
        log(f"[C18] replay: {summary}")
        judge_findings(chk, results, tier_h)
        verdicts, n = validate_streams(chk, str_p, "replay")
        judge_streams(chk, verdicts, str_p, tier_h)
        return chk.finish()

    spec_selfcheck(chk)
    paths, n_paths = gen_paths(chk, cfg)
    results, summary, str_p = run_harness(paths, cfg, tier)
    log(f"[C18] harness: {summary}")
    skipped = [r for r in results if "skipped" in r]
    for s in skipped[:5]:
        log(f"[C18] corpus source skipped: {s['skipped']}: {str(s['why'])[:160]}")
    diag = judge_findings(chk, results, tier)

    verdicts, n_streams = validate_streams(chk, str_p, cfg)
    items_read = STREAM_ITEMS
    sdiag = judge_streams(chk, verdicts, str_p, tier)
    diag.update(sdiag)

    # anti-vacuity of the V binding: corrupt one expected field per program, every stream must be rejected
    small = os.path.join(workdir("c18"), "streams_tamper.ndjson")
    with open(str_p) as f, open(small, "w") as g:
        k = 0
        for line in f:
            if k < 12 and json.loads(line)["exp"]["types"]:
                g.write(line)
                k += 1
    tv, tn = validate_streams(chk, small, "tamper", tamper="flip_first_type_info")
    if tn and not all(v["verdict"] == "mismatch" for v in tv):
        raise ToolError("FeltStreamTrace accepted a corrupted expectation (self-test failed)")
    log(f"[C18] self-test: {tn} streams with a corrupted expected type-info all rejected")
    os.remove(small)

    items = [r for r in results if "item" in r and "finding" not in r]
    feats = {}
    for it in items:
        for f in it["features"]:
            feats[f] = feats.get(f, 0) + 1
    for it in items[:400:80]:
        chk.sample({"item": it["item"], "origin": it["origin"], "init": it["init"], "paths": it["paths"],
                    "casm_compared": it["casm_ok"], "statements": it["stmts"]})
    for p in read_ndjson(paths)[:3000:1100]:
        chk.sample({"path": p["steps"], "init": p["init"], "predicted": p["exp"][-1]})
    chk.cov["traces_validated_against_impl"] = summary.get("paths", 0) + sum(1 for v in verdicts if v["verdict"] == "ok")
    chk.assumptions = [
        "isomorphism is decided by the harness' own structural checker (not CanonicalReplacer / PartialEq)",
        "StripDebug is a harness transformation (debug_name := None everywhere); the repository has no such function",
        "programs whose original does not compile to CASM (fragments, deliberately invalid test inputs, synthetic "
        "codec-only programs) are checked for fidelity only",
        "felt-stream grammar: ids >= 2^30 are outside the model (such programs are skipped for binding V)",
        "the text grammar (LALRPOP) and serde_json are exercised, not modelled",
    ]
    os.remove(str_p)
    return chk.finish({
        "exhaustive": True,
        "codec_paths": n_paths,
        "programs": summary.get("items", 0),
        "programs_with_casm_comparison": summary.get("items_with_casm", 0),
        "path_executions": summary.get("paths", 0),
        "casm_compilations": summary.get("casm_compiles", 0),
        "felt_streams_validated": n_streams,
        "felt_stream_items": items_read,
        "distinct_nontrivial": sum(1 for it in items if it["paths"] > 0 and it["stmts"] >= 3),
        "distinct_nontrivial_rule": "programs with >= 3 statements on which at least one TLC path was executed",
        "format_features": feats,
        "diagnostics": diag,
        "corpus_sources_skipped": len(skipped),
        "corpus_texts_not_a_program": summary.get("unparsable_corpus_texts", 0),
        "tlc_configs": [f"MCSierraCodec_{cfg}", "FeltStreamTrace"] + [f"MCSierraCodec_bug_{b}" for b in BUGS],
    })


def judge_streams(chk, verdicts, str_p, tier):
    diag = {}
    bad = {v["id"]: v for v in verdicts if v["verdict"] != "ok"}
    if not bad:
        return diag
    recs = {}
    with open(str_p) as f:
        for line in f:
            r = json.loads(line)
            if r["id"] in bad:
                recs[r["id"]] = r
    for pid, v in bad.items():
        if v["verdict"] == "drift":
            diag["format_drift"] = diag.get("format_drift", 0) + 1
            if diag["format_drift"] <= 3:
                log(f"[C18] diagnostic format_drift: {pid}: {v['why']} at word {v['at']} ({v['section']} #{v['item']})")
            continue
        diag["_stream_mismatches"] = diag.get("_stream_mismatches", 0) + 1
        if diag["_stream_mismatches"] > 8:
            continue  # one root cause: a handful of replay files is enough
        rec = recs.get(pid, {})
        sec, k = v["section"], v["item"]
        exp_item = None
        try:
            exp_item = rec["exp"][sec][k]
        except (KeyError, IndexError, TypeError):
            pass
        key = {"kind": "felt_stream_means_other_program", "section": sec}
        chk.violation(key, {"item": pid, "seed": seed(), "tier": tier, "path": [], "section": sec, "index": k, "word": v["at"],
                            "program_item": exp_item, "what": rec.get("what"),
                            "words_near": rec.get("w", [])[max(0, v["at"] - 3):v["at"] + 12]},
                      f"felt stream of {pid} ({rec.get('what')}), read by the format grammar, holds a different "
                      f"{sec} item #{k} than the program: {v['why']}")
    return diag

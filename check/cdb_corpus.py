"""Sources shared by C12 and C20: the library crate `vlib` (many kinds of definitions that dependents
reach *through* the dependency), the catalogue of dependent features and the seeded generator of
dependent programs, and the corpus of single-file programs taken from the repository."""
import glob
import os

from lib import REPO

# ---------------------------------------------------------------------------------------------
# the library crate

VLIB_FILES = {
    "lib.cairo": """pub mod shapes;
pub mod traits;
pub mod consts;
pub mod ext;
pub mod mac;
pub mod generics;
pub mod comp;
pub mod attrs;

pub use shapes::{Color, Point, PointTrait, Shape, ShapeTrait};
pub use consts::BASE as BASE_ALIAS;
""",
    "shapes.cairo": """use core::dict::Felt252Dict;

#[derive(Copy, Drop, Debug, PartialEq, Serde, Default, Hash)]
pub struct Point {
    pub x: u32,
    pub y: u32,
}

#[derive(Copy, Drop, Debug, PartialEq, Serde, Default)]
pub enum Color {
    #[default]
    Red,
    Green,
    Blue: u8,
    Mix: (u8, u8),
}

#[derive(Drop, Clone, Debug, PartialEq, Serde)]
pub enum Shape {
    Dot: Point,
    Line: (Point, Point),
    Poly: Array<Point>,
    Nothing,
}

#[derive(Drop, Clone, Debug, PartialEq)]
pub struct Wrapper<T> {
    pub inner: T,
    pub tag: felt252,
}

#[derive(Destruct, Default)]
pub struct Bag {
    pub items: Felt252Dict<u32>,
    pub count: u32,
}

#[generate_trait]
pub impl PointImpl of PointTrait {
    fn new(x: u32, y: u32) -> Point {
        Point { x, y }
    }
    fn norm1(self: @Point) -> u32 {
        *self.x + *self.y
    }
    fn scale(ref self: Point, k: u32) {
        self.x *= k;
        self.y *= k;
    }
}

pub impl PointAdd of core::traits::Add<Point> {
    fn add(lhs: Point, rhs: Point) -> Point {
        Point { x: lhs.x + rhs.x, y: lhs.y + rhs.y }
    }
}

pub impl PointIntoFelt of Into<Point, felt252> {
    fn into(self: Point) -> felt252 {
        self.x.into() * 0x100000000 + self.y.into()
    }
}

#[generate_trait]
pub impl ShapeImpl of ShapeTrait {
    fn weight(self: @Shape) -> u32 {
        match self {
            Shape::Dot(p) => p.norm1(),
            Shape::Line((a, b)) => a.norm1() + b.norm1(),
            Shape::Poly(ps) => {
                let mut s = 0;
                for p in ps.span() {
                    s += p.norm1();
                }
                s
            },
            Shape::Nothing => 0,
        }
    }
    fn color_code(c: Color) -> felt252 {
        match c {
            Color::Red => 'r',
            Color::Green => 'g',
            Color::Blue(b) => b.into(),
            Color::Mix((a, b)) => a.into() * 256 + b.into(),
        }
    }
}

#[generate_trait]
pub impl BagImpl of BagTrait {
    fn put(ref self: Bag, k: felt252, v: u32) {
        self.items.insert(k, v);
        self.count += 1;
    }
    fn get(ref self: Bag, k: felt252) -> u32 {
        self.items.get(k)
    }
}
""",
    "traits.cairo": """pub trait Describe<T> {
    const LEVEL: u32;
    type Out;
    fn code(self: @T) -> felt252;
    fn double_code(self: @T) -> felt252 {
        Self::code(self) * 2
    }
    fn out(self: @T) -> Self::Out;
}

pub impl DescribeU32 of Describe<u32> {
    const LEVEL: u32 = 3;
    type Out = u64;
    fn code(self: @u32) -> felt252 {
        (*self).into()
    }
    fn out(self: @u32) -> u64 {
        (*self).into() * 2
    }
}

pub impl DescribeBool of Describe<bool> {
    const LEVEL: u32 = 1;
    type Out = felt252;
    fn code(self: @bool) -> felt252 {
        if *self {
            1
        } else {
            0
        }
    }
    fn double_code(self: @bool) -> felt252 {
        7
    }
    fn out(self: @bool) -> felt252 {
        Self::code(self) + 10
    }
}

pub impl DescribeArr<T, impl D: Describe<T>, +Drop<T>> of Describe<Array<T>> {
    const LEVEL: u32 = 7;
    type Out = usize;
    fn code(self: @Array<T>) -> felt252 {
        let mut acc = 0;
        for x in self.span() {
            acc += D::code(x);
        }
        acc
    }
    fn out(self: @Array<T>) -> usize {
        self.len()
    }
}

pub impl DescribeAlias = DescribeU32;

pub fn level_of<T, impl D: Describe<T>>() -> u32 {
    D::LEVEL
}

pub trait Animal {
    fn legs() -> u32;
    fn noise() -> ByteArray {
        "..."
    }
}

pub impl Dog of Animal {
    fn legs() -> u32 {
        4
    }
    fn noise() -> ByteArray {
        "woof"
    }
}

pub impl Bird of Animal {
    fn legs() -> u32 {
        2
    }
}

pub fn total_legs<impl A: Animal, impl B: Animal>() -> u32 {
    A::legs() + B::legs()
}

pub trait Cheap<T> {
    fn cheap(self: @T) -> bool;
}

pub impl CheapCopy<T, +Copy<T>> of Cheap<T> {
    fn cheap(self: @T) -> bool {
        true
    }
}

pub impl CheapNoCopy<T, -Copy<T>> of Cheap<T> {
    fn cheap(self: @T) -> bool {
        false
    }
}

pub trait Outer {
    impl Inner: Animal;
    fn outer_legs() -> u32 {
        Self::Inner::legs() * 10
    }
}

pub impl OuterDog of Outer {
    impl Inner = Dog;
}
""",
    "consts.cairo": """use super::shapes::{Color, Point};

pub const BASE: u32 = 10;
pub const BIG: u256 = 0x100000000000000000000000000000001;
pub const ORIGIN: Point = Point { x: 1, y: 2 };
pub const PAIR: (u8, felt252) = (3, 'abc');
pub const COLOR: Color = Color::Blue(7);
pub const DERIVED: u32 = BASE * 4 + 2;
pub const NEG: i16 = -300;
pub const FLAG: bool = BASE > 3;
pub const SHORT: felt252 = 'vlib';
pub const NZ: NonZero<u32> = 7;
const HIDDEN: u32 = 99;

pub fn base_plus(x: u32) -> u32 {
    x + BASE + DERIVED
}

pub fn origin() -> Point {
    ORIGIN
}

pub fn hidden_plus(x: u32) -> u32 {
    x + HIDDEN
}

pub fn big_low() -> u128 {
    BIG.low
}

pub fn color() -> Color {
    COLOR
}

pub fn neg() -> i16 {
    NEG
}
""",
    "ext.cairo": """use core::RangeCheck;

#[allow(extern_outside_corelib)]
pub extern fn u16_wide_mul(lhs: u16, rhs: u16) -> u32 implicits() nopanic;

#[allow(extern_outside_corelib)]
pub extern fn u8_overflowing_add(lhs: u8, rhs: u8) -> Result<u8, u8> implicits(RangeCheck) nopanic;

#[allow(extern_outside_corelib)]
extern fn bool_not_impl(a: bool) -> (bool,) implicits() nopanic;

pub fn wide(a: u16, b: u16) -> u32 {
    u16_wide_mul(a, b)
}

pub fn sat_add(a: u8, b: u8) -> u8 {
    match u8_overflowing_add(a, b) {
        Ok(v) => v,
        Err(_) => 255,
    }
}

pub fn not(a: bool) -> bool {
    let (r,) = bool_not_impl(a);
    r
}
""",
    "mac.cairo": """use super::shapes::Point;

pub macro add_three {
    ($x:expr) => { $x + 3 };
}

macro twice {
    ($x:expr) => { $x * 2 };
}

pub fn plus3(x: u32) -> u32 {
    add_three!(x)
}

pub fn doubled(x: u32) -> u32 {
    twice!(x) + twice!(1)
}

pub fn fmt_point(p: @Point) -> ByteArray {
    format!("({}, {})", *p.x, *p.y)
}

pub fn check_nonzero(x: u32) {
    assert!(x != 0, "zero {}", x);
}

pub fn arr3() -> Array<u32> {
    array![1, 2, 3]
}

pub fn print_dbg(p: Point) -> ByteArray {
    format!("{:?}", p)
}
""",
    "generics.cairo": """pub fn pair_swap<A, B, +Drop<A>, +Drop<B>>(p: (A, B)) -> (B, A) {
    let (a, b) = p;
    (b, a)
}

pub fn repeat<T, const N: usize, +Copy<T>, +Drop<T>>(x: T) -> Array<T> {
    let mut a = array![];
    let mut i = 0;
    while i != N {
        a.append(x);
        i += 1;
    }
    a
}

pub fn sum3(a: [u32; 3]) -> u32 {
    let [x, y, z] = a;
    x + y + z
}

pub fn apply_twice<F, +Drop<F>, +Copy<F>, +core::ops::Fn<F, (u32,)>[Output: u32]>(f: F, x: u32) -> u32 {
    f(f(x))
}

pub fn largest<T, +PartialOrd<T>, +Copy<T>, +Drop<T>>(a: T, b: T) -> T {
    if a > b {
        a
    } else {
        b
    }
}

#[derive(Drop, Copy)]
pub struct Tagged<const TAG: felt252> {
    pub v: u32,
}

pub fn tag_of<const TAG: felt252>(t: Tagged<TAG>) -> felt252 {
    TAG + t.v.into()
}

pub fn opt_or<T, +Drop<T>>(o: Option<T>, d: T) -> T {
    match o {
        Some(v) => v,
        None => d,
    }
}
""",
    "comp.cairo": """use super::consts::BASE;
use super::shapes::Point;

pub fn sum_sq(n: u32) -> u32 {
    let sq = |a: u32| a * a;
    let mut s = 0;
    let mut i = 0;
    loop {
        if i == n {
            break s;
        }
        s += sq(i);
        i += 1;
    }
}

pub fn mapped(o: Option<u32>) -> Option<u32> {
    o.map(|v| v + BASE)
}

pub fn counter(n: u32) -> u32 {
    let mut c = 0;
    for _i in 0..n {
        c += 2;
    }
    c
}

pub fn capture(k: u32, x: u32) -> u32 {
    let addk = |v: u32| v + k;
    addk(x) + addk(1)
}

pub fn rec_fact(n: u64) -> u64 {
    if n == 0 {
        1
    } else {
        n * rec_fact(n - 1)
    }
}

pub fn may_panic(x: u8) -> u8 {
    if x > 100 {
        panic!("too big: {}", x)
    }
    x + 1
}

pub fn nopanic_id(x: felt252) -> felt252 nopanic {
    x
}

// declares implicits that neither its body nor a callee uses (kept in a signature for stability): they are part
// of the function's signature all the same
#[inline(never)]
pub fn declared_implicit(x: u128) -> u128 implicits(core::RangeCheck) nopanic {
    x
}

#[inline(never)]
pub fn declared_implicits2(x: felt252) -> felt252 implicits(core::pedersen::Pedersen, core::integer::Bitwise) nopanic {
    x
}

pub fn first(a: @Array<u32>) -> u32 {
    *a.at(0)
}

pub fn boxed(b: Box<Point>) -> u32 {
    b.unbox().x
}

pub fn early(a: Array<u32>) -> Option<u32> {
    let mut sp = a.span();
    let v = *sp.pop_front()?;
    Some(v + 1)
}

pub fn let_else(o: Option<u32>) -> u32 {
    let Some(v) = o else {
        return 0;
    };
    v
}

pub fn while_let(mut sp: Span<u32>) -> u32 {
    let mut s = 0;
    while let Some(v) = sp.pop_front() {
        s += *v;
    }
    s
}

pub fn snap_match(p: @Point) -> u32 {
    let Point { x, y } = p;
    *x * *y
}

pub fn value_match(x: felt252) -> u32 {
    match x {
        0 => 10,
        1 => 20,
        2 => 30,
        _ => 40,
    }
}

pub fn int_match(x: u8) -> felt252 {
    match x {
        0 => 'zero',
        1 => 'one',
        2 => 'two',
        3 => 'three',
        _ => 'many',
    }
}

pub fn div_nz(a: u32) -> u32 {
    let (q, r) = DivRem::div_rem(a, super::consts::NZ);
    q + r
}
""",
    "attrs.cairo": """#[inline(always)]
pub fn always_inl(x: felt252) -> felt252 {
    x * 3
}

#[inline(never)]
pub fn never_inl(x: felt252) -> felt252 {
    x * 5
}

#[inline]
pub fn plain_inl(x: felt252) -> felt252 {
    x + 11
}

#[deprecated(feature: "old_api", note: "use new_api")]
pub fn old_api() -> u32 {
    1
}

#[unstable(feature: "shaky")]
pub fn shaky() -> u32 {
    2
}

#[must_use]
pub fn must() -> u32 {
    3
}

#[must_use]
#[derive(Drop)]
pub struct Important {
    pub v: u32,
}

pub fn important() -> Important {
    Important { v: 4 }
}

pub(crate) fn crate_only() -> u32 {
    5
}

fn private_fn() -> u32 {
    6
}

pub fn uses_private() -> u32 {
    private_fn() + crate_only()
}

pub mod inner {
    pub fn deep() -> u32 {
        super::private_fn() + 1
    }
    pub mod deeper {
        pub const K: u32 = 42;
        pub fn k() -> u32 {
            K
        }
    }
}

#[phantom]
pub struct Ph {}
""",
}

VLIB = {"name": "vlib", "edition": "2024_07", "deps": [], "files": VLIB_FILES}

# ---------------------------------------------------------------------------------------------
# dependent features: (name, kind, uses, body of a function `fn f_<name>() -> felt252`)
# kind = which kind of definition of the library crate the feature reaches.

FEATURES = [
    ("struct_new", "struct+impl", "use vlib::{Point, PointTrait};",
     "let p = PointTrait::new(3, 4); p.norm1().into()"),
    ("struct_ref", "ref_self", "use vlib::{Point, PointTrait};",
     "let mut p = Point { x: 1, y: 2 }; p.scale(5); p.x.into() + p.y.into()"),
    ("op_impl", "operator_impl", "use vlib::Point;",
     "let p = Point { x: 1, y: 2 } + Point { x: 10, y: 20 }; p.into()"),
    ("derive_eq", "derive", "use vlib::Point;",
     "if (Point { x: 1, y: 2 } == Point { x: 1, y: 2 }) { 1 } else { 0 }"),
    ("derive_default", "derive", "use vlib::{Color, Point};",
     "let p: Point = Default::default(); let c: Color = Default::default(); p.x.into() + vlib::ShapeTrait::color_code(c)"),
    ("derive_serde", "derive", "use vlib::Shape; use vlib::Point;",
     "let mut out = array![]; Shape::Line((Point { x: 1, y: 2 }, Point { x: 3, y: 4 })).serialize(ref out); "
     "let mut sp = out.span(); let s: Shape = Serde::deserialize(ref sp).unwrap(); vlib::ShapeTrait::weight(@s).into()"),
    ("derive_hash", "derive", "use vlib::Point; use core::hash::{HashStateTrait, HashStateExTrait}; use core::poseidon::PoseidonTrait;",
     "PoseidonTrait::new().update_with(Point { x: 5, y: 6 }).finalize()"),
    ("derive_clone_dbg", "derive", "use vlib::Shape;",
     "let s = Shape::Poly(array![vlib::Point { x: 1, y: 1 }]); let t = s.clone(); let b: ByteArray = format!(\"{:?}\", t); b.len().into()"),
    ("enum_match", "enum", "use vlib::{Color, ShapeTrait};",
     "ShapeTrait::color_code(Color::Mix((2, 3))) + ShapeTrait::color_code(Color::Green)"),
    ("enum_match_local", "enum", "use vlib::Color;",
     "match Color::Blue(9) { Color::Red => 1, Color::Green => 2, Color::Blue(b) => b.into(), Color::Mix(_) => 4 }"),
    ("enum_loop", "enum+loop", "use vlib::{Shape, Point, ShapeTrait};",
     "let s = Shape::Poly(array![Point { x: 1, y: 2 }, Point { x: 3, y: 4 }]); s.weight().into()"),
    ("generic_struct", "generic_struct", "use vlib::shapes::Wrapper;",
     "let w = Wrapper::<u8> { inner: 7, tag: 'w' }; let v = w.clone(); v.tag + v.inner.into()"),
    ("dict_struct", "destruct", "use vlib::shapes::{Bag, BagTrait};",
     "let mut b: Bag = Default::default(); b.put('k', 5); b.get('k').into() + b.count.into()"),
    ("trait_default", "trait_default_fn", "use vlib::traits::Describe;",
     "let x: u32 = 21; x.double_code() + true.double_code()"),
    ("assoc_const", "assoc_const", "use vlib::traits::{Describe, DescribeU32, level_of};",
     "(DescribeU32::LEVEL + level_of::<Array<u32>>() + level_of::<bool>()).into()"),
    ("assoc_type", "assoc_type", "use vlib::traits::Describe;",
     "let x: u32 = 4; let o: u64 = x.out(); o.into()"),
    ("generic_impl", "generic_impl", "use vlib::traits::Describe;",
     "let a: Array<u32> = array![1, 2, 3]; a.code() + a.out().into()"),
    ("generic_impl_nested", "generic_impl", "use vlib::traits::Describe;",
     "let a: Array<Array<bool>> = array![array![true, false], array![true]]; a.code() + a.double_code()"),
    ("impl_alias", "impl_alias", "use vlib::traits::{Describe, DescribeAlias};",
     "DescribeAlias::code(@5_u32) + DescribeAlias::LEVEL.into()"),
    ("impl_generic_param", "impl_param", "use vlib::traits::{Bird, Dog, total_legs};",
     "total_legs::<Dog, Bird>().into()"),
    ("trait_default_noself", "trait_default_fn", "use vlib::traits::{Animal, Bird, Dog};",
     "let a: ByteArray = Dog::noise(); let b: ByteArray = Bird::noise(); (a.len() + b.len()).into()"),
    ("impl_impl", "impl_impl", "use vlib::traits::{Outer, OuterDog};",
     "OuterDog::outer_legs().into()"),
    ("const_simple", "const", "use vlib::consts;",
     "(consts::BASE + consts::DERIVED).into() + consts::SHORT"),
    ("const_struct", "const", "use vlib::consts;",
     "let p = consts::ORIGIN; let (a, b) = consts::PAIR; p.x.into() + a.into() + b"),
    ("const_enum", "const", "use vlib::consts; use vlib::ShapeTrait;",
     "ShapeTrait::color_code(consts::COLOR) + ShapeTrait::color_code(consts::color())"),
    ("const_misc", "const", "use vlib::consts;",
     "let n: felt252 = consts::neg().into(); let f = if consts::FLAG { 1 } else { 0 }; n + f + consts::big_low().into()"),
    ("const_via_fn", "const", "use vlib::consts;",
     "(consts::base_plus(1) + consts::hidden_plus(2) + vlib::BASE_ALIAS).into()"),
    ("const_in_const", "const", "use vlib::consts;",
     "const LOCAL: u32 = consts::BASE * 3; LOCAL.into()"),
    ("extern_direct", "extern_fn", "use vlib::ext;",
     "ext::u16_wide_mul(300, 300).into()"),
    ("extern_match", "extern_fn", "use vlib::ext;",
     "let r = match ext::u8_overflowing_add(250, 10) { Ok(v) => v, Err(v) => v }; r.into() + ext::sat_add(200, 100).into()"),
    ("extern_wrapped", "extern_fn", "use vlib::ext;",
     "if ext::not(false) { ext::wide(2, 3).into() } else { 0 }"),
    ("macro_in_lib", "inline_macro", "use vlib::mac;",
     "(mac::plus3(4) + mac::doubled(5)).into()"),
    ("macro_exported", "inline_macro", "use vlib::mac::add_three;",
     "let y: u32 = 5; let z: u32 = add_three!(y); z.into()"),
    ("macro_format", "core_macro", "use vlib::mac; use vlib::Point;",
     "let s = mac::fmt_point(@Point { x: 8, y: 9 }); let d = mac::print_dbg(Point { x: 1, y: 2 }); (s.len() + d.len()).into()"),
    ("macro_assert", "core_macro", "use vlib::mac;",
     "mac::check_nonzero(3); mac::arr3().len().into()"),
    ("generic_fn", "generic_fn", "use vlib::generics;",
     "let (a, b) = generics::pair_swap((1_u8, 'x')); a + b.into()"),
    ("const_generic", "const_generic", "use vlib::generics;",
     "let a = generics::repeat::<u16, 3>(7); a.len().into() + generics::sum3([1, 2, 3]).into()"),
    ("const_generic_struct", "const_generic", "use vlib::generics::{Tagged, tag_of};",
     "tag_of(Tagged::<'t'> { v: 2 })"),
    ("closure_arg", "closure", "use vlib::generics;",
     "generics::apply_twice(|v: u32| v * 3, 2).into()"),
    ("generic_bound", "generic_fn", "use vlib::generics;",
     "generics::largest(3_u64, 9_u64).into() + generics::opt_or(Option::<felt252>::None, 5)"),
    ("closure_in_lib", "closure", "use vlib::comp;",
     "(comp::sum_sq(4) + comp::capture(3, 4)).into()"),
    ("closure_map", "closure", "use vlib::comp;",
     "comp::mapped(Some(1)).unwrap().into()"),
    ("loops_in_lib", "loop", "use vlib::comp;",
     "(comp::counter(5) + comp::while_let(array![1, 2, 3].span())).into()"),
    ("recursion", "recursion", "use vlib::comp;",
     "comp::rec_fact(5).into()"),
    ("panic_in_lib", "panic", "use vlib::comp;",
     "comp::may_panic(5).into() + comp::nopanic_id(2)"),
    ("snap_box", "snapshot_box", "use vlib::comp; use vlib::Point;",
     "(comp::first(@array![4, 5]) + comp::boxed(BoxTrait::new(Point { x: 6, y: 7 })) + comp::snap_match(@Point { x: 2, y: 3 })).into()"),
    ("declared_implicits", "signature", "use vlib::comp;",
     "comp::declared_implicit(7).into() + comp::declared_implicits2(3)"),
    ("early_return", "error_propagation", "use vlib::comp;",
     "(comp::early(array![3]).unwrap() + comp::let_else(None) + comp::let_else(Some(2))).into()"),
    ("value_match", "match_value", "use vlib::comp;",
     "(comp::value_match(2) + comp::value_match(7)).into() + comp::int_match(3) + comp::int_match(1)"),
    ("nonzero_const", "const", "use vlib::comp; use vlib::consts;",
     "let (q, _r) = DivRem::div_rem(30_u32, consts::NZ); (q + comp::div_nz(23)).into()"),
    ("negative_impl", "negative_impl", "use vlib::traits::Cheap;",
     "let a: Array<u8> = array![]; let c1 = if a.cheap() { 1 } else { 2 }; let c2 = if 5_u8.cheap() { 10 } else { 20 }; c1 + c2"),
    ("inline_attrs", "inline_attr", "use vlib::attrs;",
     "attrs::always_inl(2) + attrs::never_inl(3) + attrs::plain_inl(4)"),
    ("nested_mods", "nested_module", "use vlib::attrs::inner;",
     "(inner::deep() + inner::deeper::k() + inner::deeper::K + vlib::attrs::uses_private()).into()"),
    ("must_use_ok", "must_use", "use vlib::attrs;",
     "let v = attrs::must(); let i = attrs::important(); (v + i.v).into()"),
    ("feature_ok", "feature_attr", "use vlib::attrs;",
     "#[feature(\"old_api\")] let a = attrs::old_api(); #[feature(\"shaky\")] let b = attrs::shaky(); (a + b).into()"),
    # ----- features that must produce diagnostics (compared as text) -----
    ("err_private", "visibility!", "use vlib::attrs;", "attrs::private_fn().into()"),
    ("err_crate_only", "visibility!", "use vlib::attrs;", "attrs::crate_only().into()"),
    ("err_private_const", "visibility!", "use vlib::consts;", "consts::HIDDEN.into()"),
    ("macro_path", "inline_macro", "use vlib::mac;", "let y: u32 = 1; let z: u32 = mac::twice!(y); z.into()"),
    ("warn_deprecated", "feature_attr!", "use vlib::attrs;", "attrs::old_api().into()"),
    ("warn_unstable", "feature_attr!", "use vlib::attrs;", "attrs::shaky().into()"),
    ("warn_must_use", "must_use!", "use vlib::attrs;", "attrs::must(); attrs::important(); 0"),
    ("err_type", "type_error!", "use vlib::Point;", "let p: Point = 5; 0"),
    ("err_no_impl", "missing_impl!", "use vlib::traits::Describe;", "let x: u8 = 1; x.code()"),
    ("err_missing_arm", "match_error!", "use vlib::Color;", "match Color::Red { Color::Red => 1, Color::Green => 2 }"),
    ("err_moved", "lowering_error!", "use vlib::Shape;", "let s = Shape::Nothing; let t = s; let u = s; 0"),
    ("err_phantom", "phantom!", "use vlib::attrs::Ph;", "let _p = Ph {}; 0"),
    ("err_no_member", "member_error!", "use vlib::Point;", "let p = Point { x: 1, y: 2 }; p.z.into()"),
    ("err_ambiguous", "inference_error!", "use vlib::traits::Describe;", "let a = array![]; a.code()"),
]


def feature_fn(feat):
    name, _kind, uses, body = feat
    uses_in = "\n".join("    " + u.strip() + ";" for u in uses.split(";") if u.strip())
    return f"mod m_{name} {{\n{uses_in}\n    pub fn f() -> felt252 {{\n        {body}\n    }}\n}}\n"


def make_dependent(feats, tag):
    """A dependent program using the given features of the library crate."""
    parts = [f"// dependent {tag}\n"]
    for f in feats:
        parts.append(feature_fn(f))
    calls = " + ".join(f"m_{f[0]}::f()" for f in feats) or "0"
    parts.append(f"fn main() -> felt252 {{\n    {calls}\n}}\n")
    return "\n".join(parts)


def generated_dependents(rng, n_multi):
    """One dependent per feature, plus `n_multi` seeded random combinations of 3-6 good features."""
    out = []
    for f in FEATURES:
        out.append({"name": "feat_" + f[0], "edition": "2024_07", "src": make_dependent([f], f[0]), "lib": True,
                    "kinds": [f[1]]})
    good = [f for f in FEATURES if not f[1].endswith("!")]
    for i in range(n_multi):
        k = rng.randint(3, 6)
        fs = rng.sample(good, k)
        if rng.random() < 0.3:
            fs.append(rng.choice([f for f in FEATURES if f[1].endswith("!") and f[0].startswith("warn_")]))
        out.append({"name": f"multi_{i}", "edition": "2024_07", "src": make_dependent(fs, f"multi_{i}"), "lib": True,
                    "kinds": sorted({f[1] for f in fs})})
    return out


def corpus_dependents():
    """Single-file programs of the repository (they depend on the core library only)."""
    out = []
    for f in sorted(glob.glob(os.path.join(REPO, "tests", "bug_samples", "*.cairo"))):
        n = os.path.basename(f)[:-6]
        if n == "lib":
            continue
        out.append({"name": "bug_" + n, "edition": "2023_10", "src": open(f).read(), "lib": False, "kinds": ["corpus"]})
    for f in sorted(glob.glob(os.path.join(REPO, "examples", "*.cairo"))):
        n = os.path.basename(f)[:-6]
        if n == "lib":
            continue
        out.append({"name": "ex_" + n, "edition": "2023_10", "src": open(f).read(), "lib": False, "kinds": ["corpus"]})
    return out


def two_crate_project():
    """C12: a project with two crates (application + library), both compiled."""
    good = [f for f in FEATURES if not f[1].endswith("!")]
    app = {"name": "app", "edition": "2024_07", "deps": ["vlib"],
           "files": {"lib.cairo": make_dependent(good, "two_crates")}}
    return {"name": "two_crates", "crates": [app, VLIB], "main": ["app", "vlib"]}


CYCLES_PLAIN_SRC = """// plain call cycles (no self loops): which member of a cycle gets the `withdraw_gas` depends on the SCC
// representative, i.e. on which member the database interned first (known finding of C12)
#[inline(never)]
fn b_ping(n: felt252) -> felt252 {
    if n == 0 {
        0
    } else {
        z_pong(n - 1) + 1
    }
}
#[inline(never)]
fn z_pong(n: felt252) -> felt252 {
    if n == 0 {
        1
    } else {
        b_ping(n - 1) + 2
    }
}
#[inline(never)]
fn d_three_a(n: u32) -> u32 {
    if n == 0 {
        0
    } else {
        y_three_b(n - 1)
    }
}
#[inline(never)]
fn y_three_b(n: u32) -> u32 {
    if n < 2 {
        1
    } else {
        e_three_c(n - 2) + d_three_a(n - 1)
    }
}
#[inline(never)]
fn e_three_c(n: u32) -> u32 {
    if n == 0 {
        2
    } else {
        d_three_a(n - 1)
    }
}
fn a_main(n: u32) -> felt252 {
    b_ping(3) + d_three_a(n).into()
}
"""

CYCLES_SRC = """// a call cycle whose members use different implicits and are also self-recursive (so both are in the gas
// feedback set whichever is met first), called from a function with a partial implicit precedence: the order
// of the implicits and the assembly must not depend on which member the database met first
#[inline(never)]
fn x_ping2(n: u32, a: felt252) -> felt252 {
    if n == 0 {
        core::pedersen::pedersen(a, 1)
    } else if n == 1 {
        x_ping2(0, a)
    } else {
        m_pong2(n - 1, a)
    }
}
#[inline(never)]
fn m_pong2(n: u32, a: felt252) -> felt252 {
    if n == 0 {
        let w: u64 = 12;
        (w & 10).into()
    } else if n == 1 {
        m_pong2(0, a)
    } else {
        x_ping2(n - 1, a + 1)
    }
}
#[implicit_precedence(core::RangeCheck)]
fn a_main(n: u32) -> felt252 {
    x_ping2(n, 5)
}
"""


def cycles_project(plain=False):
    """C12: one crate whose functions form call cycles.  Sorted by path, the targets of the prefix queries (the
    last function / the middle one) are members that the normal assembly order does not meet first."""
    crate = {"name": "cyc", "edition": "2024_07", "deps": [], "files": {"lib.cairo": CYCLES_PLAIN_SRC if plain else CYCLES_SRC}}
    return {"name": "cycles_plain" if plain else "cycles", "crates": [crate], "main": ["cyc"]}


AMBIG_SRC = """mod t {
    pub trait Show<T> {
        fn show(self: T) -> felt252;
    }
}
mod s {
    #[derive(Drop)]
    pub struct S {}
}
mod a {
    pub impl I1 of super::t::Show<super::s::S> {
        fn show(self: super::s::S) -> felt252 {
            1
        }
    }
}
mod b {
    pub impl I2 of super::t::Show<super::s::S> {
        fn show(self: super::s::S) -> felt252 {
            2
        }
    }
}
mod c {
    use super::a::I1;
    use super::b::I2;
    use super::t::Show;
    fn f() -> felt252 {
        super::s::S {}.show()
    }
}
"""


def ambig_project():
    """C12: two non-global impls of one trait brought in by `use`; the ambiguity diagnostic lists them (known finding: in
    intern-id order, which an earlier query on module `b` changes)."""
    crate = {"name": "amb", "edition": "2024_07", "deps": [], "files": {"lib.cairo": AMBIG_SRC}}
    return {"name": "ambig_impls", "crates": [crate], "main": ["amb"]}

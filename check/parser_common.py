"""Shared machinery of C09 (front end is total) and C10 (syntax tree is lossless).

Specs: specs/ParserCursor/{ParserCursor, MCParserCursor, ParserCursorTrace, LexModel}.tla
Harness: harness/src/bin/parse_trace.rs (+ harness/src/parser_gen.rs)

Bindings:
  R  LexModel (TLC) enumerates ALL class strings / token soups up to a length; every one is concretised
     and run through the real lexer / parser / formatter / diagnostics; the model's byte-length
     prediction is compared with the real lexer's tiling and the real tree's root width.
  V  for every input the harness records (lexer terminals, tree leaves); ParserCursorTrace accepts the
     recording iff some sequence of ParserCursor cursor actions explains it; every ParserCursor
     invariant is evaluated in every explored state.
"""
import concurrent.futures as cf
import hashlib
import json
import os
import subprocess

from lib import (BIN, JAVA_OPTS_TRACE, REPO, SPECS, ToolError, extract_replay, log, read_ndjson, tlc, workdir)

SPEC = os.path.join(SPECS, "ParserCursor")
# runs against another checkout (VERIF_REPO, mutation testing) use their own scratch directories / TLC names
WTAG = "" if os.path.realpath(REPO) == "/repo" else "_" + hashlib.sha256(os.path.realpath(REPO).encode()).hexdigest()[:6]
NEST_CAP = 200
BUGS = ["skip_drops_trailing", "eof_drops_pending", "attach_twice", "skip_node_with_pending", "eof_no_offset_fix",
        "take_doc_offset", "unglue_drops_trivia", "take_stale_offset"]
EXPECTED_BUG_INV = {"Lossless", "OffsetLaw", "PendingContiguous", "SpanLaw", "Final"}


def harness_bin():
    return os.path.join(BIN, "parse_trace")


# ------------------------------------------------------------------ TLC jobs

def run_jobs(jobs, max_parallel=4):
    """jobs: list of (key, callable).  Runs them concurrently; returns {key: result}; re-raises ToolError."""
    out = {}
    with cf.ThreadPoolExecutor(max_workers=max_parallel) as ex:
        futs = {ex.submit(fn): key for key, fn in jobs}
        for f in cf.as_completed(futs):
            out[futs[f]] = f.result()
    return out


def tlc_retry(*a, **kw):
    """lib.tlc, retried when the JVM was killed from outside (exit 143 / 137: SIGTERM / SIGKILL by somebody
    else's clean-up on this shared machine) - that is neither a verdict nor a property of the model."""
    for attempt in range(3):
        r = tlc(*a, **kw)
        if not r.violated and any(e in ("tlc exit code 143", "tlc exit code 137") for e in r.errors):
            log(f"  (TLC {kw.get('name', a[3] if len(a) > 3 else '')} was killed from outside, retrying)")
            continue
        return r
    return r


def write_cfg(path, text):
    with open(path, "w") as f:
        f.write(text)


def mc_cfg(name, bug, max_terms, profile, max_miss=1):
    """MCParserCursor configurations are generated (constants differ per tier / BUG variant)."""
    p = os.path.join(SPEC, f"MCParserCursor_{name}.cfg")
    write_cfg(p, f"""CONSTANTS
  BUG = "{bug}"
  MaxMiss = {max_miss}
  MaxTerms = {max_terms}
  Profile = "{profile}"
INIT Init
NEXT Next
INVARIANT Lossless
INVARIANT OffsetLaw
INVARIANT PendingContiguous
INVARIANT SpanLaw
INVARIANT DiagInside
INVARIANT Final
CHECK_DEADLOCK FALSE
""")
    return os.path.basename(p)


def design_check(chk, tier, tag):
    """Exhaustive model check of the cursor protocol + the BUG variants (anti-vacuity)."""
    if tier == "quick":
        mains = [("full1", 1, "full", 3), ("min2", 2, "min", 3)]
        bugs = BUGS[:4] if tag.startswith("c10") else []
    else:
        mains = [("mid2", 2, "mid", 8), ("min3", 3, "min", 8)]
        bugs = BUGS
    jobs = []
    for (n, mt, prof, wk) in mains:
        cfg = mc_cfg(f"{tag}_{n}", "none", mt, prof)
        jobs.append((("main", n), lambda cfg=cfg, n=n, wk=wk: tlc_retry(SPEC, "MCParserCursor", cfg, f"{tag}_mc_{n}", workers=wk,
                                                               timeout=3000, heap="12g")))
    for b in bugs:
        cfg = mc_cfg(f"{tag}_bug_{b}", b, 2, "mid")
        jobs.append((("bug", b), lambda cfg=cfg, b=b: tlc_retry(SPEC, "MCParserCursor", cfg, f"{tag}_bug_{b}", workers=1, timeout=900,
                                                       heap="4g")))
    res = run_jobs(jobs, max_parallel=4)
    info = {"configs": [], "bug_variants_caught": {}}
    exhaustive = True
    for (kind, n), r in sorted(res.items()):
        if kind == "main":
            if r.errors:
                raise ToolError(f"TLC error in MCParserCursor/{n}: {r.errors[:2]}")
            if r.violated:
                # a violated design invariant is a defect of the model, it does not involve the repository
                raise ToolError(f"ParserCursor design invariant violated: {r.violated} (see {r.out_path})")
            chk.add_tlc(r)
            info["configs"].append({"name": n, "distinct_states": r.distinct, "generated": r.generated, "wall_s": round(r.wall, 1)})
            log(f"[{chk.prop}] design MCParserCursor/{n}: {r.distinct} distinct states, all invariants hold ({r.wall:.0f}s)")
        else:
            if not r.violated or not (set(r.violated) & EXPECTED_BUG_INV):
                raise ToolError(f"self-test: BUG variant {n} was NOT caught by the design invariants ({r.violated}, {r.errors[:2]})")
            info["bug_variants_caught"][n] = r.violated[0]
            try:
                os.remove(r.out_path)
            except OSError:
                pass
    if info["bug_variants_caught"]:
        log(f"[{chk.prop}] self-test: BUG variants caught: {info['bug_variants_caught']}")
    for f in os.listdir(SPEC):
        if f.startswith(f"MCParserCursor_{tag}_") and f.endswith(".cfg"):
            os.remove(os.path.join(SPEC, f))
    info["exhaustive"] = exhaustive
    return info


LEX_CFGS = {
    "quick": ["q_core", "q_full", "q_soupctx", "q_soupbare"],
    "thorough": ["t_core", "t_full", "t_soupctx", "t_soupbare", "t_soupfull"],
}


def gen_lexmodel(chk, cfgs, tag, dest, start_id=1):
    """Runs the LexModel generator configurations; writes all REPLAY payloads (with ids) to dest.
    Returns (count, per-config counts)."""
    jobs = []
    for c in cfgs:
        jobs.append((c, lambda c=c: tlc_retry(SPEC, "LexModel", f"LexModel_{c}.cfg", f"{tag}_lex_{c}", workers=2, timeout=3000, heap="6g")))
    res = run_jobs(jobs, max_parallel=5)
    n = 0
    per = {}
    wd = workdir("parser", tag)
    with open(dest, "w") as g:
        for c in cfgs:
            r = res[c]
            if r.errors or r.violated:
                raise ToolError(f"TLC error in LexModel/{c}: {r.errors[:2]} {r.violated}")
            chk.add_tlc(r)
            raw = os.path.join(wd, f"lex_{c}.raw")
            k = extract_replay(r.out_path, raw)
            os.remove(r.out_path)
            if k == 0 or k != r.distinct:
                raise ToolError(f"LexModel/{c}: {k} REPLAY lines for {r.distinct} states")
            with open(raw) as f:
                for line in f:
                    o = json.loads(line)
                    o["id"] = start_id + n
                    o["gen"] = c
                    g.write(json.dumps(o, separators=(",", ":")) + "\n")
                    n += 1
            os.remove(raw)
            per[c] = k
            log(f"[{chk.prop}] LexModel/{c}: {k} inputs ({r.wall:.0f}s)")
    return n, per


def gen_texts(cmd, dest, start_id, extra=()):
    args = [harness_bin(), cmd, dest] + list(extra) + ["--start-id", str(start_id)]
    r = subprocess.run(args, stdout=subprocess.PIPE, stderr=subprocess.STDOUT, text=True)
    if r.returncode != 0:
        raise ToolError(f"parse_trace {cmd} failed: {r.stdout[-2000:]}")
    info = json.loads(r.stdout.strip().splitlines()[-1])
    return info


def count_lines(path):
    n = 0
    with open(path, "rb") as f:
        for _ in f:
            n += 1
    return n


# ------------------------------------------------------------------ harness runs

def _run_once(inputs, outdir, mode, threads, stack_mb, budget_ms, trace_max, exclude, corrupt, timeout):
    cmd = [harness_bin(), "run", inputs, outdir, "--mode", mode, "--threads", str(threads), "--stack-mb", str(stack_mb),
           "--budget-ms", str(budget_ms), "--trace-max-terms", str(trace_max)]
    if exclude:
        cmd += ["--exclude", ",".join(str(x) for x in sorted(exclude))]
    if corrupt:
        cmd += ["--corrupt", str(corrupt)]
    try:
        r = subprocess.run(cmd, stdout=subprocess.PIPE, stderr=subprocess.PIPE, text=True, timeout=timeout)
    except subprocess.TimeoutExpired:
        return "timeout", None, ""
    if r.returncode == 0:
        return "ok", json.loads(r.stdout.strip().splitlines()[-1]), r.stderr
    if r.returncode == 3:
        raise ToolError(f"parse_trace: unusable inputs: {r.stderr[-2000:]}")
    return f"died({r.returncode})", None, r.stderr


def _inflight_ids(outdir):
    ids = []
    try:
        with open(os.path.join(outdir, "inflight")) as f:
            for line in f:
                t = line.strip().strip("\x00")
                if t and t != "-":
                    try:
                        ids.append(int(t))
                    except ValueError:
                        pass
    except OSError:
        pass
    return ids


def _load_inputs_by_id(inputs, ids):
    ids = set(ids)
    out = {}
    with open(inputs) as f:
        for i, line in enumerate(f):
            o = json.loads(line)
            if o.get("id", i) in ids:
                out[o["id"]] = o
    return out


def run_harness(inputs, outdir, mode="parse", threads=16, stack_mb=8, budget_ms=5000, trace_max=40, corrupt=0,
                timeout=3000):
    """Runs the batch.  A batch that dies (stack overflow / abort cannot be caught in-process) is bisected
    with the in-flight markers: every in-flight input is re-run alone; confirmed crashers are recorded and
    excluded, then the batch is re-run.  A suspected hang is re-run alone with 10x the budget before it is
    believed.  Returns (summary, problems) where problems is a list of result records."""
    os.makedirs(outdir, exist_ok=True)
    exclude = set()
    extra = []
    for attempt in range(8):
        st, summary, err = _run_once(inputs, outdir, mode, threads, stack_mb, budget_ms, trace_max, exclude, corrupt, timeout)
        if st == "ok":
            break
        if st == "timeout":
            raise ToolError(f"parse_trace batch exceeded {timeout}s ({inputs})")
        suspects = [x for x in _inflight_ids(outdir) if x not in exclude]
        recs = _load_inputs_by_id(inputs, suspects)
        confirmed = 0
        for sid, rec in recs.items():
            single = os.path.join(outdir, f"single_{sid}.ndjson")
            with open(single, "w") as f:
                f.write(json.dumps(rec) + "\n")
            st1, _s, err1 = _run_once(single, os.path.join(outdir, f"single_{sid}"), mode, 1, stack_mb, budget_ms * 10, 0, set(), 0,
                                      budget_ms * 10 / 1000 + 120)
            if st1.startswith("died"):
                confirmed += 1
                exclude.add(sid)
                text = rec.get("text")
                if text is None:
                    cpath = single + ".txt"
                    subprocess.run([harness_bin(), "concretise", single, cpath], check=True)
                    text = read_ndjson(cpath)[0]["text"]
                    os.remove(cpath)
                extra.append({"id": sid, "kind": "crash", "stage": mode, "detail": f"process {st1} (stack {stack_mb} MiB): {err1[-300:]}",
                              "signature": "", "text": text, "origin": {k: v for k, v in rec.items() if k != "text"}})
            os.remove(single)
        if confirmed == 0:
            raise ToolError(f"parse_trace {st} on {inputs} but no in-flight input reproduces it alone: {err[-1000:]}")
    else:
        raise ToolError("parse_trace: too many crashing inputs, giving up")
    problems = read_ndjson(os.path.join(outdir, "results.ndjson")) + extra
    # suspected hangs: re-run alone with 10x budget
    out = []
    for p in problems:
        if p["kind"] != "timeout_suspect":
            out.append(p)
            continue
        single = os.path.join(outdir, f"hang_{p['id']}.ndjson")
        rec = dict(p.get("origin") or {})
        rec.update({"k": rec.get("k", "text"), "id": p["id"]})
        if rec["k"] == "text":
            rec["text"] = p["text"]
        with open(single, "w") as f:
            f.write(json.dumps(rec) + "\n")
        st1, s1, _e = _run_once(single, os.path.join(outdir, f"hang_{p['id']}"), mode, 1, stack_mb, budget_ms * 10, 0, set(), 0,
                                budget_ms * 10 / 1000 + 120)
        if st1 == "ok":
            again = read_ndjson(os.path.join(outdir, f"hang_{p['id']}", "results.ndjson"))
            if any(q["kind"] == "timeout_suspect" for q in again):
                q = dict(p)
                q["kind"] = "hang"
                q["detail"] = f"no result within {budget_ms * 10} ms when run alone"
                out.append(q)
            else:
                log(f"  (input {p['id']} exceeded {budget_ms} ms in the batch but finishes alone - not a hang)")
                out.extend(q for q in again if q["kind"] != "timeout_suspect")
        elif st1.startswith("died"):
            q = dict(p)
            q["kind"] = "crash"
            q["detail"] = f"process {st1} when run alone"
            out.append(q)
        else:
            q = dict(p)
            q["kind"] = "hang"
            q["detail"] = f"no result within {budget_ms * 10} ms when run alone (process killed)"
            out.append(q)
        os.remove(single)
    return summary, out


# ------------------------------------------------------------------ trace validation

def shard_traces(path, k, outdir, limit=None):
    """Splits the trace file at reset boundaries into <= k shards of similar size.
    Returns (shard paths, {seq id: input id}, {seq id: multiplicity}, n traces)."""
    os.makedirs(outdir, exist_ok=True)
    groups = []
    cur = []
    idmap = {}
    mult = {}
    with open(path) as f:
        for line in f:
            if line.startswith('{"e":"reset"'):
                if cur:
                    groups.append(cur)
                cur = []
                o = json.loads(line)
                idmap[o["id"]] = o["input"]
                mult[o["id"]] = o.get("n", 1)
            cur.append(line)
    if cur:
        groups.append(cur)
    if limit is not None and len(groups) > limit:
        # deterministic thinning: keep every traces whose index falls on the stride
        stride = len(groups) / float(limit)
        groups = [groups[int(i * stride)] for i in range(limit)]
    # balance the shards by estimated cost (validation is roughly quadratic in the length of a trace):
    # longest traces first, each to the currently cheapest shard
    k = max(1, min(k, len(groups)))
    order = sorted(range(len(groups)), key=lambda i: -len(groups[i]))
    load = [0] * k
    members = [[] for _ in range(k)]
    for i in order:
        s = min(range(k), key=lambda j: load[j])
        members[s].append(i)
        load[s] += len(groups[i]) ** 2 + 50
    paths = []
    for s in range(k):
        if not members[s]:
            continue
        p = os.path.join(outdir, f"shard_{s}.ndjson")
        with open(p, "w") as g:
            for i in sorted(members[s]):
                g.writelines(groups[i])
        paths.append(p)
    return paths, idmap, mult, len(groups)


def validate_traces(chk, traces_path, tag, shards=8, limit=None, timeout=3000):
    """ParserCursorTrace over the recorded traces (sharded, one TLC per shard, -workers 1)."""
    wd = workdir("parser", tag, "shards")
    paths, idmap, mult, n_traces = shard_traces(traces_path, shards, wd, limit)
    if not paths:
        return {"traces": 0, "accepted": 0, "rejected": [], "invfail": [], "steps": 0, "events": 0, "idmap": idmap, "mult": mult}
    jobs = []
    for j, p in enumerate(paths):
        jobs.append((j, lambda j=j, p=p: tlc_retry(SPEC, "ParserCursorTrace", "ParserCursorTrace.cfg", f"{tag}_trace_{j}", workers=1,
                                             timeout=timeout, env={"TRACE": p}, java_opts=JAVA_OPTS_TRACE, heap="4g")))
    res = run_jobs(jobs, max_parallel=8)
    tot = {"traces": n_traces, "accepted": 0, "rejected": [], "invfail": [], "steps": 0, "events": 0, "seen": 0,
           "idmap": idmap, "mult": mult}
    for j, r in sorted(res.items()):
        if r.errors or r.violated:
            raise ToolError(f"TLC error in ParserCursorTrace shard {j}: {r.errors[:2]} {r.violated} (see {r.out_path})")
        chk.add_tlc(r)
        rp = r.out_path + ".result"
        if extract_replay(r.out_path, rp, tag="RESULT") != 1:
            raise ToolError(f"ParserCursorTrace shard {j}: no RESULT line (see {r.out_path})")
        o = read_ndjson(rp)[0]
        os.remove(rp)
        os.remove(r.out_path)
        tot["accepted"] += o["accepted"]
        tot["seen"] += o["seen"]
        tot["rejected"] += o["rejected"]
        tot["invfail"] += [tuple(x) for x in o["invfail"]]
        tot["steps"] += o["steps"]
        tot["events"] += o["events"]
    if tot["seen"] != n_traces:
        raise ToolError(f"ParserCursorTrace read {tot['seen']} inputs, {n_traces} were recorded")
    for p in paths:
        os.remove(p)
    return tot


def trace_text(traces_path, seq_ids):
    """The recorded events of the given traces (for diagnostics)."""
    want = set(seq_ids)
    out = {}
    cur = None
    with open(traces_path) as f:
        for line in f:
            if line.startswith('{"e":"reset"'):
                o = json.loads(line)
                cur = o["id"] if o["id"] in want else None
                if cur is not None:
                    out[cur] = []
            if cur is not None:
                out[cur].append(json.loads(line))
    return out


# ------------------------------------------------------------------ reporting helpers

def group_problems(problems, keyfn):
    groups = {}
    for p in problems:
        k = keyfn(p)
        if k is None:
            continue
        ks = json.dumps(k, sort_keys=True)
        groups.setdefault(ks, (k, []))[1].append(p)
    out = []
    for ks in sorted(groups):
        k, ps = groups[ks]
        ps.sort(key=lambda p: (len(p.get("text") or ""), p["id"]))
        out.append((k, ps))
    return out


def replay_inputs(replay_path, dest):
    """Turns a replay file written by Check.violation into a harness input file."""
    obj = json.load(open(replay_path))["replay"]
    items = obj.get("inputs") or [obj]
    with open(dest, "w") as f:
        for i, it in enumerate(items):
            f.write(json.dumps({"k": "text", "id": i + 1, "text": it["text"]}) + "\n")
    return obj

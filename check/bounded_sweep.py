"""Generated corpus for C02 / C04 / C17: bounded-integer libfunc instantiations over a sweep of ranges (including
ranges whose maximum is a perfect square, powers of two, small ranges) with the full cross product of boundary
operands (min, max, max-1, isqrt(max) and neighbours, ...).  The programs only use audited libfuncs; every run
must return a value or an explicit panic."""
import math
import os

from lib import clean_dir, workdir

HEADER = """#[feature("bounded-int-utils")]
use core::internal::bounded_int::{self, BoundedInt, AddHelper, SubHelper, MulHelper, DivRemHelper, downcast, upcast};
#[allow(extern_outside_corelib)]
extern fn bounded_int_wrap_non_zero<T>(v: T) -> NonZero<T> nopanic;
"""


def bi(lo, hi):
    return f"BoundedInt<{lo}, {hi}>"


def boundaries(lo, hi):
    s = {lo, lo + 1, hi, hi - 1, (lo + hi) // 2}
    if hi > 0:
        r = math.isqrt(hi)
        for v in (r - 1, r, r + 1, r * r, r * r - 1, r * r + 1):
            if lo <= v <= hi:
                s.add(v)
    for k in (7, 8, 16, 32, 63, 64, 126, 127):
        for v in (2 ** k - 1, 2 ** k, 2 ** k + 1):
            if lo <= v <= hi:
                s.add(v)
    return sorted(s)


def sweep(tier):
    """Returns a list of (file name, source, runs) with runs = [{fn_name, args, g}]."""
    quick = tier == "quick"
    files = []
    lhs_ranges = [(0, 2 ** 126), (0, 10 ** 20), (0, 255), (0, 2 ** 64), (0, 2 ** 127), (0, 99), (0, 2 ** 100 + 7)]
    rhs_ranges = [(1, 2 ** 128 - 1), (1, 2 ** 64), (1, 255), (1, 2 ** 96)]
    if quick:
        lhs_ranges = lhs_ranges[:4]
        rhs_ranges = rhs_ranges[:3]
    k = 0
    for (ll, lh) in lhs_ranges:
        for (rl, rh) in rhs_ranges:
            k += 1
            src = HEADER
            src += f"type L{k} = {bi(ll, lh)};\ntype R{k} = {bi(rl, rh)};\n"
            src += f"impl DR{k} of DivRemHelper<L{k}, R{k}> {{ type DivT = {bi(0, lh // rl)}; type RemT = {bi(0, rh - 1)}; }}\n"
            src += (f"fn dr{k}(a: u128, b: u128) -> (u128, u128) {{ let a: L{k} = downcast(a).expect('a range'); "
                    f"let b: R{k} = downcast(b).expect('b range'); let (q, r) = bounded_int::div_rem(a, bounded_int_wrap_non_zero(b)); "
                    f"(upcast(q), upcast(r)) }}\n")
            runs = []
            for a in boundaries(ll, lh):
                for b in boundaries(rl, rh):
                    if a < 2 ** 128 and b < 2 ** 128:
                        runs.append({"fn_name": f"::dr{k}", "args": [str(a), str(b)], "g": 10_000_000})
            if quick:
                runs = runs[::2] + [r for r in runs if int(r["args"][0]) == lh and int(r["args"][1]) in (math.isqrt(lh), math.isqrt(lh) + 1)]
            files.append((f"bsweep_dr{k}", src, runs))
    # add / sub / mul with exact result ranges
    arith = [((0, 255), (0, 255)), ((-128, 127), (-128, 127)), ((0, 2 ** 64), (0, 2 ** 63)), ((-5, 5), (0, 1000))]
    for j, ((al, ah), (bl, bh)) in enumerate(arith if not quick else arith[:2]):
        src = HEADER
        src += f"type A{j} = {bi(al, ah)};\ntype B{j} = {bi(bl, bh)};\n"
        prods = [al * bl, al * bh, ah * bl, ah * bh]
        src += f"impl AH{j} of AddHelper<A{j}, B{j}> {{ type Result = {bi(al + bl, ah + bh)}; }}\n"
        src += f"impl SH{j} of SubHelper<A{j}, B{j}> {{ type Result = {bi(al - bh, ah - bl)}; }}\n"
        src += f"impl MH{j} of MulHelper<A{j}, B{j}> {{ type Result = {bi(min(prods), max(prods))}; }}\n"
        for op in ("add", "sub", "mul"):
            src += (f"fn {op}{j}(a: felt252, b: felt252) -> felt252 {{ let a: A{j} = downcast(a).expect('a range'); "
                    f"let b: B{j} = downcast(b).expect('b range'); upcast(bounded_int::{op}(a, b)) }}\n")
        runs = []
        for op in ("add", "sub", "mul"):
            for a in boundaries(al, ah)[:9]:
                for b in boundaries(bl, bh)[:9]:
                    runs.append({"fn_name": f"::{op}{j}", "args": [str(a), str(b)], "g": 10_000_000})
        files.append((f"bsweep_ar{j}", src, runs))
    return files


def jobs(tier, solver="linear", area="sierra"):
    d = clean_dir(os.path.join(workdir(area), "bsweep_src"))
    out = []
    for name, src, runs in sweep(tier):
        p = os.path.join(d, name + ".cairo")
        with open(p, "w") as f:
            f.write(src)
        out.append({"id": name + ("" if solver == "linear" else "@lp"), "kind": "cairo", "path": p, "solver": solver, "mutants": 0, "explicit": runs})
    return out

"""Call-graph algorithms behind withdraw_gas placement (C04, clause "execution is bounded by gas"):
specs/GraphAlgos/FeedbackSet.tla is a step-for-step transcription of calc_feedback_set over the SCC-restricted
graph; TLC checks Covers / Inside / SelfLoops / NoDup on every graph of the bounded space and emits each
(graph, start, expected SCC, expected ordered feedback set); harness graph_replay runs the real
compute_scc / calc_feedback_set on every one of them and the results must be identical.
A feedback set that misses a cycle on real code is a C04 violation (a recursion without withdraw_gas)."""
import json
import os

from lib import BIN, SPECS, ToolError, build_harness, clean_dir, extract_replay, log, read_ndjson, run, tlc, workdir, write_ndjson

SPEC = os.path.join(SPECS, "GraphAlgos")


def stage(chk, tier):
    build_harness(["graph_replay"])
    d = clean_dir(os.path.join(workdir("c04"), "graphalgos"))
    # the named non-law must stay violated: the result depends on the start node (see DESIGN, C12 finding)
    r = tlc(SPEC, "MCFeedbackSet", "MCFeedbackSet_indep.cfg", "c04_fs_indep", workers=1, timeout=300)
    if "LawStartIndependent" not in r.violated:
        raise ToolError("FeedbackSet: StartIndependent is expected to be violated by the 2-cycle")
    os.remove(r.out_path)
    total = 0
    for cfg in (["q3"] if tier == "quick" else ["q3", "q4"]):
        r = tlc(SPEC, "MCFeedbackSet", f"MCFeedbackSet_{cfg}.cfg", f"c04_fs_{cfg}", workers=4, timeout=1800)
        if r.errors or r.violated:
            # a violated law of the transcription is a design finding about the algorithm itself; it is only an
            # alarm of C04 when the real implementation agrees with the transcription on that graph (below)
            raise ToolError(f"FeedbackSet/{cfg}: {r.violated} {r.errors[:2]} (see {r.out_path})")
        chk.add_tlc(r)
        cases = os.path.join(d, f"{cfg}.ndjson")
        n = extract_replay(r.out_path, cases)
        os.remove(r.out_path)
        res = os.path.join(d, f"{cfg}.res.ndjson")
        run([os.path.join(BIN, "graph_replay"), cases, res], timeout=1800)
        lines = read_ndjson(res)
        summ = lines[-1]["summary"]
        if summ["cases"] != n:
            raise ToolError(f"graph_replay: {summ['cases']} cases replayed, {n} emitted")
        for m in lines[:-1][:5]:
            c = m["case"]
            # the real algorithm and the transcription disagree: decide against the LAW, not the transcription
            real = m["real"]
            if m["what"] == "panic":
                chk.violation({"kind": "feedback_set_panic", "g": c["g"], "s": c["s"]}, {"case": c},
                              f"calc_feedback_set / compute_scc panicked on graph {c['g']} start {c['s']}")
            elif m["what"] == "scc":
                chk.violation({"kind": "scc_wrong", "g": c["g"], "s": c["s"]}, {"case": c, "real": real},
                              f"compute_scc({c['g']}, {c['s']}) = {real}, the strongly connected component is {c['scc']}")
            else:
                # differing feedback set: a violation only if the real one leaves a cycle uncovered
                if leaves_cycle(c["g"], c["scc"], real):
                    chk.violation({"kind": "feedback_set_misses_cycle", "g": c["g"], "s": c["s"]}, {"case": c, "real": real},
                                  f"calc_feedback_set({c['g']}, start {c['s']}) = {real} leaves a cycle of the component "
                                  f"{c['scc']} without a withdraw_gas point")
                else:
                    log(f"[C04] diagnostic: calc_feedback_set differs from its transcription on {c['g']} start {c['s']}: "
                        f"{real} vs {c['fset']} (still covers every cycle)")
        total += n
        if cfg == "q3":
            # binding self-test: a corrupted expectation must be reported by the harness
            bad = read_ndjson(cases)[:200]
            k = 0
            for c in bad:
                if c["fset"]:
                    c["fset"] = c["fset"][:-1]
                    k += 1
            write_ndjson(os.path.join(d, "self.ndjson"), bad)
            run([os.path.join(BIN, "graph_replay"), os.path.join(d, "self.ndjson"), os.path.join(d, "self.res.ndjson")], timeout=600)
            got = read_ndjson(os.path.join(d, "self.res.ndjson"))[-1]["summary"]["mismatches"]
            if got != k:
                raise ToolError(f"graph_replay self-test: {k} corrupted expectations, {got} reported")
    log(f"[C04] call-graph algorithms: {total} (graph, start) cases agree with FeedbackSet.tla")
    return total


def leaves_cycle(g, scc, fset):
    alive = set(scc) - set(fset)
    while alive:
        dead = {n for n in alive if not (set(g[n - 1]) & alive)}
        if not dead:
            return True
        alive -= dead
    return False

"""C20 - compiling against a crate cache equals compiling the crate from source.

Spec: specs/CompilerDb/CrateCache.tla.  TLC (1) checks `CacheTransparent` over all histories of
{GenerateCache, UseCache, DropCache, Edit, SetSettings, Query} up to a bound, (2) shows that the BUG
variants (a definition kind dropped / two kinds merged in the cached mirror, generated functions not
saved, metadata not checked) violate it, (3) generates the cache/edit/query histories.
The harness (cache_replay) executes each selected history on a database A of the real compiler
(crate caches generated with generate_crate_cache, switched on/off through
CrateConfiguration.cache_file for the core library and for a library crate) and compares, at every
query, diagnostics + Sierra + CASM of the dependents with a database B where everything is analysed
from source.

Alarm: a dependent whose observation under some cache configuration differs from the all-source
observation, confirmed on a fresh pair of databases that differ only in cache_file.
"""
import json
import os
import random
import subprocess
import time

import cdb_corpus
from lib import (BIN, SPECS, Check, ToolError, build_harness, clean_dir, extract_replay, log, read_ndjson, run, seed,
                 sha, tlc, workdir, write_ndjson)

SPEC = os.path.join(SPECS, "CompilerDb")
NPROC = 8
BLOCK = 8

SETTINGS_QUICK = [{"gas": True, "backtrace": False, "unsafe_panic": False, "opt": "default"}]
SETTINGS_THOROUGH = SETTINGS_QUICK + [
    {"gas": True, "backtrace": False, "unsafe_panic": False, "opt": "disabled"},
    {"gas": True, "backtrace": False, "unsafe_panic": False, "opt": "avoid"},
    {"gas": True, "backtrace": False, "unsafe_panic": False, "opt": "small:0"},
    {"gas": True, "backtrace": False, "unsafe_panic": False, "opt": "noconstfold"},
    {"gas": False, "backtrace": False, "unsafe_panic": False, "opt": "default"},
    {"gas": True, "backtrace": True, "unsafe_panic": False, "opt": "default"},
    {"gas": True, "backtrace": False, "unsafe_panic": True, "opt": "minimal_movable"},
]


def flags_key(s):
    return f"g{int(s['gas'])}b{int(s['backtrace'])}u{int(s['unsafe_panic'])}"


def simulate(ops):
    """-> (number of edits before the last query, cached set at the last query, set of cached sets at queries)"""
    mode, edits, at = set(), 0, []
    for o in ops:
        if o["op"] == "use":
            mode.add(o["c"])
        elif o["op"] == "drop":
            mode.discard(o["c"])
        elif o["op"] == "edit":
            edits += 1
        elif o["op"] == "query":
            at.append((edits, frozenset(mode)))
    return at[-1][0], at[-1][1], {m for _, m in at}


def plan(all_h, n_deps, rng, extra_per_block):
    """Blocks of dependents x histories such that every block is queried with the core library cached,
    the library crate cached, and both cached (final query of a history), plus histories that end
    after a drop."""
    ids = list(range(n_deps))
    rng.shuffle(ids)
    blocks = [ids[i:i + BLOCK] for i in range(0, len(ids), BLOCK)]
    by_final = {}
    for h in all_h:
        e, final, _ = simulate(h["ops"])
        by_final.setdefault(final, []).append((e, h))
    for v in by_final.values():
        rng.shuffle(v)
    want = [frozenset({"core"}), frozenset({"lib"}), frozenset({"core", "lib"})]
    out = []
    for bi, b in enumerate(blocks):
        other = blocks[(bi + 1) % len(blocks)]
        targets = list(want) + [rng.choice(want + [frozenset()]) for _ in range(extra_per_block)]
        if bi % 4 == 0:
            targets.append(frozenset())
        for t in targets:
            cands = by_final.get(t)
            if not cands:
                raise ToolError(f"no generated history ends with cached set {sorted(t)}")
            e, h = cands[rng.randrange(len(cands))]
            deps = [b, other] if e % 2 == 0 else [other, b]
            out.append({"k": "hist", "ops": h["ops"], "deps": deps, "final": sorted(t)})
    # one history per batch regenerates the core blob inside the database instead of sharing it
    for i in range(0, len(out), max(1, len(out) // NPROC)):
        out[i]["gen_core_in_db"] = True
    return out


def run_parallel(jobs, timeout):
    procs = []
    for inp, outp, scratch in jobs:
        lf = open(outp + ".log", "w")
        procs.append((outp, lf, subprocess.Popen([os.path.join(BIN, "cache_replay"), "run", inp, outp, scratch],
                                                 stdout=lf, stderr=subprocess.STDOUT)))
    t0 = time.time()
    for outp, lf, p in procs:
        try:
            rc = p.wait(timeout=max(1, timeout - (time.time() - t0)))
        except subprocess.TimeoutExpired:
            for _, _, q in procs:
                q.kill()
            raise ToolError("cache_replay timed out")
        finally:
            lf.close()
        if rc != 0:
            log(open(outp + ".log", errors="replace").read()[-3000:])
            raise ToolError(f"cache_replay failed ({rc})")


def gen_core_blob(wd, settings):
    inp = os.path.join(wd, f"gen_{flags_key(settings)}.ndjson")
    write_ndjson(inp, [dict(settings, k="settings")])
    _, out = run([os.path.join(BIN, "cache_replay"), "gen", inp, os.path.join(wd, "blobs")], timeout=900)
    info = json.loads(out.strip().splitlines()[-1])
    return info


def collect(chk, settings, deps, outp, tot):
    summary = None
    for r in read_ndjson(outp):
        if "summary" in r:
            summary = r
        elif r.get("k") == "note":
            if r["what"] == "generr":
                raise ToolError(f"generate_crate_cache failed: {r['detail'][:300]}")
            if r["what"] == "lib_diagnostics":
                raise ToolError(f"the library crate of the corpus does not compile: {r['detail'][:600]}")
            log(f"[C20] {r['what']} (diagnostic, not an alarm): dep={deps[r['dep']]['name']} cached={r.get('cached')} "
                f"parts={[p['part'] for p in r.get('parts', [])]}")
            tot["incremental_only"] += 1
        elif r.get("k") == "diff":
            tot["diffs"] = tot.get("diffs", 0) + 1
            if tot["diffs"] > 10:
                continue  # the first ten differing observations are reported, the rest counted
            d = deps[r["dep"]]
            parts = [p["part"] for p in r["parts"]]
            key = {"dependent": d["name"], "cached": r["cached"], "parts": parts,
                   "settings": flags_key(settings) + ":" + settings["opt"], "program": sha(d["src"])}
            replay = {"settings": settings, "lib": cdb_corpus.VLIB, "dependent": d,
                      "ops": r["hist"]["ops"], "cached": r["cached"], "observed": r["parts"]}
            p0 = r["parts"][0]
            chk.violation(key, replay,
                          f"dependent {d['name']} compiled with {'+'.join(r['cached']) or 'no'} crate cache differs from "
                          f"the all-source build in {parts}; first difference in {p0['part']} line {p0['line']}: "
                          f"{p0['a'][:140]!r} (source) vs {p0['b'][:140]!r} (cache)")
    if summary is None:
        raise ToolError(f"cache_replay produced no summary ({outp})")
    s = summary["summary"]
    for k in ("histories", "queries", "observations", "diffs_confirmed"):
        tot[k] += s[k]
    tot["covered"].update((d, c) for d, c in summary["covered"])
    tot["compiling"].update(summary.get("compiling", []))
    return s


def replay_single(chk, path):
    obj = json.load(open(path))["replay"]
    wd = clean_dir(os.path.join(workdir("c20"), "replay"))
    settings = obj["settings"]
    dep = dict(obj["dependent"], k="dep", id=0)
    lines = [dict(settings, k="settings"), dict(obj["lib"], k="lib"), dep,
             {"k": "hist", "id": 0, "ops": obj["ops"], "deps": [[0], [0]], "gen_core_in_db": True}]
    inp, outp = os.path.join(wd, "in.ndjson"), os.path.join(wd, "out.ndjson")
    write_ndjson(inp, lines)
    run_parallel([(inp, outp, os.path.join(wd, "scratch"))], 1800)
    tot = {"histories": 0, "queries": 0, "observations": 0, "diffs_confirmed": 0, "incremental_only": 0,
           "covered": set(), "compiling": set()}
    s = collect(chk, settings, [dep], outp, tot)
    log(f"[C20] replay: {s}")
    return chk.finish({"replayed_observations": tot["observations"]})


def main(tier, replay=None):
    chk = Check("C20", tier)
    build_harness(["cache_replay"])
    if replay:
        return replay_single(chk, replay)
    rng = random.Random(seed())
    wd = clean_dir(workdir("c20"))

    # (1) design + (2) anti-vacuity
    cfg = "MCCrateCache_q.cfg" if tier == "quick" else "MCCrateCache_t.cfg"
    res = tlc(SPEC, "MCCrateCache", cfg, "c20_design", workers=8, timeout=1500, heap="8g")
    chk.add_tlc(res)
    log(f"[C20] TLC {cfg}: {res.distinct} distinct states, violated={res.violated} errors={res.errors[:2]} ({res.wall:.0f}s)")
    if res.errors or res.violated:
        raise ToolError(f"CrateCache design check failed: {res.violated} {res.errors[:2]} (see {res.out_path})")
    design_states = res.distinct
    bugs = []
    for b, name in (("bug1", "DropKind"), ("bug2", "MergeKinds"), ("bug3", "SkipGenerated"), ("bug4", "NoMetadataCheck")):
        r = tlc(SPEC, "MCCrateCache", f"MCCrateCache_{b}.cfg", f"c20_{b}", workers=4, timeout=600, heap="4g")
        if "CacheTransparent" not in r.violated:
            raise ToolError(f"self-test failed: BUG={name} does not violate CacheTransparent (see {r.out_path})")
        bugs.append(name)
    log(f"[C20] anti-vacuity: BUG variants violating CacheTransparent: {bugs}")

    # (3) histories
    res = tlc(SPEC, "MCCrateCache", "MCCrateCache_gen.cfg", "c20_gen", workers=4, timeout=600, heap="4g")
    if res.errors or res.violated:
        raise ToolError(f"history generator failed: {res.errors[:2]} {res.violated}")
    chk.add_tlc(res)
    hist_path = os.path.join(wd, "histories.ndjson")
    n_all = extract_replay(res.out_path, hist_path)
    os.remove(res.out_path)
    all_h = [h for h in read_ndjson(hist_path) if h.get("k") == "hist"]
    if n_all < 500:
        raise ToolError(f"generator emitted only {n_all} histories")
    log(f"[C20] TLC generated {n_all} histories")

    # dependents
    deps = cdb_corpus.generated_dependents(rng, 15 if tier == "quick" else 90) + cdb_corpus.corpus_dependents()
    for i, d in enumerate(deps):
        d["id"] = i
    kinds = sorted({k for d in deps for k in d["kinds"]})
    log(f"[C20] {len(deps)} dependents ({sum(1 for d in deps if d['lib'])} through the library crate), "
        f"{len(kinds)} definition kinds reached through the dependency")

    points = SETTINGS_QUICK if tier == "quick" else SETTINGS_THOROUGH
    tot = {"histories": 0, "queries": 0, "observations": 0, "diffs_confirmed": 0, "incremental_only": 0,
           "covered": set(), "compiling": set()}
    gen_ms = {}
    blobs = {}
    compiling = 0
    for pi, settings in enumerate(points):
        fk = flags_key(settings)
        if fk not in blobs:
            info = gen_core_blob(wd, settings)
            blobs[fk] = info["core_blob"]
            gen_ms[fk] = info["gen_ms"]
            log(f"[C20] core library cache for flags {fk}: {info['bytes']} bytes in {info['gen_ms']} ms")
        hs = plan(all_h, len(deps), random.Random(rng.random()), 0 if tier == "quick" else 1)
        for i, h in enumerate(hs):
            h["id"] = i
        head = [dict(settings, k="settings", core_blob=blobs[fk], casm=True), dict(cdb_corpus.VLIB, k="lib")]
        head += [{"k": "dep", "id": d["id"], "name": d["name"], "edition": d["edition"], "src": d["src"],
                  "lib": d["lib"]} for d in deps]
        jobs = []
        per = (len(hs) + NPROC - 1) // NPROC
        for j in range(NPROC):
            part = hs[j * per:(j + 1) * per]
            if not part:
                continue
            inp = os.path.join(wd, f"in_{pi}_{j}.ndjson")
            write_ndjson(inp, head + part)
            jobs.append((inp, os.path.join(wd, f"out_{pi}_{j}.ndjson"), os.path.join(wd, f"scratch_{pi}_{j}")))
        t0 = time.time()
        run_parallel(jobs, 3000)
        before = tot["observations"]
        for inp, outp, _ in jobs:
            collect(chk, settings, deps, outp, tot)
        compiling = max(compiling, len(tot["compiling"]))
        log(f"[C20] settings {fk}:{settings['opt']}: {len(hs)} histories, {tot['observations'] - before} observations "
            f"in {time.time() - t0:.0f}s")
        if pi == 0:
            for h in hs[:3]:
                chk.sample({"settings": settings, "ops": h["ops"], "dependents": [deps[i]["name"] for i in h["deps"][0][:3]]})
    if tot.get("diffs", 0) > 10:
        log(f"[C20] {tot['diffs']} differing observations in total (10 reported)")
    need = {(d["id"], c) for d in deps for c in ("core", "lib", "core+lib")}
    missing = need - {(d, c) for d, c in tot["covered"]}
    if missing:
        raise ToolError(f"{len(missing)} (dependent, cache configuration) pairs were not observed")
    chk.cov["traces_validated_against_impl"] = tot["histories"]
    chk.assumptions = [
        "the cache blob is generated by the same binary, with the same plugins (default + starknet + test attributes) "
        "and flags as the build that uses it (the loader checks version, crate settings and global flags)",
        "library crate `vlib` and the generated dependents are the corpus of definition kinds; corelib is reached "
        "through 81 repository programs and through everything vlib and the dependents use",
        "the shared core blob is generated once per flag point on a fresh database; one history per batch regenerates "
        "it inside the history's database",
    ]
    return chk.finish({
        "exhaustive": True,
        "design_states": design_states,
        "bug_variants_detected": bugs,
        "generated_histories": n_all,
        "executed_histories": tot["histories"],
        "queries": tot["queries"],
        "observations_compared": tot["observations"],
        "dependents": len(deps),
        "dependents_compiling_without_errors": compiling,
        "definition_kinds": kinds,
        "settings_points": [flags_key(s) + ":" + s["opt"] for s in points],
        "core_cache_gen_ms": gen_ms,
        "incremental_only_differences": tot["incremental_only"],
        "evaluations": tot["observations"],
        "distinct_nontrivial": len({(d, c) for d, c in tot["covered"] if c}),
        "rule": "histories are enumerated by TLC from CrateCache (gen/use/drop/edit/query, <= 7 operations, ending in a "
                "query after some use) and assigned to blocks of dependents with the seed so that every dependent is "
                "observed with core, lib and core+lib cached; distinct non-trivial = distinct (dependent, non-empty set "
                "of cached crates) pairs observed and compared with the all-source build",
    })

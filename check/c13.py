"""C13 - incremental recompilation equals compiling the final sources from scratch.

Spec: specs/CompilerDb/SalsaIncr.tla (revisions, inputs, memos with deep verification and back-dating,
tracked syntax nodes with identity (parent, kind, key, index) and tracked fields green/offset_in_parent,
chain file_content -> syntax -> node -> absolute_offset -> item semantics -> diagnostics/Sierra).

1. TLC checks MemoSound exhaustively over all histories <= MAXLEN (BFS) and on long random histories
   (-simulate), and shows that each BUG_* variant violates it (non-vacuity).
2. The same TLC runs emit the histories (REPLAY lines) with the spec's predicted observable per step.
3. harness/incr_replay concretises every selected history (synthetic 1-2 file crate in several text styles,
   and <repo>/examples with its own functions as items), executes it on ONE long-lived RootDatabase and
   compares diagnostics text / Sierra text with a FRESH database at every query step and at the end.
Alarm: any difference (or a panic of the incremental database only).  Model disagreement is a diagnostic.
"""
import json
import os
import random
import shutil

from lib import (BIN, REPO, SPECS, Check, ToolError, build_harness, clean_dir, extract_replay, log, read_ndjson, run,
                 seed, sha, tlc, workdir, write_ndjson)

SPEC = os.path.join(SPECS, "CompilerDb")
MODULE = "MCSalsaIncr"
BUGS = ["OffsetCachedInNode", "IdFromOffset", "NoBackdateCheck", "OverrideNoInvalidate"]
CORPUS = ["examples:fib.cairo+fib_caller.cairo", "examples:enum_flow.cairo+hash_chain.cairo",
          "examples:fib_struct.cairo+fib_array.cairo"]
THREADS = 16


def W(*p):
    return os.path.join(workdir("c13"), *p)


def derive_cfg(base, name, subst, drop_emit=True):
    """A variant of an on-disk cfg (constants replaced), written to the work directory."""
    txt = open(os.path.join(SPEC, base)).read()
    for a, b in subst:
        if a not in txt:
            raise ToolError(f"cfg template {base} has no '{a}'")
        txt = txt.replace(a, b)
    if drop_emit:
        txt = "\n".join(l for l in txt.splitlines() if not l.startswith("INVARIANT Emit")) + "\n"
    p = W(name)
    open(p, "w").write(txt)
    return p


def run_tlc(chk, cfg, name, timeout, simulate=None, workers=8, count=True):
    res = tlc(SPEC, MODULE, cfg, name, workers=workers, timeout=timeout, simulate=simulate,
              depth=31 if simulate else None, seed_arg=seed() if simulate else None, heap="8g")
    if res.errors:
        raise ToolError(f"TLC error in SalsaIncr/{name}: {res.errors[:2]} (see {res.out_path})")
    if simulate:
        # -simulate prints its own counter ("The number of states generated: N"); every one of them had the
        # invariants evaluated
        import re
        m = re.search(r"The number of states generated: (\d+)", open(res.out_path, errors="replace").read()[-4000:])
        if m:
            res.generated = res.distinct = int(m.group(1))
    if count:
        chk.add_tlc(res)
    return res


def design_ok(res, name):
    if res.violated:
        # A violated design invariant is a defect of the model, not of /repo.
        raise ToolError(f"SalsaIncr design invariant violated in {name}: {res.violated} (see {res.out_path})")


def histories(res, name, k=None, dedupe_prefix=False):
    """Streams the REPLAY lines of a TLC log.  Returns (total, len1, chosen): all histories of length 1, and
    a seeded selection of k of the longer ones (the k smallest of sha(seed, line): independent of the order
    in which TLC's workers printed them)."""
    import hashlib
    import heapq
    from lib import REPLAY_RE
    total, len1, heap, allh = 0, [], [], []
    sd = str(seed()).encode()
    with open(res.out_path, errors="replace") as f:
        for line in f:
            m = REPLAY_RE.match(line)
            if not m:
                continue
            total += 1
            t = m.group(1).replace('\\"', '"').replace("\\\\", "\\")
            nops = t.count('"op":')
            if k is None:
                allh.append(t)
            elif nops == 1:
                len1.append(t)
            else:
                sc = hashlib.sha256(sd + t.encode()).digest()
                if len(heap) < k:
                    heapq.heappush(heap, (_neg(sc), t))
                elif _neg(sc) > heap[0][0]:
                    heapq.heapreplace(heap, (_neg(sc), t))
    os.remove(res.out_path)
    if total == 0:
        raise ToolError(f"TLC emitted no REPLAY lines for {name}")
    if k is None:
        hs = [json.loads(t) for t in allh]
        if dedupe_prefix:
            # -simulate evaluates the invariant on every successor of the last step: keep one per behaviour
            seen = {}
            for h in hs:
                seen.setdefault(sha(opsig(h)[:-1]), h)
            hs = sorted(seen.values(), key=lambda h: json.dumps(opsig(h)))
        return total, [], hs
    chosen = sorted(t for _, t in heap)
    return total, [json.loads(t) for t in sorted(len1)], [json.loads(t) for t in chosen]


def _neg(digest):
    # max-heap on the digest through a min-heap: invert the bytes
    return bytes(255 - b for b in digest)


def opsig(h):
    return [[o["op"], o["f"], o["i"], o["nm"], o["q"]] for o in h["ops"]]


def sample(hs, n, rng):
    """Seeded sample; histories are ordered canonically first so that the choice depends on the seed only."""
    if len(hs) <= n:
        return list(hs)
    hs = sorted(hs, key=lambda h: json.dumps([h["init"], opsig(h)]))
    return rng.sample(hs, n)


class Replayer:
    def __init__(self, chk):
        self.chk = chk
        self.tot = {"scripts": 0, "comparisons": 0, "steps": 0, "model_agree": 0, "model_disagree": 0,
                    "fresh_dbs": 0, "both_panic": 0, "mismatches": 0}
        self.kinds = {}
        self.first_disagree = None
        self.reported = 0
        self.suppressed = 0

    def raw(self, hs, tag, projects, variants, env=None, timeout=7200):
        inp = W(f"hist_{tag}.ndjson")
        out = W(f"result_{tag}.ndjson")
        write_ndjson(inp, hs)
        run([os.path.join(BIN, "incr_replay"), "run", inp, out, clean_dir(W("run_" + tag)),
             "--threads", str(THREADS), "--projects", ",".join(projects), "--variants", str(variants)],
            timeout=timeout, env=env)
        rs = read_ndjson(out)
        shutil.rmtree(W("run_" + tag), ignore_errors=True)
        os.remove(inp)
        if not rs or "summary" not in rs[0]:
            raise ToolError("incr_replay produced no summary")
        return rs[0]["summary"], rs[1:]

    def replay(self, hs, tag, projects, variants):
        if not hs:
            return
        s, mism = self.raw(hs, tag, projects, variants)
        for k in self.tot:
            self.tot[k] += s.get(k, 0)
        for k, v in (s.get("model_disagreement_kinds") or {}).items():
            self.kinds[k] = self.kinds.get(k, 0) + v
        if s.get("first_model_disagreement") and not self.first_disagree:
            self.first_disagree = s["first_model_disagreement"]["at"]
        log(f"[C13] replay {tag}: scripts={s['scripts']} comparisons={s['comparisons']} mismatches={s['mismatches']} "
            f"model agree/disagree={s['model_agree']}/{s['model_disagree']} fresh_dbs={s['fresh_dbs']}")
        for r in mism:
            self.report(r)

    def report(self, r):
        m = r["mismatch"]
        script = r["script"]
        key = {"history": sha([script["files"], script["steps"]]), "shape": (r.get("meta", {}).get("how") or {}).get("shape", 0),
               "what": m.get("what", "")}
        kind = "panic in the incremental database" if m["incr"].startswith("PANIC") else "incremental != fresh"
        a, b = m["incr"].splitlines(), m["fresh"].splitlines()
        i = next((j for j in range(min(len(a), len(b))) if a[j] != b[j]), min(len(a), len(b)))
        da, db = (a[i] if i < len(a) else "<end>"), (b[i] if i < len(b) else "<end>")
        n = len(script["steps"])
        at = "the end" if m["step"] > n else f"step {m['step']}"
        from lib import match_known
        if match_known(self.chk.known, key) is not None:
            self.chk.violation(key, {}, "")   # prints the KNOWN-FINDING line once
            self.known_seen = getattr(self, "known_seen", 0) + 1
            return
        self.reported += 1
        if self.reported > 12:
            self.suppressed += 1
            self.chk.violations.append((key, None, "suppressed"))
            return
        self.chk.violation(
            key, {"script": script, "observed": m, "meta": r["meta"]},
            f"{kind} for {m['what']} at {at} of a {n}-step history ({json.dumps(script['how'])}); first differing "
            f"line {i + 1}: incremental={da[:120]!r} fresh={db[:120]!r}")


def selftests(chk, hs_short):
    """Non-vacuity of the spec (BUG variants violate MemoSound) and of the binding (a lost edit is reported,
    a corrupted prediction is noticed)."""
    found = {}
    for b in BUGS:
        cfg = derive_cfg("MCSalsaIncr_q1.cfg", f"bug_{b}.cfg", [('BUG = "none"', f'BUG = "{b}"'), ("MAXLEN = 4", "MAXLEN = 3")])
        res = run_tlc(chk, cfg, f"c13_bug_{b}", 600, workers=4, count=False)
        found[b] = "MemoSound" in res.violated
        os.remove(res.out_path)
        if not found[b]:
            raise ToolError(f"self-test: BUG={b} does not violate MemoSound (spec vacuous?)")
    log(f"[C13] self-test: every BUG variant violates MemoSound: {sorted(found)}")
    rp = Replayer(chk)
    # (a) lost invalidation: one-edit histories whose edit is not delivered to the incremental database
    cand = [h for h in hs_short if len(h["ops"]) == 1
            and h["ops"][0]["op"] in ("trivia", "rename", "body", "delete", "dup", "insert", "break")][:6]
    if not cand:
        raise ToolError("self-test: no suitable history for drop_edit")
    s, mism = rp.raw(cand, "selftest_drop", ["synth"], 1, env={"C13_SELFTEST": "drop_edit"})
    if len(mism) == 0:
        raise ToolError("self-test: a dropped edit was not reported by the harness (binding vacuous)")
    # (b) corrupted prediction: shift every predicted line by one
    bad = json.loads(json.dumps(cand[:3]))
    for h in bad:
        for o in h["ops"]:
            for d in o["exp"]["d"]:
                d["l"] += 1
    s2, _ = rp.raw(bad, "selftest_pred", ["synth"], 1)
    if s2["model_disagree"] == 0 and any(o["exp"]["d"] for h in bad for o in h["ops"]):
        raise ToolError("self-test: corrupted predictions were not noticed")
    log(f"[C13] self-test: dropped edit reported ({len(mism)}/{s['scripts']} scripts), corrupted prediction noticed "
        f"({s2['model_disagree']} disagreements)")
    return {"bug_variants_violate_MemoSound": sorted(found), "dropped_edit_detected": len(mism),
            "corrupted_prediction_detected": s2["model_disagree"]}


def main(tier, replay=None):
    chk = Check("C13", tier)
    build_harness(["incr_replay"])
    if replay:
        out = W("result_single.ndjson")
        run([os.path.join(BIN, "incr_replay"), "script", replay, out, clean_dir(W("run_single"))], timeout=1200)
        rs = read_ndjson(out)
        log(f"[C13] replay: {rs[0]['summary']['comparisons']} comparisons, {len(rs) - 1} mismatches")
        rp = Replayer(chk)
        for r in rs[1:]:
            rp.report(r)
        return chk.finish()

    quick = tier == "quick"
    rng = random.Random(seed())
    tl = 900 if quick else 3000
    if quick:
        n1, n2, nc, nl, nlc, n_len1 = 110, 110, 40, 20, 10, 60
    else:
        n1, n2, nc, nl, nlc, n_len1 = 2500, 2500, 500, 200, 80, 10 ** 6

    # C13_SCALE (default 1.0) scales the number of replayed histories (bring-up on a loaded machine)
    scale = float(os.environ.get("C13_SCALE", "1"))
    n1, n2, nc, nl, nlc = [max(1, int(x * scale)) for x in (n1, n2, nc, nl, nlc)]

    # ---- 1. design: exhaustive BFS + emission of the histories, seeded selection
    r1 = run_tlc(chk, "MCSalsaIncr_q1.cfg", "c13_q1", tl)  # 1 file, histories <= 4
    design_ok(r1, "q1")
    log(f"[C13] TLC q1 (1 file, histories<=4): {r1.generated} states generated, {r1.distinct} distinct ({r1.wall:.0f}s)")
    tot1, l1a, s1 = histories(r1, "q1", n1)
    cfg2 = "MCSalsaIncr_q2.cfg" if quick else "MCSalsaIncr_t2.cfg"
    r2 = run_tlc(chk, cfg2, "c13_2f", tl)  # 2 files, histories <= 3 (quick) / <= 4 (thorough)
    design_ok(r2, cfg2)
    log(f"[C13] TLC {cfg2}: {r2.generated} states generated, {r2.distinct} distinct ({r2.wall:.0f}s)")
    tot2, l1b, s2 = histories(r2, "2f", n2)
    # ---- long random histories with fused queries
    nsim = 5 if quick else 30
    r3 = run_tlc(chk, "MCSalsaIncr_sim.cfg", "c13_sim", tl, simulate=nsim, workers=4 if quick else 8)
    design_ok(r3, "sim")
    _, _, hl = histories(r3, "sim", None, dedupe_prefix=True)
    log(f"[C13] TLC simulate: {len(hl)} histories of length 30, {r3.generated} states checked ({r3.wall:.0f}s)")

    st = selftests(chk, l1b + s2)

    # ---- 2. selection (seeded)
    short1 = sample(l1a + l1b, n_len1, rng)
    sc = sample(s2, nc, rng)
    hl = sample(hl, nl, rng)

    # ---- 3. replay on the real database
    rp = Replayer(chk)
    rp.replay(short1, "len1", ["synth"], 2)
    rp.replay(s1, "f1", ["synth"], 2)
    rp.replay(s2, "f2", ["synth"], 2)
    rp.replay(sc, "corpus", CORPUS[:2] if quick else CORPUS, 1)
    rp.replay(hl, "long", ["synth"], 1 if quick else 2)
    rp.replay(hl[:nlc], "longcorpus", CORPUS[:1], 1)

    t = rp.tot
    if rp.suppressed:
        log(f"[C13] {rp.suppressed} further mismatching histories not written as replay files")
    if rp.kinds:
        log(f"[C13] model disagreements (diagnostic only): {rp.kinds} first={rp.first_disagree}")
    opk = {}
    for h in short1 + s1 + s2 + hl:
        for o in h["ops"]:
            opk[o["op"]] = opk.get(o["op"], 0) + 1
    for h in (s1[:2] + s2[:1] + hl[:1]):
        chk.sample({"nfiles": h["nfiles"], "init": h["init"], "ops": opsig(h)[:8]})
    chk.cov["traces_validated_against_impl"] = t["scripts"]
    chk.assumptions = [
        "fresh database = new RootDatabase on the same directory with the same overrides applied before the first query; "
        "results cached per distinct contents (determinism of a fresh instance is C12's subject)",
        "edits of a file without override are written to disk and followed by a notification (re-setting the "
        "file_overrides input), as on-disk reads are report_untracked_read",
        "the incremental database is queried only at the history's query steps and at its end",
        "Sierra text compared with debug-name ids (replace_ids); diagnostics text with the project root normalised",
        f"corelib and corpus from {REPO}",
    ]
    return chk.finish({
        "exhaustive": True,
        "exhaustive_scope": "MemoSound for every history <= 4 (1 file) and <= %d (2 files) of the abstract project" % (3 if quick else 4),
        "histories_emitted": {"one_file": tot1, "two_files": tot2, "long": len(hl)},
        "replayed_scripts": t["scripts"], "comparisons_incremental_vs_fresh": t["comparisons"],
        "concrete_steps": t["steps"], "fresh_databases_built": t["fresh_dbs"],
        "model_agree": t["model_agree"], "model_disagree": t["model_disagree"], "model_disagreement_kinds": rp.kinds,
        "both_panic": t["both_panic"],
        "ops_replayed_by_kind": opk,
        "distinct_nontrivial": t["scripts"],
        "rule": "replayed scripts (distinct concretised histories) with >= 1 edit step and >= 2 comparisons",
        "selftest": st,
        "tlc_configs": ["MCSalsaIncr_q1.cfg", cfg2, "MCSalsaIncr_sim.cfg"],
    })

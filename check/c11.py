"""C11 - formatting is idempotent, its output parses, and only layout changes.

R: TLC enumerates FormatGeometry (construct x element count x width classes x anchor x comment
   placement x trailing separator x layout x relevant FormatterConfig lattice); every emitted case is
   rendered to Cairo source by the harness and formatted by the real `get_formatted_file`.
V: for every input (geometry cases, error-free corpus sources, seeded layout mutants of them) the
   harness records the element streams (code tokens with syntactic facts + comment words) of the
   input's and the output's parse trees, and whether the run was idempotent and the output parsed;
   FormatStreamTrace (TLC, one initial state per case) accepts a case iff the output stream is
   reachable from the input stream by the named layout-only actions of FormatStream.

Alarm (all from the property): output has parser diagnostics; f(f(t)) != f(t); no accepting path
(a code token or comment word was dropped, added, changed or reordered outside the named actions);
the formatter panicked on an error-free input.
"""
import concurrent.futures
import difflib
import itertools
import glob
import json
import os
import random
import re
import shutil

from lib import (BIN, SPECS, Check, ToolError, build_harness, clean_dir, extract_replay, log, match_known,
                 read_ndjson, run, seed, sha, tlc, workdir, write_ndjson)

SPEC = os.path.join(SPECS, "FormatStream")
FMT = os.path.join(BIN, "fmt_check")
VERDICT_RE = re.compile(r'^<<"VERDICT", "(.*)", "(\w+)">>\s*$')
MUT_OPS = ["rewrap", "comments", "reindent", "stretch", "oneline"]
MAX_REPORT_PER_GROUP = 1
TLC_PARALLEL = 8


# ------------------------------------------------------------------ configuration lattice

def cfg(tab=4, ml=100, sort=False, merge=False, dup=False, tuple_=False, farr=False, mac=False):
    return {"tab": tab, "ml": ml, "sort": sort, "merge": merge, "dup": dup, "tuple": tuple_, "farr": farr, "mac": mac}


# the four configurations of the quick tier (default first: what `cairo-format` does without flags)
QUICK_CFGS = [
    cfg(4, 100, sort=True, merge=True, tuple_=True),
    cfg(4, 100),
    cfg(2, 40, tuple_=False, farr=True, mac=True),
    cfg(4, 20, sort=True, merge=True, dup=True, mac=True),
]


def full_lattice():
    out = []
    for tab, ml, t, f, m in itertools.product([2, 4], [20, 40, 100], [False, True], [False, True], [False, True]):
        for s, mg, d in itertools.product([False, True], repeat=3):
            if d and not mg:
                continue
            out.append(cfg(tab, ml, s, mg, d, t, f, m))
    return out


# ------------------------------------------------------------------ TLC helpers

def tlc_trace_batch(path, name):
    res = tlc(SPEC, "FormatStreamTrace", "FormatStreamTrace.cfg", name, workers=1, timeout=1800,
              env={"TRACE": path}, java_opts="-Xss1g", heap="4g")
    if res.errors or res.violated:
        raise ToolError(f"FormatStreamTrace failed on {path}: {res.errors[:2]} {res.violated} (see {res.out_path})")
    verdicts = {}
    with open(res.out_path, errors="replace") as f:
        for line in f:
            m = VERDICT_RE.match(line)
            if m:
                verdicts[m.group(1)] = m.group(2)
    os.remove(res.out_path)
    return res, verdicts


def validate_dir(chk, outdir, tag):
    """Run FormatStreamTrace over every trace batch of outdir (in parallel, one worker each)."""
    batches = sorted(f for f in os.listdir(outdir) if f.startswith("trace_") and f.endswith(".ndjson"))
    batches = [b for b in batches if os.path.getsize(os.path.join(outdir, b)) > 0]
    verdicts = {}
    with concurrent.futures.ThreadPoolExecutor(max_workers=TLC_PARALLEL) as ex:
        futs = [ex.submit(tlc_trace_batch, os.path.join(outdir, b), f"c11_{tag}_{b[:-7]}") for b in batches]
        for fu in futs:
            res, v = fu.result()
            chk.add_tlc(res)
            verdicts.update(v)
    return verdicts


def self_check(chk):
    """Design-level model check of FormatStream on the hand-written cases, and its BUG variant."""
    res = tlc(SPEC, "MCFormatStream", "MCFormatStream.cfg", "c11_mc", workers=1, timeout=300)
    chk.add_tlc(res)
    if not res.ok:
        raise ToolError(f"MCFormatStream: {res.violated} {res.errors[:2]} (see {res.out_path})")
    got = {}
    for line in open(res.out_path, errors="replace"):
        m = VERDICT_RE.match(line)
        if m:
            got[m.group(1)] = m.group(2)
    # expected verdicts are in the module: C("id", "exp", ...
    src = open(os.path.join(SPEC, "MCFormatStream.tla")).read()
    exp = dict(re.findall(r'C\("(\w+)", "(\w+)"', src))
    want = {k: v for k, v in exp.items() if v != "reject"}
    if got != want:
        raise ToolError(f"MCFormatStream verdicts differ: got {sorted(got.items())} want {sorted(want.items())}")
    bug = tlc(SPEC, "MCFormatStream", "MCFormatStream_bug.cfg", "c11_mc_bug", workers=1, timeout=300)
    if "LayoutOnly" not in bug.violated:
        raise ToolError("self-test: BUG=any_comma was not detected by invariant LayoutOnly")
    log(f"[C11] design check: {len(exp)} hand-written cases, {len(want)} accepted as expected, "
        f"{len(exp) - len(want)} rejected as expected; BUG=any_comma violates LayoutOnly as expected")
    return len(exp)


# ------------------------------------------------------------------ plans

def geometry_lines(chk, tier):
    c = "q" if tier == "quick" else "t"
    res = tlc(SPEC, "FormatGeometry", f"FormatGeometry_{c}.cfg", f"c11_geom_{c}", workers=8, timeout=1800, heap="8g")
    chk.add_tlc(res)
    if not res.ok:
        raise ToolError(f"FormatGeometry: {res.violated} {res.errors[:2]} (see {res.out_path})")
    dest = os.path.join(workdir("c11"), f"geom_{c}.ndjson")
    n = extract_replay(res.out_path, dest)
    os.remove(res.out_path)
    if n == 0:
        raise ToolError("FormatGeometry emitted no REPLAY lines")
    log(f"[C11] FormatGeometry/{c}: {n} cases emitted by TLC ({res.wall:.0f}s)")
    return dest, n


def corpus_sources():
    p = os.path.join(workdir("c11"), "corpus.ndjson")
    run([FMT, "corpus", p], timeout=600)
    srcs = read_ndjson(p)
    if len(srcs) < 100:
        raise ToolError(f"corpus too small: {len(srcs)} sources")
    return srcs


def src_of(s, mut=None):
    d = {"k": "file", "path": s["path"]}
    if "sec" in s:
        d["sec"] = s["sec"]
    if mut:
        d["mut"] = mut
    return d


def lookup_line(plan_path, cid):
    """The plan line of a case (only needed for the rare TLC rejections)."""
    m = re.fullmatch(r"g(\d+)", cid)
    with open(plan_path) as f:
        for k, l in enumerate(f):
            if m and '"src"' not in l[:40]:
                if k == int(m.group(1)):
                    g = json.loads(l)
                    c = g.pop("cfg")
                    return {"id": cid, "src": {"k": "geom", "g": g}, "cfg": c}
            elif f'"id":"{cid}"' in l or f'"id": "{cid}"' in l:
                return json.loads(l)
    raise ToolError(f"plan line of {cid} not found in {plan_path}")


# ------------------------------------------------------------------ running a plan

class Totals:
    def __init__(self):
        self.cases = 0
        self.recorded = 0
        self.skipped_input_diag = 0
        self.accepted = 0
        self.changed = 0
        self.elems = 0
        self.by_origin = {}
        self.skipped_by_origin = {}
        self.same = 0
        self.stream_sigs = 0
        self.failures = []  # (info incl. plan line, kind)


def stream_sig(line):
    """Triage label of a rejected stream: the first difference between the input's and the output's
    elements once the (possibly) optional ones are left out.  Only used to key known findings."""
    r = show(line)
    t = r.get("trace") or {}

    def proj(es):
        out = []
        for e in es:
            k = e["k"]
            if k in ("cs", "TerminalComma", "TerminalEmpty"):
                continue
            if k == "TerminalSemicolon" and e.get("p") == "StatementExpr":
                continue
            if k == "TerminalColonColon" and e.get("p") == "PathSegmentWithGenericArgs":
                continue
            out.append((k, e["t"]))
        return out
    a, b = proj(t.get("in", [])), proj(t.get("out", []))
    for tag, i1, i2, j1, j2 in difflib.SequenceMatcher(None, a, b, autojunk=False).get_opcodes():
        if tag != "equal":
            ks = ",".join(k for k, _ in a[i1:i2][:3])
            kt = ",".join(k for k, _ in b[j1:j2][:3])
            return f"{tag}:{ks}>{kt}"
    return "unclassified"


def add_failure(tot, info, kind):
    if kind == "idempotence":
        sig = idem_sig(info)
    elif kind == "panic":
        sig = (info.get("panic") or "")[:60]
    elif kind == "stream" and tot.stream_sigs < 300:
        tot.stream_sigs += 1
        sig = stream_sig(info["line"])
    else:
        sig = "unclassified" if kind == "stream" else ""
    tot.failures.append({"kind": kind, "sig": sig, "origin": info.get("origin", "?"), "line": info["line"],
                         "sha": info.get("sha", ""), "size": len(info.get("text", "")) or info.get("n", 0)})


def run_plan(chk, plan, tag, tot, batch_elems=250_000, skip=0, take=None):
    """harness over the plan (a list of plan lines, or the path of a plan / raw geometry file),
    TLC over the traces, verdict per case."""
    d = clean_dir(os.path.join(workdir("c11"), "run_" + tag))
    if isinstance(plan, str):
        plan_path = plan
    else:
        plan_path = os.path.join(d, "plan.ndjson")
        write_ndjson(plan_path, plan)
    cmd = [FMT, "run", plan_path, d, str(batch_elems), str(skip)] + ([str(take)] if take else [])
    _, out = run(cmd, timeout=7200)
    summ = json.loads(out.strip().splitlines()[-1])
    verdicts = validate_dir(chk, d, tag)
    with open(os.path.join(d, "info.ndjson")) as f:
        for raw in f:
            info = json.loads(raw)
            tot.cases += 1
            if info["id"].startswith("f_"):
                # recorded inputs of repaired ("regress:") and listed ("finding:") defects
                info["origin"] = ("regress:" if info["id"].startswith("f_fixed_") else "finding:") + info["id"][2:]
            o = info.get("origin", "?").split(":")[0]
            st = info["status"]
            if st in ("input_diagnostics", "no_text"):
                tot.skipped_input_diag += 1
                tot.skipped_by_origin[o] = tot.skipped_by_origin.get(o, 0) + 1
                continue
            tot.by_origin[o] = tot.by_origin.get(o, 0) + 1
            if st == "panic":
                if "line" not in info:
                    info["line"] = lookup_line(plan_path, info["id"])
                add_failure(tot, info, "panic")
                continue
            tot.recorded += 1
            tot.elems += info["n"]
            tot.changed += 1 if info.get("changed") else 0
            # an identical trace record (same streams, flags and outcome) is validated once
            v = verdicts.get(info.get("same_as", info["id"]))
            tot.same += 1 if "same_as" in info else 0
            if v == "ok":
                tot.accepted += 1
                if info.get("changed") and info["n"] > 20:
                    chk.sample({"id": info["id"], "origin": info.get("origin"), "elements": info["n"],
                                "verdict": "accepted: output reachable by layout-only actions, idempotent, parses"},
                               limit=4)
                continue
            if "line" not in info:
                info["line"] = lookup_line(plan_path, info["id"])
            if v is None:
                add_failure(tot, info, "stream")
            elif v == "not_idempotent":
                add_failure(tot, info, "idempotence")
            elif v == "output_unparsable":
                add_failure(tot, info, "parse")
            else:
                raise ToolError(f"unknown verdict {v}")
    shutil.rmtree(d, ignore_errors=True)
    log(f"[C11] {tag}: {summ['recorded']} recorded, {summ['skipped']} skipped (input diagnostics), "
        f"{summ['elems']} elements, failures so far {len(tot.failures)}")
    return summ


def show(line):
    d = workdir("c11")
    p = os.path.join(d, "show_%d.json" % os.getpid())
    with open(p, "w") as f:
        json.dump(line, f)
    _, out = run([FMT, "show", p], timeout=600)
    os.remove(p)
    return json.loads(out.strip().splitlines()[-1])


def idem_sig(r):
    """Triage label of a non-idempotent run (used only to key known findings)."""
    joined, detached = r.get("comment_moves") or [0, 0]
    la, lb = r["out1"].splitlines(), r["out2"].splitlines()
    if [l for l in la if l.strip()] == [l for l in lb if l.strip()]:
        # the two outputs differ in blank lines only
        return "blank-lines" + ("+comment-joined" if joined else "") + ("+comment-detached" if detached else "")
    if joined and detached:
        return "comment-joined+detached"
    if joined:
        # an own-line comment of the input shares its line with the preceding token in the output
        return "comment-joined"
    if detached:
        # a comment that followed a token on its line in the input is on a line of its own in the output
        return "comment-detached"
    a, b = r["out1"].splitlines(), r["out2"].splitlines()
    changed = []
    for tag, i1, i2, j1, j2 in difflib.SequenceMatcher(None, a, b, autojunk=False).get_opcodes():
        if tag != "equal":
            changed += a[i1:i2] + b[j1:j2]
    if changed and all(not l.strip() for l in changed):
        return "blank-lines"
    # line-wise comparison of the two outputs modulo one kind of difference
    if len(a) == len(b):
        diff = [(x, y) for x, y in zip(a, b) if x != y]
        if diff and all(x.strip() == y.strip() for x, y in diff):
            return "indent-only"
        if diff and all(x.rstrip().rstrip(",") == y.rstrip().rstrip(",") for x, y in diff):
            return "trailing-comma"
    return "other"


def minimise(line, kind, sig, text):
    """ddmin over lines: smallest text that still parses and fails in the same way (idempotence/parse/panic)."""
    def fails(t):
        r = show({"id": "min", "src": {"k": "text", "text": t}, "cfg": line["cfg"]})
        if kind == "panic":
            return r["status"] == "panic"
        if r["status"] != "ok":
            return False
        if kind == "parse":
            return not r["parse_ok"]
        return r["parse_ok"] and not r["idem"] and idem_sig(r) == sig
    lines = text.splitlines(keepends=True)
    if len(lines) > 4000 or not fails(text):
        return text
    n = 2
    budget = 400
    while len(lines) >= 2 and budget > 0:
        chunk = max(1, len(lines) // n)
        reduced = False
        for i in range(0, len(lines), chunk):
            cand = lines[:i] + lines[i + chunk:]
            budget -= 1
            if cand and fails("".join(cand)):
                lines = cand
                n = max(n - 1, 2)
                reduced = True
                break
            if budget <= 0:
                break
        if not reduced:
            if chunk == 1:
                break
            n = min(n * 2, len(lines))
    return "".join(lines)


def report(chk, tot):
    groups = {}
    n_known = 0
    for fl in tot.failures:
        kind, sig, origin, line = fl["kind"], fl["sig"], fl["origin"], fl["line"]
        key = {"kind": kind, "sig": sig, "origin": origin, "sort": line["cfg"]["sort"],
               "merge": line["cfg"]["merge"], "input_sha": fl["sha"]}
        if match_known(chk.known, key) is not None:
            n_known += 1
            chk.violation(key, {}, "")  # prints the KNOWN-FINDING line once per entry
            continue
        groups.setdefault((kind, sig, origin), []).append((fl["size"], line, key))
    suppressed = 0
    for (kind, sig, origin), items in sorted(groups.items()):
        items.sort(key=lambda x: x[0])
        for _, line, key in items[:MAX_REPORT_PER_GROUP]:
            r = show(line)
            text = r["text"]
            if kind in ("idempotence", "parse", "panic") and origin.split(":")[0] != "geom":
                text = minimise(line, kind, sig, text)
                r = show({"id": line["id"], "src": {"k": "text", "text": text}, "cfg": line["cfg"]})
            replay = {"line": {"id": line["id"], "src": {"k": "text", "text": text}, "cfg": line["cfg"],
                               "origin": origin},
                      "origin": line["src"], "input": text, "out1": r.get("out1"), "out2": r.get("out2"),
                      "idem": r.get("idem"), "parse_ok": r.get("parse_ok"), "panic": r.get("panic")}
            what = {"idempotence": "formatting twice differs from formatting once",
                    "parse": "the formatted output has parser diagnostics",
                    "stream": "output tokens/comments are not reachable from the input's by layout-only actions",
                    "panic": "the formatter panicked on an error-free input"}[kind]
            chk.violation(key, replay, f"{what} [{origin}; sig={sig or '-'}; cfg={json.dumps(line['cfg'])}; "
                                       f"{len(items)} case(s) in this group]")
        suppressed += max(0, len(items) - MAX_REPORT_PER_GROUP)
    return {"failure_groups": {f"{k}|{s}|{o}": len(v) for (k, s, o), v in groups.items()},
            "failures_not_reported_individually": suppressed, "failures_matching_known_findings": n_known}


# ------------------------------------------------------------------ anti-vacuity on real traces

def corruption_self_test(chk, plan_lines):
    """Record a few real cases, corrupt their output stream in ways the property forbids, and make
    sure FormatStreamTrace rejects every corrupted copy while accepting the originals."""
    d = clean_dir(os.path.join(workdir("c11"), "run_selftest"))
    plan_path = os.path.join(d, "plan.ndjson")
    write_ndjson(plan_path, plan_lines)
    run([FMT, "run", plan_path, d, "100000000"], timeout=600)
    traces = [t for t in read_ndjson(os.path.join(d, "trace_0000.ndjson")) if t["idem"] and t["parse_ok"]]
    rng = random.Random(seed())
    out, expect_rej = [], []
    for t in traces[:12]:
        code = [k for k, e in enumerate(t["out"]) if e["k"] not in ("cs", "cw", "TerminalComma", "TerminalEmpty")]
        words = [k for k, e in enumerate(t["out"]) if e["k"] == "cw"]
        inner = [k for k, e in enumerate(t["out"]) if e["k"] == "TerminalComma" and "x" in e
                 and e["x"]["pos"][0][0] != e["x"]["pos"][0][1]]
        out.append(t)
        muts = []
        if code:
            muts.append(("drop_token", rng.choice(code)))
        if words:
            muts.append(("drop_comment_word", rng.choice(words)))
        if inner:
            muts.append(("drop_inner_comma", rng.choice(inner)))
        # two identifiers / literals with different text: exchanging them is never layout (a swap that involves
        # punctuation can coincide with a legal drop/add of an optional token)
        names = [k for k in code if t["out"][k]["k"] in ("TerminalIdentifier", "TerminalLiteralNumber", "TerminalShortString", "TerminalString")]
        if len(names) > 1 and not (t["cfg"]["sort"] or t["cfg"]["merge"]):
            k1 = rng.choice(names)
            others = [k for k in names if t["out"][k].get("t") != t["out"][k1].get("t")]
            if others:
                muts.append(("swap_tokens", (k1, rng.choice(others))))
        for name, k in muts:
            c = json.loads(json.dumps(t))
            c["id"] = f"{t['id']}#{name}"
            c["isec"], c["osec"] = [], []  # indices would be off; sections are not needed for rejection
            if name == "swap_tokens":
                k, k2 = k
                c["out"][k], c["out"][k2] = c["out"][k2], c["out"][k]
            else:
                del c["out"][k]
            out.append(c)
            expect_rej.append(c["id"])
    if not expect_rej:
        raise ToolError("corruption self-test: nothing to corrupt")
    p = os.path.join(d, "trace_self.ndjson")
    for f in os.listdir(d):
        if f.startswith("trace_"):
            os.remove(os.path.join(d, f))
    # originals keep their sections only when uncorrupted
    write_ndjson(p, out)
    res, verdicts = tlc_trace_batch(p, "c11_selftest")
    chk.add_tlc(res)
    wrongly = [i for i in expect_rej if i in verdicts]
    missing = [t["id"] for t in traces[:12] if verdicts.get(t["id"]) != "ok"]
    shutil.rmtree(d, ignore_errors=True)
    if wrongly:
        raise ToolError(f"corruption self-test: corrupted traces accepted: {wrongly[:5]}")
    if missing:
        raise ToolError(f"corruption self-test: uncorrupted traces rejected: {missing[:5]}")
    log(f"[C11] corruption self-test: {len(expect_rej)} corrupted real traces rejected, originals accepted")
    return len(expect_rej)


# ------------------------------------------------------------------ seeds and action coverage

# Hand-written inputs that put every named action in front of the real formatter, in contexts where
# the edit is allowed and in contexts where it is not (run under the four quick configurations).
SEED_TEXTS = {
    "stmt_semicolons": """fn f() {
    if a { 1 } else { 2 };
    match x { _ => {} };
    loop { break; };
    while c { };
    for i in 0..3_usize { };
    { 5 };
    if a { 1 } else { 2 };
    -1;
    if a { 1 } else { 2 };
    *p;
    if a { b } else { c };
    (1, 2);
    if a { b } else { c };
    [1].span();
    f();
    if a { 1 } else { 2 };
}
""",
    "turbofish": """fn g(a: Array::<u8>, b: core::array::Array::<u8>) -> Option::<Array::<u8>> {
    let x: Array::<u8> = ArrayTrait::<u8>::new();
    let y = Foo::<u8>::bar::<u16>(1);
    let z: Foo::<u8>::Bar = q;
    x
}
impl I of T::<u8> {}
impl J<impl K: T::<u8>, +D::<u8>> of T::<Array::<u8>> {}
""",
    "header_doc": """//! Header doc line one.
//! Header doc line two which is quite a bit longer than the first one, long enough to be wrapped at 40.

fn f() {}
""",
    "rewrap_join": """// This is an overly long comment line that will certainly have to be wrapped at every width we use, and
// this is its continuation, which the formatter may join to the broken-off rest of the previous line
// third line.
fn f() {
    // short
    let x = 1; // trailing comment that is rather long and will not be wrapped since it is trailing a token
    /// doc comment that is long enough to be wrapped at forty columns, surely it is, yes.
    let y = 2;
}
""",
    "trailing_commas": """fn f(a: u8, b: u8,) -> (u8, u8,) implicits(RangeCheck, GasBuiltin,) {
    let (x, y,) = (a, b,);
    let S { a, b, } = S { a: 1, b: 2, };
    let t = (a,);
    let [p, q,] = [1, 2,];
    g::<u8, u16,>(a, b,);
    match x { A => 1, B => 2, }
}
struct S<T, U,> { a: T, b: U, }
enum E { A, B, }
use a::{b, c,};
""",
    "uses": """mod zeta;
mod alpha;
use c::d;
use a::{z, y::{q, p}, self};
use a::b::self;
#[cfg(test)]
use a::t;
pub use c::e;
use c::d;
use a::*;
// keeps its place
use b::k;
use super::v;
use crate::w;
fn f() {}
""",
    "macros": """fn f() {
    let a = array![1, 2, 3,];
    println!("{} {}", a, b,);
    assert!(x == y, "msg",);
    let v = array![(1, 2,), (3, 4,),];
    foo!{ a b c };
}
""",
    "blank_lines": """fn f() {


    let x = 1;



    let y = 2;

}



fn g() {}
""",
}

ACTIONS = ["Keep", "DropTrailingComma", "AddTrailingComma", "DropEmpty", "DropStmtSemicolon",
           "DropTurbofishColonColon", "RewrapSplit", "RewrapJoin", "PermuteWithinSection", "MergeUse", "Fin"]


def seed_plan():
    return [{"id": f"seed:{name}.{ci}", "src": {"k": "text", "text": t}, "cfg": c}
            for name, t in SEED_TEXTS.items() for ci, c in enumerate(QUICK_CFGS)]


def action_coverage(chk):
    """tlc -coverage on the seeds: states per named action (through FormatStreamTraceCov)."""
    d = clean_dir(os.path.join(workdir("c11"), "run_cov"))
    plan_path = os.path.join(d, "plan.ndjson")
    write_ndjson(plan_path, seed_plan())
    run([FMT, "run", plan_path, d, "100000000"], timeout=600)
    res = tlc(SPEC, "FormatStreamTraceCov", "FormatStreamTraceCov.cfg", "c11_cov", workers=1, timeout=900,
              env={"TRACE": os.path.join(d, "trace_0000.ndjson")}, java_opts="-Xss1g", heap="4g", coverage=True)
    if not res.ok:
        raise ToolError(f"FormatStreamTraceCov: {res.violated} {res.errors[:2]} (see {res.out_path})")
    cov = {}
    for line in open(res.out_path, errors="replace"):
        m = re.match(r"^<(\w+) line \d+, col \d+ to line \d+, col \d+ of module FormatStream>: (\d+):(\d+)", line)
        if m and m.group(1) in ACTIONS:
            cov[m.group(1)] = int(m.group(3))
    shutil.rmtree(d, ignore_errors=True)
    never = [a for a in ACTIONS if not cov.get(a)]
    log(f"[C11] action coverage on seeds (states generated per action): {cov}")
    return cov, never


# ------------------------------------------------------------------ main

def main(tier, replay=None):
    chk = Check("C11", tier)
    build_harness(["fmt_check"])
    tot = Totals()
    if replay:
        obj = json.load(open(replay))["replay"]
        line = obj["line"]
        line["id"] = "replay"
        run_plan(chk, [line], "replay", tot)
        extra = report(chk, tot)
        log(f"[C11] replay: {extra}")
        return chk.finish(extra)

    rng = random.Random(seed())
    n_design = self_check(chk)
    cov, never = action_coverage(chk)
    run_plan(chk, seed_plan(), "seeds", tot)
    if never and not tot.failures:
        # every seed was accepted, yet an action was never needed: the seeds no longer exercise it
        raise ToolError(f"action(s) never taken on the seed inputs (binding would be vacuous there): {never}")

    # ---- geometry (R + V)
    geom_path, n_geom_emitted = geometry_lines(chk, tier)
    if tier == "quick":
        with open(geom_path) as f:
            lines = f.read().splitlines()
        pick = sorted(rng.sample(range(len(lines)), min(len(lines), 26000)))
        sample_path = os.path.join(workdir("c11"), "geom_sample.ndjson")
        with open(sample_path, "w") as f:
            for k in pick:
                f.write(lines[k] + "\n")
        del lines
        n_geom_run = len(pick)
        run_plan(chk, sample_path, "geom", tot)
        os.remove(sample_path)
    else:
        step = 300_000
        for part, a in enumerate(range(0, n_geom_emitted, step)):
            run_plan(chk, geom_path, f"geom{part}", tot, batch_elems=1_200_000, skip=a, take=step)
        n_geom_run = n_geom_emitted
    os.remove(geom_path)

    # ---- corpus and layout mutants (V)
    srcs = corpus_sources()
    lattice = full_lattice()
    plan = []
    if tier == "quick":
        files = [s for s in srcs if s["tag"] == "file"]
        snippets = [s for s in srcs if s["tag"] != "file"]
        chosen = rng.sample(files, min(120, len(files))) + rng.sample(snippets, min(200, len(snippets)))
        for n, s in enumerate(chosen):
            for ci, c in enumerate(QUICK_CFGS):
                plan.append({"id": f"c{n}.{ci}", "src": src_of(s), "cfg": c})
        small = [s for s in chosen if s["bytes"] < 40_000]
        for n, s in enumerate(rng.sample(small, min(110, len(small)))):
            for op in MUT_OPS:
                c = QUICK_CFGS[(n + MUT_OPS.index(op)) % len(QUICK_CFGS)]
                plan.append({"id": f"m{n}.{op}", "src": src_of(s, {"op": op, "seed": seed() * 1000 + n}), "cfg": c})
    else:
        K = 8
        for n, s in enumerate(srcs):
            cs = [QUICK_CFGS[0]] + [lattice[(n * K + k) % len(lattice)] for k in range(K)]
            for ci, c in enumerate(cs):
                plan.append({"id": f"c{n}.{ci}", "src": src_of(s), "cfg": c})
        for n, s in enumerate(srcs):
            if s["bytes"] > 120_000:
                continue
            for oi, op in enumerate(MUT_OPS):
                for rep in range(2):
                    for ci in range(2):
                        c = lattice[(n * 7 + oi * 3 + rep * 11 + ci * 97) % len(lattice)] if ci else QUICK_CFGS[rep]
                        plan.append({"id": f"m{n}.{op}.{rep}.{ci}",
                                     "src": src_of(s, {"op": op, "seed": seed() * 100000 + n * 10 + rep}), "cfg": c})
    # the recorded minimal inputs of repaired and of listed formatter defects are replayed in every run
    for fp in sorted(glob.glob(os.path.join(os.path.dirname(SPECS), "corpus", "findings", "C11", "*.json"))):
        fl = json.load(open(fp))
        fl["id"] = "f_" + os.path.basename(fp)[:-5]
        plan.append(fl)
    n_sel = corruption_self_test(chk, [p for p in plan if p["id"].startswith("c")][:40:3])
    step = 12_000 if tier == "thorough" else len(plan)
    for part, a in enumerate(range(0, len(plan), step)):
        run_plan(chk, plan[a:a + step], f"corpus{part}", tot)

    extra = report(chk, tot)
    chk.cov["traces_validated_against_impl"] = tot.recorded
    chk.assumptions = [
        "the parser (SimpleParserDatabase) is trusted to produce the token/comment streams and the position facts",
        "inputs with parser diagnostics are skipped (the property quantifies over error-free sources)",
        "comment equality is on words and line prefixes (//, ///, //!); whitespace inside comments is layout",
        "inside a sorted/merged use section, equality is on the set (bag with allow_duplicate_uses) of "
        "(decorations, path, alias) leaves and on every item's comment words; `a::b::self` = `a::b`",
        "geometry width classes are placed by the renderer's arithmetic (fmtstream.rs), not measured back",
        "thorough geometry: all width-class vectors for n <= 3, at most 2 non-short elements for n = 4",
    ]
    extra.update({
        "exhaustive": tier == "thorough",
        "exhaustive_scope": "every case of the finite FormatGeometry space emitted by TLC was run and validated"
                            if tier == "thorough" else "sampled",
        "geometry_cases_emitted_by_tlc": n_geom_emitted, "geometry_cases_run": n_geom_run,
        "corpus_sources": len(srcs), "cases": tot.cases, "cases_by_origin": tot.by_origin,
        "skipped_input_diagnostics": tot.skipped_input_diag, "skipped_by_origin": tot.skipped_by_origin,
        "accepted": tot.accepted, "identical_trace_records_validated_once": tot.same,
        "distinct_nontrivial": tot.changed,
        "distinct_nontrivial_rule": "recorded cases whose formatted output differs from the input text",
        "elements_validated": tot.elems, "design_cases": n_design, "corrupted_traces_rejected": n_sel,
        "config_lattice": len(lattice), "action_coverage_on_seeds": cov,
    })
    return chk.finish(extra)

"""C10 - the syntax tree is lossless: it reproduces the source byte for byte.

Spec: ParserCursor (token cursor + recovery protocol; invariants Lossless, OffsetLaw, PendingContiguous,
SpanLaw, Final), MCParserCursor (design-level exhaustive run + BUG variants), ParserCursorTrace (acceptor
of recorded (lexer terminals, tree leaves) traces), LexModel (generator of all class strings / token soups).

Alarm criterion (the property verbatim, evaluated on the REAL tree of every input parsed as a module
file): concatenated leaf text == input; width(n) == sum of children widths; span(n) == consecutive union of
children spans; get_text(n) == input[span(n)]; token text == input[span]; root spans the whole file.
A trace rejected by ParserCursorTrace while the tree laws hold is `binding_drift` (diagnostic, exit 0).
"""
import json
import os
import time

import parser_common as pc
from lib import Check, ToolError, build_harness, clean_dir, log, workdir


def law_key(p):
    if p["kind"] == "panic" and p["stage"] == "tree_walk":
        # span / get_text / get_children panicked on the tree the parser returned
        return {"kind": "law", "signature": "other", "law": "tree_api_panic"}
    if p["kind"] != "law":
        return None
    sig = p.get("signature") or "other"
    if sig != "other":
        return {"kind": "law", "signature": sig}
    return {"kind": "law", "signature": "other", "law": p["stage"]}


def report_laws(chk, problems):
    """One violation per (signature, law) class, with the smallest reproducing inputs."""
    n = 0
    for key, ps in pc.group_problems(problems, law_key):
        by_input = {}
        for p in ps:
            by_input.setdefault(p["id"], p)
        ex = sorted(by_input.values(), key=lambda p: (len(p["text"]), p["id"]))[:3]
        replay = {"inputs": [{"text": p["text"], "origin": p.get("origin"), "observed": p["detail"]} for p in ex],
                  "mode": "parse", "n_inputs_affected": len(by_input)}
        if chk.violation(key, replay, f"tree law `{ps[0]['stage']}` fails on {len(by_input)} input(s), e.g. {ex[0]['text'][:80]!r}: {ex[0]['detail'][:200]}"):
            n += 1
    return n


def main(tier, replay=None):
    chk = Check("C10", tier)
    build_harness(["parse_trace"])
    tag = "c10" + pc.WTAG
    wd = workdir("parser", tag)
    if replay:
        inp = os.path.join(wd, "replay_in.ndjson")
        pc.replay_inputs(replay, inp)
        summary, problems = pc.run_harness(inp, clean_dir(os.path.join(wd, "replay_out")), mode="parse", threads=1)
        report_laws(chk, problems)
        log(f"[C10] replay: {summary['inputs']} input(s), {len([p for p in problems if law_key(p)])} law failure(s)")
        chk.cov["traces_validated_against_impl"] = summary["inputs"]
        chk.sample({"replay": replay})
        return chk.finish({"states": 1, "transitions": 1})

    # 1. design: exhaustive model check of the cursor protocol, BUG variants must be caught
    t0 = time.time()
    design = pc.design_check(chk, tier, tag)
    t_design = time.time() - t0

    # 2. input space: LexModel (all class strings / token soups), corpus mutants, nesting probes
    inputs = os.path.join(wd, "inputs.ndjson")
    n_lex, per_cfg = pc.gen_lexmodel(chk, pc.LEX_CFGS[tier], tag, inputs)
    n_mut = 4000 if tier == "quick" else 60000
    mut = os.path.join(wd, "mutants.ndjson")
    info = pc.gen_texts("gen-mutants", mut, n_lex + 1, [str(n_mut), "--cap", str(pc.NEST_CAP)])
    corp = os.path.join(wd, "corpus.ndjson")
    cinfo = pc.gen_texts("gen-corpus", corp, n_lex + 1 + info["mutants"])
    nest = os.path.join(wd, "nest.ndjson")
    ninfo = pc.gen_texts("gen-nesting", nest, n_lex + 1 + info["mutants"] + cinfo["corpus"], ["--cap", str(pc.NEST_CAP)])
    with open(inputs, "a") as g:
        for p in (mut, corp, nest):
            with open(p) as f:
                for line in f:
                    g.write(line)
            os.remove(p)
    n_inputs = n_lex + info["mutants"] + cinfo["corpus"] + ninfo["probes"]
    t_gen = time.time() - t0 - t_design
    log(f"[C10] inputs: {n_lex} LexModel + {info['mutants']} corpus mutants (corpus {info['corpus']} texts) + "
        f"{cinfo['corpus']} corpus originals + {ninfo['probes']} nesting probes")

    # 3. real lexer / parser / tree walk on every input; tree laws are the alarm criterion
    out = clean_dir(os.path.join(wd, "out"))
    # self-test of the binding (C10_SELFTEST=corrupt): one recorded leaf width of every trace is corrupted
    corrupt = 1 if os.environ.get("C10_SELFTEST") == "corrupt" else 0
    summary, problems = pc.run_harness(inputs, out, mode="parse", trace_max=40, corrupt=corrupt)
    t_harness = time.time() - t0 - t_design - t_gen
    log(f"[C10] harness: {json.dumps({k: summary[k] for k in ('inputs', 'parsed', 'nodes', 'leaves', 'with_skipped_token', 'with_skipped_node', 'with_missing', 'distinct_traces', 'wall_ms')})}")
    if summary["inputs"] + len([p for p in problems if p["kind"] == "crash"]) < n_inputs:
        raise ToolError(f"harness processed {summary['inputs']} of {n_inputs} inputs")
    laws = [p for p in problems if law_key(p) is not None]
    law_ids = {p["id"] for p in laws}
    report_laws(chk, problems)
    others = {}
    for p in problems:
        if law_key(p) is None:
            others[p["kind"]] = others.get(p["kind"], 0) + 1
    if others:
        # panics / hangs / diagnostics spans are C09's alarm criterion; model length mismatches are drift
        log(f"[C10] non-C10 observations (diagnostic): {others}")
    for p in problems:
        if p["kind"] in ("len_pred", "lex_tiling") and p["id"] not in law_ids:
            log(f"[C10] binding_drift (diagnostic) {p['kind']}: {p['detail']} on {p['text'][:60]!r}")

    # 4. V: ParserCursorTrace accepts the recorded (lexer terminals, tree leaves) traces
    limit = 24000 if tier == "quick" else 300000
    tv = pc.validate_traces(chk, os.path.join(out, "traces.ndjson"), tag, shards=8, limit=limit)
    rejected = tv["rejected"]
    rej_law = [s for s in rejected if tv["idmap"][s] in law_ids]
    rej_drift = [s for s in rejected if tv["idmap"][s] not in law_ids]
    log(f"[C10] ParserCursorTrace: {tv['traces']} distinct traces, {tv['accepted']} accepted, {len(rejected)} rejected "
        f"({len(rej_law)} of inputs whose tree laws fail, {len(rej_drift)} binding_drift), {tv['steps']} cursor steps, "
        f"invariant failures: {len(tv['invfail'])}")
    if rej_drift:
        ev = pc.trace_text(os.path.join(out, "traces.ndjson"), rej_drift[:3])
        for s in rej_drift[:3]:
            log(f"[C10] binding_drift (diagnostic): trace {s} (input {tv['idmap'][s]}) rejected; events: {json.dumps(ev.get(s, []))[:1500]}")
    for (s, name) in tv["invfail"][:5]:
        log(f"[C10] model invariant {name} failed while explaining trace {s} (input {tv['idmap'].get(s)}) - diagnostic")
    t_trace = time.time() - t0 - t_design - t_gen - t_harness
    log(f"[C10] phases: design {t_design:.0f}s, input generation {t_gen:.0f}s, harness {t_harness:.0f}s, trace validation {t_trace:.0f}s")
    accepted_inputs = sum(tv["mult"][s] for s in tv["mult"] if s not in set(rejected))

    # evidence
    for line in _samples(os.path.join(out, "traces.ndjson")):
        chk.sample(line)
    chk.cov["traces_validated_against_impl"] = tv["accepted"]
    chk.assumptions = [
        "scope: module files (Parser::parse_file_green via file_syntax of a FileKind::Module file); the Expr / StatementList entry points have no end-of-file terminal by construction",
        "driver assumption G1 of the model (no skipped token is pending when a taken node is skipped) is checked on every recorded trace, not assumed for the implementation",
        "traces with more than 40 lexer terminals are checked by the tree laws only (not by TLC)",
        "the lexer's terminal sequence is taken from the public Lexer run separately on the same text",
    ]
    return chk.finish({
        "exhaustive": True,
        "design": design,
        "lexmodel_inputs": per_cfg,
        "inputs": n_inputs, "evaluations": summary["inputs"],
        "distinct_nontrivial": summary["distinct_nontrivial_traces"],
        "rule": "inputs = all LexModel strings/soups of the tier + seeded corpus mutants + corpus originals + nesting probes; "
                "distinct = distinct abstract (lexer terminals, tree leaves) trace among inputs with <= 40 terminals; "
                "non-trivial = the tree contains a skipped token, a missing token or a skipped node",
        "tree_nodes_checked": summary["nodes"], "tree_leaves": summary["leaves"],
        "inputs_with_skipped_token": summary["with_skipped_token"], "inputs_with_skipped_node": summary["with_skipped_node"],
        "inputs_with_missing": summary["with_missing"],
        "exhaustive_scope": "design model and LexModel input spaces enumerated completely by TLC; corpus mutants are a seeded sample; "
                            "TLC validates distinct_traces_validated of distinct_traces_recorded (stride thinning), the tree laws are checked on every input",
        "distinct_traces_recorded": summary["distinct_traces"], "distinct_traces_validated": tv["traces"], "traces_accepted": tv["accepted"], "inputs_covered_by_accepted_traces": accepted_inputs,
        "traces_rejected_law_failing_inputs": len(rej_law), "binding_drift": len(rej_drift),
        "model_invariant_failures_on_traces": len(tv["invfail"]), "cursor_steps": tv["steps"],
        "law_failing_inputs": len(law_ids),
        "replays_executed": summary["len_pred_checked"],
    })


def _samples(path, k=3):
    out = []
    cur = []
    with open(path) as f:
        for line in f:
            o = json.loads(line)
            if o["e"] == "reset" and cur:
                if any(e["e"] == "leaf" and e["c"] in ("skip", "miss") for e in cur) and len(cur) < 30:
                    out.append(cur)
                    if len(out) >= k:
                        break
                cur = []
            cur.append(o)
    return out

"""Typed random generator of programs in the Cairo subset modelled by specs/CairoSem.

Produces, per program, (a) the JSON abstract syntax tree interpreted by the TLA+ reference
semantics and (b) the rendered Cairo source compiled by the real tool-chain.  The same tree is the
source of both, so a renderer/interpreter mismatch shows up on the unchanged tree during bring-up.
All variable names are unique within a function (no shadowing); arrays and dictionaries live in
local variables and are only used through methods (ownership-legal by construction).
"""
import random

INT_TYPES = ["u8", "u16", "u32", "u64", "u128", "i8", "i16", "i32", "i64", "felt"]
SMALL = ["u8", "u16", "i8", "i16"]
UNSIGNED = ["u8", "u16", "u32", "u64", "u128"]
SIGNED = ["i8", "i16", "i32", "i64"]
RANGE = {"u8": (0, 255), "u16": (0, 65535), "i8": (-128, 127), "i16": (-32768, 32767),
         "u32": (0, 2 ** 32 - 1), "u64": (0, 2 ** 64 - 1), "u128": (0, 2 ** 128 - 1),
         "i32": (-2 ** 31, 2 ** 31 - 1), "i64": (-2 ** 63, 2 ** 63 - 1), "felt": (-(2 ** 20), 2 ** 20)}
CAIRO_TY = {"felt": "felt252"}


def cty(t):
    """Cairo spelling of a type descriptor."""
    k = t["k"]
    if k == "int":
        return CAIRO_TY.get(t["ty"], t["ty"])
    if k == "bool":
        return "bool"
    if k == "unit":
        return "()"
    if k == "tuple":
        if t.get("name"):
            return t["name"]
        return "(" + ", ".join(cty(x) for x in t["ts"]) + ("," if len(t["ts"]) == 1 else "") + ")"
    if k == "enum":
        return t["name"]
    if k == "array":
        return f"Array<{cty(t['t'])}>"
    if k == "span":
        return f"Span<{cty(t['t'])}>"
    if k == "dict":
        return f"Felt252Dict<{cty(t['t'])}>"
    raise ValueError(k)


def T(ty):
    return {"k": "int", "ty": ty}


BOOL = {"k": "bool"}
UNITT = {"k": "unit"}
NONE = {"k": "none"}


def opt(t):
    return {"k": "enum", "name": f"Option<{cty(t)}>", "kind": "option", "vs": [t, UNITT]}


def res(t, e):
    return {"k": "enum", "name": f"Result<{cty(t)}, {cty(e)}>", "kind": "result", "vs": [t, e]}


def teq(a, b):
    return cty(a) == cty(b)


class Ctx:
    def __init__(self, fn_ret, vars_, helpers):
        self.fn_ret = fn_ret
        self.vars = vars_  # list of (name, type, mutable)
        self.helpers = helpers  # list of (name, [param types], ret type)
        self.loop = None  # None | ("loop", break type) | ("while",)
        self.counter = 0

    def fresh(self, prefix="v"):
        self.counter += 1
        return f"{prefix}{self.counter}"


class Gen:
    def __init__(self, seed, pid):
        self.r = random.Random(seed)
        self.pid = pid
        self.structs = []  # type descriptors with names
        self.enums = []
        self.fns = {}  # name -> {"params": [...], "ptys": [...], "ret": t, "body": ast}
        self.uses_dict = False
        self.nvar = 0

    # ------------------------------------------------------------------ literals
    def lit_val(self, ty):
        lo, hi = RANGE[ty]
        r = self.r
        pool = [0, 1, 2, 3, 5, 7, 10]
        if ty in SMALL:
            pool += [hi, hi - 1, hi // 2, lo, lo + 1]
        elif ty in UNSIGNED:
            pool += [100, 255, 256, 1000, 65535, 65536, 100000]
        else:
            pool += [-1, -2, -7, 100, -100, 1000, 70000, -70000]
        v = r.choice(pool)
        return max(lo, min(hi, v))

    def lit(self, ty):
        return {"k": "lit", "v": self.lit_val(ty), "ty": ty}

    # ------------------------------------------------------------------ expressions
    def vars_of(self, ctx, t, mutable=None):
        return [v for v in ctx.vars if teq(v[1], t) and (mutable is None or v[2] == mutable)]

    def expr(self, ctx, t, d):
        """An expression of type t (depth budget d)."""
        k = t["k"]
        if k == "int":
            return self.int_expr(ctx, t["ty"], d)
        if k == "bool":
            return self.bool_expr(ctx, d)
        if k == "tuple":
            vs = self.vars_of(ctx, t)
            if vs and (d <= 0 or self.r.random() < 0.3):
                return {"k": "var", "n": self.r.choice(vs)[0]}
            hs = [h for h in ctx.helpers if teq(h[2], t)]
            if hs and d > 0 and self.r.random() < 0.3:
                return self.call(ctx, self.r.choice(hs), d)
            es = [self.expr(ctx, x, d - 1) for x in t["ts"]]
            return {"k": "tuple", "es": es, "name": t.get("name", "")}
        if k == "enum":
            vs = self.vars_of(ctx, t)
            if vs and (d <= 0 or self.r.random() < 0.3):
                return {"k": "var", "n": self.r.choice(vs)[0]}
            hs = [h for h in ctx.helpers if teq(h[2], t)]
            if hs and d > 0 and self.r.random() < 0.5:
                return self.call(ctx, self.r.choice(hs), d)
            if t.get("kind") == "option" and t["vs"][0]["k"] == "int" and d > 0 and self.r.random() < 0.3:
                # try_into produces an Option
                to = t["vs"][0]["ty"]
                frms = [x for x in INT_TYPES if self.try_into_ok(x, to)]
                if frms:
                    frm = self.r.choice(frms)
                    return {"k": "conv", "kind": "try_into", "frm": frm, "to": to, "e": self.int_expr(ctx, frm, d - 1)}
            tag = self.r.randrange(len(t["vs"]))
            pt = t["vs"][tag]
            return {"k": "enum", "tag": tag, "ety": t, "e": NONE if pt["k"] == "unit" else self.expr(ctx, pt, d - 1)}
        if k == "unit":
            return {"k": "unit"}
        raise ValueError(k)

    def try_into_ok(self, frm, to):
        # conversions the core library implements (conservative list)
        ok = {("u16", "u8"), ("u32", "u8"), ("u64", "u8"), ("u128", "u8"), ("u32", "u16"), ("u64", "u16"), ("u128", "u16"),
              ("u64", "u32"), ("u128", "u32"), ("u128", "u64"), ("felt", "u8"), ("felt", "u16"), ("felt", "u32"),
              ("felt", "u64"), ("felt", "u128"), ("felt", "i8"), ("felt", "i16"), ("felt", "i32"), ("felt", "i64"),
              ("i16", "i8"), ("i32", "i8"), ("i64", "i8"), ("i32", "i16"), ("i64", "i16"), ("i64", "i32"),
              ("u8", "i8"), ("u16", "i16"), ("i8", "u8"), ("i16", "u16"), ("i32", "u32"), ("u32", "i32"), ("i16", "u8"), ("u16", "i8")}
        return (frm, to) in ok

    def into_ok(self, frm, to):
        ok = {("u8", "u16"), ("u8", "u32"), ("u8", "u64"), ("u8", "u128"), ("u16", "u32"), ("u16", "u64"), ("u16", "u128"),
              ("u32", "u64"), ("u32", "u128"), ("u64", "u128"), ("u8", "felt"), ("u16", "felt"), ("u32", "felt"),
              ("u64", "felt"), ("u128", "felt"), ("i8", "felt"), ("i16", "felt"), ("i32", "felt"), ("i64", "felt"),
              ("i8", "i16"), ("i8", "i32"), ("i8", "i64"), ("i16", "i32"), ("i16", "i64"), ("i32", "i64"),
              ("u8", "i16"), ("u8", "i32"), ("u16", "i32"), ("u32", "i64")}
        return (frm, to) in ok

    def int_expr(self, ctx, ty, d):
        r = self.r
        vs = self.vars_of(ctx, T(ty))
        if d <= 0:
            if vs and r.random() < 0.8:
                return {"k": "var", "n": r.choice(vs)[0]}
            return self.lit(ty)
        if ctx.fn_ret.get("kind") == "option" and ctx.loop is None and r.random() < 0.15:
            # the ? operator: propagate None out of the enclosing function
            return {"k": "try", "e": self.expr(ctx, opt(T(ty)), d - 1)}
        if ty in ("u8", "u16", "u32", "felt", "i16", "u64") and r.random() < 0.06:
            return self.array_probe(ctx, ty, d)
        if r.random() < 0.07:
            return self.pass_trigger(ctx, ty, d)
        if ty == "u32" and r.random() < 0.10:
            return self.span_probe(ctx)
        if ty == "u32" and r.random() < 0.15:
            return self.loop_struct_probe(ctx)
        c = r.random()
        if c < 0.12 and vs:
            return {"k": "var", "n": r.choice(vs)[0]}
        if c < 0.18:
            return self.lit(ty)
        if c < 0.50:
            ops = ["add", "sub", "mul"] + ([] if ty == "felt" else ["div", "rem"])
            op = r.choice(ops)
            return {"k": "bin", "op": op, "ty": ty, "l": self.int_expr(ctx, ty, d - 1), "r": self.int_expr(ctx, ty, d - 1)}
        if c < 0.56 and ty in ("u8", "u16"):
            return {"k": "bit", "op": r.choice(["and", "or", "xor"]), "ty": ty,
                    "l": self.int_expr(ctx, ty, d - 1), "r": self.int_expr(ctx, ty, d - 1)}
        if c < 0.60 and (ty in SIGNED or ty == "felt"):
            return {"k": "neg", "ty": ty, "e": self.int_expr(ctx, ty, d - 1)}
        if c < 0.70:
            return {"k": "if", "c": self.bool_expr(ctx, d - 1), "t": self.block(ctx, T(ty), d - 1), "e": self.block(ctx, T(ty), d - 1)}
        if c < 0.76:
            frm = [f for f in INT_TYPES if self.into_ok(f, ty)]
            if frm:
                f = r.choice(frm)
                return {"k": "conv", "kind": "into", "frm": f, "to": ty, "e": self.int_expr(ctx, f, d - 1)}
        if c < 0.82:
            hs = [h for h in ctx.helpers if teq(h[2], T(ty))]
            if hs:
                return self.call(ctx, r.choice(hs), d)
        if c < 0.88:
            # unwrap / match on an Option<ty>
            ot = opt(T(ty))
            oe = self.expr(ctx, ot, d - 1)
            if r.random() < 0.4:
                return {"k": "unwrap", "e": oe, "msg": "Option::unwrap failed."}
            n = self.fresh(ctx)
            inner = Ctx(ctx.fn_ret, ctx.vars + [(n, T(ty), False)], ctx.helpers)
            inner.loop, inner.counter = ctx.loop, ctx.counter
            arm0 = self.int_expr(inner, ty, d - 1)
            ctx.counter = inner.counter
            return {"k": "match", "e": oe, "ety": ot,
                    "arms": [{"n": n, "body": arm0}, {"n": "", "body": self.int_expr(ctx, ty, d - 1)}]}
        if c < 0.92 and ty in ("u8", "u16", "u32"):
            # match on an integer (sequential literal arms from 0)
            scr = {"k": "bin", "op": "rem", "ty": ty, "l": self.int_expr(ctx, ty, d - 1), "r": {"k": "lit", "v": r.choice([3, 4, 5]), "ty": ty}}
            n_arms = r.choice([2, 3])
            arms = [{"vals": [i], "body": self.int_expr(ctx, ty, d - 1)} for i in range(n_arms)]
            if r.random() < 0.4 and n_arms >= 2:
                arms = [{"vals": [0], "body": arms[0]["body"]}, {"vals": [1, 2], "body": arms[1]["body"]}]
            return {"k": "matchint", "ty": ty, "e": scr, "arms": arms, "dflt": self.int_expr(ctx, ty, d - 1)}
        if c < 0.96:
            arrs = [v for v in ctx.vars if v[1]["k"] == "array" and teq(v[1]["t"], T(ty))]
            if arrs:
                a = r.choice(arrs)[0]
                return {"k": "aat", "a": a, "i": self.int_expr(ctx, "u32", 0) if r.random() < 0.5 else {"k": "lit", "v": r.choice([0, 1, 2, 9]), "ty": "u32"}}
            if ty == "u32":
                arrs = [v for v in ctx.vars if v[1]["k"] == "array"]
                if arrs:
                    return {"k": "alen", "a": r.choice(arrs)[0]}
            dicts = [v for v in ctx.vars if v[1]["k"] == "dict" and teq(v[1]["t"], T(ty))]
            if dicts:
                return {"k": "dget", "d": r.choice(dicts)[0], "key": self.int_expr(ctx, "felt", 0)}
        if c < 0.98 and ty == "u32":
            # length of the derived Serde output of a struct / option value
            cands = [s for s in self.structs] + [opt(T("u16"))]
            st = r.choice(cands)
            return {"k": "serlen", "ty": st, "e": self.expr(ctx, st, d - 1)}
        if c < 0.975:
            inner = self.int_expr(ctx, ty, d - 1)
            if r.random() < 0.5:
                return {"k": "unbox", "e": {"k": "box", "e": inner}}
            return {"k": "desnap", "e": {"k": "snap", "e": inner}}
        if c < 0.99 and self.enums:
            et = r.choice(self.enums)
            scr = self.expr(ctx, et, d - 1)
            arms = []
            for vt in et["vs"]:
                if vt["k"] == "unit":
                    arms.append({"n": "", "body": self.int_expr(ctx, ty, d - 1)})
                else:
                    n = self.fresh(ctx)
                    inner = Ctx(ctx.fn_ret, ctx.vars + [(n, vt, False)], ctx.helpers)
                    inner.loop = ctx.loop
                    arms.append({"n": n, "body": self.int_expr(inner, ty, d - 1)})
            return {"k": "match", "e": scr, "ety": et, "arms": arms}
        if c < 0.996 and ctx.fn_ret.get("kind") == "option":
            # the ? operator: propagate None out of the enclosing function
            return {"k": "try", "e": self.expr(ctx, opt(T(ty)), d - 1)}
        # struct field
        for s in r.sample(self.structs, len(self.structs)):
            idx = [i for i, x in enumerate(s["ts"]) if teq(x, T(ty))]
            if idx:
                return {"k": "field", "i": r.choice(idx) + 1, "e": self.expr(ctx, s, d - 1)}
        return {"k": "block", "ss": [], "tail": self.int_expr(ctx, ty, d - 1)}

    def pass_trigger(self, ctx, ty, d):
        """Shapes that the lowering optimisations rewrite (CSE, dedup blocks, match optimisation, return optimisation,
        split structs, reboxing, numeric match lowering)."""
        import copy
        r = self.r
        kind = r.choice(["cse", "dedup", "idmatch", "rebox", "bigmatch", "matchif", "destruct"])
        if kind == "cse":
            e = self.int_expr(ctx, ty, d - 1)
            op = r.choice(["add", "sub", "mul"])
            return {"k": "bin", "op": op, "ty": ty, "l": e, "r": copy.deepcopy(e)}
        if kind == "dedup":
            e = self.int_expr(ctx, ty, d - 1)
            return {"k": "if", "c": self.bool_expr(ctx, d - 1), "t": {"k": "block", "ss": [], "tail": e},
                    "e": {"k": "block", "ss": [], "tail": copy.deepcopy(e)}}
        if kind == "idmatch":
            ot = opt(T(ty))
            n = self.fresh(ctx)
            ident = {"k": "match", "ety": ot, "e": self.expr(ctx, ot, d - 1),
                     "arms": [{"n": n, "body": {"k": "enum", "tag": 0, "ety": ot, "e": {"k": "var", "n": n}}},
                              {"n": "", "body": {"k": "enum", "tag": 1, "ety": ot, "e": NONE}}]}
            m = self.fresh(ctx)
            return {"k": "match", "ety": ot, "e": ident,
                    "arms": [{"n": m, "body": {"k": "var", "n": m}}, {"n": "", "body": self.lit(ty)}]}
        if kind == "rebox":
            return {"k": "unbox", "e": {"k": "box", "e": {"k": "unbox", "e": {"k": "box", "e": self.int_expr(ctx, ty, d - 1)}}}}
        if kind == "bigmatch" and ty in ("u8", "u16", "u32"):
            n_arms = r.choice([4, 5, 6, 7])
            scr = {"k": "bin", "op": "rem", "ty": ty, "l": self.int_expr(ctx, ty, d - 1), "r": {"k": "lit", "v": n_arms + r.choice([0, 1, 2]), "ty": ty}}
            arms = [{"vals": [i], "body": self.int_expr(ctx, ty, 0)} for i in range(n_arms)]
            return {"k": "matchint", "ty": ty, "e": scr, "arms": arms, "dflt": self.int_expr(ctx, ty, 0)}
        if kind == "matchif":
            ot = opt(T(ty))
            n = self.fresh(ctx)
            scr = {"k": "if", "c": self.bool_expr(ctx, d - 1),
                   "t": {"k": "block", "ss": [], "tail": {"k": "enum", "tag": 0, "ety": ot, "e": self.int_expr(ctx, ty, d - 1)}},
                   "e": {"k": "block", "ss": [], "tail": {"k": "enum", "tag": 1, "ety": ot, "e": NONE}}}
            return {"k": "match", "ety": ot, "e": scr, "arms": [{"n": n, "body": {"k": "var", "n": n}}, {"n": "", "body": self.lit(ty)}]}
        if kind == "destruct" and self.structs:
            st = r.choice(self.structs)
            idx = [i for i, x in enumerate(st["ts"]) if teq(x, T(ty))]
            if idx:
                ns = [self.fresh(ctx) for _ in st["ts"]]
                rebuilt = {"k": "tuple", "name": st["name"], "es": [{"k": "var", "n": n} for n in ns]}
                return {"k": "block", "ss": [{"k": "letstruct", "name": st["name"], "ns": ns, "e": self.expr(ctx, st, d - 1)}],
                        "tail": {"k": "field", "i": r.choice(idx) + 1, "e": rebuilt}}
        return self.int_expr(ctx, ty, d - 1)

    def loop_struct_probe(self, ctx, force=False):
        """A nested struct whose inner member is assigned inside a loop while the struct and its inner struct are
        compared (by snapshot, derived PartialEq) with a target in the same body; u32 result."""
        r = self.r
        p = self.pid
        qi = {"k": "tuple", "ts": [T("u32"), T("u32")], "name": f"Qi{p}"}
        qo = {"k": "tuple", "ts": [qi, T("u32")], "name": f"Qo{p}"}
        known = getattr(self, "nested_structs", [])
        if not any(st["name"] == qi["name"] for st in known):
            self.nested_structs = known + [qi, qo]
        u32 = T("u32")
        vs = self.vars_of(ctx, u32)

        def val():
            if vs and r.random() < 0.5:
                return {"k": "var", "n": r.choice(vs)[0]}
            return {"k": "lit", "v": r.choice([0, 1, 2, 7]), "ty": "u32"}
        import copy
        c0 = r.choice([0, 1, 2])
        d0, e0 = val(), val()
        lit = lambda v: {"k": "lit", "v": v, "ty": "u32"}
        mk = lambda c, d, e: {"k": "tuple", "name": qo["name"], "es": [{"k": "tuple", "name": qi["name"], "es": [c, d]}, e]}
        a, t, i, h1, h2 = (self.fresh(ctx) for _ in range(5))
        n = r.choice([1, 2, 3, 5])
        # the target is reached after k <= n increments (most of the time), so that the comparisons inside the loop
        # change their outcome from one iteration to the next
        k = r.randint(1, n) if (force or r.random() < 0.85) else n + 1
        ss = [{"k": "let", "n": a, "mut": True, "ty": qo, "e": mk(lit(c0), d0, e0)},
              {"k": "let", "n": t, "mut": False, "ty": qo,
               "e": mk(lit(c0 + k), copy.deepcopy(d0) if (force or r.random() < 0.85) else val(),
                       copy.deepcopy(e0) if (force or r.random() < 0.85) else val())},
              {"k": "let", "n": i, "mut": True, "ty": u32, "e": lit(0)},
              {"k": "let", "n": h1, "mut": True, "ty": u32, "e": lit(0)},
              {"k": "let", "n": h2, "mut": True, "ty": u32, "e": lit(0)}]
        var = lambda x: {"k": "var", "n": x}
        fld = lambda e, k: {"k": "field", "i": k, "e": e}
        inc = lambda x: {"k": "opset", "n": x, "op": "add", "ty": "u32", "e": lit(1)}
        iff = lambda c, st: {"k": "expr", "e": {"k": "if", "c": c, "t": {"k": "block", "ss": [st], "tail": NONE},
                                               "e": {"k": "block", "ss": [], "tail": NONE}}}
        body = []
        deep = force or r.random() < 0.9
        if deep:
            body.append({"k": "setf", "n": a, "path": [1, 1], "e": {"k": "bin", "op": "add", "ty": "u32", "l": fld(fld(var(a), 1), 1), "r": lit(1)}})
        else:
            body.append({"k": "setf", "n": a, "path": [2], "e": {"k": "bin", "op": "add", "ty": "u32", "l": fld(var(a), 2), "r": lit(1)}})
        cmps = []
        if force or r.random() < 0.9:
            cmps.append(iff({"k": "veq", "l": var(a), "r": var(t)}, inc(h1)))
        if force or r.random() < 0.9:
            cmps.append(iff({"k": "veq", "l": fld(var(a), 1), "r": fld(var(t), 1)}, inc(h2)))
        r.shuffle(cmps)
        body += cmps
        kind = "loop" if force else r.choice(["loop", "loop", "loop", "while", "for"])
        cond = {"k": "cmp", "op": "lt", "l": var(i), "r": lit(n)}
        if kind == "for":
            j = self.fresh(ctx)
            ss.append({"k": "expr", "e": {"k": "for", "n": j, "lo": lit(0), "hi": lit(n), "body": {"k": "block", "ss": body, "tail": NONE}}})
        elif kind == "while":
            ss.append({"k": "expr", "e": {"k": "while", "c": cond, "body": {"k": "block", "ss": [inc(i)] + body, "tail": NONE}}})
        else:
            brk = iff({"k": "not", "e": cond}, {"k": "expr", "e": {"k": "break", "e": var(h1)}})
            out = self.fresh(ctx)
            ss.append({"k": "let", "n": out, "mut": False, "ty": u32,
                       "e": {"k": "loop", "body": {"k": "block", "ss": [brk, inc(i)] + body, "tail": NONE}}})
            h1 = out
        res = {"k": "bin", "op": "add", "ty": "u32",
               "l": {"k": "bin", "op": "add", "ty": "u32",
                     "l": {"k": "bin", "op": "mul", "ty": "u32", "l": var(h1), "r": lit(100)},
                     "r": {"k": "bin", "op": "mul", "ty": "u32", "l": var(h2), "r": lit(10)}},
               "r": fld(fld(var(a), 1), 1) if deep else fld(var(a), 2)}
        return {"k": "block", "ss": ss, "tail": res}

    def noncopy_enum_probe(self, ctx):
        """The same variant of a NON-copyable enum (one variant carries an array) built twice from the same copyable
        payload, both values used afterwards (u32 result): optimisations that share identical constructions must
        not share these."""
        r = self.r
        p = self.pid
        u32 = T("u32")
        arr = {"k": "array", "t": u32}
        if r.random() < 0.5:
            ety = {"k": "enum", "name": f"Nc{p}", "kind": "user", "vs": [u32, arr, UNITT]}
            known = getattr(self, "nc_enums", [])
            if not any(e["name"] == ety["name"] for e in known):
                self.nc_enums = known + [ety]
            tag = r.choice([0, 0, 2])
        else:
            ety = opt(arr)
            tag = 1
        vs = self.vars_of(ctx, u32)
        arg = ({"k": "var", "n": r.choice(vs)[0]} if vs and r.random() < 0.7 else {"k": "lit", "v": r.choice([0, 3, 9]), "ty": "u32"})
        # the two values are built in a helper and returned as a pair, so both are really used by the caller
        payload = {"k": "var", "n": "a0"}
        mk = lambda: {"k": "enum", "ety": ety, "tag": tag, "e": payload if ety["vs"][tag]["k"] != "unit" else NONE}
        self.nc_count = getattr(self, "nc_count", 0) + 1
        hname = f"p{p}_nc{self.nc_count}"
        pair = {"k": "tuple", "ts": [ety, ety]}
        self.fns[hname] = {"params": ["a0"], "ptys": [u32], "ret": pair,
                           "body": {"k": "block", "ss": [], "tail": {"k": "tuple", "name": "", "es": [mk(), mk()]}},
                           "inline": r.choice(["", "", "never", "always"])}
        o1, o2 = self.fresh(ctx), self.fresh(ctx)
        ss = [{"k": "lettuple", "ns": [o1, o2], "e": {"k": "call", "f": hname, "args": [arg]}}]

        def observe(o, base):
            arms = []
            for i, vt in enumerate(ety["vs"]):
                if vt["k"] == "int":
                    n = self.fresh(ctx)
                    arms.append({"n": n, "body": {"k": "block", "ss": [], "tail": {"k": "bin", "op": "add", "ty": "u32", "l": {"k": "bin", "op": "rem", "ty": "u32", "l": {"k": "var", "n": n}, "r": {"k": "lit", "v": 1000, "ty": "u32"}}, "r": {"k": "lit", "v": base, "ty": "u32"}}}})
                elif vt["k"] == "array":
                    n = self.fresh(ctx)
                    arms.append({"n": n, "body": {"k": "block", "ss": [], "tail": {"k": "alen", "a": n}}})
                else:
                    arms.append({"n": "", "body": {"k": "block", "ss": [], "tail": {"k": "lit", "v": base + 5, "ty": "u32"}}})
            return {"k": "match", "ety": ety, "e": {"k": "var", "n": o}, "arms": arms}
        res = {"k": "bin", "op": "add", "ty": "u32", "l": observe(o1, 10000), "r": observe(o2, 20000)}
        return {"k": "block", "ss": ss, "tail": res}

    def span_probe(self, ctx):
        """A buffer padded with the same run-time value many times; spans are taken before and after the last append
        and both are observed (u32 result)."""
        import copy
        r = self.r
        ety = r.choice(["u8", "u16", "u32", "felt", "u64"])
        et = T(ety)
        a = self.fresh(ctx)
        vs = self.vars_of(ctx, et)
        pad = {"k": "var", "n": r.choice(vs)[0]} if vs else self.lit(ety)
        ss = [{"k": "let", "n": a, "mut": True, "ty": {"k": "array", "t": et}, "e": {"k": "arr", "ety": et, "es": []}}]
        n_app = r.choice([6, 7, 7, 8, 8, 9, 10])
        for _ in range(n_app - 1):
            ss.append({"k": "expr", "e": {"k": "append", "a": a, "e": copy.deepcopy(pad)}})
        s1 = self.fresh(ctx)
        ss.append({"k": "let", "n": s1, "mut": False, "ty": {"k": "span", "t": et}, "e": {"k": "aspan", "a": a}})
        ss.append({"k": "expr", "e": {"k": "append", "a": a, "e": copy.deepcopy(pad)}})
        s2 = self.fresh(ctx)
        ss.append({"k": "let", "n": s2, "mut": False, "ty": {"k": "span", "t": et}, "e": {"k": "aspan", "a": a}})
        lens = {"k": "bin", "op": "add", "ty": "u32",
                "l": {"k": "bin", "op": "mul", "ty": "u32", "l": {"k": "slen", "s": s1}, "r": {"k": "lit", "v": 100, "ty": "u32"}},
                "r": {"k": "slen", "s": s2}}
        if ety == "u32" and r.random() < 0.5:
            obs = {"k": "bin", "op": "add", "ty": "u32", "l": {"k": "sat", "s": s2, "i": {"k": "lit", "v": n_app - 1, "ty": "u32"}}, "r": lens}
        else:
            # reading the last element of the later span must not panic
            n = self.fresh(ctx)
            ss.append({"k": "let", "n": n, "mut": False, "ty": et, "e": {"k": "sat", "s": s2, "i": {"k": "lit", "v": n_app - 1, "ty": "u32"}}})
            obs = lens
        return {"k": "block", "ss": ss, "tail": obs}

    def array_probe(self, ctx, ty, d):
        """A block that builds a local array, pops / appends / indexes it and yields one of the observed elements."""
        r = self.r
        et = T(ty)
        a = self.fresh(ctx)
        n0 = r.choice([2, 3, 4])
        ss = [{"k": "let", "n": a, "mut": True, "ty": {"k": "array", "t": et},
               "e": {"k": "arr", "ety": et, "es": [self.int_expr(ctx, ty, min(d - 1, 1)) for _ in range(n0)]}}]
        inner = Ctx(ctx.fn_ret, ctx.vars + [(a, {"k": "array", "t": et}, True)], ctx.helpers)
        inner.loop = ctx.loop
        if r.random() < 0.4:
            ss.append({"k": "expr", "e": {"k": "append", "a": a, "e": self.int_expr(ctx, ty, 0)}})
        lit_idx = lambda: {"k": "lit", "v": r.choice([0, 1, 1, 2, 2, 3]), "ty": "u32"}
        form = r.choice(["unwrap", "unwrap2", "match", "plain", "spans", "spans"])
        if form == "spans" and ty == "u32":
            # a buffer padded with the same run-time value; spans taken before and after the last appends
            vs = self.vars_of(ctx, et)
            pad = {"k": "var", "n": r.choice(vs)[0]} if vs else self.lit(ty)
            import copy
            ss = [{"k": "let", "n": a, "mut": True, "ty": {"k": "array", "t": et}, "e": {"k": "arr", "ety": et, "es": []}}]
            n_app = r.choice([4, 5, 6, 7, 8, 9])
            for _ in range(n_app - 1):
                ss.append({"k": "expr", "e": {"k": "append", "a": a, "e": copy.deepcopy(pad)}})
            s1 = self.fresh(ctx)
            ss.append({"k": "let", "n": s1, "mut": False, "ty": {"k": "span", "t": et}, "e": {"k": "aspan", "a": a}})
            ss.append({"k": "expr", "e": {"k": "append", "a": a, "e": copy.deepcopy(pad)}})
            s2 = self.fresh(ctx)
            ss.append({"k": "let", "n": s2, "mut": False, "ty": {"k": "span", "t": et}, "e": {"k": "aspan", "a": a}})
            obs = r.choice([
                {"k": "bin", "op": "add", "ty": "u32", "l": {"k": "bin", "op": "mul", "ty": "u32", "l": {"k": "slen", "s": s1}, "r": {"k": "lit", "v": 100, "ty": "u32"}}, "r": {"k": "slen", "s": s2}},
                {"k": "bin", "op": "add", "ty": "u32", "l": {"k": "sat", "s": s2, "i": {"k": "lit", "v": n_app - 1, "ty": "u32"}}, "r": {"k": "slen", "s": s1}},
                {"k": "sat", "s": s1, "i": {"k": "lit", "v": n_app - 1, "ty": "u32"}},
            ])
            return {"k": "block", "ss": ss, "tail": obs}
        if form == "spans":
            form = "unwrap"
        if form in ("unwrap", "unwrap2"):
            p1 = self.fresh(ctx)
            ss.append({"k": "let", "n": p1, "mut": False, "ty": et,
                       "e": {"k": "unwrap", "msg": "Option::unwrap failed.", "e": {"k": "apop", "a": a, "ety": et}}})
            if r.random() < 0.4:
                ss.append({"k": "expr", "e": {"k": "append", "a": a, "e": self.int_expr(ctx, ty, 0)}})
            if form == "unwrap2":
                p2 = self.fresh(ctx)
                ss.append({"k": "let", "n": p2, "mut": False, "ty": et,
                           "e": {"k": "unwrap", "msg": "Option::unwrap failed.", "e": {"k": "apop", "a": a, "ety": et}}})
                tail = r.choice([{"k": "var", "n": p2}, {"k": "aat", "a": a, "i": lit_idx()}])
            else:
                tail = r.choice([{"k": "aat", "a": a, "i": lit_idx()}, {"k": "aat", "a": a, "i": lit_idx()}, {"k": "var", "n": p1}])
            return {"k": "block", "ss": ss, "tail": tail}
        if form == "match":
            x = self.fresh(ctx)
            some_body = r.choice([{"k": "aat", "a": a, "i": lit_idx()},
                                  {"k": "unwrap", "msg": "Option::unwrap failed.", "e": {"k": "apop", "a": a, "ety": et}},
                                  {"k": "var", "n": x}])
            tail = {"k": "match", "ety": opt(et), "e": {"k": "apop", "a": a, "ety": et},
                    "arms": [{"n": x, "body": some_body}, {"n": "", "body": self.lit(ty)}]}
            return {"k": "block", "ss": ss, "tail": tail}
        return {"k": "block", "ss": ss, "tail": {"k": "aat", "a": a, "i": lit_idx()}}

    def bool_expr(self, ctx, d):
        r = self.r
        vs = self.vars_of(ctx, BOOL)
        if d <= 0:
            if vs and r.random() < 0.5:
                return {"k": "var", "n": r.choice(vs)[0]}
            return {"k": "lit", "v": r.random() < 0.5, "ty": "bool"}
        c = r.random()
        if c < 0.55:
            ty = r.choice(INT_TYPES)
            op = r.choice(["lt", "le", "gt", "ge", "eq", "ne"]) if ty != "felt" else r.choice(["eq", "ne"])
            return {"k": "cmp", "op": op, "l": self.int_expr(ctx, ty, d - 1), "r": self.int_expr(ctx, ty, d - 1)}
        if c < 0.75:
            return {"k": "logic", "op": r.choice(["and", "or"]), "l": self.bool_expr(ctx, d - 1), "r": self.bool_expr(ctx, d - 1)}
        if c < 0.83:
            return {"k": "not", "e": self.bool_expr(ctx, d - 1)}
        if c < 0.92 and self.structs:
            s = r.choice(self.structs)
            return {"k": "cmp", "op": r.choice(["eq", "ne"]), "l": self.expr(ctx, s, d - 1), "r": self.expr(ctx, s, d - 1)}
        if vs:
            return {"k": "var", "n": r.choice(vs)[0]}
        return {"k": "lit", "v": r.random() < 0.5, "ty": "bool"}

    def call(self, ctx, h, d):
        args = []
        for pt in h[1]:
            if pt.get("small"):
                args.append({"k": "lit", "v": self.r.choice([0, 1, 2, 3, 6]), "ty": "u8"})
            else:
                args.append(self.expr(ctx, pt, d - 1))
        return {"k": "call", "f": h[0], "args": args}

    def fresh(self, ctx):
        self.nvar += 1
        return f"x{self.nvar}"

    # ------------------------------------------------------------------ blocks and statements
    def block(self, ctx, t, d, allow_ret=True):
        """A block of statements ending in a tail expression of type t."""
        r = self.r
        saved = list(ctx.vars)
        ss = []
        n = r.choice([0, 0, 1, 1, 2, 3]) if d > 0 else 0
        for _ in range(n):
            s = self.stmt(ctx, d - 1)
            if s:
                ss.extend(s)
        # early return
        if allow_ret and d > 0 and ctx.loop is None and r.random() < 0.12:
            ss.append({"k": "expr", "e": {"k": "if", "c": self.bool_expr(ctx, d - 1),
                                          "t": {"k": "block", "ss": [{"k": "expr", "e": {"k": "ret", "e": self.expr(ctx, ctx.fn_ret, d - 1)}}], "tail": NONE},
                                          "e": {"k": "block", "ss": [], "tail": NONE}}})
        tail = self.expr(ctx, t, d) if t["k"] != "unit" else NONE
        ctx.vars = saved
        return {"k": "block", "ss": ss, "tail": tail}

    def stmt(self, ctx, d):
        r = self.r
        c = r.random()
        if c < 0.35:
            t = r.choice([T(r.choice(INT_TYPES)), T(r.choice(SMALL)), BOOL] + self.structs[:1])
            n = self.fresh(ctx)
            mut = r.random() < 0.5
            e = self.expr(ctx, t, d)
            ctx.vars.append((n, t, mut))
            return [{"k": "let", "n": n, "mut": mut, "ty": t, "e": e}]
        if c < 0.5:
            ms = [v for v in ctx.vars if v[2] and v[1]["k"] == "int"]
            if ms:
                v = r.choice(ms)
                ty = v[1]["ty"]
                if r.random() < 0.5:
                    return [{"k": "set", "n": v[0], "e": self.int_expr(ctx, ty, d)}]
                op = r.choice(["add", "sub", "mul"] + ([] if ty == "felt" else ["div", "rem"]))
                return [{"k": "opset", "n": v[0], "op": op, "ty": ty, "e": self.int_expr(ctx, ty, d)}]
        if c < 0.58 and d > 0:
            # array: create, fill, maybe pop
            et = T(r.choice(["u8", "u16", "u32", "felt", "i16"]))
            n = self.fresh(ctx)
            k = r.choice([0, 1, 2, 3])
            ss = [{"k": "let", "n": n, "mut": True, "ty": {"k": "array", "t": et},
                   "e": {"k": "arr", "ety": et, "es": [self.expr(ctx, et, d - 1) for _ in range(k)]}}]
            ctx.vars.append((n, {"k": "array", "t": et}, True))
            for _ in range(r.choice([0, 1, 2])):
                ss.append({"k": "expr", "e": {"k": "append", "a": n, "e": self.expr(ctx, et, d - 1)}})
            if r.random() < 0.3:
                pn = self.fresh(ctx)
                ss.append({"k": "let", "n": pn, "mut": False, "ty": opt(et), "e": {"k": "apop", "a": n, "ety": et}})
                ctx.vars.append((pn, opt(et), False))
            return ss
        if c < 0.64 and d > 0:
            vt = T(r.choice(["u8", "u16", "u32", "felt"]))
            n = self.fresh(ctx)
            self.uses_dict = True
            ss = [{"k": "let", "n": n, "mut": True, "ty": {"k": "dict", "t": vt}, "e": {"k": "dnew"}}]
            ctx.vars.append((n, {"k": "dict", "t": vt}, True))
            for _ in range(r.choice([1, 2, 3])):
                ss.append({"k": "expr", "e": {"k": "dins", "d": n, "key": self.int_expr(ctx, "felt", 0), "val": self.expr(ctx, vt, d - 1)}})
            return ss
        if c < 0.78 and d > 0 and ctx.loop is None:
            return self.loop_stmt(ctx, d)
        if c < 0.84:
            return [{"k": "expr", "e": {"k": "assert", "c": self.bool_expr(ctx, d), "msg": r.choice(["assert a", "bad state", "chk"])}}]
        if c < 0.88 and d > 0:
            # destructure a tuple
            ts = [T(r.choice(INT_TYPES)), r.choice([BOOL, T(r.choice(SMALL))])]
            ns = [self.fresh(ctx), self.fresh(ctx)]
            e = self.expr(ctx, {"k": "tuple", "ts": ts}, d - 1)
            for n, t in zip(ns, ts):
                ctx.vars.append((n, t, False))
            return [{"k": "lettuple", "ns": ns, "e": e}]
        if c < 0.93 and d > 0:
            # conditional mutation
            ms = [v for v in ctx.vars if v[2] and v[1]["k"] == "int"]
            if ms:
                v = r.choice(ms)
                ty = v[1]["ty"]
                return [{"k": "expr", "e": {"k": "if", "c": self.bool_expr(ctx, d - 1),
                                            "t": {"k": "block", "ss": [{"k": "set", "n": v[0], "e": self.int_expr(ctx, ty, d - 1)}], "tail": NONE},
                                            "e": {"k": "block", "ss": [{"k": "opset", "n": v[0], "op": "add", "ty": ty, "e": self.lit(ty)}] if r.random() < 0.5 else [], "tail": NONE}}}]
        return None

    def loop_stmt(self, ctx, d):
        r = self.r
        kind = r.choice(["loop", "while", "for"])
        acc_ty = r.choice(["u8", "u16", "u32", "felt", "i16", "u64"])
        acc = self.fresh(ctx)
        bound = r.choice([0, 1, 2, 3, 5])
        ss = [{"k": "let", "n": acc, "mut": True, "ty": T(acc_ty), "e": self.int_expr(ctx, acc_ty, 0)}]
        ctx.vars.append((acc, T(acc_ty), True))
        saved = list(ctx.vars)
        if kind == "for":
            i = self.fresh(ctx)
            ctx.vars.append((i, T("u32"), False))
            ctx.loop = ("for",)
            body_ss = self.loop_body(ctx, acc, acc_ty, d)
            ctx.loop = None
            ctx.vars = saved
            ss.append({"k": "expr", "e": {"k": "for", "n": i, "lo": {"k": "lit", "v": r.choice([0, 1]), "ty": "u32"},
                                          "hi": {"k": "lit", "v": bound, "ty": "u32"}, "body": {"k": "block", "ss": body_ss, "tail": NONE}}})
            return ss
        i = self.fresh(ctx)
        ss.append({"k": "let", "n": i, "mut": True, "ty": T("u32"), "e": {"k": "lit", "v": 0, "ty": "u32"}})
        ctx.vars.append((i, T("u32"), True))
        saved = list(ctx.vars)
        inc = {"k": "opset", "n": i, "op": "add", "ty": "u32", "e": {"k": "lit", "v": 1, "ty": "u32"}}
        cond = {"k": "cmp", "op": "lt", "l": {"k": "var", "n": i}, "r": {"k": "lit", "v": bound, "ty": "u32"}}
        if kind == "while":
            ctx.loop = ("while",)
            body_ss = self.loop_body(ctx, acc, acc_ty, d)
            ctx.loop = None
            ctx.vars = saved
            # the counter is incremented first so that `continue` cannot loop forever
            ss.append({"k": "expr", "e": {"k": "while", "c": cond, "body": {"k": "block", "ss": [inc] + body_ss, "tail": NONE}}})
            return ss
        # loop with a break value bound to a new variable
        ctx.loop = ("loop", T(acc_ty))
        body_ss = self.loop_body(ctx, acc, acc_ty, d)
        ctx.loop = None
        ctx.vars = saved
        brk = {"k": "expr", "e": {"k": "if", "c": {"k": "not", "e": cond},
                                  "t": {"k": "block", "ss": [{"k": "expr", "e": {"k": "break", "e": {"k": "var", "n": acc}}}], "tail": NONE},
                                  "e": {"k": "block", "ss": [], "tail": NONE}}}
        out = self.fresh(ctx)
        ss.append({"k": "let", "n": out, "mut": False, "ty": T(acc_ty),
                   "e": {"k": "loop", "body": {"k": "block", "ss": [brk, inc] + body_ss, "tail": NONE}}})
        ctx.vars.append((out, T(acc_ty), False))
        return ss

    def loop_body(self, ctx, acc, acc_ty, d):
        r = self.r
        ss = []
        if r.random() < 0.3:
            ss.append({"k": "expr", "e": {"k": "if", "c": self.bool_expr(ctx, d - 1),
                                          "t": {"k": "block", "ss": [{"k": "expr", "e": {"k": "continue"}}], "tail": NONE},
                                          "e": {"k": "block", "ss": [], "tail": NONE}}})
        op = r.choice(["add", "add", "sub", "mul"])
        ss.append({"k": "opset", "n": acc, "op": op, "ty": acc_ty, "e": self.int_expr(ctx, acc_ty, max(0, d - 1))})
        if r.random() < 0.25 and ctx.loop[0] != "loop":
            ss.append({"k": "expr", "e": {"k": "if", "c": self.bool_expr(ctx, d - 1),
                                          "t": {"k": "block", "ss": [{"k": "expr", "e": {"k": "break", "e": NONE}}], "tail": NONE},
                                          "e": {"k": "block", "ss": [], "tail": NONE}}})
        extra = self.stmt(ctx, 0) if r.random() < 0.3 else None
        if extra:
            ss.extend(extra)
        return ss

    # ------------------------------------------------------------------ whole programs
    def probe_program(self):
        """A program whose main returns the results of targeted probes directly (always executed, always observed)."""
        r = self.r
        p = self.pid
        u32 = T("u32")
        params, ptys = ["m0", "m1"], [u32, T("u8")]
        ctx = Ctx({"k": "tuple", "ts": [u32, u32]}, [(n, t, False) for n, t in zip(params, ptys)], [])
        x = self.fresh(ctx)
        pre = [{"k": "let", "n": x, "mut": False, "ty": u32,
                "e": {"k": "conv", "kind": "into", "frm": "u8", "to": "u32", "e": {"k": "var", "n": "m1"}}}]
        ctx.vars.append((x, u32, False))
        first = self.loop_struct_probe(ctx, force=True)
        second = r.choice([lambda: self.span_probe(ctx), lambda: self.array_probe(ctx, "u32", 1),
                           lambda: self.loop_struct_probe(ctx), lambda: self.pass_trigger(ctx, "u32", 1)])()
        es = [first, second, self.noncopy_enum_probe(ctx)]
        r.shuffle(es)
        # a helper that takes a tuple / struct apart and re-assembles it with its (same-typed) members permuted or
        # duplicated - the shape on which "destructure cancels construct" shortcuts must not fire
        k = r.choice([2, 3, 3])
        named = r.random() < 0.5
        pt = {"k": "tuple", "ts": [u32] * k, "name": f"Qp{p}" if named else ""}
        if named:
            self.nested_structs = getattr(self, "nested_structs", []) + [pt]
        ns = [f"y{i}" for i in range(k)]
        while True:
            pi = [r.randrange(k) for _ in range(k)]
            if pi != list(range(k)):
                break
        hname = f"p{p}_perm"
        take = ({"k": "letstruct", "name": pt["name"], "ns": ns, "e": {"k": "var", "n": "a0"}} if named
                else {"k": "lettuple", "ns": ns, "e": {"k": "var", "n": "a0"}})
        hbody = {"k": "block", "ss": [take],
                 "tail": {"k": "tuple", "name": pt["name"], "es": [{"k": "var", "n": ns[j]} for j in pi]}}
        self.fns[hname] = {"params": ["a0"], "ptys": [pt], "ret": pt, "body": hbody, "inline": r.choice(["", "", "never", "always"])}
        srcs = [{"k": "var", "n": "m0"}, {"k": "var", "n": x}, {"k": "lit", "v": 7, "ty": "u32"}]
        arg = {"k": "tuple", "name": pt["name"], "es": [srcs[i % 3] for i in range(k)]}
        zs = [self.fresh(ctx) for _ in range(k)]
        call = {"k": "call", "f": hname, "args": [arg]}
        pre.append({"k": "letstruct", "name": pt["name"], "ns": zs, "e": call} if named else {"k": "lettuple", "ns": zs, "e": call})
        es += [{"k": "var", "n": z} for z in zs]
        rt = {"k": "tuple", "ts": [u32] * len(es)}
        body = {"k": "block", "ss": pre, "tail": {"k": "tuple", "es": es, "name": ""}}
        main = f"p{p}_main"
        self.fns[main] = {"params": params, "ptys": ptys, "ret": rt, "body": body, "inline": ""}
        return main

    def program(self, depth=3):
        r = self.r
        p = self.pid
        if r.random() < 0.12:
            return self.probe_program()
        # one struct type with scalar members
        if r.random() < 0.7:
            ts = [T(r.choice(["u8", "u16", "u32", "felt", "i8", "i16"])) for _ in range(r.choice([2, 3]))]
            if r.random() < 0.4:
                ts.append(BOOL)
            self.structs.append({"k": "tuple", "ts": ts, "name": f"S{p}"})
        if r.random() < 0.5:
            vs = [T(r.choice(["u8", "u16", "felt", "i16"])), r.choice([T(r.choice(["u32", "u8"])), UNITT]), UNITT]
            self.enums.append({"k": "enum", "name": f"E{p}", "kind": "user", "vs": vs})
        helpers = []
        if r.random() < 0.4:
            # an Option-returning helper whose body may use `?`
            ity = r.choice(["u8", "u16", "u32", "i16"])
            rt = opt(T(ity))
            name = f"p{p}_opt"
            ptys = [T(r.choice(INT_TYPES)), T(r.choice(SMALL))]
            ctx = Ctx(rt, [("a0", ptys[0], False), ("a1", ptys[1], False)], [])
            body = self.block(ctx, rt, depth - 1, allow_ret=False)
            self.fns[name] = {"params": ["a0", "a1"], "ptys": ptys, "ret": rt, "body": body, "inline": r.choice(["", "never"])}
            helpers.append((name, ptys, rt))
        for hi in range(r.choice([0, 1, 2])):
            ptys = [r.choice([T(r.choice(INT_TYPES)), T(r.choice(SMALL)), BOOL] + self.structs) for _ in range(r.choice([1, 2]))]
            rt = r.choice([T(r.choice(INT_TYPES)), T(r.choice(SMALL))] + self.structs)
            name = f"p{p}_h{hi}"
            params = [f"a{i}" for i in range(len(ptys))]
            ctx = Ctx(rt, [(n, t, False) for n, t in zip(params, ptys)], list(helpers))
            body = self.block(ctx, rt, depth - 1)
            self.fns[name] = {"params": params, "ptys": ptys, "ret": rt, "body": body, "inline": r.choice(["", "", "never", "always"])}
            helpers.append((name, ptys, rt))
        # optional recursive helper: bounded by its first (u8) argument
        if r.random() < 0.3:
            name = f"p{p}_rec"
            rt = T(r.choice(["u16", "u32", "felt", "u64"]))
            ctx = Ctx(rt, [("n", T("u8"), False), ("acc", rt, False)], list(helpers))
            step = self.int_expr(ctx, rt["ty"], 1)
            body = {"k": "block", "ss": [], "tail": {
                "k": "if", "c": {"k": "cmp", "op": "eq", "l": {"k": "var", "n": "n"}, "r": {"k": "lit", "v": 0, "ty": "u8"}},
                "t": {"k": "block", "ss": [], "tail": {"k": "var", "n": "acc"}},
                "e": {"k": "block", "ss": [], "tail": {"k": "call", "f": name, "args": [
                    {"k": "bin", "op": "sub", "ty": "u8", "l": {"k": "var", "n": "n"}, "r": {"k": "lit", "v": 1, "ty": "u8"}}, step]}}}}
            self.fns[name] = {"params": ["n", "acc"], "ptys": [T("u8"), rt], "ret": rt, "body": body, "inline": ""}
            # callers pass a small literal as n
            helpers.append((name, [{"k": "int", "ty": "u8", "small": True}, rt], rt))
        # main
        nparams = r.choice([1, 2, 3])
        ptys = [T(r.choice(["u8", "u8", "u16", "i8", "i16", "u32", "u64", "felt", "u128", "i32"])) for _ in range(nparams)]
        rts = [r.choice([T(r.choice(INT_TYPES)), T(r.choice(SMALL)), BOOL]) for _ in range(r.choice([1, 2, 3]))]
        rt = {"k": "tuple", "ts": rts}
        params = [f"m{i}" for i in range(nparams)]
        ctx = Ctx(rt, [(n, t, False) for n, t in zip(params, ptys)], helpers)
        # locals of many types derived from the parameters, so that leaves depend on the inputs
        # (otherwise most expressions are literal-only and get constant folded)
        pre = []
        for ty in r.sample(INT_TYPES, len(INT_TYPES)):
            if any(v[1]["k"] == "int" and v[1]["ty"] == ty for v in ctx.vars):
                continue
            srcs = [(n, t["ty"]) for n, t in zip(params, ptys) if self.into_ok(t["ty"], ty)]
            if srcs and r.random() < 0.8:
                n0, t0 = r.choice(srcs)
                n = self.fresh(ctx)
                pre.append({"k": "let", "n": n, "mut": False, "ty": T(ty),
                            "e": {"k": "conv", "kind": "into", "frm": t0, "to": ty, "e": {"k": "var", "n": n0}}})
                ctx.vars.append((n, T(ty), False))
        if r.random() < 0.6:
            n = self.fresh(ctx)
            pre.append({"k": "let", "n": n, "mut": False, "ty": BOOL,
                        "e": {"k": "cmp", "op": "eq" if ptys[0]["ty"] == "felt" else r.choice(["lt", "gt", "eq"]), "l": {"k": "var", "n": params[0]},
                              "r": self.lit(ptys[0]["ty"])}})
            ctx.vars.append((n, BOOL, False))
        body = self.block(ctx, rt, depth)
        body["ss"] = pre + body["ss"]
        main = f"p{p}_main"
        self.fns[main] = {"params": params, "ptys": ptys, "ret": rt, "body": body, "inline": ""}
        return main

    def arg_vectors(self, main, k):
        r = self.r
        f = self.fns[main]
        out = []
        for j in range(k):
            v = []
            for t in f["ptys"]:
                ty = t["ty"]
                lo, hi = RANGE[ty]
                if ty not in SMALL:
                    lo, hi = max(lo, -100000), min(hi, 100000)
                pool = [0, 1, 2, 3, 7, hi, hi - 1, lo, lo + 1, (lo + hi) // 2, r.randint(lo, hi), r.randint(lo, hi)]
                x = pool[(j * 5 + len(v) * 3) % len(pool)] if j < 6 else r.choice(pool)
                v.append(max(lo, min(hi, x)))
            out.append(v)
        return out


def fix_small_args(node):
    """Recursive helper calls take a small literal as their bound argument."""
    return node


# ---------------------------------------------------------------------- rendering to Cairo
def lit_src(v, ty):
    if ty == "bool":
        return "true" if v else "false"
    if ty == "felt":
        return str(v) if v >= 0 else f"({v})"
    return f"{v}_{ty}" if v >= 0 else f"({v}_{ty})"


BINOP = {"add": "+", "sub": "-", "mul": "*", "div": "/", "rem": "%"}
CMPOP = {"lt": "<", "le": "<=", "gt": ">", "ge": ">=", "eq": "==", "ne": "!="}
BITOP = {"and": "&", "or": "|", "xor": "^"}


def enum_path(t, tag):
    if t.get("kind") == "option":
        return f"Option::<{cty(t['vs'][0])}>::" + ("Some" if tag == 0 else "None")
    if t.get("kind") == "result":
        return f"Result::<{cty(t['vs'][0])}, {cty(t['vs'][1])}>::" + ("Ok" if tag == 0 else "Err")
    return f"{t['name']}::V{tag}"


def src(e):
    k = e["k"]
    if k == "lit":
        return lit_src(e["v"], e["ty"])
    if k == "unit":
        return "()"
    if k == "var":
        return e["n"]
    if k == "bin":
        return f"({src(e['l'])} {BINOP[e['op']]} {src(e['r'])})"
    if k == "cmp":
        return f"({src(e['l'])} {CMPOP[e['op']]} {src(e['r'])})"
    if k == "bit":
        return f"({src(e['l'])} {BITOP[e['op']]} {src(e['r'])})"
    if k == "logic":
        return f"({src(e['l'])} {'&&' if e['op'] == 'and' else '||'} {src(e['r'])})"
    if k == "not":
        return f"!({src(e['e'])})"
    if k == "neg":
        return f"(-({src(e['e'])}))"
    if k == "if":
        return f"if {src(e['c'])} {src(e['t'])} else {src(e['e'])}"
    if k == "block":
        parts = [stmt_src(s) for s in e["ss"]]
        if e["tail"]["k"] != "none":
            parts.append(src(e["tail"]))
        return "{ " + " ".join(parts) + " }"
    if k == "call":
        return f"{e['f']}({', '.join(src(a) for a in e['args'])})"
    if k == "tuple":
        if e.get("name"):
            return e["name"] + " { " + ", ".join(f"f{i + 1}: {src(x)}" for i, x in enumerate(e["es"])) + " }"
        return "(" + ", ".join(src(x) for x in e["es"]) + ("," if len(e["es"]) == 1 else "") + ")"
    if k == "field":
        return f"({src(e['e'])}).f{e['i']}"
    if k == "veq":
        return f"({src(e['l'])} == {src(e['r'])})"
    if k == "enum":
        path = enum_path(e["ety"], e["tag"])
        return path if e["e"]["k"] == "none" else f"{path}({src(e['e'])})"
    if k == "match":
        t = e["ety"]
        arms = []
        for tag, arm in enumerate(e["arms"]):
            base = ("Option::" + ("Some" if tag == 0 else "None")) if t.get("kind") == "option" else \
                   ("Result::" + ("Ok" if tag == 0 else "Err")) if t.get("kind") == "result" else f"{t['name']}::V{tag}"
            has_payload = t["vs"][tag]["k"] != "unit"
            pat = base + (f"({arm['n'] or '_'})" if has_payload else "")
            arms.append(f"{pat} => {{ {src(arm['body'])} }},")
        scr = src(e["e"])
        if e["e"]["k"] in ("if", "block", "match", "matchint", "loop"):
            scr = f"({scr})"
        return f"match {scr} {{ " + " ".join(arms) + " }"
    if k == "matchint":
        arms = [f"{' | '.join(str(v) for v in a['vals'])} => {{ {src(a['body'])} }}," for a in e["arms"]]
        arms.append(f"_ => {{ {src(e['dflt'])} }},")
        return f"match {src(e['e'])} {{ " + " ".join(arms) + " }"
    if k == "unwrap":
        return f"({src(e['e'])}).unwrap()"
    if k == "try":
        return f"({src(e['e'])})?"
    if k == "conv":
        f, t = CAIRO_TY.get(e["frm"], e["frm"]), CAIRO_TY.get(e["to"], e["to"])
        if e["kind"] == "into":
            return f"Into::<{f}, {t}>::into({src(e['e'])})"
        return f"TryInto::<{f}, {t}>::try_into({src(e['e'])})"
    if k == "arr":
        return "array![" + ", ".join(src(x) for x in e["es"]) + "]"
    if k == "alen":
        return f"{e['a']}.len()"
    if k == "aat":
        return f"(*{e['a']}.at({src(e['i'])}))"
    if k == "append":
        return f"{e['a']}.append({src(e['e'])})"
    if k == "apop":
        return f"{e['a']}.pop_front()"
    if k == "aspan":
        return f"{e['a']}.span()"
    if k == "slen":
        return f"{e['s']}.len()"
    if k == "sat":
        return f"(*{e['s']}.at({src(e['i'])}))"
    if k == "dnew":
        return "Default::default()"
    if k == "dget":
        return f"{e['d']}.get({src(e['key'])})"
    if k == "dins":
        return f"{e['d']}.insert({src(e['key'])}, {src(e['val'])})"
    if k == "box":
        return f"BoxTrait::new({src(e['e'])})"
    if k == "unbox":
        return f"({src(e['e'])}).unbox()"
    if k == "snap":
        return f"@({src(e['e'])})"
    if k == "desnap":
        return f"(*{src(e['e'])})"
    if k == "serlen":
        return "{ let mut out__: Array<felt252> = array![]; let v__ = " + src(e["e"]) + "; Serde::serialize(@v__, ref out__); out__.len() }"
    if k == "loop":
        return f"loop {src(e['body'])}"
    if k == "while":
        return f"while {src(e['c'])} {src(e['body'])}"
    if k == "for":
        return f"for {e['n']} in {src(e['lo'])}..{src(e['hi'])} {src(e['body'])}"
    if k == "break":
        return "break" if e["e"]["k"] == "none" else f"break {src(e['e'])}"
    if k == "continue":
        return "continue"
    if k == "ret":
        return f"return {src(e['e'])}"
    if k == "assert":
        return f"assert({src(e['c'])}, '{e['msg']}')"
    if k == "panic":
        return f"core::panic_with_felt252('{e['msg']}')"
    raise ValueError(k)


def stmt_src(s):
    k = s["k"]
    if k == "let":
        return f"let {'mut ' if s['mut'] else ''}{s['n']}: {cty(s['ty'])} = {src(s['e'])};"
    if k == "lettuple":
        return f"let ({', '.join(s['ns'])}) = {src(s['e'])};"
    if k == "letstruct":
        return f"let {s['name']} {{ " + ", ".join(f"f{i + 1}: {n}" for i, n in enumerate(s["ns"])) + f" }} = {src(s['e'])};"
    if k == "set":
        return f"{s['n']} = {src(s['e'])};"
    if k == "setf":
        return s["n"] + "".join(f".f{i}" for i in s["path"]) + f" = {src(s['e'])};"
    if k == "opset":
        return f"{s['n']} {BINOP[s['op']]}= {src(s['e'])};"
    if k == "expr":
        return src(s["e"]) + ";"
    raise ValueError(k)


def render(gen):
    out = []
    for s in getattr(gen, "nested_structs", []) + gen.structs:
        out.append("#[derive(Copy, Drop, PartialEq, Serde)]")
        out.append(f"struct {s['name']} {{ " + ", ".join(f"f{i + 1}: {cty(t)}" for i, t in enumerate(s["ts"])) + " }")
    for e in getattr(gen, "nc_enums", []):
        out.append("#[derive(Drop)]")
        out.append(f"enum {e['name']} {{ " + ", ".join(f"V{i}" + ("" if t["k"] == "unit" else f": {cty(t)}") for i, t in enumerate(e["vs"])) + " }")
    for e in gen.enums:
        out.append("#[derive(Copy, Drop, PartialEq, Serde)]")
        out.append(f"enum {e['name']} {{ " + ", ".join(f"V{i}" + ("" if t["k"] == "unit" else f": {cty(t)}") for i, t in enumerate(e["vs"])) + " }")
    for name, f in gen.fns.items():
        if f.get("inline"):
            out.append(f"#[inline({f['inline']})]")
        ps = ", ".join(f"{n}: {cty(t)}" for n, t in zip(f["params"], f["ptys"]))
        out.append(f"fn {name}({ps}) -> {cty(f['ret'])} {src(f['body'])}")
    return "\n".join(out) + "\n"


# ---------------------------------------------------------------------- the tree for the spec
def strip_types(node):
    """The spec needs type *descriptors* only where the semantics is type directed (serlen, ret)."""
    if isinstance(node, dict):
        d = {}
        for k, v in node.items():
            if k in ("ety",):
                continue
            d[k] = strip_types(v)
        if node.get("k") == "field":
            return {"k": "tget", "i": node["i"], "e": strip_types(node["e"])}
        if node.get("k") == "let":
            d.pop("ty", None)
            d.pop("mut", None)
        if node.get("k") == "letstruct":
            d["k"] = "lettuple"
            d.pop("name", None)
        return d
    if isinstance(node, list):
        return [strip_types(x) for x in node]
    return node


def desc(t):
    k = t["k"]
    if k == "int":
        return {"k": "int", "ty": t["ty"]}
    if k in ("bool", "unit"):
        return {"k": k}
    if k == "tuple":
        return {"k": "tuple", "ts": [desc(x) for x in t["ts"]]}
    if k == "enum":
        return {"k": "enum", "vs": [desc(x) for x in t["vs"]]}
    if k == "array":
        return {"k": "array", "t": desc(t["t"])}
    raise ValueError(k)


def spec_tree(node):
    n = strip_types(node)
    return fix_desc(n)


def fix_desc(n):
    if isinstance(n, dict):
        if n.get("k") == "serlen":
            return {"k": "serlen", "ty": desc(n["ty"]), "e": fix_desc(n["e"])}
        return {k: fix_desc(v) for k, v in n.items()}
    if isinstance(n, list):
        return [fix_desc(x) for x in n]
    return n


def make_program(seed, pid, depth=3):
    g = Gen(seed * 1000003 + pid, pid)
    main = g.program(depth)
    prog = {"fns": {name: {"params": f["params"], "body": spec_tree(f["body"])} for name, f in g.fns.items()},
            "main": main, "ret": desc(g.fns[main]["ret"])}
    header = ""
    return {"pid": pid, "main": main, "prog": prog, "source": render(g), "uses_dict": g.uses_dict,
            "args": g.arg_vectors(main, 6), "ptys": [t["ty"] for t in g.fns[main]["ptys"]]}

"""C03 - results do not depend on prover-supplied hint values (soundness).

L2 (symbolic): for every selected libfunc instantiation the REAL CASM of a wrapper compiled at check
time is turned into a TLA+ module (one action per instruction, AIR form: memory is an arbitrary total
function, hints do not exist) and Apalache checks the mathematical post-condition of IntOpsPost.tla
at every `ret`: all inputs x all memories (= all hint answers).  A counter-example is replayed on the
real VM with the program's hints scripted from the model memory; only a reproduced successful run
with a different result is a violation.

L1 (concrete): TLC (HintAdversary.tla) enumerates the fault plans for every hint occurrence of
recorded honest runs; the harness executes them on the real VM through a wrapping hint processor and
TLC validates the event log (Ok => same result).
"""
import concurrent.futures
import glob
import json
import os
import random
import re
import shutil
import subprocess
import time

import c03_families
from lib import (BIN, EVIDENCE, REPO, SPECS, Check, ToolError, build_harness, clean_dir, extract_replay, log, read_ndjson,
                 run, seed, tlc, workdir, write_ndjson, JAVA_OPTS_TRACE)

SPEC = os.path.join(SPECS, "LibfuncSound")
APALACHE_PAR = 4


# ------------------------------------------------------------------------------------------ L2

def apalache(job_dir, module, length, inv, run_name, timeout):
    """Returns (status, wall, run_dir): status in ok | violated | timeout | error."""
    rd = os.path.join(job_dir, run_name)
    shutil.rmtree(rd, ignore_errors=True)
    cmd = ["timeout", str(timeout), "apalache-mc", "check", "--init=Init", "--next=Next", f"--inv={inv}",
           f"--length={length}", "--smt-encoding=arrays", f"--run-dir={rd}", f"--out-dir={job_dir}/_apalache-out",
           module + ".tla"]
    t0 = time.time()
    env = dict(os.environ, JVM_ARGS="-Xmx3g")
    r = subprocess.run(cmd, cwd=job_dir, env=env, stdout=subprocess.PIPE, stderr=subprocess.STDOUT, text=True)
    wall = time.time() - t0
    with open(os.path.join(job_dir, run_name + ".log"), "w") as f:
        f.write(r.stdout)
    if r.returncode == 0 and "The outcome is: NoError" in r.stdout:
        return "ok", wall, rd
    if r.returncode == 12 and os.path.exists(os.path.join(rd, "violation1.itf.json")):
        return "violated", wall, rd
    if r.returncode in (124, 137):
        return "timeout", wall, rd
    return "error", wall, rd


def itf_int(v):
    if isinstance(v, dict) and "#bigint" in v:
        return int(v["#bigint"])
    return int(v)


def itf_memory(path):
    d = json.load(open(path))
    st = d["states"][-1]
    mem = {itf_int(k): itf_int(v) for k, v in st["mem"]["#map"]}
    return mem, itf_int(st["pc"]), itf_int(st["ap"])


def replay_cex(chk, job, info, run_dir, l2dir):
    """Concretise an Apalache counter-example on the real VM (scripted hints)."""
    mem, pc, ap = itf_memory(os.path.join(run_dir, "violation1.itf.json"))
    fp = info["fp"]
    args = [str(mem[a]) for a in info["arg_cells"]]
    syms = dict((s, a) for s, a in info["entry_syms"])
    cex = {"name": job["name"], "cairo": job["cairo"], "args": args,
           "cells": {str(a - fp): str(v) for a, v in mem.items() if a < 1000},
           "scratch": os.path.join(l2dir, "_replay_src")}
    if "GAS0" in syms:
        # the runner subtracts the function's own cost from the available gas; give the model's counter
        cex["gas_cell"] = str(mem[syms["GAS0"]])
    cex_path = os.path.join(l2dir, job["name"], "cex.json")
    out_path = os.path.join(l2dir, job["name"], "cex_replay.json")
    json.dump(cex, open(cex_path, "w"))
    run([os.path.join(BIN, "libfunc_air"), "replay", cex_path, out_path], timeout=600)
    res = json.load(open(out_path))
    return cex, res, pc


def layer2(chk, tier, only=None):
    l2dir = clean_dir(os.path.join(workdir("c03"), "l2"))
    jobs = c03_families.select(tier, seed())
    if only:
        jobs = [j for j in jobs if j["name"] in only]
    jobs_path = os.path.join(l2dir, "jobs.ndjson")
    write_ndjson(jobs_path, jobs)
    res_path = os.path.join(l2dir, "gen.ndjson")
    run([os.path.join(BIN, "libfunc_air"), "gen", jobs_path, l2dir, res_path], timeout=1200)
    infos = {r["name"]: r for r in read_ndjson(res_path)}
    byname = {j["name"]: j for j in jobs}
    not_generated = {n: r["why"][:200] for n, r in infos.items() if not r["ok"]}
    for n, why in not_generated.items():
        log(f"[C03/L2] not generated: {n}: {why}")
    todo = [n for n, r in infos.items() if r["ok"]]
    if not todo:
        raise ToolError("L2: no LibfuncSound instance could be generated")
    if not_generated:
        # on the pinned tree every instance compiles and is in the supported CASM fragment; a wrapper that
        # no longer compiles (e.g. the compiler's own cost validation panics) or leaves the fragment is not
        # a verdict about C03 but must not pass silently
        raise ToolError(f"L2: {len(not_generated)} of {len(infos)} instances could not be generated: "
                        f"{list(not_generated.items())[:3]}")
    for n in todo:
        for m in ("CairoAir.tla", "IntOpsPost.tla"):
            shutil.copy(os.path.join(SPEC, m), os.path.join(infos[n]["dir"], m))

    lin_to = 900 if tier == "thorough" else 400
    nl_to = 240 if tier == "thorough" else 60

    def work(n):
        info, job = infos[n], byname[n]
        to = nl_to if (job["nonlinear"] or info["nonlinear"] > 0) else lin_to
        st, wall, rd = apalache(info["dir"], info["module"], info["length"], "Sound", "sound", to)
        # anti-vacuity: the first `ret` must be reachable within the bound (cheap linear instances only)
        reach = None
        if st == "ok" and n in reach_sample and info["rets"]:
            r0 = info["rets"][-1]
            st2, _, _ = apalache(info["dir"], info["module"], info["length"], f"NotAt{r0}", "reach", to)
            reach = (st2 == "violated")
        return n, st, wall, rd, reach

    # self-test of the L2 binding: the same instance with its last range check removed from the
    # generated module must have a counter-example
    selftest = None
    st_name = "u8_overflowing_add" if "u8_overflowing_add" in todo else None
    if st_name:
        info = infos[st_name]
        text = open(os.path.join(info["dir"], info["module"] + ".tla")).read()
        lines = text.split("\n")
        k = max(i for i, l in enumerate(lines) if re.match(r"^C\d+_\d+ == Rd\(", l))
        lines[k] = lines[k].split(" == ")[0] + " == TRUE"
        bug_mod = info["module"] + "_bug"
        open(os.path.join(info["dir"], bug_mod + ".tla"), "w").write(
            "\n".join(lines).replace(f"MODULE {info['module']} ", f"MODULE {bug_mod} "))

    # anti-vacuity sample: for these instances the last `ret` must be reachable within the bound
    rs = random.Random(seed() + 17)
    reach_sample = set(rs.sample(sorted(todo), min(len(todo), 12 if tier == "thorough" else 1)))

    # longest first
    todo.sort(key=lambda n: -(infos[n]["n_nodes"] * infos[n]["length"] * (5 if byname[n]["nonlinear"] else 1)))
    results = {}
    t0 = time.time()
    # self-consistency of CairoAir's mod-P encodings (equivalence with the definition by remainder)
    acdir = clean_dir(os.path.join(l2dir, "_aircheck"))
    for m in ("CairoAir.tla", "CairoAirCheck.tla"):
        shutil.copy(os.path.join(SPEC, m), os.path.join(acdir, m))
    with concurrent.futures.ThreadPoolExecutor(max_workers=APALACHE_PAR) as ex:
        fut_air = ex.submit(apalache, acdir, "CairoAirCheck", 0, "EncodingsOK", "enc", lin_to)
        fut = None
        if st_name:
            fut = ex.submit(apalache, infos[st_name]["dir"], infos[st_name]["module"] + "_bug", infos[st_name]["length"],
                            "Sound", "bug", lin_to)
        for n, st, wall, rd, reach in ex.map(work, todo):
            results[n] = (st, wall, rd, reach)
            log(f"[C03/L2] {n}: {st} in {wall:.0f}s (instrs={infos[n]['n_instr']} length={infos[n]['length']}"
                f"{' nonlinear' if byname[n]['nonlinear'] else ''}{'' if reach is None else ' ret-reachable=' + str(reach)})")
        if fut_air.result()[0] != "ok":
            raise ToolError(f"CairoAirCheck: the mod-P encodings of CairoAir are not equivalent to their definition "
                            f"({fut_air.result()[0]}, see {acdir}/enc.log)")
        if fut is not None:
            selftest = fut.result()[0]
            if selftest != "violated":
                raise ToolError(f"self-test: removing a range check from the generated module was not detected ({selftest})")
    log(f"[C03/L2] apalache total wall {time.time() - t0:.0f}s for {len(todo)} instances; self-test bug: {selftest}")

    out = {"checked": [], "symbolic_skipped": [], "unconfirmed_model_cex": [], "confirmed": [], "unreachable_ret": []}
    for n, (st, wall, rd, reach) in results.items():
        job, info = byname[n], infos[n]
        nl = job["nonlinear"] or info["nonlinear"] > 0
        if st == "ok":
            out["checked"].append(n)
            if reach is False:
                raise ToolError(f"L2: the `ret` of {n} is not reachable in the model (vacuous instance)")
        elif st == "timeout":
            if nl:
                out["symbolic_skipped"].append(n)
            else:
                raise ToolError(f"L2: Apalache timed out on the linear instance {n}")
        elif st == "error":
            if nl:
                out["symbolic_skipped"].append(n + " (solver error)")
            else:
                raise ToolError(f"L2: Apalache failed on {n} (see {info['dir']}/sound.log)")
        else:
            cex, res, pc = replay_cex(chk, job, info, rd, l2dir)
            if res.get("differs") and not res.get("opaque"):
                out["confirmed"].append(n)
                chk.violation({"layer": "L2", "instance": n, "args": cex["args"]},
                              {"layer": "L2", "job": job, "cex": cex, "observed": res, "casm": info["casm"]},
                              f"{n}: with prover-chosen hint values the wrapper run succeeds with "
                              f"{res['scripted']['kind']}:{res['scripted']['content']} instead of "
                              f"{res['honest']['kind']}:{res['honest']['content']} (args {cex['args']})")
            else:
                out["unconfirmed_model_cex"].append({"instance": n, "at_pc": pc, "args": cex["args"],
                                                     "replay": {k: res.get(k) for k in ("honest", "scripted", "error")}})
                log(f"[C03/L2] {n}: model counter-example NOT reproduced on the VM (diagnostic): "
                    f"{json.dumps(res)[:400]}")
    out["selftest"] = selftest
    out["not_generated"] = not_generated
    out["walls"] = {n: round(r[1], 1) for n, r in results.items()}
    return out, jobs



# ------------------------------------------------------------------------------------------ L1

E2E_SEP = "//! > =========================================================================="


def e2e_programs():
    """The `//! > cairo_code` wrappers of tests/e2e_test_data/libfuncs (368 cases)."""
    root = os.path.join(REPO, "tests", "e2e_test_data", "libfuncs")
    progs = []
    for dirpath, _, files in sorted(os.walk(root)):
        for fn in sorted(files):
            path = os.path.join(dirpath, fn)
            text = open(path, errors="replace").read()
            for bi, block in enumerate(text.split(E2E_SEP)):
                m = re.search(r"//! > cairo_code\n(.*?)(?=\n//! > |\Z)", block, re.S)
                if not m:
                    continue
                nm = re.search(r"//! > (.*)", block)
                rn = re.search(r"//! > test_runner_name\n(\S+)", block)
                progs.append({"id": f"e2e/{os.path.relpath(path, root)}#{bi}:{nm.group(1).strip() if nm else ''}",
                              "source": m.group(1) + "\n", "funcs": "foo",
                              "auto_gas": not (rn and "SkipAddGas" in rn.group(1))})
    return progs


def file_programs(tier):
    progs = []
    files = sorted(glob.glob(os.path.join(os.path.dirname(SPECS), "corpus", "cairo", "*.cairo")))
    ex = sorted(p for p in glob.glob(os.path.join(REPO, "examples", "*.cairo")) if not p.endswith("lib.cairo"))
    if tier == "quick":
        rng = random.Random(seed())
        ex = rng.sample(ex, min(6, len(ex)))
    for p in files + ex:
        progs.append({"id": ("corpus/" if "/corpus/" in p else "examples/") + os.path.basename(p),
                      "source": open(p).read(), "funcs": "all", "auto_gas": True})
    return progs


def tlc_checked(spec_dir, module, cfg, name, env=None, java_opts=None, timeout=1800, expect_violation=None):
    res = tlc(spec_dir, module, cfg, name, workers=1, timeout=timeout, env=env, java_opts=java_opts, heap="6g")
    if expect_violation is None:
        if res.errors or res.violated:
            raise ToolError(f"TLC {module}/{cfg}: violated={res.violated} errors={res.errors[:2]} (see {res.out_path})")
    return res


def layer1(chk, tier):
    d = clean_dir(os.path.join(workdir("c03"), "l1"))
    # design model + anti-vacuity of the design (BUG: a program with an unpinned influential cell)
    r = tlc_checked(SPEC, "MCHintAdversary", "MCHintAdversary.cfg", "c03_mc")
    chk.add_tlc(r)
    rb = tlc(SPEC, "MCHintAdversary", "MCHintAdversary_bug.cfg", "c03_mc_bug", workers=1, timeout=600)
    if "SoundDesign" not in rb.violated:
        raise ToolError("self-test: HintAdversary with BUG=TRUE did not violate SoundDesign")

    progs = e2e_programs() + file_programs(tier) + c03_families.candidate_programs()
    plan = {"programs": progs, "inputs_per_fn": 2 if tier == "quick" else 8, "max_occ": 6 if tier == "quick" else 30,
            "max_steps": 300000, "max_fns": 6 if tier == "quick" else 12,
            "mined_inputs_per_fn": 3 if tier == "quick" else 12}
    plan_path = os.path.join(d, "plan.json")
    json.dump(plan, open(plan_path, "w"))
    run([os.path.join(BIN, "hint_adversary"), "record", plan_path, d], timeout=3000)
    runs = read_ndjson(os.path.join(d, "runs_full.ndjson"))
    skipped = read_ndjson(os.path.join(d, "skipped.ndjson"))
    if len(runs) < 100:
        raise ToolError(f"L1: only {len(runs)} honest runs recorded")
    skip_hist = {}
    for s in skipped:
        k = re.sub(r"[0-9a-f]{8,}|\d+", "#", s["why"])[:50]
        skip_hist[k] = skip_hist.get(k, 0) + 1

    # R: TLC enumerates the fault plans of every recorded occurrence
    g = tlc_checked(SPEC, "HintAdversaryGen", "HintAdversaryGen.cfg", "c03_gen",
                    env={"RUNS": os.path.join(d, "runs_tlc.ndjson")}, java_opts="-Xss1g")
    chk.add_tlc(g)
    plans_path = os.path.join(d, "plans.ndjson")
    n_lines = extract_replay(g.out_path, plans_path)
    if n_lines != len(runs):
        raise ToolError(f"L1: TLC emitted {n_lines} plan sets for {len(runs)} runs")
    n_plans = sum(len(p["plans"]) for p in read_ndjson(plans_path))
    os.remove(g.out_path)

    events = os.path.join(d, "events.ndjson")
    alarms_path = os.path.join(d, "alarms.ndjson")
    run([os.path.join(BIN, "hint_adversary"), "attack", d, plans_path, events, alarms_path], timeout=3000)
    ev = read_ndjson(events)
    harness_ev = [e for e in ev if e["e"] == "harness"]
    if harness_ev:
        raise ToolError(f"L1: harness events in the log: {harness_ev[:2]}")
    outcomes, by_hint, gasdiff = {}, {}, 0
    for e in ev:
        if e["e"] == "outcome":
            outcomes[e["k"]] = outcomes.get(e["k"], 0) + 1
            h = by_hint.setdefault(e["hint"], {"fail": 0, "ok": 0, "opaque": 0})
            h[e["k"]] += 1
            gasdiff += 1 if e.get("gasdiff") else 0
    n_inject = sum(1 for e in ev if e["e"] == "inject")
    # distinct non-trivial cases: (program, function, hint site, plan kind, cells) whose injection was executed
    # (a plan that would not change the honest value is never executed) and refuted by the VM or absorbed
    site = {}
    for r in runs:
        for o in r["occs"]:
            site[(r["id"], o["i"])] = (r["prog"], r["fn"], o["pc"], o["hint"])
    distinct_cases = set()
    for e in ev:
        if e["e"] == "inject":
            distinct_cases.add(site.get((e["id"], e["occ"]), (e["id"],)) + (e["kind"], e["c"], e["c2"], e["j"]))

    # alarms: confirm each by re-executing it alone, then report
    alarms = read_ndjson(alarms_path)
    confirmed = []
    # one report per (program, hint kind): the other alarms are the same defect seen through other plans / inputs
    seen_keys, distinct = set(), []
    for a in alarms:
        key = (a["prog"], a["occ"]["hint"])
        if key not in seen_keys:
            seen_keys.add(key)
            distinct.append(a)
    for k, a in enumerate(distinct[:12]):
        one = os.path.join(d, f"alarm_{k}.json")
        out = os.path.join(d, f"alarm_{k}_out.json")
        json.dump(a, open(one, "w"))
        run([os.path.join(BIN, "hint_adversary"), "single", one, out], timeout=600)
        res = json.load(open(out))
        if res.get("differs"):
            confirmed.append(a)
            chk.violation({"layer": "L1", "prog": a["prog"], "hint": a["occ"]["hint"], "kind": a["plan"]["kind"],
                           "args": a["args"]},
                          {"layer": "L1", "alarm": a, "observed": res},
                          f"{a['prog']} {a['fn']}({a['args']}): hint {a['occ']['hint']} occurrence {a['occ']['i']} with "
                          f"plan {a['plan']['kind']} completes with {a['altered']['kind']}:{a['altered']['content'][:120]} "
                          f"instead of {a['honest']['kind']}:{a['honest']['content'][:120]}")
        else:
            log(f"[C03/L1] alarm not reproduced when re-run alone (diagnostic): {json.dumps(res)[:300]}")

    # V: the event log is validated against HintAdversaryTrace (every injection is an enumerated plan;
    # Ok => same result)
    tr = tlc(SPEC, "HintAdversaryTrace", "HintAdversaryTrace.cfg", "c03_trace", workers=1, timeout=3000,
             env={"TRACE": events}, java_opts=JAVA_OPTS_TRACE, heap="8g")
    chk.add_tlc(tr)
    if alarms:
        # TLC stops at the first state violating Sound (so the acceptance post-condition is false, too)
        if "Sound" not in tr.violated:
            raise ToolError("L1: the harness raised alarms but HintAdversaryTrace did not report Sound violated "
                            f"(see {tr.out_path})")
        log(f"[C03/L1] HintAdversaryTrace: invariant Sound violated (as reported by the harness: {len(alarms)} alarms)")
    else:
        if tr.violated:
            raise ToolError(f"L1: TLC reports {tr.violated} but the harness raised no alarm (see {tr.out_path})")
        if tr.errors:
            raise ToolError(f"L1: trace rejected: {tr.errors[:2]} (see {tr.out_path})")

    # anti-vacuity of the V binding: corrupt the result of one accepted `ok` outcome -> must be rejected
    if not alarms:
        head = ev[:3000]
        idx = [i for i, e in enumerate(head) if e["e"] == "outcome" and e["k"] == "ok"]
        if idx:
            head[idx[len(idx) // 2]] = dict(head[idx[len(idx) // 2]], res="0000000000000bad")
            bad = os.path.join(d, "events_corrupt.ndjson")
            write_ndjson(bad, head)
            tb = tlc(SPEC, "HintAdversaryTrace", "HintAdversaryTrace.cfg", "c03_trace_corrupt", workers=1, timeout=600,
                     env={"TRACE": bad}, java_opts=JAVA_OPTS_TRACE)
            if "Sound" not in tb.violated:
                raise ToolError("self-test: a corrupted outcome was accepted by HintAdversaryTrace")
        # an injection that is not an enumerated plan must be rejected, too
        head = ev[:3000]
        idx = [i for i, e in enumerate(head) if e["e"] == "inject"]
        if idx:
            head[idx[0]] = dict(head[idx[0]], kind="made_up")
            bad = os.path.join(d, "events_corrupt2.ndjson")
            write_ndjson(bad, head)
            tb = tlc(SPEC, "HintAdversaryTrace", "HintAdversaryTrace.cfg", "c03_trace_corrupt2", workers=1, timeout=600,
                     env={"TRACE": bad}, java_opts=JAVA_OPTS_TRACE)
            if not tb.errors:
                raise ToolError("self-test: an injection outside the plan space was accepted by HintAdversaryTrace")

    hint_hist = {}
    for r in runs:
        for o in r["occs"]:
            hint_hist[o["hint"]] = hint_hist.get(o["hint"], 0) + 1
    with_occs = [r for r in runs if r["occs"]]
    for r in with_occs[::max(1, len(with_occs) // 3)][:3]:
        chk.sample({"l1_run": r["id"][:80], "args": r["args"], "honest": r["honest"]["kind"] + ":" + r["honest"]["content"][:60],
                    "occs": [[o["i"], o["hint"], len(o["outs"])] for o in r["occs"][:4]]})
    last_inj, n_s = None, 0
    for e in ev:
        if e["e"] == "inject":
            last_inj = e
        elif e["e"] == "outcome" and last_inj is not None and n_s < 2 and e["k"] == ("fail" if n_s == 0 else "ok"):
            chk.sample({"l1_plan": {k: last_inj[k] for k in ("id", "occ", "c", "c2", "kind", "j")}, "hint": e["hint"],
                        "outcome": e["k"]})
            n_s += 1
    log(f"[C03/L1] programs={len(progs)} honest_runs={len(runs)} occurrences={sum(hint_hist.values())} plans={n_plans} "
        f"executed={n_inject} outcomes={outcomes} alarms={len(alarms)} confirmed={len(confirmed)}")
    return {
        "programs": len(progs), "programs_with_runs": len(set(r["prog"] for r in runs)), "honest_runs": len(runs),
        "runs_with_hint_occurrences": sum(1 for r in runs if r["occs"]),
        "hint_occurrences_attacked": sum(hint_hist.values()), "occurrences_by_hint": hint_hist,
        "plans_enumerated_by_tlc": n_plans, "plans_executed": n_inject, "outcomes": outcomes,
        "outcomes_by_hint": by_hint, "gas_counter_differs_on_ok_runs": gasdiff,
        "distinct_site_plans": len(distinct_cases),
        "alarms": len(alarms), "alarms_confirmed": len(confirmed), "skipped": skip_hist,
        "trace_events_validated": len(ev),
    }


def replay_one(chk, replay):
    obj = json.load(open(replay))["replay"]
    d = workdir("c03")
    if obj.get("layer") == "L1":
        one, out = os.path.join(d, "replay_in.json"), os.path.join(d, "replay_out.json")
        json.dump(obj["alarm"], open(one, "w"))
        run([os.path.join(BIN, "hint_adversary"), "single", one, out], timeout=600)
        res = json.load(open(out))
        log(f"[C03] replay L1: {json.dumps(res)[:600]}")
        if res.get("differs"):
            a = obj["alarm"]
            chk.violation({"layer": "L1", "prog": a["prog"], "hint": a["occ"]["hint"], "kind": a["plan"]["kind"],
                           "args": a["args"]}, obj, "reproduced: altered hint output changes the result")
    else:
        one, out = os.path.join(d, "replay_in.json"), os.path.join(d, "replay_out.json")
        cex = dict(obj["cex"], scratch=os.path.join(d, "replay_src"))
        json.dump(cex, open(one, "w"))
        run([os.path.join(BIN, "libfunc_air"), "replay", one, out], timeout=600)
        res = json.load(open(out))
        log(f"[C03] replay L2: {json.dumps(res)[:600]}")
        if res.get("differs") and not res.get("opaque"):
            chk.violation({"layer": "L2", "instance": obj["job"]["name"], "args": cex["args"]}, obj,
                          "reproduced: scripted hint values change the result")
    return chk.finish()


def main(tier, replay=None):
    try:
        return main_(tier, replay)
    except OSError as e:
        # a missing binary / scratch file is an infrastructure problem, never a verdict
        raise ToolError(f"I/O error: {e}")


def main_(tier, replay=None):
    chk = Check("C03", tier)
    build_harness(["libfunc_air", "hint_adversary"])
    if replay:
        # a replay is not a run of the check: keep the evidence of the last real run
        evp = os.path.join(EVIDENCE, "C03.json")
        old = open(evp).read() if os.path.exists(evp) else None
        rc = replay_one(chk, replay)
        if old is not None:
            open(evp, "w").write(old)
        return rc
    l1 = layer1(chk, tier)
    l2, jobs = layer2(chk, tier)
    chk.cov["traces_validated_against_impl"] = l1["plans_executed"] + len(l2["confirmed"]) + len(l2["unconfirmed_model_cex"])
    chk.sample({"l2_checked": l2["checked"][:6], "l2_symbolic_skipped": l2["symbolic_skipped"][:6]})
    chk.assumptions = [
        "L2: the generated module is the AIR reading of the wrapper's real CASM (CairoAir.tla); memory cells outside the "
        "modelled stack window / range-check segment are unconstrained; range-check cells are < 2^128 (builtin trusted)",
        "L2 covers loop-free wrappers without call/data-dependent jumps; non-linear families are attempted under a time-out "
        "(symbolic_skipped) and otherwise left to L1",
        "L1: finite fault plans per hint occurrence (not all values); hints of syscalls, cheatcodes, debug printing, external "
        "hints and allocation hints (AllocSegment, AllocFelt252Dict, AllocConstantSize) are excluded; results are compared by "
        "content; results with parts that have no content reading (dicts, EC state, guarantees) are diagnostics only",
        "cairo-vm 3.2.0 write-once memory and range_check builtin validation are trusted",
    ]
    return chk.finish({
        "exhaustive": False,
        "evaluations": l1["plans_executed"] + len(l2["checked"]),
        "distinct_nontrivial": l1["distinct_site_plans"] + len(l2["checked"]),
        "rule": "L1: one evaluation = one fault plan (enumerated by TLC from the hint occurrence's output shape) executed on "
                "the real VM; distinct = distinct (program, function, hint site pc, plan kind, cells, input index); plans that "
                "would leave the honest value unchanged are not executed.  L2: one evaluation = one libfunc instantiation "
                "whose real CASM was checked by Apalache against its post-condition for all inputs and all memories.",
        "l1": l1,
        "l2": {"apalache_obligations_checked": len(l2["checked"]), "checked": l2["checked"],
               "symbolic_skipped": l2["symbolic_skipped"], "unconfirmed_model_cex": l2["unconfirmed_model_cex"],
               "confirmed_cex": l2["confirmed"], "not_generated": l2["not_generated"],
               "unreachable_ret": l2["unreachable_ret"], "selftest_bug_found": l2.get("selftest"), "walls": l2["walls"]},
    })

"""C16 - assembled bytecode means what the CASM instruction says.

TLC checks Refines/SizeOK/EncoderAsserts on CairoCpu exhaustively over the configured
instruction shapes x states and emits every (instruction, pre, post) triple; the harness
replays every triple on the real assembler/encoder and the real cairo-vm.
"""
import json
import os

from lib import (BIN, SPECS, Check, ToolError, build_harness, extract_replay, log, read_ndjson, run, tlc,
                 workdir, write_ndjson)

SPEC = os.path.join(SPECS, "CairoCpu")


def replay_file(chk, cases_path, tag):
    out = os.path.join(workdir("c16"), f"result_{tag}.ndjson")
    run([os.path.join(BIN, "c16_replay"), cases_path, out], timeout=3600)
    summary = None
    for r in read_ndjson(out):
        if "summary" in r:
            summary = r["summary"]
            continue
        case = r["case"]
        i = case["instr"]
        shape = f"{i['body']}/{i['b']['k']}/{i['b']['bk']}/{i['b']['op']}/inc={i['incap']}/rel={i['rel']}"
        if r["kind"] == "drift":
            log(f"[C16] encoding_drift (diagnostic) {shape}: {r['detail'][:3]}")
            continue
        key = {"kind": r["kind"], "shape": shape, "detail": r["detail"][0][:60]}
        chk.violation(key, {"case": case, "big": r["big"], "neg_as_p": r["neg_as_p"], "observed": r["detail"]},
                      f"{r['kind']} mismatch for {shape}: {'; '.join(r['detail'][:3])}")
    if summary is None:
        raise ToolError("c16_replay produced no summary")
    return summary


def main(tier, replay=None):
    chk = Check("C16", tier)
    build_harness(["c16_replay"])
    if replay:
        obj = json.load(open(replay))["replay"]
        p = os.path.join(workdir("c16"), "single.ndjson")
        write_ndjson(p, [obj["case"]])
        s = replay_file(chk, p, "single")
        log(f"[C16] replay: {s}")
        return chk.finish()
    cfgs = ["q", "qx"] if tier == "quick" else ["t", "tx"]
    totals = {"cases": 0, "vm_runs": 0, "skipped": 0, "encoding_drift": 0, "distinct_shapes": 0,
              "spec_ok_steps": 0, "spec_fail_steps": 0}
    exhaustive = True
    for c in cfgs:
        res = tlc(SPEC, "MCCairoCpu", f"MCCairoCpu_{c}.cfg", f"c16_{c}", workers=8,
                  timeout=3600 if tier == "thorough" else 900, heap=__import__("lib").tlc_heap(8))
        chk.add_tlc(res)
        log(f"[C16] TLC {c}: {res.distinct} distinct states, violated={res.violated} errors={res.errors[:2]} ({res.wall:.0f}s)")
        if res.errors:
            raise ToolError(f"TLC error in CairoCpu/{c}: {res.errors[:2]}")
        if res.violated:
            # A violated design invariant is a defect of the *model* (it does not involve /repo):
            # tool error, not a property violation.
            raise ToolError(f"CairoCpu design invariant violated: {res.violated} (see {res.out_path})")
        cases = os.path.join(workdir("c16"), f"cases_{c}.ndjson")
        n = extract_replay(res.out_path, cases)
        os.remove(res.out_path)
        if n == 0:
            raise ToolError("TLC emitted no REPLAY lines")
        s = replay_file(chk, cases, c)
        log(f"[C16] replay {c}: {s}")
        for k in totals:
            if k == "distinct_shapes":
                totals[k] = max(totals[k], s[k])
            else:
                totals[k] += s[k]
        for r in read_ndjson(cases)[:200:70]:
            chk.sample({"instr": r["instr"], "pre": r["pre"], "post": r["post"]})
        os.remove(cases)
    chk.cov["traces_validated_against_impl"] = totals["vm_runs"] - totals["skipped"]
    chk.assumptions = [
        "WellFormedFrame: [fp-1] is known in every explored state",
        "field elements are linear forms a*BIG+c, replayed with BIG in {2^64, 2^128, 2^250}; negative c also as P+c",
        "QM31 arithmetic only on small naturals; Blake2s compression function taken from cairo-vm (operand routing is checked)",
        "cairo-vm 3.2.0 step_instruction is the machine",
    ]
    return chk.finish({
        "exhaustive": exhaustive,
        "replayed_cases": totals["cases"], "vm_runs": totals["vm_runs"], "skipped_out_of_model": totals["skipped"],
        "encoding_drift": totals["encoding_drift"], "distinct_shapes": totals["distinct_shapes"],
        "spec_ok_steps": totals["spec_ok_steps"], "spec_fail_steps": totals["spec_fail_steps"],
        "tlc_configs": cfgs,
    })

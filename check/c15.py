"""C15 - Sierra acceptance implies well-typedness and exact-once use of every value.

Every program the real compiler accepts (corpus, and the single-point mutants of the corpus that
ProgramRegistry + metadata + compile still accept) is replayed by TLC through the SierraAnnot
specification's own typing/linearity pass. Alarm: compile = Ok and the spec rejects.
Programs the compiler rejected but whose registry validated are also passed through the spec to
measure how often the spec's rules fire (anti-vacuity; never an alarm)."""
import json
import os
import re

from lib import JAVA_OPTS_TRACE, SPECS, Check, ToolError, build_harness, log, read_ndjson, tlc, workdir
from sierra_common import SPEC_ANNOT, corpus_jobs, run_tool


def slim(p):
    ex = p["export"]
    return {"id": p["id"], "export": {
        "stmts": ex["stmts"],
        "libfuncs": [{"gen": lf["gen"], "params": lf["params"], "branches": [{"vars": b["vars"]} for b in lf["branches"]],
                      "known": lf["known"]} for lf in ex["libfuncs"]],
        "types": [{"gen": t["gen"], "args": [{"k": a["k"], "t": a["t"]} for a in t["args"]]} for t in ex["types"]],
        "funcs": [{"entry": f["entry"], "params": f["params"], "rets": f["rets"], "fn_ap": f["fn_ap"], "cost": f["cost"]} for f in ex["funcs"]],
        "code": [{"br": c["br"]} for c in ex.get("code", [])],
    }}


def annot_pass(progs, tag):
    """Runs SierraAnnotTrace over `progs`; returns (TlcResult, {id: rules})."""
    d = workdir("sierra", "annot")
    pp = os.path.join(d, f"{tag}.progs.ndjson")
    with open(pp, "w") as f:
        for p in progs:
            f.write(json.dumps(slim(p)) + "\n")
    res = tlc(SPEC_ANNOT, "SierraAnnotTrace", "SierraAnnotTrace.cfg", f"c15_{tag}", workers=1, timeout=3000,
              env={"PROGS": pp}, java_opts=JAVA_OPTS_TRACE, heap=__import__("lib").tlc_heap(8))
    if res.errors or res.violated:
        raise ToolError(f"SierraAnnotTrace {tag}: {res.errors[:2]} {res.violated} (see {res.out_path})")
    rep = None
    for line in open(res.out_path, errors="replace"):
        m = re.match(r'^<<"BAD", "(.*)">>\s*$', line)
        if m:
            rep = json.loads(m.group(1).replace('\\"', '"').replace("\\\\", "\\"))
    if rep is None or rep["programs"] != len(progs):
        raise ToolError(f"SierraAnnotTrace {tag}: missing/short report (see {res.out_path})")
    os.remove(res.out_path)
    return res, {b["id"]: b["rules"] for b in rep["bad"]}


def main(tier, replay=None):
    chk = Check("C15", tier)
    build_harness(["sierra_tool"])
    quick = tier == "quick"
    if replay:
        rep = json.load(open(replay))["replay"]
        jobs = [{"id": rep["prog"], "kind": "sierra_text", "text": rep["sierra"], "solver": "linear", "run": False}]
    else:
        jobs = corpus_jobs(tier, want_mutants=(60 if quick else 160), e2e_limit=(150 if quick else None), run=False)
        for j in jobs:
            j["run_mutants"] = False
            j["export_rejected"] = True
    out = run_tool("c15", jobs, vectors=1)
    accepted = read_ndjson(os.path.join(out, "progs.ndjson"))
    rejected = [p for p in read_ndjson(os.path.join(out, "rejected.ndjson")) if "export" in p]
    res, bad = annot_pass(accepted, "accepted")
    chk.add_tlc(res)
    byid = {p["id"]: p for p in accepted}
    ENV = {"EnvApMismatch", "EnvWalletMismatch", "WalletNegative", "FunctionApChange", "ApTrackingAlreadyEnabled"}
    env_diag = {}
    for pid, rules in list(bad.items()):
        env_rules = [r for r in rules if r[1] in ENV]
        for r in env_rules:
            env_diag[r[1]] = env_diag.get(r[1], 0) + 1
        rules = [r for r in rules if r[1] not in ENV]
        if env_rules:
            log(f"[C15] static environment rule(s) violated by accepted program {pid} (diagnostic; C17/C04 matter): {env_rules[:3]}")
        if not rules:
            del bad[pid]
        else:
            bad[pid] = rules
    for pid, rules in bad.items():
        p = byid[pid]
        kinds = sorted({r[1] for r in rules})
        chk.violation({"kind": kinds[0], "prog": pid.split("#")[0], "plan": p.get("plan")},
                      {"prog": pid, "plan": p.get("plan"), "sierra": p.get("sierra"), "rules": rules},
                      f"compiler accepted {pid} (plan={p.get('plan')}) but SierraAnnot rejects it: {rules[:4]}")
    # anti-vacuity: how the spec's rules fire on compiler-rejected mutants whose declarations validated
    n_rej = len(rejected)
    spec_rej = {}
    agree = 0
    if rejected and not replay:
        step = max(1, n_rej // (500 if quick else 2500))
        sample = [p for p in rejected[::step] if p["export"]["n"] <= 3000]
        res2, bad2 = annot_pass(sample, "rejected")
        chk.add_tlc(res2)
        agree = len(bad2)
        for rules in bad2.values():
            for r in rules:
                spec_rej[r[1]] = spec_rej.get(r[1], 0) + 1
        log(f"[C15] compiler-rejected mutants (registry ok) passed through the spec: {len(sample)}, spec rejects {agree}; rules fired: {spec_rej}")
        n_rej_sample = len(sample)
    else:
        n_rej_sample = 0
    n_mut_acc = sum(1 for p in accepted if "#m" in p["id"])
    chk.cov["traces_validated_against_impl"] = len(accepted)
    for p in accepted[:400:150]:
        chk.sample({"id": p["id"], "plan": p.get("plan"), "n_statements": p["export"]["n"],
                    "first_statements": p["export"]["stmts"][:3]})
    chk.assumptions = [
        "declared libfunc signatures and type declarations are read from the real ProgramRegistry",
        "dup/drop-ability is re-derived by the spec's own table; core types unknown to the table skip only that sub-check",
        "statements no flow reaches are skipped (the real compiler rejects them, the property does not require it)",
    ]
    return chk.finish({
        "programs_accepted": len(accepted), "accepted_mutants": n_mut_acc, "distinct_nontrivial": n_mut_acc + sum(1 for p in accepted if "#m" not in p["id"] and p["export"]["n"] >= 10),
        "rule": "accepted programs with >= 10 statements plus every accepted mutant (distinct by construction: one plan each)",
        "rejected_mutants_with_valid_registry": n_rej, "rejected_sample_checked_by_spec": n_rej_sample,
        "rejected_sample_also_rejected_by_spec": agree, "spec_rules_fired_on_rejected": spec_rej,
        "static_env_rule_violations_on_accepted": env_diag,
        "exhaustive": False,
    })

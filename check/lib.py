"""Shared driver code: harness build, TLC/Apalache invocation, REPLAY extraction,
evidence writing, known-findings handling, violation reporting.

Exit codes (DESIGN 2.3): 0 property held on everything explored; 1 with a VIOLATION
line; 2 tool / infrastructure error (never reported as a violation).
"""
import hashlib
import json
import os
import re
import shutil
import subprocess
import sys
import time

VERIF = os.path.dirname(os.path.dirname(os.path.abspath(__file__)))
REPO = os.environ.get("VERIF_REPO", "/repo")
SPECS = os.path.join(VERIF, "specs")
HARNESS_SRC = os.path.join(VERIF, "harness")
# VERIF_WORKTAG=<name> gives a run its own scratch area (and evidence directory) so that it can run next to
# another run of the same check (seed sweeps while a thorough tier is running)
_TAG = os.environ.get("VERIF_WORKTAG", "")
WORK = os.path.join(VERIF, "work", "tag_" + _TAG) if _TAG else os.path.join(VERIF, "work")
# runs against a scratch checkout (mutation testing, VERIF_REPO) must not overwrite the evidence of /repo
EVIDENCE = os.path.join(VERIF, "evidence") if os.path.realpath(REPO) == "/repo" and not _TAG else os.path.join(WORK, "evidence_scratch")


def _shadow_harness():
    """When VERIF_REPO points at another checkout (mutation testing in a scratch worktree), build a
    shadow copy of the harness whose path dependencies point there, with its own target dir, so
    that concurrent work against /repo is not disturbed.  Default: the harness itself."""
    if os.path.realpath(REPO) == "/repo":
        return HARNESS_SRC
    tag = hashlib.sha256(os.path.realpath(REPO).encode()).hexdigest()[:10]
    d = os.path.join(WORK, "shadow", tag)
    os.makedirs(os.path.join(d, ".cargo"), exist_ok=True)
    toml = open(os.path.join(HARNESS_SRC, "Cargo.toml")).read().replace('"/repo/', '"' + os.path.realpath(REPO) + "/")
    if not os.path.exists(os.path.join(d, "Cargo.toml")) or open(os.path.join(d, "Cargo.toml")).read() != toml:
        open(os.path.join(d, "Cargo.toml"), "w").write(toml)
    shutil.copy(os.path.join(HARNESS_SRC, "Cargo.lock"), os.path.join(d, "Cargo.lock"))
    shutil.copy(os.path.join(HARNESS_SRC, ".cargo", "config.toml"), os.path.join(d, ".cargo", "config.toml"))
    src = os.path.join(d, "src")
    if os.path.islink(src):
        os.unlink(src)
    if not os.path.exists(src):
        os.symlink(os.path.join(HARNESS_SRC, "src"), src)
    return d


HARNESS = _shadow_harness()
BIN = os.path.join(HARNESS, "target", "release")
os.environ["VERIF_REPO"] = REPO
JAVA_OPTS_TRACE = "-Xss1g -Dtlc2.tool.queue.IStateQueue=StateDeque"


class ToolError(Exception):
    pass


def worker_threads(gb_per_thread=0.7, cap=14):
    """Number of harness worker threads: bounded by the CPUs and by the memory that is actually available
    (the checks may run on a machine with much less RAM than the one they were built on)."""
    try:
        avail_kb = int(re.search(r"MemAvailable:\s+(\d+)", open("/proc/meminfo").read()).group(1))
    except Exception:
        avail_kb = 8_000_000
    by_mem = int((avail_kb / 1e6) * 0.6 / gb_per_thread)
    return max(2, min(cap, os.cpu_count() or 4, by_mem))


def tlc_heap(default_gb=8):
    """-Xmx for TLC: at most a third of the available memory."""
    try:
        avail_kb = int(re.search(r"MemAvailable:\s+(\d+)", open("/proc/meminfo").read()).group(1))
    except Exception:
        avail_kb = 8_000_000
    return f"{max(1, min(default_gb, int(avail_kb / 1e6 / 3)))}g"


def seed():
    try:
        return int(os.environ.get("VERIF_SEED", "1"))
    except ValueError:
        return 1


def log(*a):
    print(*a, flush=True)


def workdir(*parts):
    p = os.path.join(WORK, *parts)
    os.makedirs(p, exist_ok=True)
    return p


def clean_dir(p):
    shutil.rmtree(p, ignore_errors=True)
    os.makedirs(p, exist_ok=True)
    return p


def build_harness(bins=None):
    """Incremental release build of the harness against /repo's current working tree."""
    t0 = time.time()
    cmd = ["cargo", "build", "--release", "--offline"]
    for b in bins or []:
        cmd += ["--bin", b]
    env = dict(os.environ, CARGO_NET_OFFLINE="true")
    r = subprocess.run(cmd, cwd=HARNESS, env=env, stdout=subprocess.PIPE, stderr=subprocess.STDOUT, text=True)
    if r.returncode != 0:
        log(r.stdout[-6000:])
        raise ToolError("harness build failed")
    log(f"[build] harness ok in {time.time() - t0:.1f}s")


def run(cmd, cwd=None, env=None, timeout=None, stdout_path=None, check=True):
    """Run a tool; returns (returncode, output-or-None)."""
    e = dict(os.environ)
    if env:
        e.update(env)
    try:
        if stdout_path:
            with open(stdout_path, "w") as f:
                r = subprocess.run(cmd, cwd=cwd, env=e, stdout=f, stderr=subprocess.STDOUT, timeout=timeout)
            out = None
        else:
            r = subprocess.run(cmd, cwd=cwd, env=e, stdout=subprocess.PIPE, stderr=subprocess.STDOUT,
                               timeout=timeout, text=True)
            out = r.stdout
    except subprocess.TimeoutExpired:
        raise ToolError(f"timeout after {timeout}s: {' '.join(cmd[:6])}")
    if check and r.returncode != 0:
        if out:
            log(out[-4000:])
        elif stdout_path:
            log(open(stdout_path, errors="replace").read()[-4000:])
        raise ToolError(f"command failed ({r.returncode}): {' '.join(cmd[:8])}")
    return r.returncode, out


TLC_STATES_RE = re.compile(r"(\d+) states generated, (\d+) distinct states found, (\d+) states left on queue")


class TlcResult:
    def __init__(self):
        self.generated = 0
        self.distinct = 0
        self.violated = []  # invariant / property names
        self.errors = []  # other TLC errors
        self.out_path = None
        self.wall = 0.0
        self.post_ok = None
        self.coverage = {}

    @property
    def ok(self):
        return not self.violated and not self.errors


def tlc(spec_dir, module, cfg, name, workers=8, timeout=1800, simulate=None, depth=None, env=None,
        java_opts=None, extra=None, coverage=False, seed_arg=None, heap=None):
    """Run TLC; output goes to work/tlc/<name>.out.  Returns TlcResult."""
    outdir = workdir("tlc")
    out_path = os.path.join(outdir, name + ".out")
    meta = os.path.join(outdir, name + ".meta")
    shutil.rmtree(meta, ignore_errors=True)
    # -checkpoint 0: the depth-first StateDeque queue used for trace validation cannot checkpoint (TLC aborts after 30 min)
    cmd = ["tlc", "-workers", str(workers), "-metadir", meta, "-cleanup", "-noGenerateSpecTE", "-checkpoint", "0", "-config", cfg]
    if coverage:
        cmd += ["-coverage", "1"]
    if simulate is not None:
        cmd += ["-simulate", f"num={simulate}"]
        if depth:
            cmd += ["-depth", str(depth)]
    if seed_arg is not None:
        cmd += ["-seed", str(seed_arg)]
    if extra:
        cmd += extra
    cmd.append(module + ".tla")
    e = {}
    jo = java_opts or ""
    if heap:
        jo = (jo + " -Xmx" + heap).strip()
    if jo:
        e["JAVA_TOOL_OPTIONS"] = jo
    if env:
        e.update(env)
    t0 = time.time()
    rc, _ = run(["timeout", str(timeout)] + cmd, cwd=spec_dir, env=e, stdout_path=out_path, check=False)
    res = TlcResult()
    res.out_path = out_path
    res.wall = time.time() - t0
    if rc == 124:
        raise ToolError(f"TLC timed out after {timeout}s on {module}/{cfg}")
    with open(out_path, errors="replace") as f:
        for line in f:
            m = TLC_STATES_RE.search(line)
            if m:
                res.generated, res.distinct = int(m.group(1)), int(m.group(2))
            if line.startswith("Error:"):
                m2 = re.match(r"Error: Invariant (\S+) is violated", line)
                m3 = re.match(r"Error: (?:Action|Temporal) propert(?:y|ies) (\S+)? ?.*violated", line)
                if m2:
                    res.violated.append(m2.group(1))
                elif m3:
                    res.violated.append(m3.group(1) or "temporal")
                elif "Temporal properties were violated" in line:
                    res.violated.append("temporal")
                elif "The behavior up to this point" in line or "nested" in line:
                    pass
                else:
                    res.errors.append(line.strip())
            if "POSTCONDITION_FALSE" in line or ("Assumption" in line and "is false" in line):
                res.errors.append(line.strip())
    shutil.rmtree(meta, ignore_errors=True)
    if rc not in (0, 12, 13) and not res.violated and not res.errors:
        res.errors.append(f"tlc exit code {rc}")
    return res


REPLAY_RE = re.compile(r'^<<"REPLAY", "(.*)">>\s*$')


def extract_replay(out_path, dest_path, tag="REPLAY"):
    """Pull `<<"REPLAY", "<json>">>` lines out of a TLC log into an NDJSON file."""
    n = 0
    rx = REPLAY_RE if tag == "REPLAY" else re.compile(r'^<<"%s", "(.*)">>\s*$' % tag)
    with open(out_path, errors="replace") as f, open(dest_path, "w") as g:
        for line in f:
            m = rx.match(line)
            if not m:
                continue
            s = m.group(1).replace('\\"', '"').replace("\\\\", "\\")
            g.write(s + "\n")
            n += 1
    return n


def read_ndjson(path):
    out = []
    with open(path) as f:
        for line in f:
            line = line.strip()
            if line:
                out.append(json.loads(line))
    return out


def write_ndjson(path, items):
    with open(path, "w") as f:
        for it in items:
            f.write(json.dumps(it, separators=(",", ":")) + "\n")


def sha(obj):
    if not isinstance(obj, (bytes, str)):
        obj = json.dumps(obj, sort_keys=True)
    if isinstance(obj, str):
        obj = obj.encode()
    return hashlib.sha256(obj).hexdigest()[:16]


# ------------------------------------------------------------------ known findings

def load_known(prop):
    p = os.path.join(VERIF, "known_findings.json")
    if not os.path.exists(p):
        return []
    with open(p) as f:
        data = json.load(f)
    return [x for x in data.get("findings", []) if x.get("property") == prop and x.get("status") == "known"]


def match_known(known, key):
    """A finding matches when every field of its key equals the violation's key field
    (string fields of the finding may be a prefix when they end with '*')."""
    for k in known:
        ok = True
        for f, v in k["key"].items():
            got = key.get(f)
            if isinstance(v, str) and v.endswith("*"):
                if not (isinstance(got, str) and got.startswith(v[:-1])):
                    ok = False
            elif got != v:
                ok = False
        if ok:
            return k
    return None


# ------------------------------------------------------------------ result handling

class Check:
    """Collects violations / known findings / evidence for one property run."""

    def __init__(self, prop, tier, level="model_checking"):
        self.prop = prop
        self.tier = tier
        self.level = level
        self.t0 = time.time()
        self.violations = []  # (key, replay_path, text)
        self.known_hits = []
        self.known = load_known(prop)
        self.cov = {"states": 0, "transitions": 0, "traces_validated_against_impl": 0, "samples": []}
        self.assumptions = []
        self.replay_dir = workdir("replays", prop)

    def add_tlc(self, res):
        self.cov["states"] += res.distinct
        self.cov["transitions"] += res.generated

    def sample(self, item, limit=6):
        if len(self.cov["samples"]) < limit:
            self.cov["samples"].append(item)

    def violation(self, key, replay_obj, text):
        """Report a violation unless it is a listed known finding."""
        k = match_known(self.known, key)
        if k is not None:
            if k not in self.known_hits:
                self.known_hits.append(k)
                log(f"KNOWN-FINDING: property={self.prop} {k.get('what', '')} key={json.dumps(k['key'])}")
            return False
        name = sha(replay_obj) + ".json"
        path = os.path.join(self.replay_dir, name)
        with open(path, "w") as f:
            json.dump({"property": self.prop, "key": key, "what": text, "replay": replay_obj}, f, indent=1)
        self.violations.append((key, path, text))
        log(f"VIOLATION property={self.prop} replay={path}")
        log(f"  {text}")
        return True

    def finish(self, extra_cov=None):
        cov = dict(self.cov)
        if extra_cov:
            cov.update(extra_cov)
        if cov.get("states", 0) < 1 or cov.get("transitions", 0) < 1:
            # model_checking evidence needs states/transitions >= 1; fall back keys otherwise
            pass
        if not cov.get("samples"):
            cov["samples"] = ["(no samples recorded)"]
        ev = {
            "property_id": self.prop,
            "tier": self.tier,
            "seed": seed(),
            "level": self.level,
            "coverage": cov,
            "assumptions": self.assumptions,
            "wall_s": round(time.time() - self.t0, 1),
            "violations": len(self.violations),
            "known_findings_hit": [k["key"] for k in self.known_hits],
        }
        os.makedirs(EVIDENCE, exist_ok=True)
        with open(os.path.join(EVIDENCE, self.prop + ".json"), "w") as f:
            json.dump(ev, f, indent=1)
        log(f"[{self.prop}] tier={self.tier} wall={ev['wall_s']}s violations={len(self.violations)} "
            f"known={len(self.known_hits)} states={cov.get('states')} traces={cov.get('traces_validated_against_impl')}")
        return 1 if self.violations else 0


def tool_guard(fn):
    """Run fn; map ToolError to exit code 2."""
    try:
        return fn()
    except ToolError as e:
        log(f"TOOL-ERROR: {e}")
        return 2

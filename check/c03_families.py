"""C03 / L2 — the libfunc families of `LibfuncSound`: per family a Cairo wrapper template (same shape as
the `//! > cairo_code` of tests/e2e_test_data/libfuncs), the ranges of the input cells and the
post-condition (an operator of specs/LibfuncSound/IntOpsPost.tla) — instantiated for every width
and for several bounded-int ranges, not only the ones the goldens pin.

A job: {name, family, cairo, init:[tla], post: tla, nonlinear: bool, quick: bool}
Symbols: A1..An explicit parameter cells, R1..Rm result cells, RCD range-check pointer advance,
GAS0/GAS1 gas counter before/after, GASC1 the compile-time withdraw amount.
"""
import hashlib
import random

P = 2 ** 251 + 17 * 2 ** 192 + 1
UW = [8, 16, 32, 64, 128]
BI = ("#[allow(extern_outside_corelib)]\n"
      "extern type BoundedInt<const MIN: felt252, const MAX: felt252>;\n")


def urange(n):
    return (0, 2 ** n - 1)


def srange(n):
    return (-2 ** (n - 1), 2 ** (n - 1) - 1)


NAMED = {}
for _n in UW:
    NAMED[urange(_n)] = f"u{_n}"
    NAMED[srange(_n)] = f"i{_n}"


def tyname(r, force_bi=False):
    """Cairo type of an integer range (felt252 for the full field)."""
    if r == "felt":
        return "felt252"
    if r in NAMED and not force_bi:
        return NAMED[r]
    return f"BoundedInt<{r[0]}, {r[1]}>"


def needs_bi(*rs):
    return any(r != "felt" and r not in NAMED for r in rs)


def t(v):
    """TLA+ integer literal."""
    return f"({v})" if v < 0 else str(v)


def inty(sym, r):
    if r == "felt":
        return "TRUE"
    return f"InTy({sym}, {t(r[0])}, {t(r[1])})"


def rname(r):
    if r == "felt":
        return "felt"
    if r in NAMED:
        return NAMED[r]
    f = lambda v: ("m" + str(-v)) if v < 0 else str(v)
    s = f"b{f(r[0])}_{f(r[1])}"
    return s if len(s) < 40 else "b" + hashlib.sha256(s.encode()).hexdigest()[:8]


def job(name, family, cairo, init, post, nonlinear=False, quick=False):
    return {"name": name, "family": family, "cairo": cairo, "init": init, "post": post,
            "nonlinear": nonlinear, "quick": quick}


RCANY = "RCD >= 0 /\\ RCD <= 24"


def unsigned_jobs():
    out = []
    sqrt_ret = {8: "u8", 16: "u8", 32: "u16", 64: "u32", 128: "u64"}
    for n in UW:
        T = f"u{n}"
        B = 2 ** n
        r = urange(n)
        both = [inty("A1", r), inty("A2", r)]
        out.append(job(f"{T}_overflowing_add", "u_overflowing_add",
                       f'#[feature("corelib-internal-use")]\nfn foo(a: {T}, b: {T}) -> Result<{T}, {T}> {{\n'
                       f"    integer::{T}_overflowing_add(a, b)\n}}\n",
                       both, f"UOverflowingAdd({B}, A1, A2, R1, R2) /\\ RCD = 1", quick=(n in (8, 128))))
        out.append(job(f"{T}_overflowing_sub", "u_overflowing_sub",
                       f'#[feature("corelib-internal-use")]\nfn foo(a: {T}, b: {T}) -> Result<{T}, {T}> {{\n'
                       f"    integer::{T}_overflowing_sub(a, b)\n}}\n",
                       both, f"UOverflowingSub({B}, A1, A2, R1, R2) /\\ RCD = 1", quick=(n == 16)))
        out.append(job(f"{T}_eq", "eq", f"fn foo(a: {T}, b: {T}) -> bool {{\n    integer::{T}_eq(a, b)\n}}\n",
                       both, "EqBool(A1, A2, R1)"))
        if n < 128:
            out.append(job(f"{T}_try_from_felt252", "try_from_felt252",
                           f"fn foo(v: felt252) -> Option<{T}> {{\n    integer::{T}_try_from_felt252(v)\n}}\n",
                           [], f"TryFromFelt(0, {B - 1}, A1, R1, R2) /\\ {RCANY}", quick=(n == 32)))
        out.append(job(f"{T}_is_zero", "is_zero",
                       f"use zeroable::IsZeroResult;\nfn foo(a: {T}) -> IsZeroResult<{T}> {{\n    integer::{T}_is_zero(a)\n}}\n",
                       [inty("A1", r)], "IsZeroRes(A1, R1, R2)"))
        out.append(job(f"{T}_safe_divmod", "divmod",
                       f"fn foo(a: {T}, b: NonZero<{T}>) -> ({T}, {T}) {{\n    integer::{T}_safe_divmod(a, b)\n}}\n",
                       [inty("A1", r), inty("A2", (1, B - 1))], f"DivMod(A1, A2, R1, R2) /\\ {RCANY}", nonlinear=True))
        out.append(job(f"{T}_sqrt", "sqrt",
                       f'#[feature("corelib-internal-use")]\nfn foo(value: {T}) -> {sqrt_ret[n]} {{\n'
                       f"    integer::{T}_sqrt(value)\n}}\n",
                       [inty("A1", r)], f"Sqrt(A1, R1) /\\ {RCANY}", nonlinear=True))
        if n < 128:
            out.append(job(f"{T}_wide_mul", "wide_mul",
                           f'#[feature("corelib-internal-use")]\nfn foo(a: {T}, b: {T}) -> u{2 * n} {{\n'
                           f"    integer::{T}_wide_mul(a, b)\n}}\n",
                           both, "WideMul(A1, A2, R1)", nonlinear=True))
    out.append(job("u128_wide_mul", "wide_mul",
                   '#[feature("corelib-internal-use")]\nfn foo(a: u128, b: u128) -> (u128, u128) {\n'
                   "    integer::u128_wide_mul(a, b)\n}\n",
                   [inty("A1", urange(128)), inty("A2", urange(128))],
                   f"WideMul128(A1, A2, R1, R2) /\\ {RCANY}", nonlinear=True))
    out.append(job("u128s_from_felt252", "u128s_from_felt252",
                   "fn foo(v: felt252) -> integer::U128sFromFelt252Result {\n    integer::u128s_from_felt252(v)\n}\n",
                   [], "U128sFromFelt(A1, R1, R2, R3) /\\ (R1 = 0 => RCD = 1) /\\ (R1 = 1 => RCD = 3)", quick=True))
    return out


def signed_jobs():
    out = []
    for n in UW:
        T = f"i{n}"
        U = f"u{n}"
        B = 2 ** n
        lo, hi = srange(n)
        r = (lo, hi)
        both = [inty("A1", r), inty("A2", r)]
        out.append(job(f"{T}_try_from_felt252", "try_from_felt252",
                       f"fn foo(v: felt252) -> Option<{T}> {{\n    integer::{T}_try_from_felt252(v)\n}}\n",
                       [], f"TryFromFelt({t(lo)}, {hi}, A1, R1, R2) /\\ {RCANY}", quick=(n == 8)))
        out.append(job(f"{T}_eq", "eq", f"fn foo(a: {T}, b: {T}) -> bool {{\n    integer::{T}_eq(a, b)\n}}\n",
                       both, "EqBool(A1, A2, R1)"))
        for op, Post in (("add", "SOverflowingAdd"), ("sub", "SOverflowingSub")):
            out.append(job(f"{T}_overflowing_{op}_impl", f"s_overflowing_{op}",
                           f"fn foo(a: {T}, b: {T}) -> (felt252, {T}) {{\n"
                           f"    match integer::{T}_overflowing_{op}_impl(a, b) {{\n"
                           f"        integer::SignedIntegerResult::InRange(x) => (0, x),\n"
                           f"        integer::SignedIntegerResult::Underflow(x) => (1, x),\n"
                           f"        integer::SignedIntegerResult::Overflow(x) => (2, x),\n"
                           f"    }}\n}}\n",
                           both, f"{Post}({t(lo)}, {hi}, {B}, A1, A2, R1, R2) /\\ RCD >= 1 /\\ RCD <= 2",
                           quick=(n == 64 and op == "add")))
        out.append(job(f"{T}_diff", "s_diff",
                       f"fn foo(a: {T}, b: {T}) -> Result<{U}, {U}> {{\n    integer::{T}_diff(a, b)\n}}\n",
                       both, f"SDiff({t(lo)}, {hi}, {B}, A1, A2, R1, R2) /\\ RCD = 1"))
        if n < 128:
            out.append(job(f"{T}_wide_mul", "wide_mul",
                           f'#[feature("corelib-internal-use")]\nfn foo(a: {T}, b: {T}) -> i{2 * n} {{\n'
                           f"    integer::{T}_wide_mul(a, b)\n}}\n",
                           both, f"SWideMul({t(lo)}, {hi}, A1, A2, R1)", nonlinear=True))
    return out


def cast_jobs(rng, n_down, all_pairs=False):
    out = []
    named = [urange(n) for n in UW] + [srange(n) for n in UW]
    ups = [(a, b) for a in named for b in named if b[0] <= a[0] and a[1] <= b[1]]
    for a, b in (ups if all_pairs else rng.sample(ups, 4)):
        out.append(job(f"upcast_{rname(a)}_{rname(b)}", "upcast",
                       f"fn foo(a: {tyname(a)}) -> {tyname(b)} {{\n    integer::upcast(a)\n}}\n",
                       [inty("A1", a)], "Upcast(A1, R1)"))
    downs = [(a, b) for a in named for b in named if a != b]
    extra = [
        (srange(8), (-3, 5)), (srange(8), (0, 5)), (srange(8), (-5, 0)), (srange(8), (-5, -1)),
        ((100, 200), (120, 180)), (urange(128), (1, 2 ** 128 - 2)), (srange(128), (-1, 1)),
        ((2 ** 128 + 100, 2 ** 128 + 200), (2 ** 128 + 120, 2 ** 128 + 180)),
        (urange(64), (0, 2 ** 63)), ((-2 ** 127, 2 ** 127 - 1), urange(64)),
    ]
    fixed = [(urange(64), urange(16)), (srange(64), urange(16)), (urange(64), srange(16)),
             (srange(16), urange(64)), (urange(16), srange(16))]
    chosen = fixed + extra + (downs if all_pairs else rng.sample(downs, max(0, n_down - len(fixed) - len(extra))))
    seen = set()
    for a, b in chosen:
        if (a, b) in seen:
            continue
        seen.add((a, b))
        pre = BI if needs_bi(a, b) else ""
        out.append(job(f"downcast_{rname(a)}_{rname(b)}", "downcast",
                       f"{pre}fn foo(a: {tyname(a)}) -> Option<{tyname(b)}> {{\n    integer::downcast(a)\n}}\n",
                       [inty("A1", a)],
                       f"Downcast({t(a[0])}, {t(a[1])}, {t(b[0])}, {t(b[1])}, A1, R1, R2) /\\ {RCANY}",
                       quick=((a, b) == (urange(64), urange(16)))))
    felt_targets = [(0, 7), (0, 0), (0, 2 ** 123 - 1), (-2 ** 123, -1), (2 ** 128 - 2 ** 123, 2 ** 128),
                    (-5, 5), (1, 2 ** 64), (-2 ** 64, 2 ** 64), (-10, 3),
                    # the case analysis of the range reduction pivots on lower == 0, size == 2**128 and on the
                    # distance of the upper bound from the range-check bound: instantiate every side of each pivot
                    (2 ** 128 - 6, 2 ** 128 - 1), (2 ** 128 - 2 ** 100, 2 ** 128 - 1), (2 ** 128 - 6, 2 ** 128 - 2),
                    (2 ** 128 - 6, 2 ** 128), (2 ** 128 - 1, 2 ** 128 - 1), (1, 6), (-6, -1), (-6, 0),
                    (2 ** 128, 2 ** 128 + 5), (-1, 2 ** 123 - 2)]
    for b in felt_targets:
        out.append(job(f"downcast_felt_{rname(b)}", "downcast_felt",
                       f"{BI}#[allow(extern_outside_corelib)]\n"
                       f"extern fn downcast<T, S>(index: T) -> Option<S> implicits(RangeCheck) nopanic;\n"
                       f"fn foo(index: felt252) -> Option<{tyname(b)}> {{\n    downcast(index)\n}}\n",
                       [], f"DowncastFelt({t(b[0])}, {t(b[1])}, A1, R1, R2) /\\ {RCANY}", quick=(b in ((-5, 5), (2 ** 128 - 6, 2 ** 128 - 1)))))
    return out


def bounded_jobs(rng):
    out = []
    pairs = [(srange(8), srange(8)), (urange(8), urange(8)), (urange(64), srange(32)), ((-3, 5), (100, 200)),
             (urange(128), (0, 1)), ((-2 ** 100, 2 ** 100), (-7, -2)), (srange(128), (0, 2 ** 120))]
    for a, b in pairs:
        for op, Post, res in (("add", "BAdd", (a[0] + b[0], a[1] + b[1])), ("sub", "BSub", (a[0] - b[1], a[1] - b[0]))):
            out.append(job(f"bounded_{op}_{rname(a)}_{rname(b)}", f"bounded_{op}",
                           f"{BI}type ResT = {tyname(res, True)};\n#[allow(extern_outside_corelib)]\n"
                           f"extern fn bounded_int_{op}<T1, T2>(a: T1, b: T2) -> ResT nopanic;\n"
                           f"fn foo(a: {tyname(a)}, b: {tyname(b)}) -> ResT {{\n    bounded_int_{op}(a, b)\n}}\n",
                           [inty("A1", a), inty("A2", b)],
                           f"{Post}({t(a[0])}, {t(a[1])}, {t(b[0])}, {t(b[1])}, A1, A2, R1) /\\ "
                           f"InTy(R1, {t(res[0])}, {t(res[1])})"))
    for a, b in [(srange(8), srange(8)), (urange(16), (3, 9))]:
        prods = [a[0] * b[0], a[0] * b[1], a[1] * b[0], a[1] * b[1]]
        res = (min(prods), max(prods))
        out.append(job(f"bounded_mul_{rname(a)}_{rname(b)}", "bounded_mul",
                       f"{BI}type ResT = {tyname(res, True)};\n#[allow(extern_outside_corelib)]\n"
                       f"extern fn bounded_int_mul<T1, T2>(a: T1, b: T2) -> ResT nopanic;\n"
                       f"fn foo(a: {tyname(a)}, b: {tyname(b)}) -> ResT {{\n    bounded_int_mul(a, b)\n}}\n",
                       [inty("A1", a), inty("A2", b)],
                       f"BMul({t(a[0])}, {t(a[1])}, {t(b[0])}, {t(b[1])}, A1, A2, R1)", nonlinear=True))
    cons = [(urange(8), 0x80), (srange(8), 0), ((0, 2 ** 129 - 1), 2 ** 128), (urange(16), 1), (urange(32), 2 ** 32 - 1),
            (srange(64), -5), (srange(128), 17), ((-100, 100), -99), (urange(128), 2 ** 127), ((5, 2 ** 128 + 4), 2 ** 64),
            ((-2 ** 127 - 3, 9), -2 ** 127)]
    for a, bd in cons:
        lo_t, hi_t = (a[0], bd - 1), (bd, a[1])
        out.append(job(f"bounded_constrain_{rname(a)}_{('m' + str(-bd)) if bd < 0 else bd}"[:60], "bounded_constrain",
                       f"{BI}type Res = Result<{tyname(lo_t, True)}, {tyname(hi_t, True)}>;\n#[allow(extern_outside_corelib)]\n"
                       f"extern fn bounded_int_constrain<T, const BOUNDARY: felt252>(\n    value: T,\n"
                       f") -> Res implicits(RangeCheck) nopanic;\n"
                       f"fn foo(value: {tyname(a)}) -> Res {{\n    bounded_int_constrain::<_, {bd}>(value)\n}}\n",
                       [inty("A1", a)],
                       f"BConstrain({t(a[0])}, {t(a[1])}, {t(bd)}, A1, R1, R2) /\\ RCD = 1",
                       quick=((a, bd) == (srange(8), 0))))
    trims = [(urange(8), "min"), ((-0xff, 0), "max"), (srange(8), "min"), (urange(8), "max"), (srange(64), "max"),
             (urange(128), "min"), ((-2 ** 128, 2 ** 128), "max"), ((7, 2 ** 100), "min"), (srange(128), "min")]
    for a, side in trims:
        bound = a[0] if side == "min" else a[1]
        res = (a[0] + 1, a[1]) if side == "min" else (a[0], a[1] - 1)
        out.append(job(f"bounded_trim_{side}_{rname(a)}", "bounded_trim",
                       f"{BI}type Res = core::internal::OptionRev<{tyname(res, True)}>;\n#[allow(extern_outside_corelib)]\n"
                       f"extern fn bounded_int_trim_{side}<T>(value: T) -> Res nopanic;\n"
                       f"fn foo(value: {tyname(a)}) -> Res {{\n    bounded_int_trim_{side}(value)\n}}\n",
                       [inty("A1", a)], f"BTrim({t(a[0])}, {t(a[1])}, {t(bound)}, A1, R1, R2)"))
    for a in [srange(8), (0, 2 ** 129 - 1), (-5, 5), srange(128)]:
        out.append(job(f"bounded_is_zero_{rname(a)}", "bounded_is_zero",
                       f"use core::zeroable::IsZeroResult;\n{BI if needs_bi(a) else ''}#[allow(extern_outside_corelib)]\n"
                       f"extern fn bounded_int_is_zero<T>(value: T) -> IsZeroResult<T> implicits() nopanic;\n"
                       f"fn foo(value: {tyname(a)}) -> IsZeroResult<{tyname(a)}> {{\n    bounded_int_is_zero(value)\n}}\n",
                       [inty("A1", a)], "IsZeroRes(A1, R1, R2)"))
    divs = [((128, 255), (3, 8)), (urange(128), (1, 2 ** 128 - 1)), (urange(128), (2 ** 124, 2 ** 124)), (urange(8), (1, 255))]
    for a, b in divs:
        q = (a[0] // b[1], a[1] // b[0])
        r = (0, b[1] - 1)
        out.append(job(f"bounded_div_rem_{rname(a)}_{rname(b)}", "bounded_div_rem",
                       f"{BI}type DivRemType = ({tyname(q, True)}, {tyname(r, True)});\n#[allow(extern_outside_corelib)]\n"
                       f"extern fn bounded_int_div_rem<T1, T2>(\n    a: T1, b: NonZero<T2>,\n"
                       f") -> DivRemType implicits(RangeCheck) nopanic;\n"
                       f"fn foo(a: {tyname(a)}, b: NonZero<{tyname(b)}>) -> DivRemType {{\n    bounded_int_div_rem(a, b)\n}}\n",
                       [inty("A1", a), inty("A2", b)],
                       f"BDivRem({t(a[0])}, {t(a[1])}, {t(b[0])}, {t(b[1])}, A1, A2, R1, R2) /\\ {RCANY}", nonlinear=True))
    return out


def misc_jobs():
    out = []
    b2 = ["IsBool(A1)", "IsBool(A2)"]
    out.append(job("bool_and", "bool", "fn foo(a: bool, b: bool) -> bool {\n    a & b\n}\n", b2, "BoolAnd(A1, A2, R1)"))
    out.append(job("bool_or", "bool", "fn foo(a: bool, b: bool) -> bool {\n    a | b\n}\n", b2, "BoolOr(A1, A2, R1)", quick=True))
    out.append(job("bool_xor", "bool", "fn foo(a: bool, b: bool) -> bool {\n    a ^ b\n}\n", b2, "BoolXor(A1, A2, R1)"))
    out.append(job("bool_not", "bool", "fn foo(a: bool) -> bool {\n    !a\n}\n", ["IsBool(A1)"], "BoolNot(A1, R1)"))
    out.append(job("felt252_is_zero", "is_zero",
                   "use zeroable::IsZeroResult;\nfn foo(a: felt252) -> IsZeroResult<felt252> {\n    felt252_is_zero(a)\n}\n",
                   [], "IsZeroRes(A1, R1, R2)"))
    u = urange(128)
    out.append(job("u256_is_zero", "is_zero",
                   "use zeroable::IsZeroResult;\nfn foo(a: u256) -> IsZeroResult<u256> {\n    integer::u256_is_zero(a)\n}\n",
                   [inty("A1", u), inty("A2", u)], "U256IsZero(A1, A2, R1, R2, R3)"))
    out.append(job("u256_sqrt", "sqrt",
                   '#[feature("corelib-internal-use")]\nfn foo(a: u256) -> u128 {\n    integer::u256_sqrt(a)\n}\n',
                   [inty("A1", u), inty("A2", u)], f"U256Sqrt(A1, A2, R1) /\\ {RCANY}", nonlinear=True))
    out.append(job("u256_safe_div_rem", "divmod",
                   "fn foo(a: u256, b: NonZero<u256>) -> (u256, u256) {\n    integer::u256_safe_div_rem(a, b)\n}\n",
                   [inty("A1", u), inty("A2", u), inty("A3", u), inty("A4", u), "~(A3 = 0 /\\ A4 = 0)"],
                   "U256DivMod(A1, A2, A3, A4, R1, R2, R3, R4)", nonlinear=True))
    # withdraw_gas: the amount is whatever the compiler's gas solver assigned (GASC1)
    out.append(job("withdraw_gas", "gas",
                   "fn foo(x: u128, y: u128) -> Option<Result<u128, u128>> {\n"
                   "    match gas::withdraw_gas() {\n"
                   "        Some(()) => Some(integer::u128_overflowing_add(x, y)),\n"
                   "        None => None,\n"
                   "    }\n}\n",
                   [inty("A1", u), inty("A2", u), inty("GAS0", u)],
                   "WithdrawGas(GASC1, GAS0, GAS1, R1) /\\ (R1 = 0 => UOverflowingAdd(TWO128, A1, A2, R2, R3))",
                   quick=True))
    return out


def all_jobs(tier, seed):
    rng = random.Random(seed)
    jobs = unsigned_jobs() + signed_jobs() + cast_jobs(rng, 16, all_pairs=(tier == "thorough")) + bounded_jobs(rng) + misc_jobs()
    names = set()
    for j in jobs:
        assert j["name"] not in names, j["name"]
        names.add(j["name"])
    return jobs


def select(tier, seed):
    """quick: the fixed quick set (8-10 linear instantiations + 1 rotating by seed);
    thorough: every linear instantiation + the non-linear ones (attempted under a time-out)."""
    jobs = all_jobs(tier, seed)
    if tier == "thorough":
        return jobs
    q = [j for j in jobs if j["quick"]]
    rest = [j for j in jobs if not j["quick"] and not j["nonlinear"]]
    rng = random.Random(seed * 7919 + 1)
    q += rng.sample(rest, 2)
    return q


def candidate_programs():
    """Instantiations just OUTSIDE the guards of the libfunc specialisation (the unmodified compiler rejects them:
    they are then recorded as skipped).  If a compiler accepts one, the adversarial-hint layer attacks it like any
    other program: a guard that a soundness argument silently relies on must not be weakened."""
    out = []
    divs = [((0, 2 ** 250 - 1), (2 ** 127, 2 ** 127 + 2 ** 128 - 1)), ((0, 2 ** 250 - 1), (1, 2 ** 129)),
            ((0, 2 ** 128 - 1), (2 ** 128, 2 ** 129)), ((0, 2 ** 251 - 1), (2 ** 127 + 1, 2 ** 128 + 2)),
            ((0, 2 ** 200), (2 ** 100, 2 ** 128 + 1))]
    for a, b in divs:
        q = (a[0] // b[1], a[1] // b[0])
        r = (0, b[1] - 1)
        out.append({"id": f"cand/bounded_div_rem_{rname(a)}_{rname(b)}", "funcs": "foo", "auto_gas": True, "inputs_per_fn": 12,
                    "source": f"{BI}type DivRemType = ({tyname(q, True)}, {tyname(r, True)});\n#[allow(extern_outside_corelib)]\n"
                              f"extern fn bounded_int_div_rem<T1, T2>(\n    a: T1, b: NonZero<T2>,\n"
                              f") -> DivRemType implicits(RangeCheck) nopanic;\n"
                              f"fn foo(a: {tyname(a, True)}, b: NonZero<{tyname(b, True)}>) -> DivRemType {{\n    bounded_int_div_rem(a, b)\n}}\n"})
    lim = 2 ** 123 + 17 * 2 ** 64 + 1
    for b in [(0, lim + 4), (2 ** 128 - lim - 7, 2 ** 128 - 1), (-lim - 3, -1), (5, lim + 9)]:
        out.append({"id": f"cand/downcast_felt_{rname(b)}", "funcs": "foo", "auto_gas": True, "inputs_per_fn": 12,
                    "source": f"{BI}#[allow(extern_outside_corelib)]\n"
                              f"extern fn downcast<T, S>(index: T) -> Option<S> implicits(RangeCheck) nopanic;\n"
                              f"fn foo(index: felt252) -> Option<{tyname(b, True)}> {{\n    downcast(index)\n}}\n"})
    return out

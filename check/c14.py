"""C14 - untrusted Sierra is handled totally: accepted or rejected, never a crash.

Single-/double-point mutants of every corpus Sierra program, felt-level mutants of serialized
contract classes and random felt vectors go through every public stage under catch_unwind;
the stage logs are validated by TLC against the SierraPipeline protocol, which has no action
for a panic / unfinished stage. Findings are keyed by (stage, panic site)."""
import glob
import json
import os
import re
import subprocess

from lib import (BIN, JAVA_OPTS_TRACE, REPO, SPECS, VERIF, Check, ToolError, build_harness, clean_dir, log, read_ndjson,
                 run, seed, tlc, workdir)
from sierra_common import e2e_cases

SPEC = os.path.join(SPECS, "SierraPipeline")


def jobs_for(tier):
    quick = tier == "quick"
    jobs = []
    sierras = sorted(glob.glob(os.path.join(REPO, "crates", "**", "*.sierra"), recursive=True)) + \
        sorted(glob.glob(os.path.join(REPO, "examples", "**", "*.sierra"), recursive=True)) + \
        sorted(glob.glob(os.path.join(REPO, "tests", "**", "*.sierra"), recursive=True))
    for p in sierras:
        big = os.path.getsize(p) > 300_000
        jobs.append({"id": "s_" + os.path.basename(p)[:-7], "kind": "sierra", "path": p,
                     "mutants": (60 if big else 220) if quick else (600 if big else 3000), "multi": 20 if quick else 300})
    for p in sorted(glob.glob(os.path.join(VERIF, "corpus", "cairo", "*.cairo"))):
        jobs.append({"id": "own_" + os.path.basename(p)[:-6], "kind": "cairo", "path": p,
                     "mutants": 150 if quick else 2500, "multi": 20 if quick else 300})
    d = clean_dir(os.path.join(workdir("c14"), "e2e_src"))
    e2e = e2e_cases(d)
    if quick:
        # value-argument heavy families are always kept (their declarations feed the boundary-value operators)
        e2e = [c for i, c in enumerate(e2e) if i % 4 == seed() % 4 or "bounded_int" in c[0] or "_const" in c[0]]
    for name, p in e2e:
        jobs.append({"id": name, "kind": "cairo", "path": p, "mutants": 40 if quick else 400, "multi": 5 if quick else 60})
    import bounded_sweep
    for j in bounded_sweep.jobs(tier, area="c14"):
        jobs.append({"id": j["id"], "kind": "cairo", "path": j["path"], "mutants": 30 if quick else 600, "multi": 5 if quick else 100})
    classes = sorted(glob.glob(os.path.join(REPO, "crates", "cairo-lang-starknet*", "test_data", "*.contract_class.json")))
    classes = [c for c in classes if ".compiled_" not in c]
    for p in classes:
        jobs.append({"id": "c_" + os.path.basename(p).split(".")[0], "kind": "class", "path": p,
                     "mutants": 250 if quick else 4000})
    jobs.append({"id": "rand", "kind": "felts", "count": 4000 if quick else 100000})
    # the recorded inputs of the known findings are always replayed, so that each listed finding is
    # reported deterministically (and its disappearance after a repair is visible)
    for f in sorted(glob.glob(os.path.join(VERIF, "corpus", "findings", "C14", "*.json"))):
        inp = json.load(open(f))["input"]
        if inp.get("felts"):
            cp = inp.get("class_path") or ""
            if cp.startswith("/repo/"):
                cp = os.path.join(REPO, cp[len("/repo/"):])
            jobs.append({"id": inp["id"], "kind": "replay_felts", "class_path": cp, "felts": inp["felts"]})
            continue
        jobs.append({"id": inp["id"], "kind": "replay_prog", "sierra": inp.get("sierra", ""), "program_json": inp.get("program_json", "")})
    return jobs


def run_tool(jobs, out, budget):
    spec = {"seed": seed(), "threads": __import__("lib").worker_threads(0.8), "lp_limit": 250, "worker_mem_kb": 6_000_000, "jobs": jobs}
    jp = os.path.join(out, "jobs.json")
    json.dump(spec, open(jp, "w"))
    cmd = f"exec timeout {budget} {os.path.join(BIN, 'pipeline_tool')} {jp} {out}"
    r = subprocess.run(["bash", "-c", cmd], stdout=subprocess.PIPE, stderr=subprocess.STDOUT, text=True)
    return r.returncode, r.stdout


def validate(out, tag):
    tp = os.path.join(out, "stages.ndjson")
    with open(tp, "a") as f:
        f.write(json.dumps({"e": "reset", "id": "<end>"}) + "\n")
    res = tlc(SPEC, "SierraPipelineTrace", "SierraPipelineTrace.cfg", f"c14_{tag}", workers=1, timeout=3000,
              env={"TRACE": tp}, java_opts=JAVA_OPTS_TRACE, heap=__import__("lib").tlc_heap(8))
    if res.errors or res.violated:
        raise ToolError(f"SierraPipelineTrace: {res.errors[:2]} {res.violated} (see {res.out_path})")
    rep = None
    for line in open(res.out_path, errors="replace"):
        m = re.match(r'^<<"BAD", "(.*)">>\s*$', line)
        if m:
            rep = json.loads(m.group(1).replace('\\"', '"').replace("\\\\", "\\"))
    if rep is None:
        raise ToolError(f"SierraPipelineTrace: no report (see {res.out_path})")
    os.remove(res.out_path)
    return res, rep


def main(tier, replay=None):
    chk = Check("C14", tier, level="exploration")
    build_harness(["pipeline_tool"])
    out = clean_dir(workdir("c14", "run"))
    if replay:
        rep = json.load(open(replay))["replay"]
        inp = rep["input"]
        if inp.get("felts") is not None:
            jobs = [{"id": inp["id"], "kind": "replay_felts", "class_path": inp.get("class_path") or
                     glob.glob(os.path.join(REPO, "crates", "cairo-lang-starknet", "test_data", "*.contract_class.json"))[0],
                     "felts": inp["felts"]}]
        else:
            jobs = [{"id": inp["id"], "kind": "replay_prog", "sierra": inp.get("sierra", ""), "program_json": inp.get("program_json", "")}]
    else:
        jobs = jobs_for(tier)
    # design-level protocol check (tiny, exhaustive)
    mc = tlc(SPEC, "MCSierraPipeline", "MCSierraPipeline.cfg", "c14_mc", workers=2, timeout=300)
    if not mc.ok:
        raise ToolError(f"MCSierraPipeline: {mc.violated} {mc.errors[:2]}")
    budget = 1500 if tier == "quick" else 3300
    rc, o = run_tool(jobs, out, budget)
    log("[pipeline_tool] " + (o or "").strip().splitlines()[-1] if o and o.strip() else f"[pipeline_tool] rc={rc}")
    if rc != 0:
        raise ToolError(f"pipeline_tool (parent) ended with rc={rc}: {(o or '')[-400:]}")
    # inputs that killed a worker process (abort: stack overflow / failed allocation under the 6 GB address-space limit;
    # timeout: one input did not finish within 300 s): each is re-run alone before it is believed
    crashes = json.load(open(os.path.join(out, "crashes.json")))
    for c in crashes:
        inp = c["input"]
        one = clean_dir(workdir("c14", "confirm"))
        if inp.get("felts") is not None:
            cj = [{"id": inp["id"], "kind": "replay_felts", "class_path": inp.get("class_path"), "felts": inp["felts"]}]
        elif inp.get("program_json"):
            cj = [{"id": inp["id"], "kind": "replay_prog", "sierra": "", "program_json": inp["program_json"]}]
        else:
            log(f"[C14] worker died outside an input / on an unmutated input: {json.dumps(c)[:300]} (diagnostic)")
            continue
        json.dump({"seed": seed(), "threads": 1, "lp_limit": 250, "worker_mem_kb": 6_000_000, "jobs": cj}, open(os.path.join(one, "jobs.json"), "w"))
        r2 = subprocess.run(["bash", "-c", f"CVH_INPUT_TIMEOUT_S=3000 exec timeout 3300 {os.path.join(BIN, 'pipeline_tool')} {one}/jobs.json {one}"],
                            stdout=subprocess.PIPE, stderr=subprocess.STDOUT, text=True)
        again = json.load(open(os.path.join(one, "crashes.json"))) if os.path.exists(os.path.join(one, "crashes.json")) else []
        if again:
            kind = again[0]["kind"]
            key = {"kind": kind, "stage": "casm_class" if inp.get("felts") is not None else "program", "input_sha": __import__("lib").sha(inp.get("felts") or inp.get("program_json"))}
            chk.violation(key, {"input": inp, "exit": again[0].get("exit")},
                          f"{kind} (process died, exit {again[0].get('exit')}) while handling input {inp['id']} ({inp.get('plan') or inp.get('desc')}); reproduced alone")
        else:
            log(f"[C14] crash of {inp['id']} did not reproduce alone (diagnostic)")
    res, rep = validate(out, "stages")
    chk.add_tlc(res)
    inputs = {r["id"]: r for r in read_ndjson(os.path.join(out, "inputs.ndjson"))}
    sites = {}
    for b in rep["bad"]:
        inp = inputs.get(b["id"], {"id": b["id"]})
        if b["why"] == "panic":
            key = {"kind": "panic", "stage": b["stage"], "at": b["at"], "file": b["at"].rsplit(":", 1)[0], "msg": b["msg"][:60]}
            text = f"panic in stage {b['stage']} at {b['at']}: {b['msg'][:120]} (input {b['id']}, plan {inp.get('plan') or inp.get('desc')})"
        else:
            key = {"kind": b["why"], "stage": b["stage"], "at": ""}
            text = f"stage protocol violated ({b['why']}) at stage {b['stage']} for input {b['id']}"
        k = json.dumps(key, sort_keys=True)
        sites[k] = sites.get(k, 0) + 1
        if sites[k] == 1:
            chk.violation(key, {"input": inp, "event": b}, text)
    slow = [r for r in read_ndjson(os.path.join(out, "stages.ndjson")) if r.get("ms", 0) > 20000]
    if slow:
        log(f"[C14] slow stages (>20 s, diagnostic): {slow[:5]}")
    kinds = {}
    for r in read_ndjson(os.path.join(out, "stages.ndjson")):
        if r["e"] == "stage":
            k = (r["name"], r["out"])
            kinds[f"{k[0]}:{k[1]}"] = kinds.get(f"{k[0]}:{k[1]}", 0) + 1
    chk.assumptions = ["crash detection is the harness's (catch_unwind, process exit status, time budget); the specification contributes the "
                       "stage protocol and has no action for a panic",
                       "allocation is bounded by a 24 GB address-space limit on the harness process",
                       "LP metadata solver only on programs with <= 250 statements"]
    chk.cov["samples"] = [json.dumps(s)[:300] for s in list(inputs.values())[:3]] or [str(jobs[0])[:300]]
    return chk.finish({
        "evaluations": rep["inputs"], "distinct_nontrivial": rep["accepted"] + rep["rejected"],
        "rule": "each input is a distinct mutation plan / felt vector; non-trivial = reached a terminal Accepted or Rejected outcome through >= 1 stage",
        "accepted": rep["accepted"], "rejected": rep["rejected"], "stage_outcomes": kinds,
        "distinct_panic_sites": len([k for k in sites if '"panic"' in k]), "panics_total": sum(sites.values()),
        "traces_validated_against_impl": rep["inputs"],
    })

#!/usr/bin/env python3
"""seeded_store.py <worktree> <name> <property> <json-meta-extra>  -- copies patch.diff, demo/, README.md into /verif/seeded/<name>/ and writes meta.json"""
import json, os, shutil, sys
wt, name, prop, extra = sys.argv[1], sys.argv[2], sys.argv[3], json.loads(sys.argv[4])
d = os.path.join("/verif/seeded", name)
shutil.rmtree(d, ignore_errors=True)
os.makedirs(d)
shutil.copy(os.path.join(wt, "MUTANT", "patch.diff"), d)
shutil.copy(os.path.join(wt, "MUTANT", "README.md"), os.path.join(d, "README_agent.md"))
if os.path.isdir(os.path.join(wt, "MUTANT", "demo")):
    shutil.copytree(os.path.join(wt, "MUTANT", "demo"), os.path.join(d, "demo"))
meta = {"property": prop, "base_commit": os.popen("git -C /repo rev-parse --short HEAD").read().strip()}
meta.update(extra)
json.dump(meta, open(os.path.join(d, "meta.json"), "w"), indent=1)
print("stored", d)

"""Common main for the run-level Sierra checks C02 / C04 / C17 (SierraRun spec, binding V)."""
import json
import os

from lib import SPECS, Check, ToolError, build_harness, log, read_ndjson, tlc
from sierra_common import corpus_jobs, only_audited, replay_obj, run_tool, validate_runs

# which violated laws are the property as stated (alarm) for which check
ALARM = {
    "C17": {"ApExact", "StartOK", "OneStatementPerPc"},
    "C04": {"GasCovers", "StepBound"},
    "C02": {"Completes", "StepBound"},
}
ASSUME = {
    "C17": ["function_ap_change and statement ranges are read from the real compile (Metadata, debug_info); "
            "ap values from the real VM's relocated trace",
            "the footer `ret` that libfuncs call to read pc/fp belongs to the calling statement"],
    "C04": ["prices: ConstCost::cost (100/step, 70/range check, 56/rc96) and runner token_gas_cost; memory holes are not priced",
            "functions without a gas builtin are charged their statically declared entry cost",
            "blake2s opcode uses are not counted by ExecutionResources and therefore not priced here"],
    "C02": ["inputs are in-range scalars (felt252, u8..u128, i8..i128); honest CairoHintProcessor; default StarknetState",
            "programs using libfuncs outside audited.json are run but a VM failure there is not an alarm"],
}


def explicit_job(rep):
    r = rep["reset"]
    job = {"id": r["prog"], "solver": r.get("solver", "linear"), "mutants": 0,
           "explicit": [{"fn": r["fn"], "args": r["args"], "g": r["g"]}]}
    if rep.get("sierra"):
        job.update({"kind": "sierra_text", "text": rep["sierra"]})
    else:
        job.update({"kind": rep["src"]["kind"], "path": rep["src"]["path"]})
    return job


def main_for(prop, tier, replay=None):
    chk = Check(prop, tier)
    n_graph_cases = 0
    build_harness(["sierra_tool"])
    if prop == "C04" and not replay:
        # design level: the wallet discipline implies GasCovers / Bounded for every small CFG, and termination
        gd = os.path.join(SPECS, "GasDesign")
        for cfg in ("MCGasDesign.cfg", "MCGasDesign3.cfg", "MCGasDesignLive.cfg"):
            r = tlc(gd, "GasDesign", cfg, "c04_" + cfg[:-4], workers=4, timeout=900)
            if not r.ok:
                raise ToolError(f"GasDesign/{cfg}: {r.violated} {r.errors[:2]} (see {r.out_path})")
            chk.add_tlc(r)
            os.remove(r.out_path)
        import graphalgos
        n_graph_cases = graphalgos.stage(chk, tier)
    if replay:
        rep = json.load(open(replay))["replay"]
        jobs = [explicit_job(rep)]
    else:
        quick = tier == "quick"
        solvers = ("linear", "lp") if prop in ("C17", "C04") else ("linear",)
        # accepted single-point Sierra mutants are run too: for C02 (must complete) and C17 (a mutant accepted by a
        # weakened static check must still respect the declared ap changes)
        mut = {"C02": (6 if quick else 40), "C17": (4 if quick else 30)}.get(prop, 0)
        jobs = corpus_jobs(tier, want_mutants=mut, solvers=solvers, e2e_limit=(120 if quick else None))
    src_of = {j["id"]: {"kind": j["kind"], "path": j.get("path")} for j in jobs}
    out = run_tool(prop.lower(), jobs, vectors=(4 if tier == "quick" else 10),
                   ample_gas=(600_000 if tier == "quick" else 4_000_000))
    stats, bad, byid = validate_runs(out, prop.lower())
    chk.cov["states"] += stats["states"]
    chk.cov["transitions"] += stats["transitions"]
    chk.cov["traces_validated_against_impl"] = stats["runs"]
    # static range law (C17): recorded statement range = size of the statement's instructions
    progs = list(byid.values())
    n_static = 0
    if prop == "C17":
        for p in progs:
            for sm in p["export"].get("size_mismatch", []):
                n_static += 1
                chk.violation({"kind": "range_size", "prog": p["id"].split("#")[0], "stmt": sm["stmt"]},
                              {"prog": p["id"], "src": src_of.get(p["id"].split("#")[0]), "mismatch": sm},
                              f"statement {sm['stmt']} of {p['id']}: instructions occupy {sm['instr_size']} words, recorded range {sm['range']}")
    diag = {}
    for b in bad:
        laws = set(b["laws"])
        base = b["prog"].split("#")[0]
        rep = replay_obj(byid, b)
        rep["src"] = src_of.get(base)
        alarm = laws & ALARM[prop]
        if prop == "C02" and "Completes" in alarm and not only_audited(byid[b["prog"]]["export"]):
            alarm = alarm - {"Completes"}
            diag["vmerr_non_audited"] = diag.get("vmerr_non_audited", 0) + 1
        for law in sorted(laws - alarm):
            diag[law] = diag.get(law, 0) + 1
        if alarm:
            key = {"kind": sorted(alarm)[0], "prog": base, "fn": b["reset"]["fn"], "plan": rep.get("plan")}
            chk.violation(key, rep, f"{sorted(alarm)} violated by {b['prog']} fn#{b['reset']['fn']} args={b['reset']['args']} "
                                    f"g={b['reset']['g']} at event {json.dumps(b['event'])[:200]} result={json.dumps(b['result'])[:300]}")
    if diag:
        log(f"[{prop}] diagnostics (not alarms): {diag}")
    # coverage facts
    n_prog = len(progs)
    n_mut_acc = sum(1 for p in progs if "#m" in p["id"])
    kinds = {}
    nontrivial = 0
    seen = set()
    for r in read_ndjson(os.path.join(out, "trace.ndjson")):
        if r["e"] == "result":
            kinds[r["kind"]] = kinds.get(r["kind"], 0) + 1
        if r["e"] == "reset":
            cur = (r["prog"], r["fn"], tuple(r["args"]), r["g"])
            steps = 0
        if r["e"] == "x":
            steps += 1
        if r["e"] == "fin" and steps >= 5 and cur not in seen:
            seen.add(cur)
            nontrivial += 1
    for b in progs[:2]:
        pass
    samples = []
    with open(os.path.join(out, "trace.ndjson")) as f:
        buf = []
        for line in f:
            e = json.loads(line)
            if e["e"] == "reset" and buf:
                if len(buf) > 6 and len(samples) < 3:
                    samples.append(buf[:4] + ["..."] + buf[-2:])
                buf = []
            buf.append(e)
    chk.cov["samples"] = samples or ["(no runs)"]
    chk.assumptions = ASSUME[prop]
    return chk.finish({
        "programs_accepted": n_prog, "accepted_mutants_run": n_mut_acc, "runs": stats["runs"], "events": stats["events"],
        "result_kinds": kinds, "distinct_nontrivial": nontrivial,
        "rule": "distinct (program, function, args, gas) runs whose trace has >= 5 statement instances and reached Finish",
        "diagnostics": diag, "static_range_mismatches": n_static, "feedback_set_cases_replayed": n_graph_cases,
        "exhaustive": False,
    })

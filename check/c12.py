"""C12 - compilation is deterministic: same sources, same output, on any schedule.

Spec: specs/CompilerDb/Assembly.tla.  TLC (1) checks `Canonical` over all interleavings of the
warm-up workers, the prefix threads and the main thread of the modelled assembly, (2) shows that the
BUG_* variants violate it (anti-vacuity), (3) generates the *histories*
(thread count x prefix of unrelated queries x sequential/parallel x compile entry point).
The harness (det_replay) executes every selected history on a fresh RootDatabase of the real
compiler and compares diagnostics, Sierra (debug-name ids and canonical ids), CASM and contract
classes of all histories of one project byte by byte.

Alarm: two histories of the same project + settings with different bytes in any observable.
"""
import json
import os
import random
import subprocess
import time

import cdb_corpus
from lib import (BIN, JAVA_OPTS_TRACE, REPO, SPECS, Check, ToolError, build_harness, clean_dir, extract_replay, log,
                 read_ndjson, run, seed, sha, tlc, workdir, write_ndjson)

SPEC = os.path.join(SPECS, "CompilerDb")
CONTRACTS = "crates/cairo-lang-starknet/cairo_level_tests/contracts/"

# (name, description relative to the repository)
PROJECTS_QUICK = [
    {"name": "examples", "repo_path": "examples"},
    {"name": "bug_samples_diag", "repo_path": "tests/bug_samples", "starknet": True, "test_attrs": True,
     "contracts": False},
    {"name": "erc20", "repo_path": CONTRACTS + "erc20.cairo", "starknet": True, "edition": "2024_07"},
    {"name": "token_bridge", "repo_path": CONTRACTS + "token_bridge.cairo", "starknet": True, "edition": "2024_07"},
    {"name": "issue7234", "repo_path": "tests/bug_samples/issue7234.cairo", "starknet": True, "test_attrs": True,
     "edition": "2023_10"},
    "two_crates",
    "cycles",
    "cycles_plain",
    "ambig_impls",
]
PROJECTS_THOROUGH = PROJECTS_QUICK + [
    {"name": "account", "repo_path": CONTRACTS + "account.cairo", "starknet": True, "edition": "2024_07"},
    {"name": "libfuncs_coverage", "repo_path": CONTRACTS + "libfuncs_coverage.cairo", "starknet": True,
     "edition": "2024_07"},
    {"name": "with_erc20_diag", "repo_path": CONTRACTS + "with_erc20.cairo", "starknet": True, "edition": "2024_07"},
    {"name": "inconsistent_gas", "repo_path": "tests/bug_samples/inconsistent_gas.cairo", "starknet": True,
     "test_attrs": True, "edition": "2023_10"},
    {"name": "issue2816", "repo_path": "tests/bug_samples/issue2816.cairo", "starknet": True, "test_attrs": True,
     "edition": "2023_10"},
    {"name": "fib_all", "repo_path": "examples/fib.cairo", "edition": "2023_10"},
]
AGREE_SMALL = {"name": "hello_starknet", "repo_path": CONTRACTS + "hello_starknet.cairo", "starknet": True,
               "edition": "2024_07"}
BASELINE = {"threads": 1, "mode": "seq", "entry": "artifact", "prefix": []}


def resolve_project(p):
    """Project description -> the JSON object the harness reads (absolute path or inline sources)."""
    if p == "two_crates":
        return dict(cdb_corpus.two_crate_project(), k="project")
    if p == "cycles":
        return dict(cdb_corpus.cycles_project(), k="project")
    if p == "cycles_plain":
        return dict(cdb_corpus.cycles_project(plain=True), k="project")
    if p == "ambig_impls":
        return dict(cdb_corpus.ambig_project(), k="project")
    q = dict(p, k="project")
    q["path"] = os.path.join(REPO, q.pop("repo_path"))
    if not os.path.exists(q["path"]):
        raise ToolError(f"corpus path missing: {q['path']}")
    return q


def hist_key(h):
    return {k: h[k] for k in ("threads", "mode", "entry", "prefix")}


def select_histories(all_h, n, rng, reps16):
    """Baseline first, then a seeded sample that covers every (threads, mode, entry) cell."""
    by_cell = {}
    for h in all_h:
        by_cell.setdefault((h["threads"], h["mode"], h["entry"]), []).append(h)
    for v in by_cell.values():
        rng.shuffle(v)
    out = [dict(BASELINE)]
    cells = sorted(by_cell)
    i = 0
    while len(out) < n and any(by_cell.values()):
        c = cells[i % len(cells)]
        i += 1
        if by_cell[c]:
            h = by_cell[c].pop()
            if hist_key(h) != BASELINE:
                out.append(hist_key(h))
    final = []
    for h in out:
        final.append(dict(h, rep=0))
        if h["threads"] == 16:
            for r in range(1, reps16):
                final.append(dict(h, rep=r))
    return final


def run_projects(jobs, timeout):
    """jobs: [(name, input_path, output_path, scratch)] -> run det_replay processes concurrently."""
    procs = []
    for name, inp, outp, scratch in jobs:
        lf = open(outp + ".log", "w")
        procs.append((name, outp, lf, subprocess.Popen([os.path.join(BIN, "det_replay"), inp, outp, scratch],
                                                        stdout=lf, stderr=subprocess.STDOUT)))
    t0 = time.time()
    for name, outp, lf, p in procs:
        try:
            rc = p.wait(timeout=max(1, timeout - (time.time() - t0)))
        except subprocess.TimeoutExpired:
            for _, _, _, q in procs:
                q.kill()
            raise ToolError(f"det_replay timed out on project {name}")
        finally:
            lf.close()
        if rc != 0:
            log(open(outp + ".log", errors="replace").read()[-3000:])
            raise ToolError(f"det_replay failed ({rc}) on project {name}")


def collect(chk, proj_desc, settings, outp, stats):
    summary = None
    for r in read_ndjson(outp):
        if "summary" in r:
            summary = r["summary"]
        elif r.get("k") == "res":
            stats["histories"] += 1
            stats["ms"] += r["ms"]
            stats["prefix_panics"] += r.get("prefix_panics", 0)
            if "panic" in r["hashes"]:
                stats["panics"] += 1
            stats["observables"].update(r["hashes"].keys())
        elif r.get("k") == "diff":
            stats["diffs"] = stats.get("diffs", 0) + 1
            n_here = stats.setdefault("diffs_by_project", {})
            name = proj_desc if isinstance(proj_desc, str) else proj_desc["name"]
            n_here[name] = n_here.get(name, 0) + 1
            if n_here[name] > 3:
                continue  # the first three differing histories of a project are reported, the rest counted
            parts = [p["part"] for p in r["parts"]]
            other = hist_key(r["other"])
            key = {"project": proj_desc if isinstance(proj_desc, str) else proj_desc["name"], "parts": parts,
                   "history": sha(other)}
            replay = {"settings": settings, "project": proj_desc, "base": hist_key(r["base"]), "other": other,
                      "observed": r["parts"]}
            d = r["parts"][0]
            chk.violation(key, replay,
                          f"project {key['project']}: outputs differ between history {json.dumps(hist_key(r['base']))} and "
                          f"{json.dumps(other)} in {parts}; first difference in {d['part']} line {d['line']}: "
                          f"{d['a'][:120]!r} vs {d['b'][:120]!r}")
    if summary is None:
        raise ToolError(f"det_replay produced no summary ({outp})")
    return summary


def model_agreement(chk, wd, settings, names, descs_resolved):
    """V direction: the real program generator's function order and libfunc declaration order must be what
    Assembly.Reference predicts from the exported sources.  Diagnostic only (never an alarm)."""
    agreed, disagreed = [], []
    for name in names:
        proj = descs_resolved[name]
        inp = os.path.join(wd, f"graph_in_{name}.ndjson")
        gpath = os.path.join(wd, f"graph_{name}.json")
        write_ndjson(inp, [dict(settings, k="settings"), proj])
        run([os.path.join(BIN, "det_replay"), "graph", inp, gpath, os.path.join(wd, "scratch_graph")], timeout=900)
        res = tlc(SPEC, "AssemblyAgree", "AssemblyAgree.cfg", f"c12_agree_{name}", workers=1, timeout=900,
                  env={"GRAPH": gpath}, java_opts=JAVA_OPTS_TRACE, heap="4g")
        if res.errors:
            raise ToolError(f"AssemblyAgree failed on {name}: {res.errors[:2]} (see {res.out_path})")
        chk.add_tlc(res)
        g = json.load(open(gpath))
        if res.violated:
            disagreed.append(name)
            log(f"[C12] model_disagreement (diagnostic, not an alarm): Assembly.Reference does not predict the real "
                f"assembly order of project {name} (see {res.out_path})")
        else:
            agreed.append(name)
            log(f"[C12] model agreement on {name}: {len(g['funcs'])} functions in BFS order, {len(g['libs'])} libfunc "
                f"declarations in first-use order, {g['n_statements']} statements")
    return agreed, disagreed


def replay_single(chk, path):
    obj = json.load(open(path))["replay"]
    wd = clean_dir(os.path.join(workdir("c12"), "replay"))
    proj = resolve_project(obj["project"])
    lines = [dict(obj["settings"], k="settings"), proj]
    hs = []
    for rep in range(6):
        for h in (obj["base"], obj["other"]):
            hs.append(dict(h, k="hist", id=len(hs), project=proj["name"], rep=rep))
    inp, outp = os.path.join(wd, "in.ndjson"), os.path.join(wd, "out.ndjson")
    write_ndjson(inp, lines + hs)
    run_projects([(proj["name"], inp, outp, os.path.join(wd, "scratch"))], 1800)
    stats = {"histories": 0, "ms": 0, "prefix_panics": 0, "panics": 0, "observables": set()}
    s = collect(chk, obj["project"], obj["settings"], outp, stats)
    log(f"[C12] replay: {s}")
    return chk.finish({"replayed_histories": stats["histories"]})


def main(tier, replay=None):
    chk = Check("C12", tier)
    build_harness(["det_replay"])
    if replay:
        return replay_single(chk, replay)
    rng = random.Random(seed())
    wd = clean_dir(workdir("c12"))

    # (1) design: Canonical over all interleavings; (2) the BUG variants must violate it
    cfg = "MCAssembly_q.cfg" if tier == "quick" else "MCAssembly_t.cfg"
    res = tlc(SPEC, "MCAssembly", cfg, "c12_design", workers=8, timeout=1500, heap="8g")
    chk.add_tlc(res)
    log(f"[C12] TLC {cfg}: {res.distinct} distinct states, violated={res.violated} errors={res.errors[:2]} ({res.wall:.0f}s)")
    if res.errors or res.violated:
        raise ToolError(f"Assembly design check failed: {res.violated} {res.errors[:2]} (see {res.out_path})")
    design_states = res.distinct
    bugs = {}
    for b, name in (("bug1", "OrderByRawId"), ("bug2", "IterateUnordered"), ("bug3", "OrderByCompletion")):
        r = tlc(SPEC, "MCAssembly", f"MCAssembly_{b}.cfg", f"c12_{b}", workers=4, timeout=600, heap="4g")
        bugs[name] = "Canonical" in r.violated
        if not bugs[name]:
            raise ToolError(f"self-test failed: BUG={name} does not violate Canonical (see {r.out_path})")
    log(f"[C12] anti-vacuity: BUG variants violating Canonical: {sorted(bugs)}")

    # (3) histories
    res = tlc(SPEC, "MCAssembly", "MCAssembly_gen.cfg", "c12_gen", workers=4, timeout=600, heap="4g")
    if res.errors or res.violated:
        raise ToolError(f"history generator failed: {res.errors[:2]} {res.violated}")
    chk.add_tlc(res)
    hist_path = os.path.join(wd, "histories.ndjson")
    n_all = extract_replay(res.out_path, hist_path)
    os.remove(res.out_path)
    all_h = [h for h in read_ndjson(hist_path) if h.get("k") == "hist"]
    if n_all < 1000:
        raise ToolError(f"generator emitted only {n_all} histories")
    log(f"[C12] TLC generated {n_all} histories")

    settings = {"gas": True, "backtrace": False, "unsafe_panic": False, "opt": "default", "casm": True}
    projects = PROJECTS_QUICK if tier == "quick" else PROJECTS_THOROUGH
    per_project = 40 if tier == "quick" else 200
    reps16 = 1 if tier == "quick" else 5
    jobs, descs, resolved = [], {}, {}
    for p in projects:
        proj = resolve_project(p)
        name = proj["name"]
        descs[name] = p
        resolved[name] = proj
        n, reps = per_project, reps16
        if tier == "thorough" and name == "fib_all":
            n, reps = len(all_h) + 1, 1  # every generated history (once) on one small project
        hs = select_histories(all_h, n, random.Random(rng.random()), reps)
        lines = [dict(settings, k="settings"), proj]
        for i, h in enumerate(hs):
            lines.append(dict(h, k="hist", id=i, project=name))
        inp = os.path.join(wd, f"in_{name}.ndjson")
        write_ndjson(inp, lines)
        jobs.append((name, inp, os.path.join(wd, f"out_{name}.ndjson"), os.path.join(wd, "scratch_" + name)))
    t0 = time.time()
    # all projects at once: the machine is oversubscribed on purpose (more schedule variety)
    batch = 6
    for i in range(0, len(jobs), batch):
        run_projects(jobs[i:i + batch], 3000)
    log(f"[C12] executed histories of {len(jobs)} projects in {time.time() - t0:.0f}s")

    # (TLC evaluates the prediction in time quadratic in the number of statements: small projects in quick)
    agree_projects = [PROJECTS_QUICK[0], AGREE_SMALL] if tier == "quick" else \
        [PROJECTS_QUICK[0], AGREE_SMALL, PROJECTS_QUICK[3], "two_crates"]
    for p in agree_projects:
        r = resolve_project(p)
        resolved[r["name"]] = r
    agreed, disagreed = model_agreement(chk, wd, settings, [resolve_project(p)["name"] for p in agree_projects], resolved)

    stats = {"histories": 0, "ms": 0, "prefix_panics": 0, "panics": 0, "observables": set()}
    per = {}
    distinct = set()
    for name, inp, outp, _ in jobs:
        s = collect(chk, descs[name], settings, outp, stats)
        per[name] = s["histories"]
        distinct.update((name, sha(hist_key(h))) for h in read_ndjson(inp) if h.get("k") == "hist" and h["prefix"])
        rs = [r for r in read_ndjson(outp) if r.get("k") == "res"]
        if rs:
            chk.sample({"project": name, "history": hist_key(read_ndjson(inp)[2 + rs[-1]["id"]]),
                        "hashes": rs[-1]["hashes"]})
    if stats.get("diffs"):
        log(f"[C12] differing histories per project: {stats['diffs_by_project']}")
    if stats["panics"]:
        log(f"[C12] note: {stats['panics']} histories ended in a compiler panic (compared as observations)")
    chk.cov["traces_validated_against_impl"] = stats["histories"] + len(agreed)
    chk.assumptions = [
        "determinism is observed on this machine (16 cores) under the schedules that occurred; thread schedules "
        "are not controlled, the spec enumerates them only at design level",
        "prefix queries are mapped to the project: slot 0 = last free function by path, slot 1 = the middle one; "
        "crate slot 1 = second main crate or core::option",
        "sources are fixed files of the repository (and one generated two-crate project); settings: default "
        "optimizations, auto gas",
    ]
    return chk.finish({
        "exhaustive": True,
        "design_states": design_states,
        "bug_variants_detected": sorted(bugs),
        "generated_histories": n_all,
        "executed_histories": stats["histories"],
        "histories_per_project": per,
        "projects": len(jobs),
        "observables": sorted(stats["observables"]),
        "evaluations": stats["histories"],
        "distinct_nontrivial": len(distinct),
        "rule": "histories are enumerated by TLC from Assembly (threads x mode x entry x every ordered prefix of <= 3 "
                "distinct unrelated queries) and sampled per project with the seed; distinct non-trivial = distinct "
                "(project, history) pairs executed whose prefix is non-empty",
        "prefix_query_panics": stats["prefix_panics"],
        "model_agreement": {"agreed": agreed, "disagreed": disagreed},
    })

"""C08 - error-free programs always compile; ownership violations are always rejected.

(a) every generated well-typed program (C01's generator) is compiled under every optimisation
    configuration: no error diagnostics => Sierra generation, ProgramRegistry, metadata and CASM succeed;
(b) TLC enumerates ALL abstract function bodies up to a length over the ownership statement alphabet
    (specs/CairoSem/Ownership.tla) and decides with the specification's static rule which are illegal;
    each is rendered to Cairo and compiled: an illegal body must produce an error diagnostic."""
import json
import os
import re

from c05 import cfgs_thorough
from lib import SPECS, Check, ToolError, build_harness, clean_dir, extract_replay, log, read_ndjson, tlc, workdir
from sem_common import DEFAULT_CFG, SPEC, generate, real_results

PRELUDE = """#[derive(Drop)] struct Mv { x: u8 }
struct Nd { x: u8 }
fn consume_mv(v: Mv) -> u8 nopanic { v.x }
fn consume_nd(v: Nd) -> u8 nopanic { let Nd { x } = v; x }
fn peek_mv(v: @Mv) -> u8 nopanic { *v.x }
fn peek_nd(v: @Nd) -> u8 nopanic { *v.x }
struct Pd { x: u8 }
impl PdPanicDestruct of PanicDestruct<Pd> { fn panic_destruct(self: Pd, ref panic: Panic) nopanic { let Pd { x: _ } = self; } }
fn consume_pd(v: Pd) -> u8 nopanic { let Pd { x } = v; x }
fn peek_pd(v: @Pd) -> u8 nopanic { *v.x }
"""
PRELUDE_LINES = PRELUDE.count("\n")


def render_stmt(s, i):
    v = s["v"]
    k = s["k"]
    cons = f"let _t{i} = consume_{v}({v});"
    peek = f"let _t{i} = peek_{v}(@{v});"
    if k == "Move":
        return cons
    if k == "Use":
        return peek
    if k == "IfMove":
        return f"if c {{ {cons} }}"
    if k == "IfElse":
        return f"if c {{ {cons} }} else {{ let _e{i} = consume_{v}({v}); }}"
    if k == "IfUse":
        return f"if c {{ {peek} }}"
    if k == "LoopMove":
        return f"let mut i{i}: u8 = 0; while i{i} < n {{ {cons} i{i} += 1; }}"
    if k == "LoopUse":
        return f"let mut i{i}: u8 = 0; while i{i} < n {{ {peek} i{i} += 1; }}"
    if k == "RetIf":
        return "if c { return 0; }"
    raise ValueError(k)


def render_fn(name, body, vs=("mv", "nd")):
    ss = " ".join(render_stmt(s, i) for i, s in enumerate(body))
    decl = " ".join(f"let {v} = {v.capitalize()} {{ x: n }};" for v in ("mv", "nd", "pd") if v in vs)
    return f"fn {name}(c: bool, n: u8) -> u8 {{ {decl} {ss} 0 }}\n"


def error_lines(diag, path):
    """Line numbers (1-based) of the error diagnostics in a diagnostics text."""
    lines = set()
    cur_is_error = False
    for ln in diag.splitlines():
        if ln.startswith("error"):
            cur_is_error = True
        elif ln.startswith("warning"):
            cur_is_error = False
        m = re.match(r"\s*--> .*?:(\d+):(\d+)", ln)
        if m and cur_is_error:
            lines.add(int(m.group(1)))
    return lines


def main(tier, replay=None):
    chk = Check("C08", tier)
    build_harness(["sem_run"])
    quick = tier == "quick"
    # ---------------- (a) error-free programs compile under every optimisation configuration
    cfgs = [c for c in cfgs_thorough() if c["solver"] == "linear"]
    if quick:
        cfgs = cfgs[::7] + [DEFAULT_CFG]
    progs, files = generate(96 if quick else 2000, 12, 3 if quick else 4, "c08")
    reals = real_results(files, cfgs, "c08", with_runs=False)
    # recorded inputs of known findings are always compiled (default configuration), so that each listed
    # finding is reported deterministically and its disappearance after a repair is visible
    import glob as _glob
    from lib import VERIF as _VERIF
    fnd = [(p_, []) for p_ in sorted(_glob.glob(os.path.join(_VERIF, "corpus", "findings", "C08", "*.cairo")))]
    if fnd:
        reals = reals + real_results(fnd, [DEFAULT_CFG], "c08fnd", with_runs=False)
    n_ok = n_diag = 0
    for job in reals:
        if job["diag_errors"]:
            n_diag += 1
            log(f"[C08] generated file {job['id']} has error diagnostics (generator drift, not an alarm): {job['diag'][:200]}")
            continue
        bad = {s: v for s, v in job["stages"].items() if not str(v).startswith("ok")}
        for s in ("sierra", "registry", "metadata", "casm"):
            if s not in job["stages"] and not bad:
                bad[s] = "missing"
        if bad:
            chk.violation({"kind": "error_free_program_fails", "stage": sorted(bad)[0], "cfg": job["cfg"], "file": job["id"].split("@")[0],
                           "msg": str(bad[sorted(bad)[0]])[:60]},
                          {"source": open(job["path"]).read() if "path" in job else job["id"], "cfg": job["cfg"], "stages": job["stages"]},
                          f"no error diagnostics for {job['id']} under {job['cfg']}, yet stages fail: {bad}")
        else:
            n_ok += 1
    # ---------------- (b) ownership: exhaustive abstract bodies decided by the Ownership spec
    d = clean_dir(workdir("sem", "c08own"))
    bodies = []
    for cfgname in (("nd3", "pd3") if quick else ("nd4", "pd4", "all3")):
        res = tlc(SPEC, "MCOwnership", f"MCOwnership_{cfgname}.cfg", f"c08_own_{cfgname}", workers=4, timeout=1800)
        if res.errors or res.violated:
            raise ToolError(f"MCOwnership {cfgname}: {res.violated} {res.errors[:2]}")
        chk.add_tlc(res)
        cases = os.path.join(d, f"bodies_{cfgname}.ndjson")
        extract_replay(res.out_path, cases)
        os.remove(res.out_path)
        bodies += read_ndjson(cases)
    illegal = [b for b in bodies if b["illegal"]]
    legal = [b for b in bodies if not b["illegal"]]
    if quick:
        illegal = illegal[::2]
    per = 80
    jobs_files = []
    meta = {}
    for label, group in (("ill", illegal), ("leg", legal)):
        for j in range(0, len(group), per):
            chunk = group[j:j + per]
            path = os.path.join(d, f"{label}{j // per}.cairo")
            with open(path, "w") as f:
                f.write(PRELUDE)
                for i, b in enumerate(chunk):
                    f.write(render_fn(f"own_{label}_{j + i}", b["body"], b["vars"]))
            meta[os.path.basename(path)] = (label, chunk, path)
            jobs_files.append((path, []))
    # compile only, full diagnostics
    import sem_common
    jp = os.path.join(d, "jobs.json")
    json.dump({"threads": __import__("lib").worker_threads(0.6), "jobs": [{"id": os.path.basename(p), "path": p, "cfg": DEFAULT_CFG, "runs": [], "diag_limit": 4_000_000}
                                       for p, _ in jobs_files]}, open(jp, "w"))
    from lib import BIN, run
    out = os.path.join(d, "real.ndjson")
    run([os.path.join(BIN, "sem_run"), jp, out], timeout=3000)
    n_ill_ok = n_leg_ok = n_leg_err = 0
    for job in read_ndjson(out):
        label, chunk, path = meta[job["id"]]
        errs = error_lines(job["diag"], path)
        for i, b in enumerate(chunk):
            line = PRELUDE_LINES + 1 + i
            has_err = line in errs
            if label == "ill":
                if has_err:
                    n_ill_ok += 1
                else:
                    body = [f"{s['k']}({s['v']})" for s in b["body"]]
                    chk.violation({"kind": "ownership_violation_accepted", "vars": sorted(b["vars"]), "body": body},
                                  {"body": b["body"], "vars": b["vars"], "source": PRELUDE + render_fn("own_case", b["body"], b["vars"])},
                                  f"the ownership rule says {body} is illegal but the compiler reports no error for it")
            else:
                if has_err:
                    n_leg_err += 1
                else:
                    n_leg_ok += 1
    if n_leg_err:
        log(f"[C08] {n_leg_err} bodies the spec considers legal are rejected by the compiler (diagnostic: spec laxer than the compiler)")
    log(f"[C08] (a) files x configs compiled ok: {n_ok} (generator-rejected: {n_diag}); (b) illegal bodies rejected: {n_ill_ok}/{len(illegal)}, "
        f"legal bodies accepted: {n_leg_ok}/{len(legal)}")
    chk.cov["traces_validated_against_impl"] = n_ok + n_ill_ok + n_leg_ok
    chk.sample({"illegal_body": illegal[5]["body"], "rendered": render_fn("own_x", illegal[5]["body"], illegal[5]["vars"])})
    chk.sample({"legal_body": legal[-5]["body"], "rendered": render_fn("own_y", legal[-5]["body"], legal[-5]["vars"])})
    chk.assumptions = ["(a) uses the generator of C01 (modelled subset); LP metadata solver excluded (not an optimisation configuration)",
                       "(b) variables: a droppable, a non-droppable and a PanicDestruct-only movable struct (two at a time up to the longer bound, all three up to length 3), 7 statement forms per variable + early return, all bodies up to the length bound"]
    return chk.finish({"configs": len(cfgs), "files_x_configs_ok": n_ok, "ownership_bodies": len(bodies), "illegal_checked": len(illegal),
                       "legal_checked": len(legal), "legal_rejected_by_compiler": n_leg_err,
                       "distinct_nontrivial": n_ill_ok + n_leg_ok, "rule": "distinct abstract bodies (exhaustive up to the length bound) whose verdict was compared",
                       "exhaustive": not quick})

#!/bin/bash
# usage: seeded_confirm.sh <worktree> "<cargo -p args for tests>"   -- confirms a seeded change: tests pass with it, demo fails with it and passes without
wt=$1; crates=$2
cd $wt || exit 2
export CARGO_TARGET_DIR=$wt/target
echo "== tests with change: cargo test --offline $crates"
cargo test --offline $crates 2>&1 | grep -E "^test result|^error|FAILED" | awk '/test result/ {p+=$4; f+=$6} /^error|FAILED/ {e+=1} END {print "passed",p,"failed",f,"errors",e}'
echo "== demo WITH change"
bash MUTANT/demo/run.sh > MUTANT/confirm_with.log 2>&1; echo "exit=$?"; tail -3 MUTANT/confirm_with.log
git apply -R MUTANT/patch.diff || exit 2
echo "== demo WITHOUT change"
bash MUTANT/demo/run.sh > MUTANT/confirm_without.log 2>&1; echo "exit=$?"; tail -3 MUTANT/confirm_without.log
git apply MUTANT/patch.diff
git status --short | head -5

//! Shared code of the C03 bins (`libfunc_air`, `hint_adversary`): compiling small Cairo programs
//! with the real pipeline, and a hint processor that wraps the real `CairoHintProcessor` and can
//! (a) record the output cells of every hint occurrence of an honest run, (b) inject alternative
//! values into chosen output cells of one occurrence, (c) script the hints of the program under
//! test from a model memory (replay of Apalache counter-examples).
#![allow(dead_code)]
use std::any::Any;
use std::collections::{BTreeMap, BTreeSet};
use std::path::Path;

use cairo_lang_casm::hints::Hint;
use cairo_lang_compiler::db::RootDatabase;
use cairo_lang_compiler::diagnostics::DiagnosticsReporter;
use cairo_lang_compiler::project::setup_project;
use cairo_lang_diagnostics::ToOption;
use cairo_lang_filesystem::db::init_dev_corelib;
use cairo_lang_filesystem::ids::CrateInput;
use cairo_lang_lowering::optimizations::config::{OptimizationConfig, Optimizations};
use cairo_lang_runnable_utils::builder::RunnableBuilder;
use cairo_lang_runner::casm_run::{CairoHintProcessor, StarknetHintProcessor, StarknetState};
use cairo_lang_runner::{Arg, RunResultValue, RunnerError, SierraCasmRunner, StarknetExecutionResources};
use cairo_lang_sierra::ids::ConcreteTypeId;
use cairo_lang_sierra::program::{Function, GenericArg, Program};
use cairo_lang_sierra_generator::db::SierraGenGroup;
use cairo_lang_sierra_generator::replace_ids::{DebugReplacer, SierraIdReplacer};
use cairo_lang_sierra_to_casm::metadata::MetadataComputationConfig;
use cairo_vm::Felt252;
use cairo_vm::hint_processor::hint_processor_definition::{HintProcessorLogic, HintReference};
use cairo_vm::serde::deserialize_program::ApTracking;
use cairo_vm::types::exec_scope::ExecutionScopes;
use cairo_vm::types::relocatable::{MaybeRelocatable, Relocatable};
use cairo_vm::vm::errors::hint_errors::HintError;
use cairo_vm::vm::errors::vm_errors::VirtualMachineError;
use cairo_vm::vm::runners::cairo_runner::{ResourceTracker, RunResources};
use cairo_vm::vm::vm_core::VirtualMachine;
use num_bigint::BigInt;
use num_traits::{One, Zero};
use serde_json::{Value, json};

pub fn quiet_panics() {
    std::panic::set_hook(Box::new(|_| {}));
}

pub fn prime() -> BigInt {
    (BigInt::one() << 251) + BigInt::from(17) * (BigInt::one() << 192) + BigInt::one()
}

pub fn felt_of(v: &BigInt) -> Felt252 {
    Felt252::from(v)
}

pub fn big_of(f: &Felt252) -> BigInt {
    f.to_bigint()
}

// ------------------------------------------------------------------------------------------------
// compile

/// The database of the e2e libfunc tests: default optimizations without constant folding (so that
/// `u8_eq(11, 12)` stays a libfunc call); `auto_gas` adds withdraw_gas to recursive functions.
pub fn build_db(auto_gas: bool) -> RootDatabase {
    let mut b = RootDatabase::builder();
    if !auto_gas {
        b.skip_auto_withdraw_gas();
    }
    b.with_optimizations(Optimizations::Enabled(OptimizationConfig::default().with_skip_const_folding(true)));
    let mut db = b.build().expect("db build");
    init_dev_corelib(&mut db, cvh::util::corelib_src());
    db
}

/// Writes `source` to `<dir>/<name>.cairo`, compiles it as a single-file crate to Sierra.
/// Only the most recently set-up crate of a directory is valid in one database (shared lib.cairo
/// override), so compile each before setting up the next.
pub fn compile_source(db: &mut RootDatabase, dir: &Path, name: &str, source: &str) -> Result<Program, String> {
    std::fs::create_dir_all(dir).unwrap();
    let path = dir.join(format!("{name}.cairo"));
    std::fs::write(&path, source).unwrap();
    let inputs = setup_project(db, &path).map_err(|e| format!("setup_project: {e}"))?;
    let mut errs = String::new();
    {
        let mut rep = DiagnosticsReporter::write_to_string(&mut errs).with_crates(&inputs).allow_warnings();
        if rep.check(db) {
            drop(rep);
            return Err(errs);
        }
    }
    let ids = CrateInput::into_crate_ids(db, inputs);
    let prog = db.get_sierra_program(ids).to_option().ok_or("no sierra program".to_string())?.clone();
    let mut sierra = prog.program;
    let replacer = DebugReplacer { db };
    replacer.enrich_function_names(&mut sierra);
    Ok(replacer.apply(&sierra))
}

pub fn metadata_config() -> MetadataComputationConfig {
    MetadataComputationConfig::default()
}

pub struct Compiled {
    pub runner: SierraCasmRunner,
    pub builder: RunnableBuilder,
}

pub fn build_runner(program: &Program) -> Result<Compiled, String> {
    let r = std::panic::catch_unwind(std::panic::AssertUnwindSafe(|| {
        let runner = SierraCasmRunner::new(program.clone(), Some(metadata_config()), Default::default(), None)
            .map_err(|e| format!("runner: {e}"))?;
        let builder =
            RunnableBuilder::new(program.clone(), Some(metadata_config())).map_err(|e| format!("builder: {e}"))?;
        Ok::<_, String>(Compiled { runner, builder })
    }));
    match r {
        Ok(x) => x,
        Err(p) => Err(format!("panic in sierra->casm: {}", panic_text(&p))),
    }
}

pub fn panic_text(p: &Box<dyn Any + Send>) -> String {
    if let Some(s) = p.downcast_ref::<String>() {
        s.clone()
    } else if let Some(s) = p.downcast_ref::<&str>() {
        s.to_string()
    } else {
        "?".into()
    }
}

// ------------------------------------------------------------------------------------------------
// types: leaf ranges of scalar parameters, content of results

/// Range of one felt-sized leaf of a parameter.
#[derive(Clone, Debug)]
pub struct Leaf {
    pub lo: BigInt,
    pub hi: BigInt,
    pub nonzero: bool,
    /// Some(element leaves): this leaf is an array (two cells: start, end) of such elements
    pub elem: Option<Vec<Leaf>>,
}

/// One argument of a run: a felt or an array of felts.
#[derive(Clone, Debug, PartialEq, Eq, PartialOrd, Ord)]
pub enum ArgV {
    V(BigInt),
    A(Vec<BigInt>),
}
impl ArgV {
    pub fn to_json(&self) -> Value {
        match self {
            ArgV::V(v) => json!(v.to_string()),
            ArgV::A(vs) => json!(vs.iter().map(|v| v.to_string()).collect::<Vec<_>>()),
        }
    }
    pub fn from_json(v: &Value) -> ArgV {
        match v {
            Value::Array(a) => ArgV::A(a.iter().map(|x| x.as_str().unwrap().parse().unwrap()).collect()),
            other => ArgV::V(other.as_str().unwrap().parse().unwrap()),
        }
    }
}

fn int_range(name: &str) -> Option<(BigInt, BigInt)> {
    let one = BigInt::one();
    let u = |b: u32| (BigInt::zero(), (&one << b) - &one);
    let s = |b: u32| (-(&one << (b - 1)), (&one << (b - 1)) - &one);
    Some(match name {
        "u8" => u(8),
        "u16" => u(16),
        "u32" => u(32),
        "u64" => u(64),
        "u128" => u(128),
        "i8" => s(8),
        "i16" => s(16),
        "i32" => s(32),
        "i64" => s(64),
        "i128" => s(128),
        "felt252" => (BigInt::zero(), prime() - 1),
        "bytes31" => u(248),
        "ContractAddress" | "ClassHash" | "StorageAddress" => u(251),
        "StorageBaseAddress" => (BigInt::zero(), (&one << 251) - 257),
        _ => return None,
    })
}

/// Flattens a parameter type into felt-sized leaves with their ranges; None when the type has a
/// part that cannot be given as a scalar (arrays, dicts, boxes, builtins, enums with payload...).
pub fn leaves(b: &RunnableBuilder, ty: &ConcreteTypeId, nonzero: bool, out: &mut Vec<Leaf>) -> Option<()> {
    let long = b.type_long_id(ty);
    let g = long.generic_id.0.as_str();
    if let Some((lo, hi)) = int_range(g) {
        out.push(Leaf { lo, hi, nonzero, elem: None });
        return Some(());
    }
    match g {
        "BoundedInt" => {
            let (GenericArg::Value(lo), GenericArg::Value(hi)) = (&long.generic_args[0], &long.generic_args[1]) else {
                return None;
            };
            out.push(Leaf { lo: lo.clone(), hi: hi.clone(), nonzero, elem: None });
            Some(())
        }
        "NonZero" | "Snapshot" => {
            let GenericArg::Type(t) = &long.generic_args[0] else { return None };
            leaves(b, t, nonzero || g == "NonZero", out)
        }
        "Struct" => {
            for a in long.generic_args.iter().skip(1) {
                let GenericArg::Type(t) = a else { return None };
                leaves(b, t, nonzero, out)?;
            }
            Some(())
        }
        "Array" => {
            let GenericArg::Type(t) = &long.generic_args[0] else { return None };
            let mut el = vec![];
            leaves(b, t, false, &mut el)?;
            if el.is_empty() || el.iter().any(|l| l.elem.is_some()) {
                return None;
            }
            out.push(Leaf { lo: BigInt::zero(), hi: BigInt::zero(), nonzero: false, elem: Some(el) });
            Some(())
        }
        "Enum" => {
            // only enums whose variants are all zero-sized (bool and the like)
            let n = long.generic_args.len() - 1;
            for a in long.generic_args.iter().skip(1) {
                let GenericArg::Type(t) = a else { return None };
                if b.type_size(t) != 0 {
                    return None;
                }
            }
            if n == 0 || n > 2 {
                return None;
            }
            out.push(Leaf { lo: BigInt::zero(), hi: BigInt::from(n - 1), nonzero: false, elem: None });
            Some(())
        }
        _ => None,
    }
}

/// Content of a value of type `ty` stored in `cells` (relocated memory `mem`): pointers of
/// arrays / boxes / nullables are replaced by what they point to.  `opaque` is set when a part
/// of the value has no content reading here (dicts, EC state, builtins, ...).
pub fn content(
    b: &RunnableBuilder,
    ty: &ConcreteTypeId,
    cells: &[Felt252],
    mem: &[Option<Felt252>],
    depth: usize,
    opaque: &mut bool,
) -> Value {
    let long = b.type_long_id(ty);
    let g = long.generic_id.0.as_str();
    let raw = || Value::Array(cells.iter().map(|f| json!(f.to_string())).collect());
    if depth > 6 {
        *opaque = true;
        return raw();
    }
    let arg_ty = |i: usize| -> Option<&ConcreteTypeId> {
        match long.generic_args.get(i) {
            Some(GenericArg::Type(t)) => Some(t),
            _ => None,
        }
    };
    let rd = |a: usize| -> Option<Felt252> { mem.get(a).cloned().flatten() };
    let to_usize = |f: &Felt252| -> Option<usize> { num_traits::ToPrimitive::to_usize(f) };
    match g {
        _ if int_range(g).is_some() || g == "BoundedInt" => raw(),
        "NonZero" | "Snapshot" => match arg_ty(0) {
            Some(t) => content(b, t, cells, mem, depth + 1, opaque),
            None => raw(),
        },
        "Struct" => {
            let mut at = 0usize;
            let mut v = vec![];
            for i in 1..long.generic_args.len() {
                let Some(t) = arg_ty(i) else {
                    *opaque = true;
                    return raw();
                };
                let sz = b.type_size(t) as usize;
                if at + sz > cells.len() {
                    *opaque = true;
                    return raw();
                }
                v.push(content(b, t, &cells[at..at + sz], mem, depth + 1, opaque));
                at += sz;
            }
            Value::Array(v)
        }
        "Enum" => {
            let n = long.generic_args.len() - 1;
            if cells.is_empty() {
                return raw();
            }
            let sel = to_usize(&cells[0]);
            let idx = match sel {
                Some(s) if n <= 2 => Some(s),
                Some(s) if s % 2 == 1 && (s + 1) / 2 <= n => Some(n - (s + 1) / 2),
                _ => None,
            };
            match idx.and_then(|i| arg_ty(i + 1).map(|t| (i, t))) {
                Some((i, t)) => {
                    let sz = b.type_size(t) as usize;
                    if sz + 1 > cells.len() {
                        *opaque = true;
                        return raw();
                    }
                    json!({"variant": i, "v": content(b, t, &cells[cells.len() - sz..], mem, depth + 1, opaque)})
                }
                None => {
                    *opaque = true;
                    raw()
                }
            }
        }
        "Array" => {
            let (Some(t), true) = (arg_ty(0), cells.len() == 2) else {
                *opaque = true;
                return raw();
            };
            let sz = b.type_size(t) as usize;
            let (Some(s), Some(e)) = (to_usize(&cells[0]), to_usize(&cells[1])) else {
                *opaque = true;
                return raw();
            };
            if e < s || e - s > 100_000 || (sz > 0 && (e - s) % sz != 0) {
                *opaque = true;
                return raw();
            }
            let mut v = vec![];
            if sz > 0 {
                let mut a = s;
                while a < e {
                    let cs: Option<Vec<Felt252>> = (a..a + sz).map(rd).collect();
                    match cs {
                        Some(cs) => v.push(content(b, t, &cs, mem, depth + 1, opaque)),
                        None => {
                            *opaque = true;
                            v.push(json!("hole"));
                        }
                    }
                    a += sz;
                }
            }
            json!({"array": v})
        }
        "Box" | "Nullable" => {
            let (Some(t), true) = (arg_ty(0), cells.len() == 1) else {
                *opaque = true;
                return raw();
            };
            if g == "Nullable" && cells[0] == Felt252::from(0) {
                return json!({"null": true});
            }
            let sz = b.type_size(t) as usize;
            let Some(p) = to_usize(&cells[0]) else {
                *opaque = true;
                return raw();
            };
            let cs: Option<Vec<Felt252>> = (p..p + sz).map(rd).collect();
            match cs {
                Some(cs) => json!({"box": content(b, t, &cs, mem, depth + 1, opaque)}),
                None => {
                    *opaque = true;
                    raw()
                }
            }
        }
        _ => {
            if !cells.is_empty() {
                *opaque = true;
            }
            raw()
        }
    }
}

/// The type whose content `RunResultValue::Success` carries (inner type of a PanicResult wrapper).
pub fn result_type(b: &RunnableBuilder, func: &Function) -> Option<ConcreteTypeId> {
    let user: Vec<&ConcreteTypeId> = func
        .signature
        .ret_types
        .iter()
        .filter(|t| b.is_user_arg_type(&b.type_long_id(t).generic_id))
        .collect();
    let t = *user.first()?;
    if user.len() != 1 {
        return None;
    }
    let long = b.type_long_id(t);
    if long.generic_id.0.as_str() == "Enum" {
        if let Some(GenericArg::UserType(ut)) = long.generic_args.first() {
            if ut.debug_name.as_ref().map(|n| n.starts_with("core::panics::PanicResult::")).unwrap_or(false) {
                if let GenericArg::Type(inner) = &long.generic_args[1] {
                    return Some(inner.clone());
                }
            }
        }
    }
    Some(t.clone())
}

// ------------------------------------------------------------------------------------------------
// the wrapping hint processor

/// Generic view of a hint through its serde form: its name, every CellRef it mentions, every
/// immediate it mentions.
pub struct HintView {
    pub name: String,
    pub class: &'static str, // "core" | "starknet" | "external"
    pub cells: Vec<(bool, i16)>, // (is_ap, offset)
    pub imms: Vec<BigInt>,
}

fn walk(v: &Value, cells: &mut Vec<(bool, i16)>, imms: &mut Vec<BigInt>) {
    match v {
        Value::Object(m) => {
            if m.len() == 2 && m.contains_key("register") && m.contains_key("offset") {
                let is_ap = m["register"].as_str() == Some("AP");
                if let Some(o) = m["offset"].as_i64() {
                    let c = (is_ap, o as i16);
                    if !cells.contains(&c) {
                        cells.push(c);
                    }
                }
                return;
            }
            for (k, x) in m {
                if k == "Immediate" {
                    if let Some(s) = x.as_str().or_else(|| x.get("value").and_then(|y| y.as_str())) {
                        if let Some(b) = parse_hex(s) {
                            imms.push(b);
                        }
                        continue;
                    }
                }
                walk(x, cells, imms);
            }
        }
        Value::Array(a) => {
            for x in a {
                walk(x, cells, imms);
            }
        }
        _ => {}
    }
}

pub fn parse_hex(s: &str) -> Option<BigInt> {
    let (neg, t) = match s.strip_prefix('-') {
        Some(t) => (true, t),
        None => (false, s),
    };
    let t = t.strip_prefix("0x")?;
    let v = BigInt::parse_bytes(t.as_bytes(), 16)?;
    Some(if neg { -v } else { v })
}

pub fn view_hint(h: &Hint) -> HintView {
    let class = match h {
        Hint::Core(_) => "core",
        Hint::Starknet(_) => "starknet",
        Hint::External(_) => "external",
    };
    let v = serde_json::to_value(h).unwrap_or(Value::Null);
    let name = match &v {
        Value::Object(m) => m.keys().next().cloned().unwrap_or_default(),
        Value::String(s) => s.clone(),
        _ => String::new(),
    };
    let mut cells = vec![];
    let mut imms = vec![];
    walk(&v, &mut cells, &mut imms);
    HintView { name, class, cells, imms }
}

/// Hints whose output is not a value the prover may choose freely in a way the program's result
/// could depend on: environment interaction (syscalls, cheatcodes, printing) and allocation
/// (pointer values; results are compared by content).
pub fn excluded_hint(v: &HintView) -> bool {
    v.class != "core"
        || matches!(
            v.name.as_str(),
            "AllocSegment" | "AllocFelt252Dict" | "AllocConstantSize" | "DebugPrint" | "SystemCall" | "Cheatcode"
        )
}

#[derive(Clone, Debug)]
pub struct HintOcc {
    pub idx: usize,
    pub pc: usize,
    pub name: String,
    pub excluded: bool,
    /// cells unknown before and known after the honest hint, in address order
    pub outs: Vec<(Relocatable, MaybeRelocatable)>,
    /// integer values the hint could see: known CellRefs it mentions + its immediates
    pub ins: Vec<BigInt>,
}

pub enum Mode<'a> {
    /// delegate; nothing else
    Plain,
    /// delegate and record output cells of every occurrence
    Record { full_scan_limit: usize },
    /// at occurrence `occ` pre-write `writes` (index into the honest record's outs, value)
    Attack { occ: usize, writes: Vec<(usize, MaybeRelocatable)>, honest: &'a HintOcc },
    /// hints executing at pc in [lo, hi): do not delegate; write model values into every unknown
    /// CellRef the hint mentions. `cells`: offset relative to the frame pointer of the first
    /// scripted hint's function frame base -> value
    Script { lo: usize, hi: usize, fp_base: Option<usize>, cells: BTreeMap<i64, BigInt> },
}

pub struct AdvHintProcessor<'a> {
    pub inner: CairoHintProcessor<'a>,
    pub mode: Mode<'a>,
    pub counter: usize,
    pub records: Vec<HintOcc>,
    /// what happened at the attacked occurrence
    pub attack_note: String,
    pub scripted: usize,
}

fn snapshot(vm: &mut VirtualMachine, limit: usize) -> Option<BTreeSet<(isize, usize)>> {
    let sizes: Vec<usize> = vm.segments.compute_effective_sizes().clone();
    vm.segments.segment_used_sizes = None;
    if sizes.iter().sum::<usize>() > limit {
        return None;
    }
    let mut s = BTreeSet::new();
    for (i, n) in sizes.iter().enumerate() {
        for off in 0..*n {
            let r = Relocatable { segment_index: i as isize, offset: off };
            if vm.get_maybe(&r).is_some() {
                s.insert((i as isize, off));
            }
        }
    }
    Some(s)
}

fn cell_addr(vm: &VirtualMachine, c: (bool, i16)) -> Option<Relocatable> {
    let base = if c.0 { vm.get_ap() } else { vm.get_fp() };
    (base + (c.1 as i32)).ok()
}

impl<'a> AdvHintProcessor<'a> {
    pub fn new(inner: CairoHintProcessor<'a>, mode: Mode<'a>) -> Self {
        AdvHintProcessor { inner, mode, counter: 0, records: vec![], attack_note: String::new(), scripted: 0 }
    }
}

impl HintProcessorLogic for AdvHintProcessor<'_> {
    fn execute_hint(
        &mut self,
        vm: &mut VirtualMachine,
        exec_scopes: &mut ExecutionScopes,
        hint_data: &Box<dyn Any>,
    ) -> Result<(), HintError> {
        let idx = self.counter;
        self.counter += 1;
        match &mut self.mode {
            Mode::Plain => self.inner.execute_hint(vm, exec_scopes, hint_data),
            Mode::Record { full_scan_limit } => {
                let limit = *full_scan_limit;
                let hint = hint_data.downcast_ref::<Hint>().ok_or(HintError::WrongHintData)?;
                let view = view_hint(hint);
                let cand: Vec<Relocatable> = view.cells.iter().filter_map(|c| cell_addr(vm, *c)).collect();
                let mut ins: Vec<BigInt> = view.imms.clone();
                for a in &cand {
                    if let Some(MaybeRelocatable::Int(f)) = vm.get_maybe(a) {
                        ins.push(big_of(&f));
                    }
                }
                let unknown_before: Vec<Relocatable> =
                    cand.iter().filter(|a| vm.get_maybe(*a).is_none()).cloned().collect();
                let before = snapshot(vm, limit);
                let r = self.inner.execute_hint(vm, exec_scopes, hint_data);
                let mut outs: Vec<(Relocatable, MaybeRelocatable)> = vec![];
                match (before, snapshot(vm, limit)) {
                    (Some(b), Some(a)) => {
                        for (s, o) in a.difference(&b) {
                            let rel = Relocatable { segment_index: *s, offset: *o };
                            if let Some(v) = vm.get_maybe(&rel) {
                                outs.push((rel, v));
                            }
                        }
                    }
                    _ => {
                        for a in unknown_before {
                            if let Some(v) = vm.get_maybe(&a) {
                                outs.push((a, v));
                            }
                        }
                    }
                }
                self.records.push(HintOcc {
                    idx,
                    pc: vm.get_pc().offset,
                    name: view.name.clone(),
                    excluded: excluded_hint(&view),
                    outs,
                    ins,
                });
                r
            }
            Mode::Attack { occ, writes, honest } => {
                if idx != *occ {
                    return self.inner.execute_hint(vm, exec_scopes, hint_data);
                }
                for (ci, val) in writes.iter() {
                    let addr = honest.outs[*ci].0;
                    if let Err(e) = vm.insert_value(addr, val.clone()) {
                        self.attack_note = format!("prewrite rejected: {e}");
                        return Err(HintError::Memory(e));
                    }
                }
                match self.inner.execute_hint(vm, exec_scopes, hint_data) {
                    Ok(()) => {
                        self.attack_note = "hint accepted pre-written cells".into();
                    }
                    Err(e) => {
                        let mut m = format!("{e}");
                        m.truncate(80);
                        self.attack_note = format!("hint conflict tolerated: {m}");
                    }
                }
                for (addr, val) in honest.outs.iter() {
                    if vm.get_maybe(addr).is_none() {
                        if let Err(e) = vm.insert_value(*addr, val.clone()) {
                            self.attack_note = format!("fill rejected: {e}");
                            return Err(HintError::Memory(e));
                        }
                    }
                }
                Ok(())
            }
            Mode::Script { lo, hi, fp_base, cells } => {
                let pc = vm.get_pc().offset;
                if pc < *lo || pc >= *hi {
                    return self.inner.execute_hint(vm, exec_scopes, hint_data);
                }
                let hint = hint_data.downcast_ref::<Hint>().ok_or(HintError::WrongHintData)?;
                let view = view_hint(hint);
                if fp_base.is_none() {
                    // frame pointer of the function under test = current fp (no calls are modelled)
                    *fp_base = Some(vm.get_fp().offset);
                }
                let base = fp_base.unwrap() as i64;
                for c in &view.cells {
                    let Some(a) = cell_addr(vm, *c) else { continue };
                    if a.segment_index != vm.get_fp().segment_index || vm.get_maybe(&a).is_some() {
                        continue;
                    }
                    let k = a.offset as i64 - base;
                    if let Some(v) = cells.get(&k) {
                        vm.insert_value(a, felt_of(v)).map_err(HintError::Memory)?;
                    }
                }
                self.scripted += 1;
                Ok(())
            }
        }
    }

    #[allow(clippy::disallowed_types)]
    fn compile_hint(
        &self,
        hint_code: &str,
        ap_tracking_data: &ApTracking,
        reference_ids: &std::collections::HashMap<String, usize>,
        references: &[HintReference],
        accessible_scopes: &[String],
        constants: std::sync::Arc<std::collections::HashMap<String, Felt252>>,
    ) -> Result<Box<dyn Any>, VirtualMachineError> {
        self.inner.compile_hint(hint_code, ap_tracking_data, reference_ids, references, accessible_scopes, constants)
    }
}

impl ResourceTracker for AdvHintProcessor<'_> {
    fn consumed(&self) -> bool {
        self.inner.run_resources.consumed()
    }
    fn consume_step(&mut self) {
        self.inner.run_resources.consume_step()
    }
    fn get_n_steps(&self) -> Option<usize> {
        self.inner.run_resources.get_n_steps()
    }
    fn run_resources(&self) -> &RunResources {
        self.inner.run_resources.run_resources()
    }
}

impl StarknetHintProcessor for AdvHintProcessor<'_> {
    fn take_starknet_state(&mut self) -> StarknetState {
        std::mem::take(&mut self.inner.starknet_state)
    }
    fn take_syscalls_used_resources(&mut self) -> StarknetExecutionResources {
        std::mem::take(&mut self.inner.syscalls_used_resources)
    }
}

// ------------------------------------------------------------------------------------------------
// running

#[derive(Clone, Debug)]
pub struct Observed {
    /// "ok" | "panic" | "fail" (VM error / step limit) | "harness"
    pub kind: String,
    /// raw result felts (ok) / panic data (panic)
    pub raw: Vec<String>,
    /// content rendering (pointers replaced by what they point to)
    pub content: String,
    pub opaque: bool,
    pub gas: Option<String>,
    pub err: String,
    pub steps: usize,
}

impl Observed {
    pub fn digest(&self) -> String {
        format!("{}:{}", self.kind, self.content)
    }
}

/// Runs `func` with scalar `args` through the real runner with the wrapping hint processor.
pub fn run_with<'a>(
    c: &'a Compiled,
    func: &Function,
    args: &[ArgV],
    gas: Option<usize>,
    max_steps: usize,
    mode: Mode<'a>,
) -> (Observed, AdvHintProcessor<'a>) {
    let vargs: Vec<Arg> = args
        .iter()
        .map(|a| match a {
            ArgV::V(v) => Arg::Value(felt_of(v)),
            ArgV::A(vs) => Arg::Array(vs.iter().map(|v| Arg::Value(felt_of(v))).collect()),
        })
        .collect();
    let prepared = c.runner.prepare_starknet_context(func, vargs, gas, StarknetState::default());
    let (mut hp, ctx) = match prepared {
        Ok(x) => x,
        Err(e) => {
            // build a dummy processor so that the caller gets a uniform shape
            let hp = CairoHintProcessor {
                runner: Some(&c.runner),
                user_args: vec![],
                string_to_hint: Default::default(),
                starknet_state: StarknetState::default(),
                run_resources: RunResources::default(),
                syscalls_used_resources: Default::default(),
                no_temporary_segments: true,
                markers: Default::default(),
                panic_traceback: Default::default(),
            };
            return (
                Observed {
                    kind: "harness".into(),
                    raw: vec![],
                    content: String::new(),
                    opaque: false,
                    gas: None,
                    err: format!("prepare: {e}"),
                    steps: 0,
                },
                AdvHintProcessor::new(hp, mode),
            );
        }
    };
    hp.run_resources = RunResources::new(max_steps);
    let mut adv = AdvHintProcessor::new(hp, mode);
    let r = std::panic::catch_unwind(std::panic::AssertUnwindSafe(|| {
        c.runner.run_function_with_prepared_starknet_context(func, &mut adv, ctx)
    }));
    let obs = match r {
        Err(p) => Observed {
            kind: "fail".into(),
            raw: vec![],
            content: String::new(),
            opaque: false,
            gas: None,
            err: format!("panic in runner: {}", panic_text(&p)),
            steps: 0,
        },
        Ok(Err(e)) => {
            let mut m = match &e {
                RunnerError::CairoRunError(b) => format!("{b}"),
                other => format!("{other}"),
            };
            m.truncate(200);
            Observed { kind: "fail".into(), raw: vec![], content: String::new(), opaque: false, gas: None, err: m, steps: 0 }
        }
        Ok(Ok(res)) => {
            let (kind, vals) = match &res.value {
                RunResultValue::Success(v) => ("ok", v.clone()),
                RunResultValue::Panic(v) => ("panic", v.clone()),
            };
            let mut opaque = false;
            let content = if kind == "ok" {
                match result_type(&c.builder, func) {
                    Some(t) if c.builder.type_size(&t) as usize == vals.len() => {
                        content(&c.builder, &t, &vals, &res.memory, 0, &mut opaque).to_string()
                    }
                    _ => {
                        if !vals.is_empty() {
                            opaque = true;
                        }
                        json!(vals.iter().map(|f| f.to_string()).collect::<Vec<_>>()).to_string()
                    }
                }
            } else {
                json!(vals.iter().map(|f| f.to_string()).collect::<Vec<_>>()).to_string()
            };
            Observed {
                kind: kind.into(),
                raw: vals.iter().map(|f| f.to_string()).collect(),
                content,
                opaque,
                gas: res.gas_counter.map(|g| g.to_string()),
                err: String::new(),
                steps: res.used_resources.basic_resources.n_steps,
            }
        }
    };
    (obs, adv)
}

/// `//! > cairo_code` sections of an e2e test-data file: (test name, runner name, source).
pub fn e2e_cases(path: &Path) -> Vec<(String, String, String)> {
    let text = std::fs::read_to_string(path).unwrap_or_default();
    let mut out = vec![];
    for block in text.split("//! > ==========================================================================") {
        let mut name = String::new();
        let mut runner = String::new();
        let mut code = String::new();
        let mut cur = String::new();
        let mut first = true;
        for line in block.lines() {
            if let Some(tag) = line.strip_prefix("//! > ") {
                if first && !tag.trim().is_empty() {
                    name = tag.trim().to_string();
                    first = false;
                    cur = "name".into();
                    continue;
                }
                cur = tag.trim().to_string();
                continue;
            }
            match cur.as_str() {
                "cairo_code" => {
                    code.push_str(line);
                    code.push('\n');
                }
                "test_runner_name" => {
                    if !line.trim().is_empty() {
                        runner = line.trim().to_string();
                    }
                }
                _ => {}
            }
        }
        if !code.trim().is_empty() {
            out.push((name, runner, code));
        }
    }
    out
}

//! Shared code of the IntOps harness bins (C06 `intops_run`, C07 `consteval_run`):
//! compiling generated Cairo source with the real compiler, running entry functions through
//! `SierraCasmRunner`, big-integer <-> limb (base 2^15, the `IntOps.tla` representation) conversion
//! and the rendering of `IntOps` operations as Cairo functions.
#![allow(dead_code)]
use std::path::{Path, PathBuf};

use cairo_lang_compiler::db::RootDatabase;
use cairo_lang_compiler::diagnostics::DiagnosticsReporter;
use cairo_lang_compiler::project::setup_project;
use cairo_lang_diagnostics::ToOption;
use cairo_lang_filesystem::cfg::{Cfg, CfgSet};
use cairo_lang_filesystem::db::init_dev_corelib;
use cairo_lang_filesystem::ids::CrateInput;
use cairo_lang_lowering::optimizations::config::Optimizations;
use cairo_lang_lowering::utils::InliningStrategy;
use cairo_lang_runner::{Arg, RunResultValue, SierraCasmRunner, StarknetState};
use cairo_lang_sierra_generator::db::SierraGenGroup;
use cairo_lang_sierra_generator::replace_ids::{DebugReplacer, SierraIdReplacer};
use cairo_vm::Felt252;
use num_bigint::{BigInt, Sign};
use num_traits::{Num, One, Signed, ToPrimitive, Zero};
use serde_json::{Value, json};

pub fn prime() -> BigInt {
    BigInt::from_str_radix("800000000000011000000000000000000000000000000000000000000000001", 16).unwrap()
}

/// The centred representative of a field element, in [-(P-1)/2, (P-1)/2].
pub fn centre(x: &BigInt) -> BigInt {
    let p = prime();
    let mut c = x % &p;
    if c.is_negative() {
        c += &p;
    }
    let half: BigInt = (&p - 1) / 2;
    if c > half { c - p } else { c }
}
pub fn canon(x: &BigInt) -> BigInt {
    let p = prime();
    let mut c = x % &p;
    if c.is_negative() {
        c += &p;
    }
    c
}
pub fn to_felt(x: &BigInt) -> Felt252 {
    Felt252::from(canon(x))
}
pub fn felt_centred(f: &Felt252) -> BigInt {
    centre(&f.to_bigint())
}

/// `[s |-> sign, m |-> <<limbs base 2^15, little endian>>]` as JSON.
pub fn z_json(x: &BigInt) -> Value {
    let s = match x.sign() {
        Sign::Minus => -1,
        Sign::NoSign => 0,
        Sign::Plus => 1,
    };
    let mut m = vec![];
    let mut a = x.abs();
    let mask = BigInt::from(0x7fff);
    while !a.is_zero() {
        m.push((&a & &mask).to_u32().unwrap());
        a >>= 15;
    }
    json!({"s": s, "m": m})
}
pub fn z_parse(v: &Value) -> BigInt {
    if let Some(n) = v.as_i64() {
        return BigInt::from(n);
    }
    if let Some(s) = v.as_str() {
        return parse_int(s);
    }
    let s = v["s"].as_i64().unwrap();
    let mut a = BigInt::zero();
    for l in v["m"].as_array().unwrap().iter().rev() {
        a = (a << 15) + BigInt::from(l.as_u64().unwrap());
    }
    if s < 0 { -a } else { a }
}
pub fn parse_int(s: &str) -> BigInt {
    let (neg, t) = match s.strip_prefix('-') {
        Some(t) => (true, t),
        None => (false, s),
    };
    let v = if let Some(h) = t.strip_prefix("0x") {
        BigInt::from_str_radix(h, 16).unwrap()
    } else {
        BigInt::from_str_radix(t, 10).unwrap()
    };
    if neg { -v } else { v }
}

// ------------------------------------------------------------------------------------------------
// Types

pub const INT_TYPES: [&str; 10] = ["u8", "u16", "u32", "u64", "u128", "i8", "i16", "i32", "i64", "i128"];

pub fn bits(ty: &str) -> u32 {
    match ty {
        "u8" | "i8" => 8,
        "u16" | "i16" => 16,
        "u32" | "i32" => 32,
        "u64" | "i64" => 64,
        "u128" | "i128" => 128,
        "u256" => 256,
        "u512" => 512,
        "felt252" => 252,
        "bool" => 1,
        _ => panic!("type {ty}"),
    }
}
pub fn signed(ty: &str) -> bool {
    ty.starts_with('i')
}
pub fn lo(ty: &str) -> BigInt {
    if signed(ty) { -(BigInt::one() << (bits(ty) - 1)) } else { BigInt::zero() }
}
pub fn hi(ty: &str) -> BigInt {
    if ty == "felt252" {
        prime() - 1
    } else if signed(ty) {
        (BigInt::one() << (bits(ty) - 1)) - 1
    } else {
        (BigInt::one() << bits(ty)) - 1
    }
}
pub fn cells(ty: &str) -> usize {
    match ty {
        "u256" => 2,
        "u512" => 4,
        _ => 1,
    }
}
pub fn wider(ty: &str) -> &'static str {
    match ty {
        "u8" => "u16",
        "u16" => "u32",
        "u32" => "u64",
        "u64" => "u128",
        "u128" => "u256",
        "u256" => "u512",
        "i8" => "i16",
        "i16" => "i32",
        "i32" => "i64",
        "i64" => "i128",
        _ => panic!("no wider type for {ty}"),
    }
}
pub fn sqrt_type(ty: &str) -> &'static str {
    match ty {
        "u8" | "u16" => "u8",
        "u32" => "u16",
        "u64" => "u32",
        "u128" => "u64",
        "u256" => "u128",
        _ => panic!("no sqrt for {ty}"),
    }
}
/// A value of `ty` as the felt-sized cells in which it is passed to / returned from Cairo.
pub fn flat(ty: &str, v: &BigInt) -> Vec<BigInt> {
    let m128: BigInt = (BigInt::one() << 128) - 1;
    match ty {
        "u256" => vec![v & &m128, v >> 128],
        "u512" => vec![v & &m128, (v >> 128) & &m128, (v >> 256) & &m128, v >> 384],
        _ => vec![v.clone()],
    }
}
pub fn compose(ty: &str, cs: &[BigInt]) -> BigInt {
    match ty {
        "u256" | "u512" => cs.iter().rev().fold(BigInt::zero(), |a, c| (a << 128) + c),
        _ => cs[0].clone(),
    }
}

// ------------------------------------------------------------------------------------------------
// Rendering of IntOps operations as Cairo functions.  Every function returns its outcome as a
// tuple of felt252 (source-level encoding, so that no knowledge of enum / struct memory layout is
// needed to read a result): Option -> (1, value) | (0, 0..), bool -> 1 | 0, u256 -> (low, high).

pub const PRELUDE: &str = r#"
use core::num::traits::{
    CheckedAdd, CheckedMul, CheckedSub, OverflowingAdd, OverflowingMul, OverflowingSub, Pow,
    SaturatingAdd, SaturatingMul, SaturatingSub, Sqrt, WideMul, WideSquare, WrappingAdd, WrappingMul,
    WrappingSub,
};
fn e_u8(v: u8) -> felt252 { v.into() }
fn e_u16(v: u16) -> felt252 { v.into() }
fn e_u32(v: u32) -> felt252 { v.into() }
fn e_u64(v: u64) -> felt252 { v.into() }
fn e_u128(v: u128) -> felt252 { v.into() }
fn e_i8(v: i8) -> felt252 { v.into() }
fn e_i16(v: i16) -> felt252 { v.into() }
fn e_i32(v: i32) -> felt252 { v.into() }
fn e_i64(v: i64) -> felt252 { v.into() }
fn e_i128(v: i128) -> felt252 { v.into() }
fn e_felt252(v: felt252) -> felt252 { v }
fn e_bool(v: bool) -> felt252 { if v { 1 } else { 0 } }
"#;

/// Cairo expressions (of type felt252) encoding the value `e` of type `ty`.
pub fn enc(ty: &str, e: &str) -> Vec<String> {
    match ty {
        "u256" => vec![format!("e_u128({e}.low)"), format!("e_u128({e}.high)")],
        "u512" => (0..4).map(|i| format!("e_u128({e}.limb{i})")).collect(),
        _ => vec![format!("e_{ty}({e})")],
    }
}
fn tuple_ty(n: usize) -> String {
    if n == 1 { "felt252".into() } else { format!("({})", vec!["felt252"; n].join(", ")) }
}
fn tuple_val(es: &[String]) -> String {
    if es.len() == 1 { es[0].clone() } else { format!("({})", es.join(", ")) }
}
fn zeros(n: usize) -> Vec<String> {
    vec!["0".to_string(); n]
}

pub fn fn_name(op: &str, ty: &str, to: &str) -> String {
    if to.is_empty() { format!("f_{op}_{ty}") } else { format!("f_{op}_{ty}_{to}") }
}

/// Number of operands of an operation.
pub fn arity(op: &str) -> usize {
    match op {
        "not" | "neg" | "sqrt" | "wide_square" | "into" | "try_into" | "is_zero" => 1,
        "mul_mod_n" | "div_mod_n" => 3,
        _ => 2,
    }
}
/// The operand types of `op` on `ty`.
pub fn arg_types(op: &str, ty: &str) -> Vec<String> {
    (0..arity(op)).map(|i| operand_type(op, ty, i)).collect()
}
/// The type of operand `i` (0-based) of `op` on `ty`.
pub fn operand_type(op: &str, ty: &str, i: usize) -> String {
    match (op, i) {
        ("pow", 1) => "u32".into(),
        ("div512", 0) => "u512".into(),
        _ => ty.into(),
    }
}

/// Source of the Cairo function computing `op` on `ty` (`to` = conversion target); returns
/// (name, source, number of result felts).
pub fn render_fn(op: &str, ty: &str, to: &str) -> (String, String, usize) {
    let name = fn_name(op, ty, to);
    let base = |o: &str| -> &'static str {
        if o.ends_with("add") {
            "add"
        } else if o.ends_with("sub") {
            "sub"
        } else {
            "mul"
        }
    };
    let sym = |o: &str| match o {
        "add" => "+",
        "sub" => "-",
        "mul" => "*",
        "div" => "/",
        "rem" => "%",
        "and" => "&",
        "or" => "|",
        "xor" => "^",
        "eq" => "==",
        "ne" => "!=",
        "lt" => "<",
        "le" => "<=",
        "gt" => ">",
        "ge" => ">=",
        _ => panic!("sym {o}"),
    };
    let n = cells(ty);
    let (params, body, nout): (String, String, usize) = match op {
        "add" | "sub" | "mul" | "div" | "rem" | "and" | "or" | "xor" => (
            format!("x: {ty}, y: {ty}"),
            format!("let r = x {} y; {}", sym(op), tuple_val(&enc(ty, "r"))),
            n,
        ),
        "eq" | "ne" | "lt" | "le" | "gt" | "ge" => {
            (format!("x: {ty}, y: {ty}"), format!("e_bool(x {} y)", sym(op)), 1)
        }
        "pow" => (
            format!("x: {ty}, y: u32"),
            format!("let r = x.pow(y); {}", tuple_val(&enc(ty, "r"))),
            n,
        ),
        "divrem" => {
            let mut some = vec!["1".to_string()];
            some.extend(enc(ty, "q"));
            some.extend(enc(ty, "r"));
            let mut none = vec!["0".to_string()];
            none.extend(zeros(2 * n));
            (
                format!("x: {ty}, y: {ty}"),
                format!(
                    "let nz: Option<NonZero<{ty}>> = y.try_into(); match nz {{ Option::Some(d) => {{ let (q, r) = \
                     DivRem::div_rem(x, d); {} }}, Option::None => {} }}",
                    tuple_val(&some),
                    tuple_val(&none)
                ),
                1 + 2 * n,
            )
        }
        "overflowing_add" | "overflowing_sub" | "overflowing_mul" => {
            let mut es = enc(ty, "r");
            es.push("e_bool(b)".into());
            (
                format!("x: {ty}, y: {ty}"),
                format!("let (r, b) = x.overflowing_{}(y); {}", base(op), tuple_val(&es)),
                n + 1,
            )
        }
        "wrapping_add" | "wrapping_sub" | "wrapping_mul" => (
            format!("x: {ty}, y: {ty}"),
            format!("let r = x.wrapping_{}(y); {}", base(op), tuple_val(&enc(ty, "r"))),
            n,
        ),
        "saturating_add" | "saturating_sub" | "saturating_mul" => (
            format!("x: {ty}, y: {ty}"),
            format!("let r = x.saturating_{}(y); {}", base(op), tuple_val(&enc(ty, "r"))),
            n,
        ),
        "checked_add" | "checked_sub" | "checked_mul" => {
            let mut some = vec!["1".to_string()];
            some.extend(enc(ty, "r"));
            let mut none = vec!["0".to_string()];
            none.extend(zeros(n));
            (
                format!("x: {ty}, y: {ty}"),
                format!(
                    "match x.checked_{}(y) {{ Option::Some(r) => {}, Option::None => {} }}",
                    base(op),
                    tuple_val(&some),
                    tuple_val(&none)
                ),
                n + 1,
            )
        }
        "wide_mul" => {
            let w = wider(ty);
            (
                format!("x: {ty}, y: {ty}"),
                format!("let r = x.wide_mul(y); {}", tuple_val(&enc(w, "r"))),
                cells(w),
            )
        }
        "wide_square" => {
            let w = wider(ty);
            (format!("x: {ty}"), format!("let r = x.wide_square(); {}", tuple_val(&enc(w, "r"))), cells(w))
        }
        "not" => (
            format!("x: {ty}"),
            format!("let r = {}x; {}", if ty == "bool" { "!" } else { "~" }, tuple_val(&enc(ty, "r"))),
            n,
        ),
        "neg" => (format!("x: {ty}"), format!("let r = -x; {}", tuple_val(&enc(ty, "r"))), n),
        "sqrt" => {
            let s = sqrt_type(ty);
            (format!("x: {ty}"), format!("let r = x.sqrt(); {}", tuple_val(&enc(s, "r"))), 1)
        }
        "into" => (
            format!("x: {ty}"),
            format!("let r: {to} = x.into(); {}", tuple_val(&enc(to, "r"))),
            cells(to),
        ),
        "try_into" => {
            let mut some = vec!["1".to_string()];
            some.extend(enc(to, "r"));
            let mut none = vec!["0".to_string()];
            none.extend(zeros(cells(to)));
            (
                format!("x: {ty}"),
                format!(
                    "let o: Option<{to}> = x.try_into(); match o {{ Option::Some(r) => {}, Option::None => {} }}",
                    tuple_val(&some),
                    tuple_val(&none)
                ),
                1 + cells(to),
            )
        }
        // felt252 division x / y (y # 0): (1, q) | (0, 0)
        "fdiv" => (
            "x: felt252, y: felt252".into(),
            "let nz: Option<NonZero<felt252>> = y.try_into(); match nz { Option::Some(d) => (1, \
             core::felt252_div(x, d)), Option::None => (0, 0) }"
                .into(),
            2,
        ),
        // u512 / u256 (Uint512DivModByUint256 hint): (1, q limbs 0..3, r low, high) | (0, ..)
        "div512" => {
            let mut some = vec!["1".to_string()];
            some.extend(enc("u512", "q"));
            some.extend(enc("u256", "r"));
            let mut none = vec!["0".to_string()];
            none.extend(zeros(6));
            (
                "x: core::integer::u512, y: u256".into(),
                format!(
                    "let nz: Option<NonZero<u256>> = y.try_into(); match nz {{ Option::Some(d) => {{ let (q, r) = \
                     core::integer::u512_safe_div_rem_by_u256(x, d); {} }}, Option::None => {} }}",
                    tuple_val(&some),
                    tuple_val(&none)
                ),
                7,
            )
        }
        // core::math: (x * y) mod n, (x / y) mod n, x^-1 mod n   (U256InvModN hint)
        "mul_mod_n" => (
            "x: u256, y: u256, n: u256".into(),
            "let nz: Option<NonZero<u256>> = n.try_into(); match nz { Option::Some(d) => { let r = \
             core::math::u256_mul_mod_n(x, y, d); (1, e_u128(r.low), e_u128(r.high)) }, Option::None => (0, 0, 0) }"
                .into(),
            3,
        ),
        "div_mod_n" => (
            "x: u256, y: u256, n: u256".into(),
            "let nz: Option<NonZero<u256>> = n.try_into(); match nz { Option::Some(d) => match \
             core::math::u256_div_mod_n(x, y, d) { Option::Some(r) => (1, e_u128(r.low), e_u128(r.high)), \
             Option::None => (2, 0, 0) }, Option::None => (0, 0, 0) }"
                .into(),
            3,
        ),
        "inv_mod" => (
            "x: u256, n: u256".into(),
            "let nz: Option<NonZero<u256>> = n.try_into(); match nz { Option::Some(d) => match \
             core::math::u256_inv_mod(x, d) { Option::Some(r) => { let r: u256 = r.into(); (1, e_u128(r.low), \
             e_u128(r.high)) }, Option::None => (2, 0, 0) }, Option::None => (0, 0, 0) }"
                .into(),
            3,
        ),
        _ => panic!("render_fn: unknown op {op}"),
    };
    let src = format!("fn {name}({params}) -> {} {{ {body} }}\n", tuple_ty(nout));
    (name, src, nout)
}

/// A row function for the exhaustive tables: applies `render_fn(op, ty, to)` to `n` consecutive
/// operands starting at `v0` (second operand of binary operations, the operand of unary ones) inside
/// one VM run and returns all result felts.  The operands are derived from run-time arguments.
pub fn render_row_fn(op: &str, ty: &str, to: &str) -> (String, String) {
    let (f, _, nout) = render_fn(op, ty, to);
    let name = format!("r_{}", &f[2..]);
    let vty = operand_type(op, ty, arity(op) - 1);
    let conv = if vty == "felt252" {
        "let v: felt252 = v0 + j;".to_string()
    } else {
        format!("let v: {vty} = (v0 + j).try_into().unwrap();")
    };
    let (params, call) = if arity(op) == 2 {
        (format!("x: {ty}, v0: felt252, n: felt252"), format!("{f}(x, v)"))
    } else {
        ("v0: felt252, n: felt252".to_string(), format!("{f}(v)"))
    };
    let appends = if nout == 1 {
        format!("out.append({call});")
    } else {
        let vars: Vec<String> = (0..nout).map(|i| format!("a{i}")).collect();
        format!(
            "let ({}) = {call}; {}",
            vars.join(", "),
            vars.iter().map(|v| format!("out.append({v});")).collect::<Vec<_>>().join(" ")
        )
    };
    let src = format!(
        "fn {name}({params}) -> Array<felt252> {{ let mut out: Array<felt252> = array![]; let mut j: felt252 = 0; \
         while j != n {{ {conv} {appends} j += 1; }} out }}\n"
    );
    (name, src)
}

// ------------------------------------------------------------------------------------------------
// Compile and run

#[derive(Clone, Copy, PartialEq, Eq, Debug)]
pub enum Folding {
    /// default optimizations (const folding on)
    On,
    /// default optimizations with `skip_const_folding`
    Off,
}

pub fn build_db(folding: Folding) -> RootDatabase {
    let mut b = RootDatabase::builder();
    b.skip_auto_withdraw_gas().with_cfg(CfgSet::from_iter([Cfg::kv("gas", "disabled")]));
    if folding == Folding::Off {
        let opt = match Optimizations::enabled_with_default_movable_functions(InliningStrategy::Default) {
            Optimizations::Enabled(c) => Optimizations::Enabled(c.with_skip_const_folding(true)),
            o => o,
        };
        b.with_optimizations(opt);
    }
    let mut db = b.build().expect("db build");
    init_dev_corelib(&mut db, cvh::util::corelib_src());
    db
}

/// Writes `source` to `<dir>/<name>.cairo` and registers it as a single-file crate.
/// NOTE: all single-file crates of one directory share the synthetic `<dir>/lib.cairo` override
/// (`mod <name>;`), so within one database only the most recently set-up crate of a directory is
/// valid: compile each crate before setting up the next, or use distinct directories.
pub fn setup_source(db: &mut RootDatabase, dir: &Path, name: &str, source: &str) -> (PathBuf, Vec<CrateInput>) {
    std::fs::create_dir_all(dir).unwrap();
    let path = dir.join(format!("{name}.cairo"));
    std::fs::write(&path, source).unwrap();
    let inputs = setup_project(db, &path).unwrap_or_else(|e| panic!("setup_project {path:?}: {e}"));
    (path, inputs)
}

/// Compiles `source` to Sierra (diagnostic errors are a harness error: the generated programs are
/// meant to compile) and returns a runner.
pub fn compile_runner(dir: &Path, name: &str, source: &str, folding: Folding) -> Result<SierraCasmRunner, String> {
    let mut db = build_db(folding);
    let (_path, inputs) = setup_source(&mut db, dir, name, source);
    let db = &mut db;
    let mut errs = String::new();
    {
        let mut rep = DiagnosticsReporter::write_to_string(&mut errs).with_crates(&inputs).allow_warnings();
        if rep.check(db) {
            drop(rep);
            return Err(errs);
        }
    }
    runner_from_db(db, inputs)
}

/// Compiles many small single-file programs, sharing one database (hence one parse / analysis of
/// the corelib) per worker thread.  Results are in input order.
pub fn compile_many(
    dir: &Path,
    items: &[(String, String)],
    folding: Folding,
) -> Vec<Result<SierraCasmRunner, String>> {
    use rayon::prelude::*;
    let threads = rayon::current_num_threads().max(1);
    let per = items.len().div_ceil(threads).max(1);
    let chunks: Vec<&[(String, String)]> = items.chunks(per).collect();
    chunks
        .par_iter()
        .map(|chunk| {
            let mut db = build_db(folding);
            let mut out = vec![];
            for (name, source) in chunk.iter() {
                let (_path, inputs) = setup_source(&mut db, dir, name, source);
                let mut errs = String::new();
                let failed = {
                    let mut rep =
                        DiagnosticsReporter::write_to_string(&mut errs).with_crates(&inputs).allow_warnings();
                    rep.check(&db)
                };
                out.push(if failed { Err(errs) } else { runner_from_db(&db, inputs) });
            }
            out
        })
        .collect::<Vec<_>>()
        .into_iter()
        .flatten()
        .collect()
}

pub fn runner_from_db(db: &RootDatabase, inputs: Vec<CrateInput>) -> Result<SierraCasmRunner, String> {
    let ids = CrateInput::into_crate_ids(db, inputs);
    let prog = db.get_sierra_program(ids).to_option().ok_or("no sierra program".to_string())?.clone();
    let mut sierra = prog.program;
    let replacer = DebugReplacer { db };
    replacer.enrich_function_names(&mut sierra);
    let sierra = replacer.apply(&sierra);
    SierraCasmRunner::new(sierra, None, Default::default(), None).map_err(|e| format!("runner: {e}"))
}

#[derive(Clone, Debug, PartialEq, Eq)]
pub enum Outcome {
    /// result felts as centred representatives
    Ok(Vec<BigInt>),
    /// panic data
    Panic(Vec<BigInt>),
    /// the VM failed while executing the function (e.g. a hint's value was refuted by the CASM)
    VmError(String),
    /// the runner could not be set up (harness / infrastructure problem)
    Error(String),
}

pub fn short_string(v: &BigInt) -> String {
    let (_, bytes) = canon(v).to_bytes_be();
    if bytes.iter().all(|b| (0x20..0x7f).contains(b)) {
        String::from_utf8_lossy(&bytes).to_string()
    } else {
        format!("0x{}", canon(v).to_str_radix(16))
    }
}

/// Classifies a panic by the corelib's panic string: "ovf" / "unf" / "div0" / "other".
pub fn panic_class(data: &[BigInt]) -> (&'static str, String) {
    let msg = data.first().map(short_string).unwrap_or_default();
    let c = if msg.contains("Underflow") {
        "unf"
    } else if msg.contains("Overflow") || msg.contains("overflow") {
        "ovf"
    } else if msg.contains("Division by 0") {
        "div0"
    } else {
        "other"
    };
    (c, msg)
}

/// Runs a function returning `Array<felt252>` and reads the array from the final memory.
pub fn run_fn_array(runner: &SierraCasmRunner, name: &str, args: &[BigInt]) -> Outcome {
    let f = match runner.find_function(&format!("::{name}")) {
        Ok(f) => f,
        Err(e) => return Outcome::Error(format!("find {name}: {e}")),
    };
    let args: Vec<Arg> = args.iter().map(|a| Arg::Value(to_felt(a))).collect();
    match runner.run_function_with_starknet_context(f, args, None, StarknetState::default()) {
        Ok(r) => match r.value {
            RunResultValue::Success(v) => {
                if v.len() != 2 {
                    return Outcome::Error(format!("array result has {} cells", v.len()));
                }
                let (s, e) = (v[0].to_bigint().to_usize().unwrap(), v[1].to_bigint().to_usize().unwrap());
                let mut out = Vec::with_capacity(e - s);
                for c in &r.memory[s..e] {
                    match c {
                        Some(f) => out.push(felt_centred(f)),
                        None => return Outcome::Error("hole in result array".into()),
                    }
                }
                Outcome::Ok(out)
            }
            RunResultValue::Panic(v) => Outcome::Panic(v.iter().map(|f| f.to_bigint()).collect()),
        },
        Err(cairo_lang_runner::RunnerError::CairoRunError(e)) => Outcome::VmError(format!("{e}")),
        Err(e) => Outcome::Error(format!("{e}")),
    }
}

pub fn run_fn(runner: &SierraCasmRunner, name: &str, args: &[BigInt]) -> Outcome {
    let f = match runner.find_function(&format!("::{name}")) {
        Ok(f) => f,
        Err(e) => return Outcome::Error(format!("find {name}: {e}")),
    };
    let args: Vec<Arg> = args.iter().map(|a| Arg::Value(to_felt(a))).collect();
    match runner.run_function_with_starknet_context(f, args, None, StarknetState::default()) {
        Ok(r) => match r.value {
            RunResultValue::Success(v) => Outcome::Ok(v.iter().map(felt_centred).collect()),
            RunResultValue::Panic(v) => Outcome::Panic(v.iter().map(|f| f.to_bigint()).collect()),
        },
        Err(cairo_lang_runner::RunnerError::CairoRunError(e)) => Outcome::VmError(format!("{e}")),
        Err(e) => Outcome::Error(format!("{e}")),
    }
}

//! Shared code for the Sierra-level harness bins: compile Cairo to Sierra with the real pipeline,
//! export a program + its compile annotations as JSON constants for the `SierraAnnot`/`SierraRun`
//! specifications (DESIGN A.3), run functions on the real VM and turn the relocated trace into
//! statement-level events (DESIGN A.4), and mutate Sierra programs (DESIGN 3.12).
#![allow(dead_code)]
use std::collections::BTreeMap;
use std::path::Path;

use cairo_lang_compiler::db::RootDatabase;
use cairo_lang_compiler::diagnostics::DiagnosticsReporter;
use cairo_lang_compiler::project::setup_project;
use cairo_lang_compiler::{CompilerConfig, compile_prepared_db_program};
use cairo_lang_filesystem::db::init_dev_corelib;
use cairo_lang_filesystem::ids::CrateInput;
use cairo_lang_lowering::optimizations::config::Optimizations;
use cairo_lang_lowering::utils::InliningStrategy;
use cairo_lang_runnable_utils::builder::RunnableBuilder;
use cairo_lang_sierra::extensions::ConcreteLibfunc;
use cairo_lang_sierra::extensions::core::CoreConcreteLibfunc;
use cairo_lang_sierra::extensions::lib_func::SierraApChange;
use cairo_lang_sierra::ids::ConcreteTypeId;
use cairo_lang_sierra::program::{BranchTarget, GenericArg, Program, Statement, StatementIdx};
use cairo_lang_sierra_to_casm::compiler::StatementKindDebugInfo;
use cairo_lang_sierra_to_casm::invocations::ApTrackingChange;
use cairo_lang_sierra_to_casm::metadata::MetadataComputationConfig;
use serde_json::{Value, json};

pub fn quiet_panics() {
    std::panic::set_hook(Box::new(|_| {}));
}

pub fn build_db(auto_gas: bool, optimizations: Option<Optimizations>) -> RootDatabase {
    let mut b = RootDatabase::builder();
    if !auto_gas {
        b.skip_auto_withdraw_gas();
    }
    b.with_optimizations(optimizations.unwrap_or_else(|| {
        Optimizations::enabled_with_default_movable_functions(InliningStrategy::Default)
    }));
    let mut db = b.build().expect("db build");
    init_dev_corelib(&mut db, cvh::util::corelib_src());
    db
}

/// Compiles a Cairo file / project directory to Sierra (debug names replaced), with the default
/// configuration. Returns Err(text) when there are error diagnostics or the compilation fails.
pub fn compile_cairo(path: &Path, auto_gas: bool, optimizations: Option<Optimizations>) -> Result<Program, String> {
    let mut db = build_db(auto_gas, optimizations);
    let main_crate_inputs = setup_project(&mut db, path).map_err(|e| format!("setup_project: {e}"))?;
    let mut diags = String::new();
    let reporter = DiagnosticsReporter::write_to_string(&mut diags)
        .with_crates(&main_crate_inputs)
        .allow_warnings();
    let crate_ids = CrateInput::into_crate_ids(&db, main_crate_inputs);
    let cfg = CompilerConfig { diagnostics_reporter: reporter, replace_ids: true, ..CompilerConfig::default() };
    let r = compile_prepared_db_program(&db, crate_ids, cfg);
    match r {
        Ok(p) => Ok(p),
        Err(e) => Err(format!("{e}\n{diags}")),
    }
}

pub fn metadata_config(linear: bool) -> MetadataComputationConfig {
    MetadataComputationConfig {
        function_set_costs: Default::default(),
        linear_gas_solver: linear,
        linear_ap_change_solver: linear,
        skip_non_linear_solver_comparisons: false,
        compute_runtime_costs: false,
    }
}

fn type_index(map: &BTreeMap<u64, usize>, ty: &ConcreteTypeId) -> Value {
    match map.get(&ty.id) {
        Some(i) => json!(i + 1),
        None => json!(0),
    }
}

fn generic_arg_json(tmap: &BTreeMap<u64, usize>, a: &GenericArg) -> Value {
    match a {
        GenericArg::UserType(u) => json!({"k":"user", "t":0, "v": u.to_string()}),
        GenericArg::Type(t) => json!({"k":"type", "t": type_index(tmap, t), "v": ""}),
        GenericArg::Value(v) => json!({"k":"value", "t":0, "v": v.to_string()}),
        GenericArg::UserFunc(f) => json!({"k":"func", "t":0, "v": f.to_string()}),
        GenericArg::Libfunc(l) => json!({"k":"libfunc", "t":0, "v": l.to_string()}),
    }
}

/// The A.3 export. All indices (types, libfuncs, statements, functions) are 1-based so that
/// they index TLA+ tuples directly; statement targets are 1-based statement numbers.
/// `builder` is Some when the real compiler accepted the program.
pub fn export_program(program: &Program, builder: Option<&RunnableBuilder>) -> Value {
    export_program_ex(program, builder, None)
}

pub type CoreRegistry = cairo_lang_sierra::program_registry::ProgramRegistry<
    cairo_lang_sierra::extensions::core::CoreType,
    cairo_lang_sierra::extensions::core::CoreLibfunc,
>;

/// Like `export_program`; when the compiler rejected the program (`builder` = None) the declared
/// signatures can still be exported from a registry that validated.
pub fn export_program_ex(program: &Program, builder: Option<&RunnableBuilder>, reg: Option<&CoreRegistry>) -> Value {
    let tmap: BTreeMap<u64, usize> =
        program.type_declarations.iter().enumerate().map(|(i, t)| (t.id.id, i)).collect();
    let lmap: BTreeMap<u64, usize> =
        program.libfunc_declarations.iter().enumerate().map(|(i, l)| (l.id.id, i)).collect();
    let fmap: BTreeMap<u64, usize> = program.funcs.iter().enumerate().map(|(i, f)| (f.id.id, i)).collect();
    let registry = builder.map(|b| b.registry()).or(reg);

    let types: Vec<Value> = program
        .type_declarations
        .iter()
        .map(|t| {
            let info = registry.and_then(|r| r.get_type(&t.id).ok()).map(|ct| {
                let i = cairo_lang_sierra::extensions::types::ConcreteType::info(ct);
                json!({"storable": i.storable, "droppable": i.droppable, "duplicatable": i.duplicatable, "zero_sized": i.zero_sized})
            });
            json!({
                "gen": t.long_id.generic_id.0.to_string(),
                "args": t.long_id.generic_args.iter().map(|a| generic_arg_json(&tmap, a)).collect::<Vec<_>>(),
                "info": info.unwrap_or(json!({"storable": false, "droppable": false, "duplicatable": false, "zero_sized": false})),
                "size": builder
                    .and_then(|b| std::panic::catch_unwind(std::panic::AssertUnwindSafe(|| b.type_size(&t.id) as i64)).ok())
                    .unwrap_or(-1),
            })
        })
        .collect();

    let libfuncs: Vec<Value> = program
        .libfunc_declarations
        .iter()
        .map(|l| {
            let gen_id = l.long_id.generic_id.0.to_string();
            let args: Vec<Value> = l.long_id.generic_args.iter().map(|a| generic_arg_json(&tmap, a)).collect();
            match registry.and_then(|r| r.get_libfunc(&l.id).ok()) {
                Some(lf) => {
                    let params: Vec<Value> =
                        lf.param_signatures().iter().map(|p| type_index(&tmap, &p.ty)).collect();
                    let branches: Vec<Value> = lf
                        .branch_signatures()
                        .iter()
                        .map(|b| {
                            let (apk, apf) = match &b.ap_change {
                                SierraApChange::Unknown => ("unknown", 0),
                                SierraApChange::Known { new_vars_only: true } => ("known_new_vars", 0),
                                SierraApChange::Known { new_vars_only: false } => ("known", 0),
                                SierraApChange::BranchAlign => ("branch_align", 0),
                                SierraApChange::FunctionCall(f) => {
                                    ("call", fmap.get(&f.id).map(|i| i + 1).unwrap_or(0))
                                }
                            };
                            json!({
                                "vars": b.vars.iter().map(|v| type_index(&tmap, &v.ty)).collect::<Vec<_>>(),
                                "ap": apk, "apf": apf,
                            })
                        })
                        .collect();
                    let callee = match lf {
                        CoreConcreteLibfunc::FunctionCall(f) => fmap.get(&f.function.id.id).map(|i| i + 1).unwrap_or(0),
                        CoreConcreteLibfunc::CouponCall(f) => fmap.get(&f.function.id.id).map(|i| i + 1).unwrap_or(0),
                        _ => 0,
                    };
                    json!({"gen": gen_id, "args": args, "params": params, "branches": branches,
                           "fallthrough": lf.fallthrough().map(|x| x as i64 + 1).unwrap_or(0), "callee": callee, "known": true})
                }
                None => json!({"gen": gen_id, "args": args, "params": [], "branches": [], "fallthrough": 0, "callee": 0, "known": false}),
            }
        })
        .collect();

    let n = program.statements.len();
    let stmts: Vec<Value> = program
        .statements
        .iter()
        .enumerate()
        .map(|(i, s)| match s {
            Statement::Invocation(inv) => json!({
                "k": "inv",
                "lf": lmap.get(&inv.libfunc_id.id).map(|x| x + 1).unwrap_or(0),
                "args": inv.args.iter().map(|v| v.id).collect::<Vec<_>>(),
                "br": inv.branches.iter().map(|b| json!({
                    "t": match b.target { BranchTarget::Fallthrough => i + 2, BranchTarget::Statement(StatementIdx(t)) => t + 1 },
                    "res": b.results.iter().map(|v| v.id).collect::<Vec<_>>(),
                })).collect::<Vec<_>>(),
            }),
            Statement::Return(vars) => json!({
                "k": "ret", "lf": 0, "args": vars.iter().map(|v| v.id).collect::<Vec<_>>(), "br": [],
            }),
        })
        .collect();

    let meta = builder.map(|b| b.metadata());
    let funcs: Vec<Value> = program
        .funcs
        .iter()
        .map(|f| {
            let fn_ap = meta
                .and_then(|m| m.ap_change_info.function_ap_change.get(&f.id))
                .map(|x| *x as i64)
                .unwrap_or(-1);
            let cost: BTreeMap<String, i64> = meta
                .and_then(|m| m.gas_info.function_costs.get(&f.id))
                .map(|c| c.iter().map(|(k, v)| (format!("{k:?}"), *v)).collect())
                .unwrap_or_default();
            json!({
                "name": f.id.to_string(),
                "entry": f.entry_point.0 + 1,
                "params": f.params.iter().map(|p| json!({"v": p.id.id, "ty": type_index(&tmap, &p.ty)})).collect::<Vec<_>>(),
                "rets": f.signature.ret_types.iter().map(|t| type_index(&tmap, t)).collect::<Vec<_>>(),
                "fn_ap": fn_ap,
                "cost": cost.get("Const").copied().unwrap_or(0),
                "req": builder.and_then(|b| initial_required_gas(b, f)).map(|x| x as i64).unwrap_or(-1),
                "has_gas": builder.map(|b| requires_gas_builtin(b, f)).unwrap_or(false),
            })
        })
        .collect();

    // per-statement code info from the real compile
    let code: Vec<Value> = match builder {
        None => vec![],
        Some(b) => b
            .casm_program()
            .debug_info
            .sierra_statement_info
            .iter()
            .map(|si| {
                let br: Vec<Value> = match &si.additional_kind_info {
                    StatementKindDebugInfo::Return(_) => vec![],
                    StatementKindDebugInfo::Invoke(inv) => inv
                        .result_branch_changes
                        .iter()
                        .map(|bc| {
                            let ap = match bc.ap_change {
                                cairo_lang_casm::ap_change::ApChange::Known(k) => k as i64,
                                cairo_lang_casm::ap_change::ApChange::Unknown => -1,
                            };
                            let gas: i64 = bc
                                .gas_cost
                                .iter()
                                .filter(|(k, _)| format!("{k:?}") == "Const")
                                .map(|(_, v)| *v)
                                .sum();
                            json!({"ap": ap, "gas": gas, "track": match bc.ap_tracking_change {
                                ApTrackingChange::None => "none", ApTrackingChange::Enable => "enable", ApTrackingChange::Disable => "disable"}})
                        })
                        .collect(),
                };
                json!({"start": si.start_offset, "end": si.end_offset, "ins": si.instruction_idx, "br": br})
            })
            .collect(),
    };
    // static size check: sum of op sizes of the statement's instructions == recorded range
    let mut size_mismatch: Vec<Value> = vec![];
    if let Some(b) = builder {
        let cp = b.casm_program();
        let infos = &cp.debug_info.sierra_statement_info;
        for (i, si) in infos.iter().enumerate() {
            let next_ins = if i + 1 < infos.len() { infos[i + 1].instruction_idx } else { cp.instructions.len() };
            let sz: usize = cp.instructions[si.instruction_idx..next_ins].iter().map(|x| x.body.op_size()).sum();
            if sz != si.end_offset - si.start_offset {
                size_mismatch.push(json!({"stmt": i + 1, "instr_size": sz, "range": si.end_offset - si.start_offset}));
            }
        }
    }
    json!({
        "n": n, "types": types, "libfuncs": libfuncs, "stmts": stmts, "funcs": funcs, "code": code,
        "size_mismatch": size_mismatch,
        "code_len": builder.map(|b| b.casm_program().debug_info.sierra_statement_info.last().map(|s| s.end_offset).unwrap_or(0)).unwrap_or(0),
    })
}

// ---------------------------------------------------------------------------------------------
// Running a function on the real VM and deriving statement-level events.

use cairo_lang_casm::hints::Hint;
use cairo_lang_runner::casm_run::{CairoHintProcessor, RunFunctionResult, run_function};
use cairo_lang_runner::{
    Arg, RunResultValue, SierraCasmRunner, StarknetState, build_hints_dict, initialize_vm, token_gas_cost,
};
use cairo_lang_runnable_utils::builder::EntryCodeConfig;
use cairo_lang_sierra::extensions::enm::EnumType;
use cairo_lang_sierra::extensions::gas::GasBuiltinType;
use cairo_lang_sierra::extensions::NamedType;
use cairo_lang_sierra::program::Function;
use cairo_lang_utils::casts::IntoOrPanic;
use cairo_vm::Felt252;
use cairo_vm::vm::runners::cairo_runner::RunResources;

pub struct TraceRun {
    /// A.4 events (without the reset event).
    pub events: Vec<Value>,
    /// "ok" | "panic" | "vmerr" | "refused" | "harness"
    pub kind: String,
    pub value: Vec<String>,
    pub gas_left: Option<i64>,
    pub n_steps: usize,
}

pub fn requires_gas_builtin(b: &RunnableBuilder, func: &Function) -> bool {
    func.signature.param_types.iter().any(|ty| b.type_long_id(ty).generic_id == GasBuiltinType::ID)
}

pub fn initial_required_gas(b: &RunnableBuilder, func: &Function) -> Option<usize> {
    let gas_info = &b.metadata().gas_info;
    if gas_info.function_costs.is_empty() {
        return None;
    }
    Some(
        gas_info.function_costs[&func.id]
            .iter()
            .map(|(token_type, val)| val.into_or_panic::<usize>() * token_gas_cost(*token_type))
            .sum(),
    )
}

/// The user-argument sizes (in felts) of the function's non-implicit parameters, or None if a
/// parameter is not a plain scalar (size != 1 values are allowed: they take that many felts).
pub fn user_param_sizes(b: &RunnableBuilder, func: &Function) -> Vec<(String, usize)> {
    b.generic_id_and_size_from_concrete(&func.signature.param_types)
        .into_iter()
        .filter(|(ty, _)| b.is_user_arg_type(ty))
        .map(|(ty, sz)| (ty.0.to_string(), sz as usize))
        .collect()
}

fn inner_type_from_panic_wrapper(b: &RunnableBuilder, func: &Function) -> Option<ConcreteTypeId> {
    for rt in &func.signature.ret_types {
        let long_id = b.type_long_id(rt);
        if long_id.generic_id == EnumType::ID {
            if let Some(GenericArg::UserType(ut)) = long_id.generic_args.first() {
                if ut.debug_name.as_ref().map(|n| n.starts_with("core::panics::PanicResult::")).unwrap_or(false) {
                    if let GenericArg::Type(t) = &long_id.generic_args[1] {
                        return Some(t.clone());
                    }
                }
            }
        }
    }
    None
}

/// Runs `func` with scalar `args` (felts, flattened) and `available_gas`; returns the events.
pub fn run_with_trace(
    runner: &SierraCasmRunner,
    b: &RunnableBuilder,
    func: &Function,
    args: &[Felt252],
    available_gas: Option<usize>,
) -> TraceRun {
    let mut out = TraceRun { events: vec![], kind: "harness".into(), value: vec![], gas_left: None, n_steps: 0 };
    let (assembled, builtins) = match b.assemble_function_program(func, EntryCodeConfig::testing()) {
        Ok(x) => x,
        Err(e) => {
            out.events.push(json!({"e":"harness","msg": format!("assemble: {e}")}));
            return out;
        }
    };
    let (hints_dict, string_to_hint) = build_hints_dict(&assembled.hints);
    // prepare_args
    let mut user_args: Vec<Vec<Arg>> = vec![];
    if requires_gas_builtin(b, func) {
        // the runner's own computation of the initial counter (deducts the declared entry cost, or refuses)
        let gas = match runner.get_initial_available_gas(func, available_gas) {
            Ok(g) => g,
            Err(_) => {
                out.kind = "refused".into();
                out.events.push(json!({"e":"refused"}));
                return out;
            }
        };
        user_args.push(vec![Arg::Value(Felt252::from(gas))]);
    }
    let mut it = args.iter();
    for (_, sz) in user_param_sizes(b, func) {
        let mut cur = vec![];
        for _ in 0..sz {
            match it.next() {
                Some(v) => cur.push(Arg::Value(*v)),
                None => {
                    out.events.push(json!({"e":"harness","msg":"not enough args"}));
                    return out;
                }
            }
        }
        user_args.push(cur);
    }
    let mut hp = CairoHintProcessor {
        runner: Some(runner),
        user_args,
        starknet_state: StarknetState::default(),
        string_to_hint,
        run_resources: RunResources::default(),
        syscalls_used_resources: Default::default(),
        no_temporary_segments: true,
        markers: Default::default(),
        panic_traceback: Default::default(),
    };
    let data_len = assembled.bytecode.len();
    let res = run_function(assembled.bytecode.iter(), builtins, |vm| initialize_vm(vm, data_len), &mut hp, hints_dict);
    let RunFunctionResult { ap, used_resources, memory, relocated_trace } = match res {
        Ok(r) => r,
        Err(e) => {
            out.kind = "vmerr".into();
            let mut msg = format!("{e}");
            msg.truncate(300);
            out.events.push(json!({"e":"vmerr","msg": msg}));
            return out;
        }
    };
    let header_end = relocated_trace.last().unwrap().pc;
    let load_offset = header_end + 1;
    let head_steps = relocated_trace.iter().position(|e| e.pc > header_end).unwrap();
    let tail_steps = relocated_trace.iter().rev().position(|e| e.pc > header_end).unwrap();
    let n_steps = used_resources.n_steps - head_steps - tail_steps;
    out.n_steps = n_steps;
    let infos = &b.casm_program().debug_info.sierra_statement_info;
    let code_len = infos.last().map(|s| s.end_offset).unwrap_or(0);
    // statement-level events
    let body = &relocated_trace[head_steps..relocated_trace.len() - tail_steps];
    let mut cur: Option<(usize, usize, usize, usize, bool)> = None; // (stmt, count, ap, fp, began at start_offset)
    let mut outside = 0usize;
    // The footer is a single `ret` that libfuncs call to read pc/fp: it belongs to the calling statement.
    let footer_rel = data_len - (load_offset - 1) - 1;
    for e in body {
        let rel = e.pc - load_offset;
        let aux_ret = rel == footer_rel
            || (rel >= code_len
                && b.casm_program().consts_info.segments.values().any(|seg| code_len + seg.segment_offset == rel));
        if aux_ret && cur.is_some() {
            if let Some(c) = cur.as_mut() {
                c.1 += 1;
            }
            continue;
        }
        if rel >= code_len {
            outside += 1;
            out.events.push(json!({"e":"norange","pc": rel}));
            continue;
        }
        let idx = infos.partition_point(|x| x.start_offset <= rel) - 1;
        let in_range = rel >= infos[idx].start_offset && rel < infos[idx].end_offset;
        if !in_range {
            out.events.push(json!({"e":"norange","pc": rel}));
            continue;
        }
        let new_instance = match cur {
            None => true,
            Some((s, _, _, fp, _)) => s != idx || (fp != e.fp && rel == infos[idx].start_offset),
        };
        if new_instance {
            if let Some((s, n, ap0, fp0, st)) = cur.take() {
                out.events.push(json!({"e":"x","s": s + 1,"n": n,"ap": ap0,"fp": fp0,"st": st}));
            }
            cur = Some((idx, 1, e.ap, e.fp, rel == infos[idx].start_offset));
        } else if let Some(c) = cur.as_mut() {
            c.1 += 1;
        }
    }
    if let Some((s, n, ap0, fp0, st)) = cur.take() {
        out.events.push(json!({"e":"x","s": s + 1,"n": n,"ap": ap0,"fp": fp0,"st": st}));
    }
    let _ = outside;
    // result value
    let return_types = b.generic_id_and_size_from_concrete(&func.signature.ret_types);
    let (results_data, gas_counter) = runner.get_results_data(&return_types, &memory, ap);
    let value = match results_data.into_iter().next() {
        None => RunResultValue::Success(vec![]),
        Some((_ty, values)) => {
            let inner = inner_type_from_panic_wrapper(b, func).map(|it| b.type_size(&it));
            SierraCasmRunner::handle_main_return_value(inner, values, &memory)
        }
    };
    let (kind, vals) = match value {
        RunResultValue::Success(v) => ("ok", v),
        RunResultValue::Panic(v) => ("panic", v),
    };
    out.kind = kind.into();
    out.value = vals.iter().map(|f| f.to_string()).collect();
    let gas_left: Option<i64> = gas_counter.and_then(|g| g.to_string().parse::<i64>().ok());
    out.gas_left = gas_left;
    let bc = &used_resources.builtin_instance_counter;
    let cnt = |name: &str| -> usize {
        bc.iter().filter(|(k, _)| k.to_str() == name).map(|(_, v)| *v).sum()
    };
    // ap at the final `ret` of the outermost function = ap of the last body entry
    let last_ap = body.last().map(|e| e.ap).unwrap_or(0);
    out.events.push(json!({
        "e":"fin", "kind": kind, "gas_left": gas_left.unwrap_or(-1), "n_steps": n_steps, "ap": last_ap,
        "rc": cnt("range_check"), "rc96": cnt("range_check96"), "pedersen": cnt("pedersen"), "poseidon": cnt("poseidon"),
        "bitwise": cnt("bitwise"), "ec_op": cnt("ec_op"), "add_mod": cnt("add_mod"), "mul_mod": cnt("mul_mod"),
        "holes": used_resources.n_memory_holes,
    }));
    out
}

pub fn _unused(_: Hint) {}

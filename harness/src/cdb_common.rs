//! Shared code of the CompilerDb replay bins (det_replay = C12, cache_replay = C20):
//! project descriptions, settings points, database construction, and the *observation*
//! (diagnostics, Sierra with debug-name ids, Sierra with canonical ids, CASM, contract classes)
//! whose byte-equality the two properties are about.
#![allow(dead_code)]

use std::collections::BTreeMap;
use std::hash::{Hash, Hasher};
use std::path::PathBuf;

use cairo_lang_compiler::db::RootDatabase;
use cairo_lang_compiler::diagnostics::DiagnosticsReporter;
use cairo_lang_compiler::project::{setup_project, setup_single_file_project};
use cairo_lang_compiler::{CompilerConfig, compile_prepared_db, compile_prepared_db_program_artifact};
use cairo_lang_filesystem::db::{
    CrateConfiguration, CrateSettings, DependencySettings, Edition, ExperimentalFeaturesConfig, FilesGroup,
    init_dev_corelib,
};
use cairo_lang_filesystem::ids::{CrateId, CrateInput, CrateLongId, Directory, SmolStrId};
use cairo_lang_filesystem::set_crate_config;
use cairo_lang_lowering::optimizations::config::Optimizations;
use cairo_lang_lowering::utils::InliningStrategy;
use cairo_lang_sierra::program::Program;
use cairo_lang_sierra_type_size::ProgramRegistryInfo;
use cairo_lang_sierra_generator::canonical_id_replacer::CanonicalReplacer;
use cairo_lang_sierra_generator::replace_ids::SierraIdReplacer;
use cairo_lang_sierra_to_casm::compiler::SierraToCasmConfig;
use cairo_lang_sierra_to_casm::metadata::calc_metadata;
use cairo_lang_starknet::contract::find_contracts;
use cairo_lang_starknet::starknet_plugin_suite;
use cairo_lang_starknet_classes::casm_contract_class::CasmContractClass;
use cairo_lang_utils::Intern;
use serde_json::Value;

// ------------------------------------------------------------------------------------------------
// hashing (stable across processes: SipHash with the fixed default keys)

pub fn h64(s: &str) -> String {
    let mut a = std::collections::hash_map::DefaultHasher::new();
    s.hash(&mut a);
    let mut b = std::collections::hash_map::DefaultHasher::new();
    0x5eed_u64.hash(&mut b);
    s.hash(&mut b);
    format!("{:016x}{:016x}", a.finish(), b.finish())
}

// ------------------------------------------------------------------------------------------------
// a plugin that only declares the attributes of the test runner, so that corpus crates written
// for `cairo-test` (`#[test]`, `#[should_panic]`, ...) compile as ordinary crates

#[derive(Debug, Default)]
pub struct TestAttrsPlugin;

impl cairo_lang_defs::plugin::MacroPlugin for TestAttrsPlugin {
    fn generate_code<'db>(
        &self,
        _db: &'db dyn salsa::Database,
        _item_ast: cairo_lang_syntax::node::ast::ModuleItem<'db>,
        _metadata: &cairo_lang_defs::plugin::MacroPluginMetadata<'_>,
    ) -> cairo_lang_defs::plugin::PluginResult<'db> {
        Default::default()
    }

    fn declared_attributes<'db>(&self, db: &'db dyn salsa::Database) -> Vec<SmolStrId<'db>> {
        ["test", "available_gas", "should_panic", "ignore"].iter().map(|a| SmolStrId::from(db, *a)).collect()
    }
}

// ------------------------------------------------------------------------------------------------
// settings point

#[derive(Clone, Debug)]
pub struct Settings {
    pub gas: bool,
    pub backtrace: bool,
    pub unsafe_panic: bool,
    /// "default" | "disabled" | "avoid" | "small:<n>" | "noconstfold" | "minimal_movable"
    pub opt: String,
}

impl Settings {
    pub fn from_json(v: &Value) -> Self {
        Settings {
            gas: v.get("gas").and_then(|x| x.as_bool()).unwrap_or(true),
            backtrace: v.get("backtrace").and_then(|x| x.as_bool()).unwrap_or(false),
            unsafe_panic: v.get("unsafe_panic").and_then(|x| x.as_bool()).unwrap_or(false),
            opt: v.get("opt").and_then(|x| x.as_str()).unwrap_or("default").to_string(),
        }
    }
    pub fn to_json(&self) -> Value {
        serde_json::json!({"gas": self.gas, "backtrace": self.backtrace, "unsafe_panic": self.unsafe_panic,
                           "opt": self.opt})
    }
    /// The part of the settings a cache blob depends on (`CachedCrateMetadata.global_flags`).
    pub fn flags_key(&self) -> String {
        format!("g{}b{}u{}", self.gas as u8, self.backtrace as u8, self.unsafe_panic as u8)
    }
    fn optimizations(&self) -> Optimizations {
        match self.opt.as_str() {
            "default" => Optimizations::enabled_with_default_movable_functions(InliningStrategy::Default),
            "disabled" => Optimizations::Disabled,
            "avoid" => Optimizations::enabled_with_default_movable_functions(InliningStrategy::Avoid),
            "minimal_movable" => Optimizations::enabled_with_minimal_movable_functions(),
            "noconstfold" => match Optimizations::enabled_with_default_movable_functions(InliningStrategy::Default) {
                Optimizations::Enabled(c) => Optimizations::Enabled(c.with_skip_const_folding(true)),
                o => o,
            },
            s if s.starts_with("small:") => Optimizations::enabled_with_default_movable_functions(
                InliningStrategy::InlineSmallFunctions(s[6..].parse().expect("small:<n>")),
            ),
            other => panic!("unknown opt point {other}"),
        }
    }
}

/// A fresh database with the corelib of the repository under test, sources not yet configured.
pub fn new_db(settings: &Settings, starknet: bool) -> RootDatabase {
    new_db_ex(settings, starknet, false)
}

pub fn new_db_ex(settings: &Settings, starknet: bool, test_attrs: bool) -> RootDatabase {
    let mut b = RootDatabase::builder();
    b.with_optimizations(settings.optimizations());
    if starknet {
        b.with_default_plugin_suite(starknet_plugin_suite());
    }
    if test_attrs {
        let mut suite = cairo_lang_semantic::plugin::PluginSuite::default();
        suite.add_plugin::<TestAttrsPlugin>();
        b.with_default_plugin_suite(suite);
    }
    if !settings.gas {
        b.skip_auto_withdraw_gas();
    }
    if settings.backtrace {
        b.with_panic_backtrace();
    }
    if settings.unsafe_panic {
        b.with_unsafe_panic();
    }
    let mut db = b.build().expect("db build");
    init_dev_corelib(&mut db, cvh::util::corelib_src());
    db
}

// ------------------------------------------------------------------------------------------------
// projects

#[derive(Clone, Debug)]
pub struct InlineCrate {
    pub name: String,
    pub edition: String,
    pub deps: Vec<String>,
    /// relative path -> content
    pub files: BTreeMap<String, String>,
}

#[derive(Clone, Debug)]
pub enum ProjectKind {
    /// directory with cairo_project.toml, or a single .cairo file
    Path(PathBuf),
    /// sources carried in the description (written under `scratch` before use)
    Inline(Vec<InlineCrate>),
}

#[derive(Clone, Debug)]
pub struct Project {
    pub name: String,
    pub kind: ProjectKind,
    pub starknet: bool,
    /// declare the test-runner attributes (corpus crates written for cairo-test)
    pub test_attrs: bool,
    /// compile every contract found to a contract class (default: = starknet)
    pub contracts: bool,
    /// edition override for a single-file project
    pub edition: Option<String>,
    /// names of the inline crates that are compiled ("main"); all crates for Path projects
    pub main: Vec<String>,
    pub json: Value,
}

pub fn edition_of(s: &str) -> Edition {
    match s {
        "2023_01" => Edition::V2023_01,
        "2023_10" => Edition::V2023_10,
        "2023_11" => Edition::V2023_11,
        "2024_07" => Edition::V2024_07,
        "2025_12" => Edition::V2025_12,
        other => panic!("unknown edition {other}"),
    }
}

impl Project {
    pub fn from_json(v: &Value) -> Self {
        let name = v["name"].as_str().expect("project.name").to_string();
        let starknet = v.get("starknet").and_then(|x| x.as_bool()).unwrap_or(false);
        let kind = if let Some(p) = v.get("path").and_then(|x| x.as_str()) {
            ProjectKind::Path(PathBuf::from(p))
        } else {
            let crates = v["crates"]
                .as_array()
                .expect("project.crates")
                .iter()
                .map(|c| InlineCrate {
                    name: c["name"].as_str().unwrap().to_string(),
                    edition: c.get("edition").and_then(|x| x.as_str()).unwrap_or("2024_07").to_string(),
                    deps: c
                        .get("deps")
                        .and_then(|x| x.as_array())
                        .map(|a| a.iter().map(|d| d.as_str().unwrap().to_string()).collect())
                        .unwrap_or_default(),
                    files: c["files"]
                        .as_object()
                        .unwrap()
                        .iter()
                        .map(|(k, v)| (k.clone(), v.as_str().unwrap().to_string()))
                        .collect(),
                })
                .collect();
            ProjectKind::Inline(crates)
        };
        let main = v
            .get("main")
            .and_then(|x| x.as_array())
            .map(|a| a.iter().map(|d| d.as_str().unwrap().to_string()).collect())
            .unwrap_or_default();
        let test_attrs = v.get("test_attrs").and_then(|x| x.as_bool()).unwrap_or(false);
        let contracts = v.get("contracts").and_then(|x| x.as_bool()).unwrap_or(starknet);
        let edition = v.get("edition").and_then(|x| x.as_str()).map(|s| s.to_string());
        Project { name, kind, starknet, test_attrs, contracts, edition, main, json: v.clone() }
    }
}

pub fn inline_settings(c: &InlineCrate) -> CrateSettings {
    CrateSettings {
        name: None,
        edition: edition_of(&c.edition),
        version: None,
        cfg_set: None,
        dependencies: c
            .deps
            .iter()
            .map(|d| (d.clone(), DependencySettings { discriminator: Some(d.clone()) }))
            .collect(),
        experimental_features: ExperimentalFeaturesConfig {
            negative_impls: true,
            associated_item_constraints: true,
            coupons: true,
            user_defined_inline_macros: true,
            repr_ptrs: true,
        },
    }
}

pub fn inline_crate_id<'db>(db: &'db RootDatabase, name: &str) -> CrateId<'db> {
    CrateLongId::Real { name: SmolStrId::from(db, name), discriminator: Some(name.to_string()) }.intern(db)
}

/// Writes the sources of an inline crate under `<scratch>/<crate>/` (only if changed) and returns the root.
pub fn write_inline_crate(scratch: &std::path::Path, c: &InlineCrate) -> PathBuf {
    let root = scratch.join(&c.name);
    for (rel, content) in &c.files {
        let p = root.join(rel);
        if let Some(parent) = p.parent() {
            std::fs::create_dir_all(parent).unwrap();
        }
        if std::fs::read_to_string(&p).ok().as_deref() != Some(content.as_str()) {
            std::fs::write(&p, content).unwrap();
        }
    }
    root
}

/// Configures the crates of `project` in `db`; returns the main crates.
pub fn setup(db: &mut RootDatabase, project: &Project, scratch: &std::path::Path) -> Vec<CrateInput> {
    match &project.kind {
        ProjectKind::Path(p) => {
            if p.is_dir() {
                setup_project(db, p).unwrap_or_else(|e| panic!("setup_project {p:?}: {e}"))
            } else {
                let input = setup_single_file_project(db, p).unwrap_or_else(|e| panic!("setup file {p:?}: {e}"));
                if let Some(ed) = &project.edition {
                    let id = input.clone().into_crate_long_id(db).intern(db);
                    let mut cfg = db.crate_config(id).expect("crate config").clone();
                    cfg.settings.edition = edition_of(ed);
                    set_crate_config!(db, id, Some(cfg));
                }
                vec![input]
            }
        }
        ProjectKind::Inline(crates) => {
            let scratch = scratch.join(&project.name);
            for c in crates {
                let root = write_inline_crate(&scratch, c);
                let id = inline_crate_id(db, &c.name);
                let cfg = CrateConfiguration {
                    root: Directory::Real(root),
                    settings: inline_settings(c),
                    cache_file: None,
                };
                set_crate_config!(db, id, Some(cfg));
            }
            let main: Vec<String> = if project.main.is_empty() {
                crates.iter().map(|c| c.name.clone()).collect()
            } else {
                project.main.clone()
            };
            main.iter().map(|n| inline_crate_id(db, n).long(db).clone().into_crate_input(db)).collect()
        }
    }
}

// ------------------------------------------------------------------------------------------------
// observation

pub type Obs = Vec<(String, String)>;

#[derive(Clone, Copy, Debug, PartialEq, Eq)]
pub enum Entry {
    /// compile_prepared_db_program_artifact: ensure_diagnostics (parallel warm-up) + warmup_functions
    Artifact,
    /// compile_prepared_db: sequential reporter.ensure + get_sierra_program (no warm-up)
    Plain,
}

fn reporter<'a>(out: &'a mut String, main: &[CrateInput]) -> DiagnosticsReporter<'a> {
    DiagnosticsReporter::write_to_string(out).with_crates(main).allow_warnings()
}

/// Canonical ids (declaration order) with the debug names stripped.
pub fn canonical_stripped(p: &Program) -> Program {
    let mut q = CanonicalReplacer::from_program(p).apply(p);
    for t in &mut q.type_declarations {
        t.id.debug_name = None;
        strip_args(&mut t.long_id.generic_args);
    }
    for l in &mut q.libfunc_declarations {
        l.id.debug_name = None;
        strip_args(&mut l.long_id.generic_args);
    }
    for s in &mut q.statements {
        if let cairo_lang_sierra::program::GenStatement::Invocation(i) = s {
            i.libfunc_id.debug_name = None;
        }
    }
    for f in &mut q.funcs {
        f.id.debug_name = None;
        for p in &mut f.params {
            p.ty.debug_name = None;
        }
        for t in f.signature.param_types.iter_mut().chain(f.signature.ret_types.iter_mut()) {
            t.debug_name = None;
        }
    }
    q
}

fn strip_args(args: &mut Vec<cairo_lang_sierra::program::GenericArg>) {
    use cairo_lang_sierra::program::GenericArg;
    for a in args {
        match a {
            GenericArg::Type(t) => t.debug_name = None,
            GenericArg::UserFunc(f) => f.debug_name = None,
            GenericArg::Libfunc(l) => l.debug_name = None,
            GenericArg::Value(_) | GenericArg::UserType(_) => {}
        }
    }
}

pub fn casm_text(program: &Program) -> String {
    let info = match ProgramRegistryInfo::new(program) {
        Ok(i) => i,
        Err(e) => return format!("ERR registry: {e}"),
    };
    let metadata = match calc_metadata(program, &info, Default::default()) {
        Ok(m) => m,
        Err(e) => return format!("ERR metadata: {e}"),
    };
    match cairo_lang_sierra_to_casm::compiler::compile(
        program,
        &info,
        &metadata,
        SierraToCasmConfig { gas_usage_check: true, max_bytecode_size: usize::MAX },
    ) {
        Ok(p) => p.to_string(),
        Err(e) => format!("ERR casm: {e}"),
    }
}

/// Compiles the main crates of an already configured database and returns every observable.
/// `want_casm`: also lower the Sierra to CASM.  Never panics on compile errors (they are
/// observations: diagnostics + "ERR ...").
pub fn observe(db: &RootDatabase, main: &[CrateInput], entry: Entry, contracts: bool, want_casm: bool) -> Obs {
    let mut obs: Obs = vec![];
    let main_ids = CrateInput::into_crate_ids(db, main.to_vec());
    let mut diag = String::new();
    // (1) debug-name ids
    let named: Result<Program, String> = match entry {
        Entry::Artifact => {
            let cfg = CompilerConfig {
                diagnostics_reporter: reporter(&mut diag, main),
                replace_ids: true,
                ..Default::default()
            };
            compile_prepared_db_program_artifact(db, main_ids.clone(), cfg).map(|a| a.program).map_err(|e| e.to_string())
        }
        Entry::Plain => {
            let cfg = CompilerConfig {
                diagnostics_reporter: reporter(&mut diag, main),
                replace_ids: true,
                ..Default::default()
            };
            compile_prepared_db(db, main_ids.clone(), cfg).map(|p| p.program).map_err(|e| e.to_string())
        }
    };
    obs.push(("diagnostics".into(), diag));
    match named {
        Err(e) => {
            obs.push(("sierra_debug".into(), format!("ERR {e}")));
        }
        Ok(named) => {
            obs.push(("sierra_debug".into(), named.to_string()));
            // (2) canonical ids. `named` keeps the raw interned id next to the debug name, so
            // renumbering it and dropping the names gives the id-only program.
            let canon_named = CanonicalReplacer::from_program(&named).apply(&named);
            let canon = canonical_stripped(&named);
            obs.push(("sierra_canon".into(), canon.to_string()));
            obs.push((
                "sierra_canon_json".into(),
                serde_json::to_string(&canon_named).unwrap_or_else(|e| format!("ERR json {e}")),
            ));
            if want_casm {
                obs.push(("casm".into(), casm_text(&canon_named)));
            }
        }
    }
    if contracts {
        let contracts = find_contracts(db, &main_ids);
        let mut diag2 = String::new();
        let cfg = CompilerConfig {
            diagnostics_reporter: reporter(&mut diag2, main),
            replace_ids: true,
            ..Default::default()
        };
        let refs: Vec<_> = contracts.iter().collect();
        match cairo_lang_starknet::compile::compile_prepared_db(db, &refs, cfg) {
            Err(e) => obs.push(("class".into(), format!("ERR {e}"))),
            Ok(classes) => {
                let mut all = String::new();
                let mut all_casm = String::new();
                for (decl, class) in contracts.iter().zip(classes) {
                    use cairo_lang_defs::ids::TopLevelLanguageElementId;
                    let name = decl.submodule_id.full_path(db);
                    all.push_str(&format!("// {name}\n"));
                    all.push_str(&serde_json::to_string_pretty(&class).unwrap_or_else(|e| format!("ERR json {e}")));
                    all.push('\n');
                    if want_casm {
                        all_casm.push_str(&format!("// {name}\n"));
                        let txt = match class.extract_sierra_program(false) {
                            Err(e) => format!("ERR extract {e}"),
                            Ok(ex) => match CasmContractClass::from_contract_class(class, ex, false, usize::MAX) {
                                Ok(c) => serde_json::to_string_pretty(&c).unwrap_or_else(|e| format!("ERR json {e}")),
                                Err(e) => format!("ERR casm class: {e}"),
                            },
                        };
                        all_casm.push_str(&txt);
                        all_casm.push('\n');
                    }
                }
                obs.push(("class".into(), all));
                if want_casm {
                    obs.push(("casm_class".into(), all_casm));
                }
            }
        }
        obs.push(("class_diagnostics".into(), diag2));
        // the same contracts with every debug annotation switched on (statement -> function / code location maps,
        // per-function debug info): settings are inputs of the property, their output must be canonical too
        let mut diag3 = String::new();
        let cfg = CompilerConfig {
            diagnostics_reporter: reporter(&mut diag3, main),
            replace_ids: true,
            add_statements_functions: true,
            add_statements_code_locations: true,
            add_functions_debug_info: true,
            ..Default::default()
        };
        match cairo_lang_starknet::compile::compile_prepared_db(db, &refs, cfg) {
            Err(e) => obs.push(("class_dbg".into(), format!("ERR {e}"))),
            Ok(classes) => {
                let mut all = String::new();
                for class in classes {
                    all.push_str(&serde_json::to_string_pretty(&class.sierra_program_debug_info).unwrap_or_else(|e| format!("ERR json {e}")));
                    all.push('\n');
                }
                obs.push(("class_dbg".into(), all));
            }
        }
    }
    obs
}

pub fn obs_hashes(obs: &Obs) -> BTreeMap<String, String> {
    obs.iter().map(|(k, v)| (k.clone(), h64(v))).collect()
}

/// First differing line of two texts: (1-based line, a, b).
pub fn first_diff(a: &str, b: &str) -> (usize, String, String) {
    let mut ia = a.lines();
    let mut ib = b.lines();
    let mut n = 0;
    loop {
        n += 1;
        match (ia.next(), ib.next()) {
            (None, None) => return (0, String::new(), String::new()),
            (x, y) if x == y => continue,
            (x, y) => {
                let cut = |s: Option<&str>| s.map(|s| s.chars().take(300).collect()).unwrap_or_else(|| "<eof>".into());
                return (n, cut(x), cut(y));
            }
        }
    }
}

/// Compares two observations; returns the list of differing parts with the first differing line.
pub fn diff_obs(a: &Obs, b: &Obs) -> Vec<Value> {
    let mut out = vec![];
    let ma: BTreeMap<_, _> = a.iter().cloned().collect();
    let mb: BTreeMap<_, _> = b.iter().cloned().collect();
    for k in ma.keys().chain(mb.keys()).collect::<std::collections::BTreeSet<_>>() {
        let (x, y) = (ma.get(k), mb.get(k));
        if x != y {
            let (line, la, lb) = first_diff(x.map(|s| s.as_str()).unwrap_or("<absent>"), y.map(|s| s.as_str()).unwrap_or("<absent>"));
            out.push(serde_json::json!({"part": k, "line": line, "a": la, "b": lb}));
        }
    }
    out
}

// ------------------------------------------------------------------------------------------------
// panics of the code under test are observations; remember where the last one happened

pub static LAST_PANIC_AT: std::sync::Mutex<String> = std::sync::Mutex::new(String::new());

pub fn install_quiet_panic_hook() {
    std::panic::set_hook(Box::new(|info| {
        if let Some(l) = info.location() {
            if let Ok(mut g) = LAST_PANIC_AT.lock() {
                *g = format!("{}:{}", l.file(), l.line());
            }
            // one line on stderr (the drivers keep it in a log file): a panic of the harness itself must be visible
            eprintln!("panic at {}:{}", l.file(), l.line());
        }
    }));
}

pub fn panic_text(e: Box<dyn std::any::Any + Send>) -> String {
    let msg = if let Some(s) = e.downcast_ref::<String>() {
        s.clone()
    } else if let Some(s) = e.downcast_ref::<&str>() {
        s.to_string()
    } else {
        "<non-string panic>".into()
    };
    let at = LAST_PANIC_AT.lock().map(|g| g.clone()).unwrap_or_default();
    // Panic messages of the compiler may quote raw interned ids (e.g. `generic_args: [[275486]]`), which
    // legitimately differ between databases: digits are not part of the observation.
    let mut norm = String::with_capacity(msg.len());
    let mut in_digits = false;
    for ch in msg.chars() {
        if ch.is_ascii_digit() {
            if !in_digits {
                norm.push('#');
            }
            in_digits = true;
        } else {
            in_digits = false;
            norm.push(ch);
        }
    }
    format!("{norm} @ {at}")
}

//! C19 harness: compiles contracts with the real starknet compiler, builds CASM classes along the routes
//! emitted by TLC from specs/CasmClass/ClassRoutes.tla (binding R) and exports an abstract view of every
//! compiled class for the predicates of specs/CasmClass/CasmClass.tla (binding V).
//!
//! usage: c19_class run <routes.ndjson> <results.ndjson> <views.ndjson> <tier> [--only <id>]
use std::collections::{BTreeMap, HashMap};
use std::path::{Path, PathBuf};
use std::sync::Mutex;

use cairo_lang_compiler::CompilerConfig;
use cairo_lang_compiler::db::RootDatabase;
use cairo_lang_compiler::diagnostics::DiagnosticsReporter;
use cairo_lang_defs::ids::TopLevelLanguageElementId;
use cairo_lang_sierra::extensions::gas::{CostTokenMap, CostTokenType};
use cairo_lang_sierra::program::Program;
use cairo_lang_sierra_generator::canonical_id_replacer::CanonicalReplacer;
use cairo_lang_sierra_generator::db::SierraGenGroup;
use cairo_lang_sierra_generator::replace_ids::SierraIdReplacer;
use cairo_lang_sierra_to_casm::compiler::SierraToCasmConfig;
use cairo_lang_sierra_to_casm::metadata::{MetadataComputationConfig, calc_metadata};
use cairo_lang_sierra_type_size::ProgramRegistryInfo;
use cairo_lang_starknet::compile::{compile_contract_in_prepared_db, extract_semantic_entrypoints};
use cairo_lang_starknet::contract::find_contracts;
use cairo_lang_starknet_classes::casm_contract_class::{
    CasmContractClass, CasmContractEntryPoint, ENTRY_POINT_COST,
};
use cairo_lang_starknet_classes::contract_class::{ContractClass, ContractEntryPoint};
use cairo_lang_starknet_classes::NestedIntList;
use cvh::util::Rng;
use num_bigint::BigUint;
use num_traits::{Signed, ToPrimitive, Zero};
use rayon::prelude::*;
use serde_json::{Value, json};

#[path = "../codec_common.rs"]
mod codec_common;
use codec_common::*;

const P_HEX: &str = "800000000000011000000000000000000000000000000000000000000000001";

fn limbs16(v: &BigUint) -> Vec<u32> {
    // 16 limbs of 16 bits, most significant first (values >= 2^256 get more limbs in front)
    let mut out = vec![];
    let mut x = v.clone();
    let m = BigUint::from(65536u32);
    while !x.is_zero() {
        out.push((&x % &m).to_u32().unwrap());
        x /= &m;
    }
    while out.len() < 16 {
        out.push(0);
    }
    out.reverse();
    out
}

fn tree(t: &NestedIntList) -> Value {
    match t {
        NestedIntList::Leaf(n) => json!({"l": n}),
        NestedIntList::Node(v) => json!({"n": v.iter().map(tree).collect::<Vec<_>>()}),
    }
}

// ------------------------------------------------------------------------------------------------
// Routes

#[derive(Default)]
struct Trie {
    children: BTreeMap<String, Trie>,
    is_path: bool,
}
impl Trie {
    fn insert(&mut self, steps: &[String]) {
        let mut n = self;
        for s in steps {
            n = n.children.entry(s.clone()).or_default();
        }
        n.is_path = true;
    }
}

fn load_routes(path: &str) -> HashMap<String, Trie> {
    let mut m: HashMap<String, Trie> = HashMap::new();
    for v in cvh::util::read_ndjson(path) {
        let steps: Vec<String> = v["steps"].as_array().unwrap().iter().map(|s| s.as_str().unwrap().to_string()).collect();
        m.entry(format!("{}/{}", v["dbg0"].as_str().unwrap(), v["cur"].as_bool().unwrap())).or_default().insert(&steps);
    }
    m
}

#[derive(Clone)]
enum Rep {
    Obj(ContractClass),
    Json(String),
    Casm(Box<CasmContractClass>),
    CasmJson(String),
}

struct Ctx<'a> {
    id: &'a str,
    base_class: &'a ContractClass,
    base_casm: &'a CasmContractClass,
    base_json: String,
    base_hash: (String, String),
    compile_cache: HashMap<u64, Result<Box<CasmContractClass>, String>>,
    findings: Vec<Value>,
    routes: usize,
    steps: usize,
    compiles: usize,
}

fn compile_class(c: &ContractClass, py: bool, limit: usize) -> Result<CasmContractClass, String> {
    catch(|| -> Result<CasmContractClass, String> {
        let ex = c.extract_sierra_program(false).map_err(|e| format!("extract: {e}"))?;
        CasmContractClass::from_contract_class(c.clone(), ex, py, limit).map_err(|e| format!("{e}"))
    })
    .and_then(|x| x)
}

fn hashes(c: &CasmContractClass) -> Result<(String, String), String> {
    catch(|| (format!("{:x}", c.compiled_class_hash().to_biguint()), format!("{:x}", c.legacy_compiled_class_hash().to_biguint())))
}

impl Ctx<'_> {
    fn finding(&mut self, kind: &str, path: &[String], detail: String) {
        if self.findings.len() < 12 {
            self.findings.push(json!({"finding": kind, "item": self.id, "path": path, "detail": detail.chars().take(500).collect::<String>()}));
        }
    }

    fn step(&mut self, step: &str, cur: &Rep) -> Result<Rep, String> {
        let r = catch(|| -> Result<Rep, String> {
            Ok(match (step, cur) {
                ("ToJson", Rep::Obj(c)) => Rep::Json(serde_json::to_string(c).map_err(|e| e.to_string())?),
                ("FromJson", Rep::Json(s)) => Rep::Obj(serde_json::from_str(s).map_err(|e| e.to_string())?),
                ("Republish", Rep::Obj(c)) | ("RepublishDbg", Rep::Obj(c)) => {
                    let p = c.extract_sierra_program(step == "RepublishDbg").map_err(|e| format!("extract: {e}"))?.program;
                    let mut n = ContractClass::new(&p, c.entry_points_by_type.clone(), c.abi.clone(), Default::default())
                        .map_err(|e| format!("ContractClass::new: {e}"))?;
                    if step == "Republish" {
                        // a class published from the bare felts carries no names
                        n.sierra_program_debug_info = None;
                    }
                    Rep::Obj(n)
                }
                ("DropDebug", Rep::Obj(c)) => {
                    let mut n = c.clone();
                    n.sierra_program_debug_info = None;
                    Rep::Obj(n)
                }
                ("CasmToJson", Rep::Casm(c)) => Rep::CasmJson(serde_json::to_string(c.as_ref()).map_err(|e| e.to_string())?),
                ("CasmFromJson", Rep::CasmJson(s)) => Rep::Casm(Box::new(serde_json::from_str(s).map_err(|e| e.to_string())?)),
                (s, _) => return Err(format!("harness: step {s} not applicable")),
            })
        });
        r.and_then(|x| x)
    }

    fn check(&mut self, rep: &Rep, path: &[String]) {
        match rep {
            Rep::Obj(c) => {
                if c.sierra_program != self.base_class.sierra_program {
                    self.finding("published_program_changed", path, "sierra_program differs from the compiler's class".into());
                }
                if c.entry_points_by_type != self.base_class.entry_points_by_type {
                    self.finding("entry_points_changed", path, "entry_points_by_type differs".into());
                }
                if c.abi != self.base_class.abi || c.contract_class_version != self.base_class.contract_class_version {
                    self.finding("class_changed", path, "abi / contract_class_version differs".into());
                }
            }
            Rep::Casm(c) => {
                if c.as_ref() != self.base_casm {
                    let d = match serde_json::to_string(c.as_ref()) {
                        Ok(s) if s == self.base_json => "objects differ, JSON equal".to_string(),
                        Ok(s) => format!("JSON lengths {} vs {}", s.len(), self.base_json.len()),
                        Err(e) => e.to_string(),
                    };
                    self.finding("compiled_class_differs", path, d);
                }
                match hashes(c) {
                    Ok(h) if h == self.base_hash => {}
                    Ok(h) => self.finding("class_hash_differs", path, format!("{h:?} vs {:?}", self.base_hash)),
                    Err(e) => self.finding("class_hash_failed", path, e),
                }
            }
            _ => {}
        }
    }

    fn dfs(&mut self, node: &Trie, cur: &Rep, path: &mut Vec<String>) {
        for (step, child) in &node.children {
            path.push(step.clone());
            self.steps += 1;
            if child.is_path {
                self.routes += 1;
            }
            let next = if step == "Compile" {
                match cur {
                    Rep::Obj(c) => {
                        // identical input (byte-identical class JSON) is compiled once
                        let key = fnv1a(&serde_json::to_string(c).unwrap_or_default());
                        if !self.compile_cache.contains_key(&key) {
                            self.compiles += 1;
                            let r = compile_class(c, false, usize::MAX).map(Box::new);
                            self.compile_cache.insert(key, r);
                        }
                        self.compile_cache[&key].clone().map(Rep::Casm)
                    }
                    _ => Err("harness: Compile on a non-object".into()),
                }
            } else {
                self.step(step, cur)
            };
            match next {
                Err(e) => self.finding("route_step_failed", path, e),
                Ok(n) => {
                    self.check(&n, path);
                    self.dfs(child, &n, path);
                }
            }
            path.pop();
        }
    }
}

// ------------------------------------------------------------------------------------------------
// Views

fn ep_views(class_eps: &[ContractEntryPoint], casm_eps: &[CasmContractEntryPoint]) -> Result<Vec<Value>, String> {
    if class_eps.len() != casm_eps.len() {
        return Err(format!("{} class entry points, {} compiled", class_eps.len(), casm_eps.len()));
    }
    let mut v = vec![];
    for (a, b) in class_eps.iter().zip(casm_eps) {
        if a.selector != b.selector {
            return Err(format!("entry point order/selectors differ: {:x} vs {:x}", a.selector, b.selector));
        }
        v.push(json!({"sel": limbs16(&b.selector), "off": b.offset, "builtins": b.builtins, "fidx": a.function_idx}));
    }
    Ok(v)
}

/// Offsets at which instructions start, found from the bytecode alone: an instruction occupies two words
/// iff its op1 source is an immediate (flag bit 50 of the first word).
fn instruction_starts(bytecode: &[BigUint], code_end: usize) -> (Vec<usize>, bool) {
    let mut starts = vec![];
    let mut pc = 0usize;
    while pc < code_end && pc < bytecode.len() {
        starts.push(pc);
        let imm = bytecode[pc].bit(50);
        pc += if imm { 2 } else { 1 };
    }
    (starts, pc == code_end)
}

struct Compiled {
    casm: CasmContractClass,
    code_end: usize,
    stmt_starts: Vec<usize>,
}

fn compile_with_info(c: &ContractClass, py: bool, limit: usize) -> Result<Compiled, String> {
    catch(|| -> Result<Compiled, String> {
        let ex = c.extract_sierra_program(false).map_err(|e| format!("extract: {e}"))?;
        let (casm, dbg) =
            CasmContractClass::from_contract_class_with_debug_info(c.clone(), ex, py, limit).map_err(|e| format!("{e}"))?;
        let code_end = dbg.sierra_statement_info.iter().map(|s| s.end_offset).max().unwrap_or(0);
        let stmt_starts = dbg.sierra_statement_info.iter().map(|s| s.start_offset).collect();
        Ok(Compiled { casm, code_end, stmt_starts })
    })
    .and_then(|x| x)
}

fn entry_costs(program: &Program, class: &ContractClass) -> HashMap<u64, i64> {
    let mut out = HashMap::new();
    let r = catch(|| {
        let info = ProgramRegistryInfo::new(program).ok()?;
        let idxs: Vec<usize> = class
            .entry_points_by_type
            .constructor
            .iter()
            .chain(&class.entry_points_by_type.external)
            .chain(&class.entry_points_by_type.l1_handler)
            .map(|e| e.function_idx)
            .collect();
        let cfg = MetadataComputationConfig {
            function_set_costs: idxs
                .iter()
                .filter_map(|i| program.funcs.get(*i))
                .map(|f| (f.id.clone(), CostTokenMap::from_iter([(CostTokenType::Const, ENTRY_POINT_COST)])))
                .collect(),
            linear_gas_solver: true,
            linear_ap_change_solver: true,
            skip_non_linear_solver_comparisons: false,
            compute_runtime_costs: false,
        };
        let md = calc_metadata(program, &info, cfg).ok()?;
        let mut m = HashMap::new();
        for f in &program.funcs {
            if let Some(c) = md.gas_info.function_costs.get(&f.id) {
                m.insert(f.id.id, c.get(&CostTokenType::Const).copied().unwrap_or(0));
            }
        }
        Some(m)
    });
    if let Ok(Some(m)) = r {
        out = m;
    }
    out
}

fn class_view(id: &str, cfg: &str, class: &ContractClass, comp: &Compiled, costs: &HashMap<u64, i64>, limit_exact: bool) -> Result<Value, String> {
    let program = class.extract_sierra_program(false).map_err(|e| format!("extract: {e}"))?.program;
    let casm = &comp.casm;
    let gen_of: HashMap<u64, String> = program.type_declarations.iter().map(|d| (d.id.id, d.long_id.generic_id.0.to_string())).collect();
    let mut funcs = vec![];
    for f in &program.funcs {
        let start = comp.stmt_starts.get(f.entry_point.0).copied().unwrap_or(comp.code_end);
        let params: Vec<String> = f.signature.param_types.iter().map(|t| gen_of.get(&t.id).cloned().unwrap_or_else(|| "?".into())).collect();
        funcs.push(json!({"entry": f.entry_point.0, "start": start, "params": params, "cost": costs.get(&f.id.id).copied().unwrap_or(-1)}));
    }
    let bytecode: Vec<BigUint> = casm.bytecode.iter().map(|b| b.value.clone()).collect();
    let (starts, walk_ok) = instruction_starts(&bytecode, comp.code_end);
    let mut distinct: Vec<&BigUint> = bytecode.iter().collect();
    distinct.sort();
    distinct.dedup();
    let eps = json!({
        "EXTERNAL": ep_views(&class.entry_points_by_type.external, &casm.entry_points_by_type.external)?,
        "L1_HANDLER": ep_views(&class.entry_points_by_type.l1_handler, &casm.entry_points_by_type.l1_handler)?,
        "CONSTRUCTOR": ep_views(&class.entry_points_by_type.constructor, &casm.entry_points_by_type.constructor)?,
    });
    Ok(json!({
        "id": id, "cfg": cfg, "eps": eps, "funcs": funcs, "len": bytecode.len(), "code_end": comp.code_end,
        "has_seg": casm.bytecode_segment_lengths.is_some(),
        "seg": casm.bytecode_segment_lengths.as_ref().map(tree).unwrap_or(json!({"l": 0})),
        "hints": casm.hints.iter().map(|(o, _)| *o).collect::<Vec<_>>(),
        "has_py": casm.pythonic_hints.is_some(),
        "pyhints": casm.pythonic_hints.as_ref().map(|h| h.iter().map(|(o, _)| *o).collect::<Vec<_>>()).unwrap_or_default(),
        "starts": starts, "walk_ok": walk_ok,
        "ret_at": (comp.code_end..bytecode.len()).filter(|k| bytecode[*k] == BigUint::from(0x208b7fff7fff7ffeu64)).collect::<Vec<_>>(),
        "words": distinct.iter().map(|w| limbs16(w)).collect::<Vec<_>>(),
        "prime": limbs16(&casm.prime),
        "limit_exact": limit_exact,
    }))
}

// ------------------------------------------------------------------------------------------------
// One contract

struct Out {
    lines: Vec<Value>,
    views: Vec<Value>,
}

fn run_contract(id: &str, class: &ContractClass, direct_bytecode: Option<Vec<BigUint>>, routes: &HashMap<String, Trie>) -> Out {
    let mut lines = vec![];
    let mut views = vec![];
    let base = match compile_with_info(class, false, usize::MAX) {
        Ok(b) => b,
        Err(e) => {
            lines.push(json!({"finding": "compile_failed", "item": id, "path": ["Compile"], "detail": e}));
            lines.push(json!({"item": id, "routes": 0, "steps": 0, "compiles": 1, "bytecode": 0, "eps": [0, 0, 0], "views": 0, "builtins": []}));
            return Out { lines, views };
        }
    };
    let len = base.casm.bytecode.len();
    let mut findings: Vec<Value> = vec![];
    let mut compiles = 1;
    // configurations: pythonic hints and bytecode size limits
    let py = compile_with_info(class, true, usize::MAX);
    compiles += 1;
    match &py {
        Ok(p) => {
            let mut stripped = p.casm.clone();
            stripped.pythonic_hints = None;
            if stripped != base.casm {
                findings.push(json!({"finding": "config_changes_class", "item": id, "path": ["Compile(py)"], "detail": "add_pythonic_hints changes more than the pythonic_hints field"}));
            }
            match &p.casm.pythonic_hints {
                Some(h) => {
                    let ok = h.len() == p.casm.hints.len()
                        && h.iter().zip(&p.casm.hints).all(|((o1, l1), (o2, l2))| o1 == o2 && l1.len() == l2.len());
                    if !ok {
                        findings.push(json!({"finding": "pythonic_hints_misaligned", "item": id, "path": ["Compile(py)"], "detail": "pythonic hints are not one per hint at the same offsets"}));
                    }
                }
                None => findings.push(json!({"finding": "pythonic_hints_missing", "item": id, "path": ["Compile(py)"], "detail": "requested pythonic hints are absent"})),
            }
        }
        Err(e) => findings.push(json!({"finding": "compile_failed", "item": id, "path": ["Compile(py)"], "detail": e.clone()})),
    }
    let at_len = compile_class(class, false, len);
    compiles += 1;
    let mut limit_exact = true;
    match &at_len {
        Ok(c) if *c == base.casm => {}
        Ok(_) => findings.push(json!({"finding": "config_changes_class", "item": id, "path": ["Compile(limit=len)"], "detail": "max_bytecode_size = bytecode length changes the class"})),
        Err(e) => {
            limit_exact = false;
            findings.push(json!({"finding": "limit_rejects_fitting_class", "item": id, "path": ["Compile(limit=len)"], "detail": e.clone()}));
        }
    }
    if len > 0 {
        compiles += 1;
        if let Ok(_) = compile_class(class, false, len - 1) {
            limit_exact = false;
            findings.push(json!({"finding": "limit_not_enforced", "item": id, "path": ["Compile(limit=len-1)"], "detail": format!("bytecode of {len} words accepted under max_bytecode_size = {}", len - 1)}));
        }
    }
    // the compiler's own program, compiled without ever being felt-serialised
    if let Some(d) = &direct_bytecode {
        let b: Vec<&BigUint> = base.casm.bytecode.iter().map(|x| &x.value).collect();
        if d.len() != b.len() || d.iter().zip(&b).any(|(x, y)| x != *y) {
            findings.push(json!({"finding": "direct_differs", "item": id, "path": ["Direct"], "detail": format!("bytecode compiled from the compiler's Sierra ({} words) differs from the one compiled from the published class ({} words)", d.len(), b.len())}));
        }
    }
    let program = class.extract_sierra_program(false).map(|e| e.program);
    let costs = program.as_ref().map(|p| entry_costs(p, class)).unwrap_or_default();
    match class_view(id, "py=0", class, &base, &costs, limit_exact) {
        Ok(v) => views.push(v),
        Err(e) => findings.push(json!({"finding": "view_failed", "item": id, "path": ["View"], "detail": e})),
    }
    if let Ok(p) = &py {
        match class_view(id, "py=1", class, p, &costs, limit_exact) {
            Ok(v) => views.push(v),
            Err(e) => findings.push(json!({"finding": "view_failed", "item": id, "path": ["View(py)"], "detail": e})),
        }
    }
    // routes
    let base_json = serde_json::to_string(&base.casm).unwrap_or_default();
    let base_hash = hashes(&base.casm).unwrap_or_default();
    let dbg0 = if class.sierra_program_debug_info.is_some() { "full" } else { "none" };
    let mut ctx = Ctx {
        id,
        base_class: class,
        base_casm: &base.casm,
        base_json,
        base_hash,
        compile_cache: HashMap::new(),
        findings: vec![],
        routes: 0,
        steps: 0,
        compiles: 0,
    };
    if let Ok(s) = serde_json::to_string(class) {
        ctx.compile_cache.insert(fnv1a(&s), Ok(Box::new(base.casm.clone())));
    }
    let empty = Trie::default();
    let mut path = vec![];
    // is this class stamped with the versions the current code would stamp?
    let cur = catch(|| {
        let p = class.extract_sierra_program(false).ok()?.program;
        let n = ContractClass::new(&p, Default::default(), None, Default::default()).ok()?;
        Some(n.sierra_program[..6] == class.sierra_program[..6])
    })
    .ok()
    .flatten()
    .unwrap_or(false);
    ctx.dfs(routes.get(&format!("{dbg0}/{cur}")).unwrap_or(&empty), &Rep::Obj(class.clone()), &mut path);
    findings.extend(ctx.findings.drain(..));
    let mut builtins: Vec<String> = base
        .casm
        .entry_points_by_type
        .external
        .iter()
        .chain(&base.casm.entry_points_by_type.l1_handler)
        .chain(&base.casm.entry_points_by_type.constructor)
        .flat_map(|e| e.builtins.iter().cloned())
        .collect();
    builtins.sort();
    builtins.dedup();
    let eps = &base.casm.entry_points_by_type;
    lines.push(json!({"item": id, "routes": ctx.routes, "steps": ctx.steps, "compiles": compiles + ctx.compiles, "bytecode": len,
        "eps": [eps.external.len(), eps.l1_handler.len(), eps.constructor.len()], "views": views.len(), "builtins": builtins,
        "hints": base.casm.hints.len(), "dbg0": dbg0, "current_version": cur, "direct": direct_bytecode.is_some(),
        "segments": match &base.casm.bytecode_segment_lengths { Some(NestedIntList::Node(v)) => v.len() as i64, Some(_) => 1, None => -1 }}));
    lines.extend(findings);
    Out { lines, views }
}

// ------------------------------------------------------------------------------------------------
// Corpus

/// The bytecode obtained from the compiler's in-memory Sierra program of the contract (canonical ids,
/// never serialised), compiled with the metadata configuration of contract classes.
fn direct_bytecode(db: &RootDatabase, contract: &cairo_lang_starknet::contract::ContractDeclaration<'_>) -> Result<Vec<BigUint>, String> {
    catch(|| -> Result<Vec<BigUint>, String> {
        let eps = extract_semantic_entrypoints(db, contract).map_err(|e| e.to_string())?;
        let fns: Vec<_> = eps.external.iter().chain(&eps.l1_handler).chain(&eps.constructor).map(|f| f.value).collect();
        let n_entry = fns.len();
        let prog = db.get_sierra_program_for_functions(fns).as_ref().map_err(|_| "sierra generation failed".to_string())?.program.clone();
        let prog = CanonicalReplacer::from_program(&prog).apply(&prog);
        let info = ProgramRegistryInfo::new(&prog).map_err(|e| e.to_string())?;
        // the requested functions are the first `n_entry` functions of the generated program
        let cfg = MetadataComputationConfig {
            function_set_costs: prog.funcs.iter().take(n_entry).map(|f| (f.id.clone(), CostTokenMap::from_iter([(CostTokenType::Const, ENTRY_POINT_COST)]))).collect(),
            linear_gas_solver: true,
            linear_ap_change_solver: true,
            skip_non_linear_solver_comparisons: false,
            compute_runtime_costs: false,
        };
        let md = calc_metadata(&prog, &info, cfg).map_err(|e| e.to_string())?;
        let cp = cairo_lang_sierra_to_casm::compiler::compile(&prog, &info, &md, SierraToCasmConfig { gas_usage_check: true, max_bytecode_size: usize::MAX })
            .map_err(|e| e.to_string())?;
        let prime = BigUint::parse_bytes(P_HEX.as_bytes(), 16).unwrap();
        Ok(cp
            .assemble()
            .bytecode
            .iter()
            .map(|b| {
                let r = b.magnitude() % &prime;
                if b.is_negative() && !r.is_zero() { &prime - r } else { r }
            })
            .collect())
    })
    .and_then(|x| x)
}

enum Job {
    Crate { tag: String, dir: PathBuf, pick: Option<Vec<String>>, limit: usize, seed: u64 },
    Files(Vec<PathBuf>),
}

fn run_job(job: Job, routes: &HashMap<String, Trie>, only: &Option<String>) -> Vec<Out> {
    let want = |id: &str| only.as_ref().map(|o| id == o || id.starts_with(o.as_str())).unwrap_or(true);
    let mut outs = vec![];
    match job {
        Job::Files(files) => {
            for f in files {
                let id = format!("file:{}", f.strip_prefix(repo()).unwrap_or(&f).to_string_lossy());
                if !want(&id) {
                    continue;
                }
                let class: ContractClass = match std::fs::read_to_string(&f).map_err(|e| e.to_string()).and_then(|s| serde_json::from_str(&s).map_err(|e| e.to_string())) {
                    Ok(c) => c,
                    Err(e) => {
                        outs.push(Out { lines: vec![json!({"skipped": id, "why": e})], views: vec![] });
                        continue;
                    }
                };
                outs.push(run_contract(&id, &class, None, routes));
            }
        }
        Job::Crate { tag, dir, pick, limit, seed } => {
            let mut db = new_db(true);
            let inputs = match setup_checked(&mut db, &dir) {
                Ok(i) => i,
                Err(e) => {
                    outs.push(Out { lines: vec![json!({"skipped": tag, "why": e})], views: vec![] });
                    return outs;
                }
            };
            let ids = crate_ids(&db, &inputs);
            let contracts = find_contracts(&db, &ids);
            let mut names: Vec<(String, usize)> = contracts.iter().enumerate().map(|(k, c)| (c.submodule_id.full_path(&db), k)).collect();
            names.sort();
            if let Some(p) = &pick {
                names.retain(|(n, _)| p.iter().any(|x| n.contains(x.as_str())));
            }
            names.retain(|(n, _)| want(&format!("{tag}:{n}")));
            let mut rng = Rng::new(seed);
            while names.len() > limit {
                names.swap_remove(rng.below(names.len() as u64) as usize);
            }
            for (name, k) in names {
                let id = format!("{tag}:{name}");
                let cfg = CompilerConfig {
                    replace_ids: true,
                    diagnostics_reporter: DiagnosticsReporter::ignoring().with_crates(&inputs).allow_warnings(),
                    ..Default::default()
                };
                let class = catch(|| compile_contract_in_prepared_db(&db, Some(&name), ids.clone(), cfg).map_err(|e| format!("{e:#}"))).and_then(|x| x);
                match class {
                    Ok(class) => {
                        let direct = direct_bytecode(&db, &contracts[k]);
                        let mut out = run_contract(&id, &class, direct.as_ref().ok().cloned(), routes);
                        if let Err(e) = direct {
                            out.lines.push(json!({"note": "direct_route_unavailable", "item": id, "why": e}));
                        }
                        outs.push(out);
                    }
                    Err(e) => outs.push(Out { lines: vec![json!({"skipped": id, "why": e.chars().take(600).collect::<String>()})], views: vec![] }),
                }
            }
        }
    }
    outs
}

// ---- generated contracts

struct Body {
    name: &'static str,
    code: &'static str,
}

const BODIES: [Body; 9] = [
    Body { name: "plain", code: "x + 1" },
    Body { name: "pedersen", code: "core::pedersen::pedersen(x, 7)" },
    Body { name: "poseidon", code: "core::poseidon::poseidon_hash_span(array![x, 3].span())" },
    Body { name: "bitwise", code: "{ let a: u128 = x.try_into().unwrap_or(5); (a & 0xff00 | (a ^ 3)).into() }" },
    Body { name: "range_check", code: "{ let a: u64 = x.try_into().unwrap_or(5); (a / 3 + a % 7).into() }" },
    Body {
        name: "ec_op",
        code: "{ match core::ec::EcPointTrait::new_from_x(x) { Some(p) => { let mut s = core::ec::EcStateTrait::init(); s.add_mul(3, p.try_into().unwrap()); match s.finalize_nz() { Some(_) => 1, None => 0 } }, None => 2 } }",
    },
    Body { name: "dict", code: "{ let mut d: core::dict::Felt252Dict<felt252> = Default::default(); d.insert(x, 5); d.get(x) + d.get(1) }" },
    Body { name: "storage", code: "{ self.a.write(x); self.a.read() + 1 }" },
    Body { name: "mix", code: "{ let mut d: core::dict::Felt252Dict<u128> = Default::default(); d.insert(x, 9); let b: u128 = d.get(x) & 12; core::pedersen::pedersen(b.into(), core::poseidon::poseidon_hash_span(array![x].span())) }" },
];

fn gen_contract(rng: &mut Rng, k: usize) -> String {
    let n_ext = match k % 5 {
        0 => 0,
        1 => 1,
        _ => 1 + rng.below(5) as usize,
    };
    let n_view = rng.below(3) as usize;
    let n_l1 = if k % 3 == 0 { 0 } else { rng.below(3) as usize };
    let ctor = k % 2 == 1;
    let mut s = String::new();
    s.push_str(&format!("#[starknet::contract]\nmod gen_{k} {{\n    use starknet::storage::{{StoragePointerReadAccess, StoragePointerWriteAccess}};\n    use core::ec::{{EcPointTrait, EcStateTrait}};\n    #[storage]\n    struct Storage {{ a: felt252 }}\n"));
    if ctor {
        let b = rng.pick(&BODIES);
        s.push_str(&format!("    #[constructor]\n    fn constructor(ref self: ContractState, x: felt252) {{ let v: felt252 = {}; self.a.write(v); }}\n", b.code));
    }
    for i in 0..n_ext {
        let b = rng.pick(&BODIES);
        s.push_str(&format!("    #[external(v0)]\n    fn ext_{i}_{}(ref self: ContractState, x: felt252) -> felt252 {{ {} }}\n", b.name, b.code));
    }
    for i in 0..n_view {
        let b = &BODIES[rng.below(7) as usize];
        s.push_str(&format!("    #[external(v0)]\n    fn view_{i}_{}(self: @ContractState, x: felt252) -> felt252 {{ {} }}\n", b.name, b.code));
    }
    for i in 0..n_l1 {
        let b = rng.pick(&BODIES);
        s.push_str(&format!("    #[l1_handler]\n    fn l1_{i}_{}(ref self: ContractState, from_address: felt252, x: felt252) {{ let v: felt252 = {}; self.a.write(v); }}\n", b.name, b.code));
    }
    s.push_str("}\n");
    s
}

fn walk(dir: &Path, out: &mut Vec<PathBuf>, pred: &dyn Fn(&Path) -> bool) {
    let Ok(rd) = std::fs::read_dir(dir) else { return };
    let mut es: Vec<PathBuf> = rd.filter_map(|e| e.ok().map(|e| e.path())).collect();
    es.sort();
    for p in es {
        if p.is_dir() {
            let n = p.file_name().unwrap().to_string_lossy().to_string();
            if n != "target" && n != ".git" {
                walk(&p, out, pred);
            }
        } else if pred(&p) {
            out.push(p);
        }
    }
}

fn main() {
    let args: Vec<String> = std::env::args().collect();
    if args.len() < 6 || args[1] != "run" {
        eprintln!("usage: c19_class run <routes.ndjson> <results.ndjson> <views.ndjson> <tier> [--only <id>]");
        std::process::exit(2);
    }
    let tier = args[5].as_str();
    let mut only: Option<String> = None;
    let mut i = 6;
    while i < args.len() {
        if args[i] == "--only" {
            only = Some(args[i + 1].clone());
            i += 1;
        }
        i += 1;
    }
    std::panic::set_hook(Box::new(|_| {}));
    let seed = cvh::util::seed_from_env();
    let mut rng = Rng::new(seed ^ 0xC19);
    let routes = load_routes(&args[2]);
    let scratch = PathBuf::from(std::env::var("VERIF_SCRATCH").unwrap_or_else(|_| "/verif/work/c19".into()));
    std::fs::create_dir_all(&scratch).unwrap();
    let quick = tier == "quick";

    let mut jobs = vec![];
    // published classes of the repository
    let mut files = vec![];
    walk(&repo().join("crates"), &mut files, &|p| {
        let n = p.file_name().unwrap().to_string_lossy().to_string();
        n.ends_with(".contract_class.json") && !n.ends_with(".compiled_contract_class.json")
    });
    if quick {
        // always keep the classes that exercise every builtin, constants segments and circuits
        let pinned = |p: &PathBuf| {
            let n = p.file_name().unwrap().to_string_lossy().to_string();
            n.starts_with("max_entrypoint__") || n.starts_with("circuit_contract__") || n.starts_with("libfuncs_coverage__")
        };
        let mut keep: Vec<PathBuf> = files.iter().filter(|p| pinned(p)).cloned().collect();
        files.retain(|p| !pinned(p));
        while files.len() > 5 {
            files.swap_remove(rng.below(files.len() as u64) as usize);
        }
        keep.extend(files);
        files = keep;
    }
    for ch in files.chunks(3) {
        jobs.push(Job::Files(ch.to_vec()));
    }
    // contracts compiled from source
    let lvl = repo().join("crates").join("cairo-lang-starknet").join("cairo_level_tests");
    // several workers, each with its own database, take a slice of the contracts
    for part in 0..6u64 {
        jobs.push(Job::Crate { tag: "lvl".into(), dir: lvl.clone(), pick: Some(vec![format!("#part{part}")]), limit: if quick { 2 } else { usize::MAX }, seed: seed.wrapping_add(part) });
    }
    // generated contracts
    let n_gen = if quick { 12 } else { 80 };
    let gen_root = scratch.join(format!("gen_{seed}"));
    let _ = std::fs::remove_dir_all(&gen_root);
    for chunk in 0..((n_gen + 3) / 4) {
        let d = gen_root.join(format!("c{chunk}"));
        std::fs::create_dir_all(&d).unwrap();
        let mut lib = String::new();
        for k in (chunk * 4)..((chunk + 1) * 4).min(n_gen) {
            let mut r = Rng::new(seed.wrapping_mul(7919).wrapping_add(k as u64));
            std::fs::write(d.join(format!("gen_{k}.cairo")), gen_contract(&mut r, k)).unwrap();
            lib.push_str(&format!("mod gen_{k};\n"));
        }
        std::fs::write(d.join("lib.cairo"), lib).unwrap();
        std::fs::write(d.join("cairo_project.toml"), format!("[crate_roots]\ngenc{chunk} = \".\"\n\n[config.global]\nedition = \"2024_07\"\n")).unwrap();
        jobs.push(Job::Crate { tag: "gen".into(), dir: d, pick: None, limit: usize::MAX, seed });
    }

    // expand the `#partN` picks (contracts of the level-tests crate split over workers)
    let jobs: Vec<Job> = jobs
        .into_iter()
        .map(|j| match j {
            Job::Crate { tag, dir, pick: Some(p), limit, seed } if p.len() == 1 && p[0].starts_with("#part") => {
                let part: usize = p[0][5..].parse().unwrap();
                let mut names: Vec<String> = list_files(&dir.join("contracts"), ".cairo").iter().map(|f| f.file_stem().unwrap().to_string_lossy().to_string()).collect();
                names.sort();
                let mine: Vec<String> = names.into_iter().enumerate().filter(|(k, _)| k % 6 == part).map(|(_, n)| format!("::contracts::{n}::")).collect();
                Job::Crate { tag, dir, pick: Some(mine), limit, seed }
            }
            other => other,
        })
        .collect();

    let results: Mutex<Vec<Out>> = Mutex::new(vec![]);
    rayon::ThreadPoolBuilder::new().num_threads(12).stack_size(256 << 20).build().unwrap().install(|| {
        jobs.into_par_iter().for_each(|job| {
            let r = run_job(job, &routes, &only);
            results.lock().unwrap().extend(r);
        });
    });
    let mut out = cvh::util::NdjsonWriter::create(&args[3]);
    let mut views = cvh::util::NdjsonWriter::create(&args[4]);
    let mut summary: BTreeMap<&str, u64> = BTreeMap::new();
    let mut all = results.into_inner().unwrap();
    all.sort_by_key(|o| o.lines.first().map(|l| l.to_string()));
    for o in all {
        for l in &o.lines {
            if l.get("finding").is_some() {
                *summary.entry("findings").or_default() += 1;
            } else if l.get("item").is_some() && l.get("note").is_none() {
                *summary.entry("contracts").or_default() += 1;
                *summary.entry("routes").or_default() += l["routes"].as_u64().unwrap_or(0);
                *summary.entry("compiles").or_default() += l["compiles"].as_u64().unwrap_or(0);
            } else if l.get("skipped").is_some() {
                *summary.entry("skipped").or_default() += 1;
            }
            out.write(l);
        }
        for v in &o.views {
            *summary.entry("views").or_default() += 1;
            views.write(v);
        }
    }
    out.write(&json!({"summary": summary}));
    out.finish();
    views.finish();
}

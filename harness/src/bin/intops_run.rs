//! C06 — binds `specs/IntOps` to the real compiler + corelib + VM.
//!
//! usage:
//!   intops_run table   <rows.ndjson> <out.ndjson> <scratch-dir>
//!       R binding: every cell of every TLC-computed table row (REPLAY lines, kind "table") is
//!       executed as its own call of a generated Cairo function through `SierraCasmRunner`
//!       (operands are run-time arguments) and compared with the spec's cell.
//!   intops_run wide    <plan.json> <events.ndjson> <scratch-dir>
//!       V binding: runs generated Cairo functions on boundary x random operands of the wide
//!       types and logs one event per call for `IntOpsTrace.tla`.
//!   intops_run confirm <events.ndjson> <ids.json> <out.ndjson>
//!       re-derives the expected outcome of the given events with num-bigint, independently of
//!       both the spec and the code under test.
#[path = "../intops_common.rs"]
mod intops_common;

use std::collections::{BTreeMap, BTreeSet};
use std::path::Path;
use std::sync::Mutex;
use std::sync::atomic::{AtomicU64, Ordering};

use cvh::util::{NdjsonWriter, Rng, read_ndjson, seed_from_env};
use intops_common::*;
use num_bigint::BigInt;
use num_integer::Integer;
use num_traits::{One, Signed, ToPrimitive, Zero};
use rayon::prelude::*;
use serde_json::{Value, json};

/// One small program per operation: the cost of a call grows with the size of the program (it is
/// assembled, loaded and relocated on every run), so functions are not pooled.
fn program_for(op: &str, ty: &str, to: &str) -> String {
    format!("{PRELUDE}{}{}", render_fn(op, ty, to).1, render_row_fn(op, ty, to).1)
}

type FnKey = (String, String, String);

fn compile_keys(keys: &[FnKey], scratch: &str, prefix: &str, with_rows: bool) -> BTreeMap<FnKey, cairo_lang_runner::SierraCasmRunner> {
    let items: Vec<(String, String)> = keys
        .iter()
        .map(|(op, ty, to)| {
            let src = if with_rows { program_for(op, ty, to) } else { program_for_wide(op, ty, to) };
            (format!("{prefix}_{}", fn_name(op, ty, to)), src)
        })
        .collect();
    let rs = compile_many(Path::new(scratch), &items, Folding::On);
    keys.iter()
        .cloned()
        .zip(rs)
        .map(|(k, r)| {
            let r = r.unwrap_or_else(|e| panic!("generated program for {k:?} does not compile:\n{e}"));
            (k, r)
        })
        .collect()
}

/// Observed outcome as a table cell (the encoding of `MCIntOps.Enc`).
fn cell_of(out: &Outcome) -> Result<Vec<i64>, String> {
    match out {
        Outcome::Ok(v) => small(v),
        Outcome::Panic(d) => {
            let (c, msg) = panic_class(d);
            Ok(vec![match c {
                "ovf" => 100001,
                "unf" => 100002,
                "div0" => 100003,
                _ => return Err(format!("unclassified panic '{msg}'")),
            }])
        }
        Outcome::VmError(e) => Err(format!("vm error: {e}")),
        Outcome::Error(e) => Err(format!("runner error: {e}")),
    }
}
fn small(v: &[BigInt]) -> Result<Vec<i64>, String> {
    v.iter()
        .map(|x| x.to_i64().filter(|n| n.abs() < 100000).ok_or(format!("result {x} outside the table encoding")))
        .collect()
}
fn is_panic_cell(c: &[i64]) -> bool {
    c.len() == 1 && c[0] >= 100000
}
/// 100000 = "out of range, direction not named by corelib": matches an Overflow or Underflow panic.
fn cells_agree(exp: &[i64], obs: &[i64]) -> bool {
    exp == obs || (exp == [100000] && (obs == [100001] || obs == [100002]))
}

fn table(rows_path: &str, out_path: &str, scratch: &str) {
    let rows = read_ndjson(rows_path);
    let mut fns: BTreeSet<FnKey> = BTreeSet::new();
    for r in &rows {
        fns.insert((
            r["op"].as_str().unwrap().to_string(),
            r["ty"].as_str().unwrap().to_string(),
            r["to"].as_str().unwrap().to_string(),
        ));
    }
    let t0 = std::time::Instant::now();
    let runners = compile_keys(&fns.iter().cloned().collect::<Vec<_>>(), scratch, "c06", true);
    let compile_s = t0.elapsed().as_secs_f64();
    let mismatches: Mutex<Vec<Value>> = Mutex::new(vec![]);
    let n_cells = AtomicU64::new(0);
    let n_panics = AtomicU64::new(0);
    let n_na = AtomicU64::new(0);
    let n_runs = AtomicU64::new(0);
    let per_fn: Mutex<BTreeMap<String, u64>> = Mutex::new(BTreeMap::new());
    let t1 = std::time::Instant::now();
    rows.par_iter().for_each(|r| {
        let (op, ty, to) = (r["op"].as_str().unwrap(), r["ty"].as_str().unwrap(), r["to"].as_str().unwrap());
        let runner = &runners[&(op.to_string(), ty.to_string(), to.to_string())];
        let name = fn_name(op, ty, to);
        let row_name = format!("r_{}", &name[2..]);
        let bin = r["mode"] == "bin";
        let x0 = r["x0"].as_i64().unwrap();
        let v0 = r["v0"].as_i64().unwrap();
        let exp: Vec<Vec<i64>> = r["cells"]
            .as_array()
            .unwrap()
            .iter()
            .map(|c| c.as_array().unwrap().iter().map(|v| v.as_i64().unwrap()).collect())
            .collect();
        let mut obs: Vec<Option<Result<Vec<i64>, String>>> = vec![None; exp.len()];
        let single = |j: usize| -> Result<Vec<i64>, String> {
            let v = v0 + j as i64;
            let args: Vec<BigInt> = if bin { vec![x0.into(), v.into()] } else { vec![v.into()] };
            n_runs.fetch_add(1, Ordering::Relaxed);
            let out = run_fn(runner, &name, &args);
            if matches!(out, Outcome::Panic(_)) {
                n_panics.fetch_add(1, Ordering::Relaxed);
            }
            cell_of(&out)
        };
        // maximal runs of cells the spec expects to return: one VM run each; everything else
        // (expected panics, and any segment that does not come back as expected) cell by cell.
        let mut j = 0;
        while j < exp.len() {
            if exp[j].is_empty() {
                n_na.fetch_add(1, Ordering::Relaxed);
                j += 1;
                continue;
            }
            if is_panic_cell(&exp[j]) {
                obs[j] = Some(single(j));
                j += 1;
                continue;
            }
            let w = exp[j].len();
            let mut k = j;
            while k < exp.len() && !exp[k].is_empty() && !is_panic_cell(&exp[k]) && exp[k].len() == w {
                k += 1;
            }
            let mut args: Vec<BigInt> = if bin { vec![x0.into()] } else { vec![] };
            args.push((v0 + j as i64).into());
            args.push(((k - j) as i64).into());
            n_runs.fetch_add(1, Ordering::Relaxed);
            let seg = run_fn_array(runner, &row_name, &args);
            match seg {
                Outcome::Ok(v) if v.len() == w * (k - j) => {
                    for (i, c) in v.chunks(w).enumerate() {
                        obs[j + i] = Some(small(c));
                    }
                }
                _ => {
                    for i in j..k {
                        obs[i] = Some(single(i));
                    }
                }
            }
            j = k;
        }
        let mut local = 0u64;
        for (j, o) in obs.iter().enumerate() {
            let Some(o) = o else { continue };
            local += 1;
            let ok = matches!(o, Ok(c) if cells_agree(&exp[j], c));
            if !ok {
                let v = v0 + j as i64;
                let mut m = mismatches.lock().unwrap();
                if m.len() < 2000 {
                    m.push(json!({"kind": "cell", "op": op, "ty": ty, "to": to,
                        "args": if bin { vec![x0, v] } else { vec![v] },
                        "expected": exp[j],
                        "observed": match o { Ok(c) => json!(c), Err(e) => json!(e) }}));
                }
            }
        }
        n_cells.fetch_add(local, Ordering::Relaxed);
        *per_fn.lock().unwrap().entry(name).or_insert(0) += local;
    });
    let mut w = NdjsonWriter::create(out_path);
    let m = mismatches.into_inner().unwrap();
    w.write(&json!({"summary": {
        "rows": rows.len(), "cells": n_cells.load(Ordering::Relaxed), "functions": fns.len(),
        "vm_runs": n_runs.load(Ordering::Relaxed),
        "panics_observed": n_panics.load(Ordering::Relaxed), "na": n_na.load(Ordering::Relaxed),
        "mismatches": m.len(), "compile_s": compile_s, "run_s": t1.elapsed().as_secs_f64(),
        "per_fn": per_fn.into_inner().unwrap()}}));
    for x in &m {
        w.write(x);
    }
    w.finish();
}

fn main() {
    let a: Vec<String> = std::env::args().collect();
    match a.get(1).map(|s| s.as_str()) {
        Some("table") => table(&a[2], &a[3], &a[4]),
        Some("wide") => wide(&a[2], &a[3], &a[4]),
        Some("confirm") => confirm(&a[2], &a[3], &a[4]),
        Some("single") => single(&a[2], &a[3], &a[4]),
        _ => {
            eprintln!("usage: intops_run table|wide|confirm ...");
            std::process::exit(2);
        }
    }
}

// ------------------------------------------------------------------------------------------------
// Wide types: operand generation, event recording, num-bigint confirmation

const WIDE_TYPES: [&str; 10] = ["u16", "u32", "u64", "u128", "i16", "i32", "i64", "i128", "u256", "felt252"];
const ALL_TARGETS: [&str; 12] =
    ["u8", "u16", "u32", "u64", "u128", "i8", "i16", "i32", "i64", "i128", "u256", "felt252"];

fn is_int(t: &str) -> bool {
    INT_TYPES.contains(&t)
}
fn unsigned_int(t: &str) -> bool {
    is_int(t) && !signed(t)
}
fn into_ok(s: &str, u: &str) -> bool {
    (s == u && is_int(s))
        || (unsigned_int(s) && is_int(u) && bits(s) < bits(u))
        || (is_int(s) && signed(s) && is_int(u) && signed(u) && bits(s) < bits(u))
        || (is_int(s) && u == "felt252")
        || (unsigned_int(s) && u == "u256")
        || (s == "felt252" && u == "u256")
}
fn try_into_ok(s: &str, u: &str) -> bool {
    (is_int(s) && is_int(u))
        || (s == "felt252" && is_int(u))
        || (s == "u256" && (unsigned_int(u) || u == "felt252"))
        || into_ok(s, u)
}

/// The operations exercised on a wide type: (op, to).
fn wide_ops(ty: &str) -> Vec<(String, String)> {
    let mut v: Vec<&str> = vec![];
    if ty == "felt252" {
        v.extend(["add", "sub", "mul", "neg", "fdiv", "eq", "ne", "pow"]);
    } else if signed(ty) {
        v.extend([
            "add", "sub", "mul", "div", "rem", "divrem", "overflowing_add", "overflowing_sub", "wrapping_add",
            "wrapping_sub", "checked_add", "checked_sub", "saturating_add", "saturating_sub", "eq", "ne", "lt", "le",
            "gt", "ge", "neg", "pow",
        ]);
        if ty != "i128" {
            v.push("wide_mul");
            v.push("wide_square");
        }
    } else {
        v.extend([
            "add", "sub", "mul", "div", "rem", "divrem", "overflowing_add", "overflowing_sub", "overflowing_mul",
            "wrapping_add", "wrapping_sub", "wrapping_mul", "checked_add", "checked_sub", "checked_mul",
            "saturating_add", "saturating_sub", "saturating_mul", "wide_mul", "wide_square", "eq", "ne", "lt", "le", "gt", "ge",
            "and", "or", "xor", "not", "sqrt", "pow",
        ]);
        if ty == "u256" {
            v.extend(["div512", "mul_mod_n", "div_mod_n", "inv_mod"]);
        }
    }
    let mut out: Vec<(String, String)> = v.into_iter().map(|o| (o.to_string(), String::new())).collect();
    for u in ALL_TARGETS {
        if into_ok(ty, u) {
            out.push(("into".into(), u.into()));
        }
        if try_into_ok(ty, u) {
            out.push(("try_into".into(), u.into()));
        }
    }
    out
}

fn pow2(k: u32) -> BigInt {
    BigInt::one() << k
}
fn isqrt(x: &BigInt) -> BigInt {
    x.sqrt()
}
fn in_range(ty: &str, v: &BigInt) -> bool {
    if ty == "felt252" {
        let h: BigInt = (prime() - 1) / 2;
        *v >= -&h && *v <= h
    } else {
        *v >= lo(ty) && *v <= hi(ty)
    }
}
/// Boundary values of a type (felt252: centred representatives).
fn boundary(ty: &str) -> Vec<BigInt> {
    let mut s: BTreeSet<BigInt> = BTreeSet::new();
    let (l, h) = if ty == "felt252" {
        let h: BigInt = (prime() - 1) / 2;
        (-&h, h)
    } else {
        (lo(ty), hi(ty))
    };
    let n = bits(ty);
    for d in 0..3 {
        s.insert(BigInt::from(d));
        s.insert(&h - d);
        s.insert(&l + d);
        s.insert(BigInt::from(-d));
    }
    let mut ks = vec![n / 2, n - 1, n - 2, 7, 8, 15, 16, 31, 32, 63, 64, 127, 128, 250, 251];
    ks.retain(|k| *k < 256);
    for k in ks {
        for d in -1..=1 {
            s.insert(pow2(k) + BigInt::from(d));
            s.insert(-(pow2(k) + BigInt::from(d)));
        }
    }
    // squares around the largest root
    let r = isqrt(&h);
    for d in -1..=1 {
        s.insert(&r * &r + d);
        s.insert(&r + d);
    }
    s.into_iter().filter(|v| in_range(ty, v)).collect()
}
fn random_value(ty: &str, rng: &mut Rng) -> BigInt {
    let (l, h) = if ty == "felt252" {
        let hh: BigInt = (prime() - 1) / 2;
        (-&hh, hh)
    } else {
        (lo(ty), hi(ty))
    };
    let n = bits(ty) as u64;
    let v = match rng.below(6) {
        0 => {
            // uniform bit pattern
            let mut v = BigInt::zero();
            for _ in 0..n.div_ceil(32) {
                v = (v << 32) + BigInt::from(rng.next_u64() & 0xffff_ffff);
            }
            &l + v % (&h - &l + 1)
        }
        1 => {
            // random bit length
            let k = 1 + rng.below(n);
            let mut v = BigInt::zero();
            for _ in 0..k.div_ceil(32) {
                v = (v << 32) + BigInt::from(rng.next_u64() & 0xffff_ffff);
            }
            let v = v % pow2(k as u32);
            if l.is_negative() && rng.chance(1, 2) { -v } else { v }
        }
        2 => &h - BigInt::from(rng.below(1000)),
        3 => &l + BigInt::from(rng.below(1000)),
        4 => BigInt::from(rng.range(-300, 300)),
        _ => {
            // sparse: a few set bits
            let mut v = BigInt::zero();
            for _ in 0..(1 + rng.below(3)) {
                v += pow2(rng.below(n) as u32);
            }
            if l.is_negative() && rng.chance(1, 2) { -v } else { v }
        }
    };
    if in_range(ty, &v) { v } else { BigInt::from(rng.below(100)) }
}

fn clamp_pairs(ty: &str, ps: Vec<(BigInt, BigInt)>) -> Vec<(BigInt, BigInt)> {
    ps.into_iter().filter(|(a, b)| in_range(ty, a) && in_range(ty, b)).collect()
}

/// Operand tuples for one operation: boundary cross product (sampled down to `nb`), structured
/// edge pairs (products / quotients around the limits) and `nr` seeded random tuples.
fn operands(op: &str, ty: &str, to: &str, nb: usize, nr: usize, rng: &mut Rng) -> Vec<Vec<(String, BigInt)>> {
    let bt = boundary(ty);
    let t = |v: &BigInt| (ty.to_string(), v.clone());
    let mut out: Vec<Vec<(String, BigInt)>> = vec![];
    let sample = |mut all: Vec<Vec<(String, BigInt)>>, n: usize, rng: &mut Rng| {
        // seeded partial Fisher-Yates
        let k = n.min(all.len());
        for i in 0..k {
            let j = i + rng.below((all.len() - i) as u64) as usize;
            all.swap(i, j);
        }
        all.truncate(k);
        all
    };
    match arity(op) {
        1 => {
            let mut vals: BTreeSet<BigInt> = bt.iter().cloned().collect();
            if !to.is_empty() {
                // the target's limits seen from the source type
                let (tl, th) = if to == "felt252" { (BigInt::zero(), prime() - 1) } else { (lo(to), hi(to)) };
                for d in -2..=2 {
                    for b in [&tl, &th] {
                        let v = b + d;
                        if ty == "felt252" {
                            vals.insert(centre(&v));
                        } else if in_range(ty, &v) {
                            vals.insert(v);
                        }
                    }
                }
            }
            if op == "sqrt" {
                for _ in 0..nr {
                    let r = isqrt(&random_value(ty, rng).abs());
                    for d in -1..=1 {
                        let v = &r * &r + d;
                        if in_range(ty, &v) {
                            vals.insert(v);
                        }
                    }
                }
            }
            if op == "sqrt" {
                // the remainder r = x - s^2 ranges over [0, 2s]; the checks of a root split that range at limb
                // boundaries: take r in {0, 2s} and 2s - r around 2^(n/2) (and around half of it) for extreme and random roots
                let hbits = bits(ty) / 2;
                let mut roots: Vec<BigInt> = vec![pow2(hbits - 1), pow2(hbits - 1) + 5, pow2(hbits) - 1, pow2(hbits) - 2, pow2(hbits - 1) - 1];
                for _ in 0..nr.min(8) {
                    roots.push(pow2(hbits - 1) + random_value(ty, rng).abs() % pow2(hbits - 1));
                }
                for sroot in roots {
                    let two_s: BigInt = &sroot * 2;
                    for lim in [pow2(hbits), pow2(hbits - 1), pow2(hbits / 2)] {
                        for d in -1..=1 {
                            let r: BigInt = &two_s - &lim + d;
                            if !r.is_negative() && r <= two_s {
                                let v = &sroot * &sroot + r;
                                if in_range(ty, &v) {
                                    vals.insert(v);
                                }
                            }
                        }
                    }
                    for r in [BigInt::zero(), two_s.clone()] {
                        let v = &sroot * &sroot + r;
                        if in_range(ty, &v) {
                            vals.insert(v);
                        }
                    }
                }
            }
            // unary operations: the boundary set is small, every value is used
            let all: Vec<Vec<(String, BigInt)>> = vals.iter().map(|v| vec![t(v)]).collect();
            let _ = nb;
            out.extend(all);
            for _ in 0..nr {
                out.push(vec![t(&random_value(ty, rng))]);
            }
        }
        2 if op == "pow" => {
            let exps: Vec<u32> =
                if ty == "felt252" { (0..7).collect() } else { vec![0, 1, 2, 3, 4, 5, 7, 8, 15, 16, 31, 32, 63, 64, 127, 128, 255, 256] };
            let mut all = vec![];
            for x in &bt {
                for e in &exps {
                    all.push(vec![t(x), ("u32".to_string(), BigInt::from(*e))]);
                }
            }
            // exact roots of the limits: x^e just fits / just overflows
            if ty != "felt252" {
                for e in [2u32, 3, 5, 7, 9, 13] {
                    let r = hi(ty).nth_root(e);
                    for d in 0..=1 {
                        all.push(vec![t(&(&r + d)), ("u32".to_string(), BigInt::from(e))]);
                        if signed(ty) {
                            let nr_: BigInt = -(&r + BigInt::from(d)); all.push(vec![t(&nr_), ("u32".to_string(), BigInt::from(e))]);
                        }
                    }
                }
            }
            out.extend(sample(all, nb, rng));
            for _ in 0..nr {
                let e = if ty == "felt252" { rng.below(7) } else { rng.below(12) };
                out.push(vec![t(&random_value(ty, rng)), ("u32".to_string(), BigInt::from(e))]);
            }
        }
        2 if op == "div512" => {
            let b512 = boundary("u256");
            let mut all = vec![];
            for d in &bt {
                for q in [&b512[0], &b512[b512.len() - 1], &b512[b512.len() / 2]] {
                    for r in [BigInt::zero(), d - 1, BigInt::one()] {
                        let x = q * d + if r.is_negative() { BigInt::zero() } else { r.clone() };
                        if x < pow2(512) && !x.is_negative() {
                            all.push(vec![("u512".to_string(), x), t(d)]);
                        }
                    }
                }
                all.push(vec![("u512".to_string(), pow2(512) - 1), t(d)]);
            }
            out.extend(sample(all, nb, rng));
            for _ in 0..nr {
                let x = random_value("u256", rng) * random_value("u256", rng) + random_value("u256", rng);
                out.push(vec![("u512".to_string(), x % pow2(512)), t(&random_value(ty, rng))]);
            }
        }
        2 => {
            let mut all: Vec<Vec<(String, BigInt)>> = vec![];
            for x in &bt {
                for y in &bt {
                    all.push(vec![t(x), t(y)]);
                }
            }
            out.extend(sample(all, nb, rng));
            // structured edges: products and quotients next to the limits
            let mut edges = vec![];
            if ty != "felt252" {
                for _ in 0..(nr / 2 + 2) {
                    let d = random_value(ty, rng);
                    if d.is_zero() {
                        continue;
                    }
                    for lim in [hi(ty), lo(ty)] {
                        let q = &lim / &d;
                        for e in -1..=1 {
                            edges.push((&q + e, d.clone()));
                            edges.push((d.clone(), &q + e));
                        }
                        // dividend = k*d + {0, |d|-1, -1}
                        let k = random_value(ty, rng) / &d;
                        for r in [BigInt::zero(), d.abs() - 1, BigInt::from(-1)] {
                            edges.push((&k * &d + r, d.clone()));
                        }
                    }
                    let v = random_value(ty, rng);
                    edges.push((v.clone(), v.clone()));
                    edges.push((v.clone(), &v + 1));
                    edges.push((v.clone(), -&v));
                    edges.push((v.clone(), hi(ty) - &v));
                    edges.push((v.clone(), hi(ty) - &v + 1));
                    edges.push((v.clone(), lo(ty) - &v));
                    edges.push((v.clone(), lo(ty) - &v - 1));
                }
            }
            let edges = clamp_pairs(ty, edges);
            let edges: Vec<Vec<(String, BigInt)>> = edges.iter().map(|(a, b)| vec![t(a), t(b)]).collect();
            out.extend(sample(edges, nr, rng));
            for _ in 0..nr {
                out.push(vec![t(&random_value(ty, rng)), t(&random_value(ty, rng))]);
            }
        }
        3 => {
            let mut all = vec![];
            for x in &bt {
                for n in &bt {
                    all.push(vec![t(x), t(&random_value(ty, rng)), t(n)]);
                    all.push(vec![t(&random_value(ty, rng)), t(x), t(n)]);
                }
            }
            out.extend(sample(all, nb, rng));
            for _ in 0..nr {
                let n = random_value(ty, rng);
                out.push(vec![t(&random_value(ty, rng)), t(&random_value(ty, rng)), t(&n)]);
                // operands sharing a factor with the modulus
                let g = BigInt::from(2 + rng.below(1000));
                let n2 = (&n / &g) * &g;
                out.push(vec![t(&random_value(ty, rng)), t(&((random_value(ty, rng) / &g) * &g)), t(&n2)]);
            }
        }
        _ => unreachable!(),
    }
    if op == "inv_mod" {
        // (x, n): reuse the binary generator's shape, add operands sharing a factor with n
        let mut extra = vec![];
        for _ in 0..nr {
            let g = BigInt::from(2 + rng.below(1000));
            let n = (random_value(ty, rng) / &g) * &g;
            extra.push(vec![t(&((random_value(ty, rng) / &g) * &g)), t(&n)]);
        }
        out.extend(extra);
    }
    out
}

fn cells_json(ty: &str, v: &BigInt) -> Value {
    Value::Array(flat(ty, v).iter().map(z_json).collect())
}

/// Extended Euclid: (g, s) with s*a = g (mod n).
fn egcd_inv(a: &BigInt, n: &BigInt) -> (BigInt, BigInt) {
    let (mut r0, mut r1) = (n.clone(), a.mod_floor(n));
    let (mut s0, mut s1) = (BigInt::zero(), BigInt::one());
    while !r1.is_zero() {
        let q = &r0 / &r1;
        let r2 = &r0 - &q * &r1;
        let s2 = &s0 - &q * &s1;
        r0 = r1;
        r1 = r2;
        s0 = s1;
        s1 = s2;
    }
    (r0, s0.mod_floor(n))
}

/// Witnesses for the relational acceptors, derived from the OBSERVED result.
fn witnesses(op: &str, ty: &str, args: &[BigInt], out: &Outcome) -> Vec<BigInt> {
    let Outcome::Ok(r) = out else { return vec![] };
    let p = prime();
    match op {
        "rem" if !args[1].is_zero() => vec![&args[0] / &args[1]], // BigInt `/` truncates
        "mul" if ty == "felt252" => vec![(&args[0] * &args[1] - &r[0]).div_floor(&p)],
        "fdiv" if r[0].is_one() => vec![(&r[1] * &args[1] - &args[0]).div_floor(&p)],
        "mul_mod_n" if r[0].is_one() => {
            let v = compose("u256", &r[1..3]);
            vec![(&args[0] * &args[1] - v).div_floor(&args[2])]
        }
        "inv_mod" | "div_mod_n" => {
            let (b, n) = if op == "inv_mod" { (&args[0], &args[1]) } else { (&args[1], &args[2]) };
            if n.is_zero() {
                return vec![];
            }
            if r[0].is_one() {
                let v = compose("u256", &r[1..3]);
                if op == "inv_mod" {
                    vec![(&v * b - BigInt::one()).div_floor(n)]
                } else {
                    let (_, inv) = egcd_inv(b, n);
                    vec![inv.clone(), (&inv * b - BigInt::one()).div_floor(n), (&args[0] * &inv - v).div_floor(n)]
                }
            } else {
                let g = b.gcd(n);
                vec![g.clone(), b / &g, n / &g]
            }
        }
        _ => vec![],
    }
}

fn program_for_wide(op: &str, ty: &str, to: &str) -> String {
    format!("{PRELUDE}{}", render_fn(op, ty, to).1)
}

/// Runs one call and records it as an IntOpsTrace event (without id).
fn record_event(runner: &cairo_lang_runner::SierraCasmRunner, op: &str, ty: &str, to: &str, tup: &[(String, BigInt)]) -> Value {
    let name = fn_name(op, ty, to);
    let vals: Vec<BigInt> = tup.iter().map(|(_, v)| v.clone()).collect();
    let mut felts: Vec<BigInt> = vec![];
    for (t, v) in tup {
        felts.extend(flat(t, v));
    }
    let out = run_fn(runner, &name, &felts);
    let outj = match &out {
        Outcome::Ok(r) => json!({"t": "ok", "r": r.iter().map(z_json).collect::<Vec<_>>()}),
        Outcome::Panic(d) => {
            let (c, msg) = panic_class(d);
            json!({"t": "panic", "c": c, "msg": msg})
        }
        Outcome::VmError(e) => json!({"t": "vmerror", "msg": e.chars().take(300).collect::<String>()}),
        Outcome::Error(e) => json!({"t": "error", "msg": e}),
    };
    let w = witnesses(op, ty, &vals, &out);
    let g = |i: usize| -> (Value, Value) {
        match tup.get(i) {
            Some((t, v)) => (cells_json(t, v), json!(t)),
            None => (json!([]), json!("")),
        }
    };
    let ((x, xt), (y, yt), (z, zt)) = (g(0), g(1), g(2));
    json!({"op": op, "ty": ty, "to": to, "x": x, "xt": xt, "y": y, "yt": yt, "z": z, "zt": zt,
        "out": outj, "w": w.iter().map(z_json).collect::<Vec<_>>(),
        "args": vals.iter().map(|v| v.to_string()).collect::<Vec<_>>()})
}

/// single <cases.json: [{op, ty, to, args:[decimal strings]}...]> <events.ndjson> <scratch>: records the given
/// calls as events (used to re-examine table mismatches and for --replay).
fn single(cases_path: &str, events_path: &str, scratch: &str) {
    let cases: Vec<Value> = serde_json::from_str(&std::fs::read_to_string(cases_path).unwrap()).unwrap();
    let mut keys: BTreeSet<FnKey> = BTreeSet::new();
    for c in &cases {
        keys.insert((c["op"].as_str().unwrap().into(), c["ty"].as_str().unwrap().into(), c["to"].as_str().unwrap().into()));
    }
    let runners = compile_keys(&keys.iter().cloned().collect::<Vec<_>>(), scratch, "c06s", false);
    let mut w = NdjsonWriter::create(events_path);
    for (i, c) in cases.iter().enumerate() {
        let (op, ty, to) = (c["op"].as_str().unwrap(), c["ty"].as_str().unwrap(), c["to"].as_str().unwrap());
        let tys = arg_types(op, ty);
        let tup: Vec<(String, BigInt)> = c["args"]
            .as_array()
            .unwrap()
            .iter()
            .enumerate()
            .map(|(j, v)| (tys[j].clone(), match v.as_str() { Some(s) => parse_int(s), None => BigInt::from(v.as_i64().unwrap()) }))
            .collect();
        let mut e = record_event(&runners[&(op.to_string(), ty.to_string(), to.to_string())], op, ty, to, &tup);
        e["id"] = json!(i as u64 + 1);
        w.write(&e);
    }
    w.finish();
}

fn wide(plan_path: &str, events_path: &str, scratch: &str) {
    let plan: Value = serde_json::from_str(&std::fs::read_to_string(plan_path).unwrap()).unwrap();
    let nb = plan["boundary_per_op"].as_u64().unwrap() as usize;
    let nr = plan["random_per_op"].as_u64().unwrap() as usize;
    let nb_conv = plan["boundary_per_conv"].as_u64().unwrap_or(nb as u64) as usize;
    let nr_conv = plan["random_per_conv"].as_u64().unwrap_or(nr as u64) as usize;
    let types: Vec<String> = match plan["types"].as_array() {
        Some(a) => a.iter().map(|v| v.as_str().unwrap().to_string()).collect(),
        None => WIDE_TYPES.iter().map(|s| s.to_string()).collect(),
    };
    let seed = plan["seed"].as_u64().unwrap_or_else(seed_from_env);
    let mut keys: Vec<FnKey> = vec![];
    for ty in &types {
        for (op, to) in wide_ops(ty) {
            keys.push((op, ty.clone(), to));
        }
    }
    let t0 = std::time::Instant::now();
    let runners = compile_keys(&keys, scratch, "c06w", false);
    let compile_s = t0.elapsed().as_secs_f64();
    let results: Vec<Vec<Value>> = keys
        .par_iter()
        .enumerate()
        .map(|(ki, (op, ty, to))| {
            let runner = &runners[&(op.clone(), ty.clone(), to.clone())];
            // per-operation generator stream: independent of scheduling
            let mut rng = Rng::new(seed ^ (ki as u64 + 1).wrapping_mul(0x9E37_79B9_7F4A_7C15));
            let conv = !to.is_empty();
            let tuples = operands(op, ty, to, if conv { nb_conv } else { nb }, if conv { nr_conv } else { nr }, &mut rng);
            let mut seen = BTreeSet::new();
            let mut evs = vec![];
            for tup in tuples {
                if !seen.insert(tup.clone()) {
                    continue;
                }
                evs.push(record_event(runner, op, ty, to, &tup));
            }
            evs
        })
        .collect();
    let mut w = NdjsonWriter::create(events_path);
    let mut id = 0u64;
    let mut panics = 0u64;
    let mut errors = 0u64;
    for evs in results {
        for mut e in evs {
            id += 1;
            e["id"] = json!(id);
            if e["out"]["t"] == "panic" {
                panics += 1;
            }
            if e["out"]["t"] == "error" {
                errors += 1;
            }
            w.write(&e);
        }
    }
    w.finish();
    println!(
        "{}",
        json!({"summary": {"events": id, "functions": keys.len(), "panics": panics, "runner_errors": errors,
            "compile_s": compile_s, "wall_s": t0.elapsed().as_secs_f64()}})
    );
}

// ---- independent big-integer model (used only to confirm / refute a TLC verdict) ----

fn wrap(ty: &str, v: &BigInt) -> BigInt {
    let m = pow2(bits(ty));
    let u = v.mod_floor(&m);
    if signed(ty) && u >= pow2(bits(ty) - 1) { u - m } else { u }
}
enum Exp {
    Ok(Vec<BigInt>),
    Panic(&'static str),
    Na,
}
fn fit(ty: &str, e: &BigInt, directional: bool) -> Exp {
    if in_range(ty, e) {
        Exp::Ok(flat(ty, e))
    } else if directional && signed(ty) {
        Exp::Panic(if *e > hi(ty) { "ovf" } else { "unf" })
    } else {
        Exp::Panic("range")
    }
}
fn b2i(b: bool) -> BigInt {
    if b { BigInt::one() } else { BigInt::zero() }
}
fn big_math(op: &str, ty: &str, to: &str, a: &[BigInt]) -> Exp {
    let p = prime();
    let x = &a[0];
    let zero = BigInt::zero();
    let y = a.get(1).unwrap_or(&zero);
    let n = cells(ty);
    if ty == "felt252" {
        return match op {
            "add" => Exp::Ok(vec![centre(&(x + y))]),
            "sub" => Exp::Ok(vec![centre(&(x - y))]),
            "mul" => Exp::Ok(vec![centre(&(x * y))]),
            "neg" => Exp::Ok(vec![centre(&-x)]),
            "eq" => Exp::Ok(vec![b2i(canon(x) == canon(y))]),
            "ne" => Exp::Ok(vec![b2i(canon(x) != canon(y))]),
            "pow" => Exp::Ok(vec![centre(&canon(x).modpow(y, &p))]),
            "fdiv" => {
                if canon(y).is_zero() {
                    Exp::Ok(vec![zero.clone(), zero.clone()])
                } else {
                    let inv = canon(y).modpow(&(&p - 2), &p);
                    Exp::Ok(vec![BigInt::one(), centre(&(x * inv))])
                }
            }
            "into" | "try_into" => conv(op, ty, to, x),
            _ => Exp::Na,
        };
    }
    let exact = |o: &str| match o {
        o if o.ends_with("add") => x + y,
        o if o.ends_with("sub") => x - y,
        _ => x * y,
    };
    let min_ovf = signed(ty) && *x == lo(ty) && *y == BigInt::from(-1);
    match op {
        "add" | "sub" => fit(ty, &exact(op), true),
        "mul" => fit(ty, &exact(op), false),
        "div" | "rem" => {
            if y.is_zero() {
                Exp::Panic("div0")
            } else if min_ovf {
                Exp::Panic("ovf")
            } else {
                let (q, r) = x.div_rem(y);
                Exp::Ok(flat(ty, if op == "div" { &q } else { &r }))
            }
        }
        "divrem" => {
            if y.is_zero() {
                Exp::Ok(vec![zero.clone(); 1 + 2 * n])
            } else if min_ovf {
                Exp::Panic("ovf")
            } else {
                let (q, r) = x.div_rem(y);
                let mut v = vec![BigInt::one()];
                v.extend(flat(ty, &q));
                v.extend(flat(ty, &r));
                Exp::Ok(v)
            }
        }
        "overflowing_add" | "overflowing_sub" | "overflowing_mul" => {
            let e = exact(op);
            let mut v = flat(ty, &wrap(ty, &e));
            v.push(b2i(!in_range(ty, &e)));
            Exp::Ok(v)
        }
        "wrapping_add" | "wrapping_sub" | "wrapping_mul" => Exp::Ok(flat(ty, &wrap(ty, &exact(op)))),
        "checked_add" | "checked_sub" | "checked_mul" => {
            let e = exact(op);
            if in_range(ty, &e) {
                let mut v = vec![BigInt::one()];
                v.extend(flat(ty, &e));
                Exp::Ok(v)
            } else {
                Exp::Ok(vec![zero.clone(); 1 + n])
            }
        }
        "saturating_add" | "saturating_sub" | "saturating_mul" => {
            let e = exact(op);
            Exp::Ok(flat(ty, &if e > hi(ty) { hi(ty) } else if e < lo(ty) { lo(ty) } else { e }))
        }
        "wide_mul" => Exp::Ok(flat(wider(ty), &(x * y))),
        "wide_square" => Exp::Ok(flat(wider(ty), &(x * x))),
        "eq" => Exp::Ok(vec![b2i(x == y)]),
        "ne" => Exp::Ok(vec![b2i(x != y)]),
        "lt" => Exp::Ok(vec![b2i(x < y)]),
        "le" => Exp::Ok(vec![b2i(x <= y)]),
        "gt" => Exp::Ok(vec![b2i(x > y)]),
        "ge" => Exp::Ok(vec![b2i(x >= y)]),
        "and" => Exp::Ok(flat(ty, &(x & y))),
        "or" => Exp::Ok(flat(ty, &(x | y))),
        "xor" => Exp::Ok(flat(ty, &(x ^ y))),
        "not" => Exp::Ok(flat(ty, &(hi(ty) - x))),
        "neg" => fit(ty, &-x, false),
        "sqrt" => Exp::Ok(vec![x.sqrt()]),
        "pow" => {
            let e = y.to_u32().unwrap();
            // x^e can be astronomically large: stop as soon as it leaves the range
            let mut acc = BigInt::one();
            for _ in 0..e {
                acc *= x;
                if !in_range(ty, &acc) {
                    break;
                }
            }
            fit(ty, &acc, false)
        }
        "into" | "try_into" => conv(op, ty, to, x),
        "div512" => {
            if y.is_zero() {
                Exp::Ok(vec![zero.clone(); 7])
            } else {
                let (q, r) = x.div_rem(y);
                let mut v = vec![BigInt::one()];
                v.extend(flat("u512", &q));
                v.extend(flat("u256", &r));
                Exp::Ok(v)
            }
        }
        "mul_mod_n" => {
            let m = &a[2];
            if m.is_zero() {
                Exp::Ok(vec![zero.clone(); 3])
            } else {
                let mut v = vec![BigInt::one()];
                v.extend(flat("u256", &(x * y).mod_floor(m)));
                Exp::Ok(v)
            }
        }
        "inv_mod" | "div_mod_n" => {
            let (b, m) = if op == "inv_mod" { (x, y) } else { (y, &a[2]) };
            if m.is_zero() {
                return Exp::Ok(vec![zero.clone(); 3]);
            }
            let (g, inv) = egcd_inv(b, m);
            if m.is_one() || !g.is_one() {
                Exp::Ok(vec![BigInt::from(2), zero.clone(), zero.clone()])
            } else {
                let r = if op == "inv_mod" { inv } else { (x * inv).mod_floor(m) };
                let mut v = vec![BigInt::one()];
                v.extend(flat("u256", &r));
                Exp::Ok(v)
            }
        }
        _ => Exp::Na,
    }
}
fn conv(op: &str, s: &str, u: &str, x: &BigInt) -> Exp {
    let p = prime();
    let c = if s == "felt252" { canon(x) } else { x.clone() };
    let (fits, v) = if u == "felt252" {
        (signed(s) || (c >= BigInt::zero() && c < p), centre(&c))
    } else if s == "felt252" && signed(u) {
        if in_range(u, &c) {
            (true, c)
        } else {
            let d = &c - &p;
            (in_range(u, &d), d)
        }
    } else {
        (in_range(u, &c), c)
    };
    if op == "into" {
        if fits { Exp::Ok(flat(u, &v)) } else { Exp::Na }
    } else if fits {
        let mut r = vec![BigInt::one()];
        r.extend(flat(u, &v));
        Exp::Ok(r)
    } else {
        Exp::Ok(vec![BigInt::zero(); 1 + cells(u)])
    }
}

/// confirm <events> <ids.json: [id...] | "all"> <out>: for each listed event, does the recorded
/// outcome agree with the independent num-bigint model?
fn confirm(events_path: &str, ids_path: &str, out_path: &str) {
    let ids: Value = serde_json::from_str(&std::fs::read_to_string(ids_path).unwrap()).unwrap();
    let all = ids == "all";
    let idset: BTreeSet<u64> = if all { BTreeSet::new() } else { ids.as_array().unwrap().iter().map(|v| v.as_u64().unwrap()).collect() };
    let mut w = NdjsonWriter::create(out_path);
    for e in read_ndjson(events_path) {
        let id = e["id"].as_u64().unwrap();
        if !all && !idset.contains(&id) {
            continue;
        }
        let args: Vec<BigInt> = e["args"].as_array().unwrap().iter().map(|v| parse_int(v.as_str().unwrap())).collect();
        let exp = big_math(e["op"].as_str().unwrap(), e["ty"].as_str().unwrap(), e["to"].as_str().unwrap(), &args);
        let o = &e["out"];
        let (agrees, expj) = match &exp {
            Exp::Ok(v) => (
                o["t"] == "ok" && o["r"].as_array().unwrap().iter().map(z_parse).collect::<Vec<_>>() == *v,
                json!({"t": "ok", "r": v.iter().map(|x| x.to_string()).collect::<Vec<_>>()}),
            ),
            Exp::Panic(c) => {
                let got = o["c"].as_str().unwrap_or("");
                (o["t"] == "panic" && (got == *c || (*c == "range" && (got == "ovf" || got == "unf"))), json!({"t": "panic", "c": c}))
            }
            Exp::Na => (false, json!({"t": "na"})),
        };
        w.write(&json!({"id": id, "bigint_agrees_with_impl": agrees, "bigint_expected": expj}));
    }
    w.finish();
}
